/-
Driver for C02: replays a harness schedule on `Uniflow.Flow` (nodes = `Uniflow.Node` over
`Uniflow.Tracer`, fixed code).

  orderfree                                     (first line) compare the elements of every join as multisets → ok
  node o | node m <nOut> | node j <nIn>        add a one-to-one / one-to-many / many-to-one node   → ok
  link <n> <w> n <m> <port> | link <n> <w> s <k>   link writer w of node n (0 = error port, i+1 = out[i]) → ok
  src <m> <port>                                the source writer feeds in-port <port> of node m     → ok
  send <val>                                    the source writes a request                          → obs
  resend <val>                                  the source writes the SAME packet object again       → obs
  rel <n> o <val> | i | e <val> | m <val|->* | d | s <k>   the action running in node n returns      → obs
                                                (s k: one-to-many, the in packet itself on outputs 0..k-1)
  ans <k> N | same | <val>                      sink k answers its oldest request                    → obs
  end                                           → Q<all tracers empty & threads idle> P<panic>
                                                  F<reference answers of all requests, "," separated> (F- while one is undetermined)
                                                  M<1 iff the model's responses equal the reference answers (when determined)>

  val ::= n | a<k> | e<k>          obs ::= sorted E<n>:<val>+<val>… K<k>:<val> then R<ans> in order, or "-",
                                          then S<1 iff every response received so far equals the reference
                                          answer (join over the derivation tree) of its request>
-/
import Uniflow.Driver.Core
import Uniflow.Model.Flow

namespace Uniflow.Driver.C02
open Uniflow.Tracer Uniflow.Node Uniflow.Flow

def sortIf (srt : Bool) (l : List String) : List String :=
  if srt then (l.toArray.qsort (· < ·)).toList else l

/- `srt` (case declared `orderfree`): the elements of every join are printed sorted, i.e. compared as
multisets – see the harness for why -/
mutual
def showVal (srt : Bool) : Val → String
  | .nil => "n"
  | .atom k => s!"a{k}"
  | .err ms => "e" ++ ".".intercalate (sortIf srt (ms.map toString))
  | .slice vs => "[" ++ ",".intercalate (sortIf srt (showVals srt vs)) ++ "]"
def showVals (srt : Bool) : List Val → List String
  | [] => []
  | v :: vs => showVal srt v :: showVals srt vs
end

def showAns (srt : Bool) : Ans → String
  | .empty => "N"
  | .pay v => showVal srt v

def parseVal (s : String) : Option Val :=
  if s = "n" then some .nil
  else if s.startsWith "a" then (s.drop 1).toNat?.map Val.atom
  else if s.startsWith "e" then (s.drop 1).toNat?.map (fun k => Val.err [k])
  else none

def parseOptVal (s : String) : Option (Option Val) :=
  if s = "-" then some none else (parseVal s).map some

def parseMixVal (s : String) : Option (Option (Option Val)) :=
  if s = "-" then some none else if s = "=" then some (some none) else (parseVal s).map (fun v => some (some v))

def obs (srt : Bool) (g : G) : String :=
  let es := g.entered.map (fun e => s!"E{e.1}:" ++ "+".intercalate (e.2.map (showVal srt)))
  let ks := g.arrived.map (fun e => s!"K{e.1}:" ++ showVal srt e.2)
  let sorted := ((es ++ ks).toArray.qsort (· < ·)).toList
  let rs := g.srcOut.map (fun a => "R" ++ showAns srt a)
  let safe := if respOK (showAns srt) g then "S1" else "S0"
  match sorted ++ rs with
  | [] => "- " ++ safe
  | xs => joinSp xs ++ " " ++ safe

def step (srt : Bool) (g : G) : List String → G × String
  | ["node", "o"] => ({ g with nodes := g.nodes ++ [Node.mk .oneToOne] }, "ok")
  | ["node", "m", k] =>
    match k.toNat? with
    | some k => ({ g with nodes := g.nodes ++ [Node.mk (.oneToMany k)] }, "ok")
    | none => (g, "bad-op")
  | ["node", "j", k] =>
    match k.toNat? with
    | some k => ({ g with nodes := g.nodes ++ [Node.mk (.manyToOne k)] }, "ok")
    | none => (g, "bad-op")
  | ["link", n, w, "n", m, port] =>
    match n.toNat?, w.toNat?, m.toNat?, port.toNat? with
    | some n, some w, some m, some port =>
      if n < g.nodes.length ∧ m < g.nodes.length ∧ w < maxW then
        ({ g with links := aset g.links (wkey n w) (getL g.links (wkey n w) ++ [.node m port]) }, "ok")
      else (g, "bad-op")
    | _, _, _, _ => (g, "bad-op")
  | ["link", n, w, "s", k] =>
    match n.toNat?, w.toNat?, k.toNat? with
    | some n, some w, some k =>
      if n < g.nodes.length ∧ w < maxW then
        ({ g with links := aset g.links (wkey n w) (getL g.links (wkey n w) ++ [.sink k]) }, "ok")
      else (g, "bad-op")
    | _, _, _ => (g, "bad-op")
  | ["src", m, port] =>
    match m.toNat?, port.toNat? with
    | some m, some port =>
      if m < g.nodes.length then ({ g with links := aset g.links srcKey [.node m port] }, "ok") else (g, "bad-op")
    | _, _ => (g, "bad-op")
  | ["send", v] =>
    match parseVal v with
    | some v => let g := send g v; (g, obs srt g)
    | none => (g, "bad-op")
  | ["resend", v] =>
    -- the client writes the packet object of the previous `send` again: `Writer.Write` copies, so this
    -- is one more independent request with the same payload
    match parseVal v with
    | some v => let g := send g v; (g, obs srt g)
    | none => (g, "bad-op")
  | "rel" :: n :: rest =>
    let r : Option Rel := match rest with
      | ["o", v] => (parseVal v).map Rel.out
      | ["i"] => some .same
      | ["e", v] => (parseVal v).map Rel.err
      | ["d"] => some .drop
      | ["s", k] => k.toNat?.map Rel.sames
      | "m" :: vs =>
        -- `=`: the in packet itself on that out port
        if vs.contains "=" then (vs.mapM parseMixVal).map Rel.mixed else (vs.mapM parseOptVal).map Rel.many
      | _ => none
    match n.toNat?, r with
    | some n, some r =>
      match release g n r with
      | some g => (g, obs srt g)
      | none => (g, "bad-op")
    | _, _ => (g, "bad-op")
  | ["ans", k, a] =>
    let a : Option (Option Ans) :=
      if a = "N" then some (some .empty)
      else if a = "same" then some none
      else (parseVal a).map (fun v => some (Ans.pay v))
    match k.toNat?, a with
    | some k, some a =>
      match sinkAnswer g k a with
      | some g => (g, obs srt g)
      | none => (g, "bad-op")
    | _, _ => (g, "bad-op")
  | ["end"] =>
    let (f, m) := match refAnswers g with
      | some as =>
        ("F" ++ ",".intercalate (as.map (showAns srt)),
         if as.map (showAns srt) == g.resp.map (showAns srt) then "M1" else "M0")
      | none => ("F-", "M1")
    (g, s!"Q{if quiescentEmpty g then 1 else 0} P{if anyPanic g then 1 else 0} {f} {m}")
  | _ => (g, "bad-op")

def step2 (s : G × Bool) (l : List String) : (G × Bool) × String :=
  match l with
  | ["orderfree"] => ((s.1, true), "ok")
  -- `ports n i…`: the order in which the harness first asks node n for its indexed ports. The model's
  -- nodes have all their ports (and every port's listener) from the start – which is what the real
  -- `Out`/`In` must amount to in whatever order they are called – so the line changes nothing here.
  | "ports" :: _ :: _ :: _ => (s, "ok")
  | _ => let (g, out) := step s.2 s.1 l; ((g, s.2), out)

def handler : Handler := { σ := G × Bool, init := ({}, false), step := step2 }

end Uniflow.Driver.C02
