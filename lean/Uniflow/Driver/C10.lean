/-
Driver for C10 / C11 / C12: one store (`Uniflow.Index.State`) driven by the operations of the properties.
Values are in the wire format of Model/Value.lean; `<f>` is a filter: `n` (nil) or a map.

  ins <k> <doc>*k                         Insert(docs)                 → ok | err <class> | panic
  upd <0|1> <f> <update>                  Update(filter, update, {Upsert})   → n <count> | err <class> | panic
  del <f>                                 Delete(filter)               → n <count> | err <class> | panic
  find <mode> <skip> <limit> <sort> <f>   Find; <sort> = `n` or a map {field: order}
        mode seq : the documents in the order returned            → docs <n> d | d | …
        mode cls : sorted find, compared as tie classes: runs of documents that tie on the sort, each run in id
                   order                                          → cls <n> d | d || d | …
        mode keys: sorted find cut by skip/limit (which members of a cut tie class are returned is unspecified):
                   the sort keys of the returned documents        → keys <n> k | k | …
  idx <0|1> <k> <key>*k <f>               Index(keys, {Unique, Filter})  → ok | err <class> | panic
  unidx <k> <key>*k                       Unindex(keys)                  → ok

Anything else, and any document / update / sort that is not a map, is `bad-op`.
-/
import Uniflow.Driver.Core
import Uniflow.Model.Index

namespace Uniflow.Driver.C10
open Uniflow.Value Uniflow.Store Uniflow.Plan Uniflow.Index

def parseN : Nat → List String → Option (List Val × List String)
  | 0, r => some ([], r)
  | n + 1, r =>
    match parseVal r with
    | some (v, r') => (parseN n r').map fun (vs, r'') => (v :: vs, r'')
    | none => none

def asMap : Val → Option PList
  | .map ps => some ps
  | _ => none

/-- `n` = nil filter, a map = filter; anything else is rejected -/
def asFilter : Val → Option (Option Val)
  | .nil => some none
  | .map ps => some (some (.map ps))
  | _ => none

def asSort : Val → Option (Option PList)
  | .nil => some none
  | .map ps => some (some ps)
  | _ => none

def showDoc (d : PList) : String := joinSp (printVal (.map d))

def showOut : Out → String
  | .done => "ok"
  | .count n => s!"n {n}"
  | .docs ds => s!"docs {ds.length} " ++ " | ".intercalate (ds.map showDoc)
  | .err e => "err " ++ e.name
  | .panic => "panic"

/-- the two documents hold `Compare`-equal values under every sort field (whatever the directions) -/
def keyTie (spec : PList) (d e : PList) : Bool :=
  spec.toList.all fun p => cmp (mget d p.1) (mget e p.1) = 0

/-- runs of consecutive documents with equal sort keys (the harness groups the implementation's answer the same way;
with a direction that decodes to 0 the runs are those of the scan order) -/
def classes (spec : PList) : List PList → List (List PList)
  | [] => []
  | d :: ds =>
    match classes spec ds with
    | (e :: c) :: cs => if keyTie spec d e then (d :: e :: c) :: cs else [d] :: (e :: c) :: cs
    | cs => [d] :: cs

def insById (d : PList) : List PList → List PList
  | [] => [d]
  | e :: es => if cmp (mget d keyId) (mget e keyId) < 0 then d :: e :: es else e :: insById d es

def byId (ds : List PList) : List PList := ds.foldr insById []

def sortKey (spec : PList) (d : PList) : String :=
  " ".intercalate (spec.toList.map fun (f, _) => joinSp (printVal (mget d f)))

def showFind (mode : String) (sort : Option PList) (ds : List PList) : String :=
  match mode, sort with
  | "seq", _ => showOut (.docs ds)
  | "cls", some spec =>
    s!"cls {ds.length} " ++ " || ".intercalate ((classes spec ds).map fun c => " | ".intercalate ((byId c).map showDoc))
  | "keys", some spec => s!"keys {ds.length} " ++ " | ".intercalate (ds.map (sortKey spec))
  | _, _ => "bad-op"

def step (st : State) : List String → State × String
  | "ins" :: k :: r =>
    match k.toNat? with
    | some k =>
      match parseN k r with
      | some (vs, []) =>
        match vs.mapM asMap with
        | some ds => let (st', o) := Index.step st (.insert ds); (st', showOut o)
        | none => (st, "bad-op")
      | _ => (st, "bad-op")
    | none => (st, "bad-op")
  | "upd" :: up :: r =>
    match parseN 2 r with
    | some ([f, u], []) =>
      match asFilter f, asMap u with
      | some f, some u =>
        if up = "0" || up = "1" then
          let (st', o) := Index.step st (.update f u (up = "1")); (st', showOut o)
        else (st, "bad-op")
      | _, _ => (st, "bad-op")
    | _ => (st, "bad-op")
  | "del" :: r =>
    match parseVal r with
    | some (f, []) =>
      match asFilter f with
      | some f => let (st', o) := Index.step st (.delete f); (st', showOut o)
      | none => (st, "bad-op")
    | _ => (st, "bad-op")
  | "find" :: mode :: skip :: limit :: r =>
    match skip.toNat?, limit.toNat?, parseN 2 r with
    | some skip, some limit, some ([sort, f], []) =>
      match asSort sort, asFilter f with
      | some sort, some f =>
        match Index.step st (.find f sort skip limit) with
        | (_, .docs ds) => (st, showFind mode sort ds)
        | (_, o) => (st, showOut o)
      | _, _ => (st, "bad-op")
    | _, _, _ => (st, "bad-op")
  | "idx" :: u :: k :: r =>
    match k.toNat? with
    | some k =>
      match parseN k r with
      | some (keys, r') =>
        match parseVal r' with
        | some (f, []) =>
          match asFilter f with
          | some f =>
            if u = "0" || u = "1" then
              let (st', o) := Index.step st (.index keys (u = "1") f); (st', showOut o)
            else (st, "bad-op")
          | none => (st, "bad-op")
        | _ => (st, "bad-op")
      | none => (st, "bad-op")
    | none => (st, "bad-op")
  | "unidx" :: k :: r =>
    match k.toNat? with
    | some k =>
      match parseN k r with
      | some (keys, []) => let (st', o) := Index.step st (.unindex keys); (st', showOut o)
      | _ => (st, "bad-op")
    | none => (st, "bad-op")
  | _ => (st, "bad-op")

def handler : Handler := { σ := State, init := Index.init, step := step }

end Uniflow.Driver.C10
