/-
Driver for C09: `Uniflow.Runtime.step` over the line protocol.

  rt <ns>                                          → ok        (runtime namespace; only on a fresh state)
  watch                                            → ok
  is <id> <ns> <name|-> <kind> <ver> <k> (<key> i|n <ref>)^k   → ok | dup       (insert spec)
  us … same …                                      → ok | nf | bad              (update spec)
  ds <id>                                          → ok | nf
  iv <id> <ns> <name|-> <ver>                      → ok | dup
  uv <id> <ns> <name|-> <ver>                      → ok | nf | bad
  dv <id>                                          → ok | nf
  bis <n> (<0|1> <spec as in is>)^n                → ok | dup | bad   (one Insert of n specs; 0 = refused by the segment: no id / unique index)
  biv <n> (<0|1> <id> <ns> <name|-> <ver>)^n       → ok | dup | bad   (one Insert of n values)
  load all | load ids <k> <i1> … <ik>              → <obs>     (log since the previous observation)
  cs | cv                                          → <obs>     (consume one spec / value event)
  drain                                            → T <table> (consume every pending event)
  close                                            → <obs>     (Runtime.Close: streams forgotten, every symbol freed)

  <obs>   = e<0|1> T <table> L <notes>             e1: Load returned an error
  <table> = symbols in ascending id, `id/kind/name/ver/a|i/U` or `…/B[key:vid:vname:vver,…]` (keys ascending); `-` when empty
  <notes> = `l<id>` / `u<id>`, stably sorted by id; `-` when empty
-/
import Uniflow.Driver.Core
import Uniflow.Model.Runtime

namespace Uniflow.Driver.C09
open Uniflow.Runtime

def insBy {α} (k : α → Nat) (a : α) : List α → List α
  | [] => [a]
  | b :: bs => if k a ≤ k b then a :: b :: bs else b :: insBy k a bs

/-- Stable insertion sort by key. -/
def sortBy {α} (k : α → Nat) (l : List α) : List α := l.foldr (insBy k) []

def showOptNat : Option Nat → String
  | some n => toString n
  | none => "-"

def showBound (b : Bound) : String := s!"{b.key}:{b.vid}:{showOptNat b.vname}:{b.vver}"

def showSym (s : Sym) : String :=
  let b := match s.binding with
    | none => "U"
    | some bs => "B[" ++ ",".intercalate ((sortBy Bound.key bs).map showBound) ++ "]"
  s!"{s.spec.id}/{s.spec.kind}/{showOptNat s.spec.name}/{s.spec.ver}/{if s.active then "a" else "i"}/{b}"

def showTable (t : List Sym) : String :=
  match sortBy (fun s => s.spec.id) (enum t) with
  | [] => "-"
  | l => " ".intercalate (l.map showSym)

def noteId : Note → Nat
  | .load i => i
  | .unload i => i

def showNote : Note → String
  | .load i => s!"l{i}"
  | .unload i => s!"u{i}"

def showLog (l : List Note) : String :=
  match sortBy noteId l with
  | [] => "-"
  | l => " ".intercalate (l.map showNote)

def showObs (err : Bool) (st : St) : String :=
  s!"e{if err then 1 else 0} T {showTable st.table} L {showLog st.log}"

def showOut : Out → String
  | .ok => "ok"
  | .dup => "dup"
  | .notFound => "nf"
  | .bad => "bad"

def parseOptNat (t : String) : Option (Option Nat) :=
  if t = "-" then some none else t.toNat?.map some

def parseEnv : Nat → List String → Option (List EnvEntry)
  | 0, [] => some []
  | n + 1, k :: c :: r :: rest =>
    match k.toNat?, r.toNat?, parseEnv n rest with
    | some k, some r, some es =>
      if c = "i" then some (⟨k, .id r⟩ :: es)
      else if c = "n" then some (⟨k, .name r⟩ :: es)
      else none
    | _, _, _ => none
  | _, _ => none

def parseSpec : List String → Option Spec
  | id :: ns :: name :: kind :: ver :: k :: rest =>
    match id.toNat?, ns.toNat?, parseOptNat name, kind.toNat?, ver.toNat?, k.toNat? with
    | some id, some ns, some name, some kind, some ver, some k =>
      (parseEnv k rest).map fun env => { id, ns, name, kind, env, ver }
    | _, _, _, _, _, _ => none
  | _ => none

def parseVal : List String → Option Value
  | [id, ns, name, ver] =>
    match id.toNat?, ns.toNat?, parseOptNat name, ver.toNat? with
    | some id, some ns, some name, some ver => some { id, ns, name, ver }
    | _, _, _, _ => none
  | _ => none

def parseAcc (t : String) : Option Bool :=
  if t = "1" then some true else if t = "0" then some false else none

/-- `<acc> <spec>` repeated `n` times (a spec's token count follows from its env count). -/
def parseSpecBatch : Nat → List String → Option (List (Spec × Bool))
  | 0, [] => some []
  | n + 1, acc :: id :: ns :: name :: kind :: ver :: k :: rest =>
    match k.toNat? with
    | some kn =>
      match parseAcc acc, parseSpec (id :: ns :: name :: kind :: ver :: k :: rest.take (3 * kn)),
        parseSpecBatch n (rest.drop (3 * kn)) with
      | some a, some s, some l => some ((s, a) :: l)
      | _, _, _ => none
    | none => none
  | _, _ => none

def parseValBatch : Nat → List String → Option (List (Value × Bool))
  | 0, [] => some []
  | n + 1, acc :: id :: ns :: name :: ver :: rest =>
    match parseAcc acc, parseVal [id, ns, name, ver], parseValBatch n rest with
    | some a, some v, some l => some ((v, a) :: l)
    | _, _, _ => none
  | _, _ => none

def parseFilter : List String → Option Filter
  | ["all"] => some .all
  | "ids" :: k :: is =>
    match k.toNat?, is.mapM String.toNat? with
    | some k, some is => if is.length = k then some (.ids is) else none
    | _, _ => none
  | _ => none

def mutate (st : St) (op : Op) : St × String :=
  let (st', o) := step st op
  (st', showOut o)

def stepLine (st : St) (toks : List String) : St × String :=
  match toks with
  | ["rt", n] =>
    match n.toNat? with
    | some n =>
      if st.specs.isEmpty && st.vals.isEmpty && st.table.isEmpty && !st.watching then ({ st with ns := n }, "ok")
      else (st, "bad-op")
    | none => (st, "bad-op")
  | ["watch"] => mutate st .watch
  | "is" :: r => match parseSpec r with
    | some s => mutate st (.insSpec s)
    | none => (st, "bad-op")
  | "us" :: r => match parseSpec r with
    | some s => mutate st (.updSpec s)
    | none => (st, "bad-op")
  | ["ds", i] => match i.toNat? with
    | some i => mutate st (.delSpec i)
    | none => (st, "bad-op")
  | "iv" :: r => match parseVal r with
    | some v => mutate st (.insVal v)
    | none => (st, "bad-op")
  | "uv" :: r => match parseVal r with
    | some v => mutate st (.updVal v)
    | none => (st, "bad-op")
  | ["dv", i] => match i.toNat? with
    | some i => mutate st (.delVal i)
    | none => (st, "bad-op")
  | "load" :: r => match parseFilter r with
    | some f =>
      let st0 := { st with log := [] }
      let st' := (step st0 (.load f)).1
      (st', showObs (loadErr st0 f) st')
    | none => (st, "bad-op")
  | ["cs"] =>
    let st' := (step { st with log := [] } .consumeSpec).1
    (st', showObs false st')
  | ["cv"] =>
    let st' := (step { st with log := [] } .consumeVal).1
    (st', showObs false st')
  | "bis" :: n :: r =>
    match n.toNat? with
    | some n => match parseSpecBatch n r with
      | some l => let (st', o) := insSpecs st l; (st', showOut o)
      | none => (st, "bad-op")
    | none => (st, "bad-op")
  | "biv" :: n :: r =>
    match n.toNat? with
    | some n => match parseValBatch n r with
      | some l => let (st', o) := insVals st l; (st', showOut o)
      | none => (st, "bad-op")
    | none => (st, "bad-op")
  | ["close"] =>
    let st' := closeRt { st with log := [] }
    (st', showObs false st')
  | ["drain"] =>
    let st' := drain (st.specEv.length + st.valEv.length) { st with log := [] }
    (st', s!"T {showTable st'.table}")
  | _ => (st, "bad-op")

def handler : Handler := { σ := St, init := {}, step := stepLine }

end Uniflow.Driver.C09
