/-
Driver for C05 (process-local store): `Uniflow.Local` at yield-point granularity.

  call t store p v | load p | keys n | los p v f | delete p | ash p h | close | exit p | addhook p
        thread t (idle) begins the operation and runs to its first yield point
  run t                 thread t is released from its yield point and runs to the next one
        → y<site> | ret <value> | blocked | bad-op
  inner t <call…>       thread t, parked inside its re-entrant store hook (y8), performs the call inline → ret <value> | blocked
  obs n                 → keys=… eager=k lazy=k hooks=k inits=… log=…   (processes 0..n-1)

Values: `unit`, `v x`, `none` (Load miss / LoadOrStore error), `true`, `false`, `keys p…`.
-/
import Uniflow.Driver.Core
import Uniflow.Model.Local

namespace Uniflow.Driver.C05
open Uniflow.Local

def fuel : Nat := 64

def commaNat (xs : List Nat) : String :=
  if xs.isEmpty then "-" else ",".intercalate (xs.map toString)

def showEv (s : State) (n : Nat) : Ev → String
  | .tau => "unit"
  | .unit => "unit"
  | .val (some x) => s!"v {x}"
  | .val none => "none"
  | .bool b => if b then "true" else "false"
  | .keys => s!"keys {commaNat (keysBelow s n)}"

def showMacro (s : State) (n : Nat) : Macro → String
  | .parked site => s!"y{site}"
  | .ret e => s!"ret {showEv s n e}"
  | .blocked => "blocked"

structure St where
  s : State := init
  nkeys : Tid → Nat := fun _ => 0     -- the `n` of a pending `keys n` call of each thread

def parseCall : List String → Option (Call × Nat)
  | ["store", p, v] => do some (.store (← p.toNat?) (← v.toNat?), 0)
  | ["load", p] => do some (.load (← p.toNat?), 0)
  | ["keys", n] => do some (.keys, ← n.toNat?)
  | ["los", p, v, f] => do
    let f ← f.toNat?
    if f < 2 then some (.loadOrStore (← p.toNat?) (← v.toNat?) (f == 1), 0) else none
  | ["delete", p] => do some (.delete (← p.toNat?), 0)
  | ["ash", p, h] => do some (.addStoreHook (← p.toNat?) (← h.toNat?), 0)
  | ["close"] => some (.close, 0)
  | ["exit", p] => do some (.exit (← p.toNat?), 0)
  | ["addhook", p] => do some (.addExitHook (← p.toNat?), 0)
  | _ => none

def obs (s : State) (n : Nat) : String :=
  let inits := (List.range n).map (fun p => s.inits p)
  let log := s.hookLog.map (fun (h, x) => s!"{h}:{x}")
  s!"keys={commaNat (keysBelow s n)} eager={(keysBelow s n).length} lazy={(lazyBelow s n).length} " ++
  s!"hooks={(shooksBelow s n).length} inits={commaNat inits} log={if log.isEmpty then "-" else ",".intercalate log}"

def stepLine (st : St) : List String → St × String
  | "call" :: t :: rest =>
    match t.toNat?, parseCall rest with
    | some t, some (c, n) =>
      if st.s.thr t = .idle then
        let s1 := apply false st.s (.call t c)
        let (s2, m) := advance false fuel s1 t .tau
        ({ s := s2, nkeys := upd st.nkeys t n }, showMacro s2 n m)
      else (st, "bad-op")
    | _, _ => (st, "bad-op")
  | ["run", t] =>
    match t.toNat? with
    | some t =>
      if st.s.thr t = .idle then (st, "bad-op")
      else
        let (s2, m) := release false fuel st.s t
        ({ st with s := s2 }, showMacro s2 (st.nkeys t) m)
    | none => (st, "bad-op")
  | "inner" :: t :: rest =>
    -- thread t is parked inside its re-entrant store hook (site 8) and performs the call on the same
    -- goroutine: in the model a helper thread runs it to completion while t stays where it is
    match t.toNat?, parseCall rest with
    | some t, some (c, n) =>
      if yieldSite (st.s.thr t) = some 8 ∧ st.s.thr (1000 + t) = .idle then
        match runInner false fuel (apply false st.s (.call (1000 + t) c)) (1000 + t) .tau with
        | some (s2, e) => ({ st with s := s2 }, s!"ret {showEv s2 n e}")
        | none => (st, "blocked")
      else (st, "bad-op")
    | _, _ => (st, "bad-op")
  | ["obs", n] =>
    match n.toNat? with
    | some n => (st, obs st.s n)
    | none => (st, "bad-op")
  | _ => (st, "bad-op")

def handler : Handler := { σ := St, init := {}, step := stepLine }

end Uniflow.Driver.C05
