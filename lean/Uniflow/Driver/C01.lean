/-
Driver for C01: one `Uniflow.Writer.Step` per line, answered with what the step shows.

  link r | unlink r | write v | ans r n | ans r e k | ans r v k | ans r j k1 k2 … (joined error) | pop r <n | e k | v k> | deliver r k |
  closer r | drop r | closew | writeh v r1 r2 …

  output:  <ret>{ d<r>:<v>}{ | <resp>}
    ret  ::= t | f | n<k> | u | skip | panic<k>
    resp ::= N | E<k>,<k>… | v<k> | V<k>,<k>…

`c01` runs the index-addressed model (`Uniflow.Writer.step`), `c01s` the id-keyed
specification (`Uniflow.WriterSpec.step`) on the same lines.
-/
import Uniflow.Driver.Core
import Uniflow.Model.Writer
import Uniflow.Spec.Writer

namespace Uniflow.Driver.C01
open Uniflow.Writer

def parseAns : List String → Option Ans
  | ["n"] => some .none
  | ["e", k] => k.toNat?.map Ans.err
  | ["v", k] => k.toNat?.map Ans.val
  | "j" :: ks => (ks.mapM String.toNat?).map Ans.errs      -- an error whose error is errors.Join of the leaves e<k>…
  | _ => none

def parseStep : List String → Option Step
  | ["link", r] => r.toNat?.map Step.link
  | ["unlink", r] => r.toNat?.map Step.unlink
  | ["write", v] => v.toNat?.map Step.write
  | "ans" :: r :: a =>
    match r.toNat?, parseAns a with
    | some r, some a => some (.answer r a)
    | _, _ => none
  | "pop" :: r :: a =>
    match r.toNat?, parseAns a with
    | some r, some a => some (.pop r a)
    | _, _ => none
  | ["deliver", r, k] =>
    match r.toNat?, k.toNat? with
    | some r, some k => some (.deliver r k)
    | _, _ => none
  | ["closer", r] => r.toNat?.map Step.closeR
  | ["drop", r] => r.toNat?.map Step.deliverDrop
  | ["closew"] => some .closeW
  | _ => none

def showNats (ns : List Nat) : String := ",".intercalate (ns.map toString)

def showResp : Resp → String
  | .none => "N"
  | .err es => "E" ++ showNats es
  | .val v => s!"v{v}"
  | .vals vs => "V" ++ showNats vs

def showRet : Ret → String
  | .ok true => "t"
  | .ok false => "f"
  | .cnt n => s!"n{n}"
  | .unit => "u"
  | .skip => "skip"
  | .panic k => s!"panic{k}"

def showOut (o : Out) : String :=
  showRet o.ret ++ String.join (o.deliv.map fun p => s!" d{p.1}:{p.2}")
    ++ String.join (o.emits.map fun e => " | " ++ showResp e)

/-- `writeh v r1 r2 …`: a `Write` whose outbound hook closes the readers r1 r2 … (none: the hook does nothing).
Answered with `<out> h<hook calls> s<goroutines spawned by the hook's closes>`. -/
def parseX : List String → Option XStep
  | "writeh" :: v :: rs =>
    match v.toNat?, rs.mapM (·.toNat?) with
    | some v, some rs => some (.writeH v rs)
    | _, _ => none
  | toks => (parseStep toks).map XStep.base

def showX : XStep → XOut → String
  | .writeH _ _, o => showOut o.out ++ s!" h{o.shown} s{o.spawned}"
  | .base _, o => showOut o.out

def stepM (m : W) (toks : List String) : W × String :=
  match parseX toks with
  | none => (m, "bad-op")
  | some st => let p := xstep m st; (p.1, showX st p.2)

def stepS (s : Uniflow.WriterSpec.S) (toks : List String) : Uniflow.WriterSpec.S × String :=
  match parseX toks with
  | none => (s, "bad-op")
  | some st => let p := Uniflow.WriterSpec.xstep s st; (p.1, showX st p.2)

def handler : Handler := { σ := W, init := W.init, step := stepM }
def handlerSpec : Handler := { σ := Uniflow.WriterSpec.S, init := Uniflow.WriterSpec.S.init, step := stepS }

end Uniflow.Driver.C01
