/-
Driver for C19.

Agent frames (`Uniflow.Agent`, repaired matching, answers without an open frame skipped – `inboundR` / `outboundR`):
  inb  p sym in out pck      an inbound packet hook of (process p, symbol sym, in, out) ran   → ok
  outb p sym in out pck      an outbound packet hook ran                                       → ok
  exit p                     the agent's exit hook of process p ran                            → ok
  frames p                   `Agent.Frames(p)` in list order:  n | sym in out inPck outPck | …
  nframes p                  number of frames of process p
  col p sym in out           the (InPck, OutPck) column of one port:  n | inPck outPck | …
`in`, `out`, `inPck`, `outPck` are numbers or `-` (nil).

Breakpoint machine (`Uniflow.Breakpoint`); the driver keeps the set of *all* states reachable under every
schedule (calls may be issued before the system is quiescent); observations are those of the quiescent ones:
  bp [k]                     NewDebugger + AddBreakpoint of k (default 1, ≤ 8) new breakpoints    → ok
  hook [b]                   one more packet hook enters OnFrame of breakpoint b (default 0)     → ok
  call <prog> [b]            one more API call (next|done|close|pause|step|remove|dclose) on b   → ok
  expect <observation…>      is this observation (`Breakpoint.observe`; a token `x*` is a wildcard) one of the model's?  → ok | not-in-model …
  must                       (also prunes the state set to the states compatible with it) what every quiescent state agrees on: released=<n|?> held=<1|0|?> (d.rmu) cur=<h|-|?>,… (b.current per breakpoint) then T|F|b|? per call
  nobs                       number of distinct observations over the quiescent states
-/
import Uniflow.Driver.Core
import Uniflow.Model.Agent
import Uniflow.Model.Breakpoint

namespace Uniflow.Driver.C19
open Uniflow

structure St where
  agent : List (Nat × List Agent.Frame) := []   -- association list view of `Agent.St` (printable)
  bp : List Breakpoint.St := []                 -- every state reachable so far, under every schedule
  terms : List Breakpoint.St := []              -- the quiescent (terminal) ones among them
  overflow : Bool := false                      -- the state space of this case exceeded the budget

def optTok (t : String) : Option (Option Nat) :=
  if t = "-" then some none else t.toNat?.map some

def showOpt : Option Nat → String
  | none => "-"
  | some n => toString n

def getFrames (st : St) (p : Nat) : List Agent.Frame := (st.agent.lookup p).getD []

def setFrames (st : St) (p : Nat) (fs : List Agent.Frame) : St :=
  { st with agent := (p, fs) :: st.agent.filter (fun x => x.1 != p) }

def showFrame (f : Agent.Frame) : String :=
  s!"{f.sym} {showOpt f.inPort} {showOpt f.outPort} {showOpt f.inPck} {showOpt f.outPck}"

def showPair (x : Option Nat × Option Nat) : String := s!"{showOpt x.1} {showOpt x.2}"

def showList (xs : List String) : String :=
  " | ".intercalate (toString xs.length :: xs)

def parseKey (sym i o : String) : Option Agent.Key :=
  match sym.toNat?, optTok i, optTok o with
  | some sym, some i, some o => some { sym := sym, inPort := i, outPort := o }
  | _, _, _ => none

/-- Keep *every* reachable state (the real system need not be quiescent when the next call is
issued: a goroutine may not have been scheduled yet); observations are those of the terminal ones. -/
def quiesce (st : St) (from_ : List Breakpoint.St) : St × String :=
  if st.overflow then (st, "fuel") else
  match Breakpoint.closure 20000000 8000 from_ {} [] 0 with
  | some all => ({ st with bp := all, terms := all.filter Breakpoint.isTerminal }, "ok")
  | none => ({ st with overflow := true }, "fuel")

def dedup : List String → List String
  | [] => []
  | x :: xs => if xs.contains x then dedup xs else x :: dedup xs

def observations (st : St) : List String := dedup (st.terms.map Breakpoint.observe)

/-- A pattern token `x*` matches any token starting with `x`. -/
def matchTok (pat tok : String) : Bool :=
  if pat.endsWith "*" then tok.startsWith (pat.dropEnd 1).toString else pat == tok

def matchObs : List String → List String → Bool
  | [], [] => true
  | p :: ps, t :: ts => matchTok p t && matchObs ps ts
  | _, _ => false

def nbOf (st : St) : Nat := match st.bp with | s :: _ => s.nb | [] => 0

def addHook (st : St) (b : Nat) : St × String :=
  if b < nbOf st then quiesce st (st.bp.map (·.addHook b)) else (st, "bad-op")

def addCall (st : St) (p : String) (b : Nat) : St × String :=
  match Breakpoint.parseProg p with
  | some .dnext | none => (st, "bad-op")
  | some p => if b < nbOf st then quiesce st (st.bp.map (·.addThread p b)) else (st, "bad-op")

def step (st : St) : List String → St × String
  | ["inb", p, sym, i, o, pck] =>
    match p.toNat?, parseKey sym i o, pck.toNat? with
    | some p, some k, some pck => (setFrames st p (Agent.inboundR k pck (getFrames st p)), "ok")
    | _, _, _ => (st, "bad-op")
  | ["outb", p, sym, i, o, pck] =>
    match p.toNat?, parseKey sym i o, pck.toNat? with
    | some p, some k, some pck => (setFrames st p (Agent.outboundR k pck (getFrames st p)), "ok")
    | _, _, _ => (st, "bad-op")
  | ["exit", p] =>
    match p.toNat? with
    | some p => (setFrames st p [], "ok")
    | none => (st, "bad-op")
  | ["frames", p] =>
    match p.toNat? with
    | some p => (st, showList ((getFrames st p).map showFrame))
    | none => (st, "bad-op")
  | ["nframes", p] =>
    match p.toNat? with
    | some p => (st, toString (getFrames st p).length)
    | none => (st, "bad-op")
  | ["col", p, sym, i, o] =>
    match p.toNat?, parseKey sym i o with
    | some p, some k => (st, showList ((Agent.col k (getFrames st p)).map showPair))
    | _, _ => (st, "bad-op")
  | ["bp"] => quiesce st [Breakpoint.St.init 1]
  | ["bp", k] =>
    match k.toNat? with
    | some k => if 1 ≤ k ∧ k ≤ 8 then quiesce st [Breakpoint.St.init k] else (st, "bad-op")
    | none => (st, "bad-op")
  | ["hook"] => addHook st 0
  | ["hook", b] =>
    match b.toNat? with
    | some b => addHook st b
    | none => (st, "bad-op")
  | ["call", p] => addCall st p 0
  | ["call", p, b] =>
    match b.toNat? with
    | some b => addCall st p b
    | none => (st, "bad-op")
  | "expect" :: pat =>
    if st.overflow then (st, "fuel") else
    let all := observations st
    if all.any (fun o => matchObs pat (tokens o)) then (st, "ok")
    else (st, "not-in-model: " ++ " || ".intercalate all)
  | ["must"] =>
    if st.overflow then (st, "fuel") else
    match st.terms with
    | [] => (st, "bad-op")
    | s0 :: rest =>
      let r0 := Breakpoint.releasedCount s0
      let rel := if rest.all (fun s => Breakpoint.releasedCount s == r0) then toString r0 else "?"
      let c0 := Breakpoint.callStatus s0
      let merged := rest.foldl (fun acc s =>
        let cs := Breakpoint.callStatus s
        if cs.length = acc.length then (acc.zip cs).map (fun (a, b) => if a = b then a else "?")
        else acc.map (fun _ => "?")) c0
      let h0 := Breakpoint.drmuHeld s0
      let held := if rest.all (fun s => Breakpoint.drmuHeld s == h0) then (if h0 then "1" else "0") else "?"
      let curs := (List.range s0.nb).map fun b =>
        if rest.all (fun s => s.cur b == s0.cur b) then
          (match s0.cur b with | some h => toString h | none => "-") else "?"
      -- The harness waits until everything the quiescent states agree on has happened before it
      -- issues the next call: states that contradict these facts cannot be the real one any more.
      let keep := fun (s : Breakpoint.St) =>
        (if rel = "?" then true else decide (r0 ≤ Breakpoint.releasedCount s)) &&
        (if held = "1" then Breakpoint.drmuHeld s else true) &&
        ((List.range s0.nb).zip curs).all (fun (b, c) =>
          if c = "?" ∨ c = "-" then true else s.cur b == s0.cur b) &&
        (let cs := Breakpoint.callStatus s
         cs.length == merged.length &&
           (merged.zip cs).all (fun (m, c) => if m = "T" ∨ m = "F" then m == c else true))
      ({ st with bp := st.bp.filter keep }, joinSp (("released=" ++ rel) :: ("held=" ++ held) :: ("cur=" ++ ",".intercalate curs) :: merged))
  | ["nobs"] => (st, toString (observations st).length ++ " " ++ toString st.bp.length)
  | _ => (st, "bad-op")

def handler : Handler := { σ := St, init := {}, step := step }

end Uniflow.Driver.C19
