/-
Driver for C04: replays a schedule on `Uniflow.Process`.

Worker threads are 0..3, thread 4 is the controller (value operations, `new`); every line is
executed through `Uniflow.Process.step` only.

  new                → creates a root process
  T exit P E         → thread T starts `Exit(P, err E)`        (E = 0 is nil)
  T add P H          → thread T starts `AddExitHook(P, user hook H)`
  T fork P           → thread T starts `P.Fork()`
  T join P           → thread T starts `P.Join()`
  T go               → thread T, parked in front of a user hook, is released
  set P K V | del P K | get P K

A line is a *macro step*: the named atomic step, then further atomic steps of the same thread
until it is free again, or its next step is running a user hook (the real goroutine is parked
at the entry of the harness hook), or it is parked in `Join`'s `Wait`. Afterwards every thread
that a Broadcast of this macro step woke re-tests `Join`'s loop condition (the real goroutine does
so by itself): it returns, or parks again.

Answer: `<result>|<events>|<threads>|<procs>`
  events : `h:H.E` user hook H ran with error E (chronological; hook ids may be shared between
           processes – a registration is a (process, hook) pair – and the real hook object cannot
           tell for which process it runs, so the process is not printed), then `r:T:<ret>`
           when the stepping thread finished its operation, then `r:T:-` for joins that returned
  threads: per worker `i` (free) | `hH` (parked before hook H) | `jP` (blocked in Join)
  procs  : per process `<terminated><done><Err()>:<sorted Keys()>` with Err() n | c | e<k>
-/
import Uniflow.Driver.Core
import Uniflow.Model.Process

namespace Uniflow.Driver.C04
open Uniflow.Process

def nWorkers : Nat := 4
def ctl : Nat := 4

structure St where
  s : State := init 5
  ret : Nat → String := fun _ => "-"

inductive Parked where
  | free | hook (p : Nat) (h : Nat) | join (p : Nat) | runnable

def parked (s : State) (t : Nat) : Parked :=
  let th := s.threads t
  match th.pc with
  | .forkReg _ => .runnable
  | .joining _ => .runnable
  | .waiting p => .join p
  | .idle =>
    match th.stack with
    | [] => .free
    | f :: _ =>
      match f.rem with
      | [] => .runnable
      | h :: _ =>
        match h.kind with
        | .user n => .hook f.proc n
        | _ => .runnable

def runUntilParked (fuel : Nat) (s : State) (t : Nat) : State :=
  match fuel with
  | 0 => s
  | fuel + 1 =>
    match parked s t with
    | .runnable => runUntilParked fuel (step s t .cont) t
    | _ => s

/-- woken joiners re-test the loop condition; returns the new state and the threads that returned. -/
def autoJoin (s : State) (skip : Nat) : List Nat → State × List Nat
  | [] => (s, [])
  | t :: ts =>
    if t ≠ skip then
      match (s.threads t).pc with
      | .joining _ =>
        let s1 := step s t .cont
        let (s', r) := autoJoin s1 skip ts
        match (s1.threads t).pc with
        | .idle => (s', t :: r)
        | _ => (s', r)
      | _ => autoJoin s skip ts
    else autoJoin s skip ts

def showErr (e : Nat) : String := toString e

def showProc (s : State) (p : Nat) : String :=
  let pr := s.procs p
  let e := match errObs pr with
    | .nil => "n" | .canceled => "c" | .err k => s!"e{k}"
  let ks := (keys s.np s.procs p).mergeSort (· ≤ ·)
  s!"{if pr.terminated then 1 else 0}{if pr.done then 1 else 0}{e}:" ++ ",".intercalate (ks.map toString)

def showThread (s : State) (t : Nat) : String :=
  match parked s t with
  | .free => "i"
  | .hook _ h => s!"h{h}"
  | .join p => s!"j{p}"
  | .runnable => "?"

def showEvents (newLog : List LogE) : List String :=
  newLog.filterMap fun e =>
    match e.kind with
    | .user n => some s!"h:{n}.{e.err}"
    | _ => none

def digest (res : String) (ev : List String) (s : State) : String :=
  res ++ "|" ++ joinSp ev ++ "|" ++ joinSp ((List.range nWorkers).map (showThread s)) ++ "|" ++
    joinSp ((List.range s.np).map (showProc s))

/-- macro step of worker `t` whose first atomic step is `a`. -/
def macroStep (st : St) (t : Nat) (a : Action) (ret : String) : St × String :=
  let s0 := st.s
  let s1 := step s0 t a
  let s2 := runUntilParked 100000 s1 t
  let (s3, js) := autoJoin s2 t (List.range nWorkers)
  let newLog := (s3.log.take (s3.log.length - s0.log.length)).reverse
  let rets := fun (x : Nat) => if x = t then ret else st.ret x
  let evT := if free s3 t then [s!"r:{t}:{rets t}"] else []
  let evJ := js.map fun j => s!"r:{j}:-"
  ({ s := s3, ret := rets }, digest "ok" (showEvents newLog ++ evT ++ evJ) s3)

def isDup (s : State) (p : Nat) (h : Nat) : Bool :=
  (s.procs p).hooks.any (fun x => x.kind == HookKind.user h)

def step (st : St) (toks : List String) : St × String :=
  let s := st.s
  match toks with
  | ["new"] =>
    let s' := Process.step s ctl (.start .new)
    ({ st with s := s' }, digest s!"p{s.np}" [] s')
  | ["set", p, k, v] =>
    match p.toNat?, k.toNat?, v.toNat? with
    | some p, some k, some v =>
      if p < s.np then
        let s' := Process.step s ctl (.start (.setv p k v))
        ({ st with s := s' }, digest "ok" [] s')
      else (st, "bad-op")
    | _, _, _ => (st, "bad-op")
  | ["del", p, k] =>
    match p.toNat?, k.toNat? with
    | some p, some k =>
      if p < s.np then
        let r := (removeValue s.np s.procs p k).2
        let s' := Process.step s ctl (.start (.delv p k))
        ({ st with s := s' }, digest (match r with | some v => s!"v{v}" | none => "nil") [] s')
      else (st, "bad-op")
    | _, _ => (st, "bad-op")
  | ["get", p, k] =>
    match p.toNat?, k.toNat? with
    | some p, some k =>
      if p < s.np then
        (st, digest (match value s.np s.procs p k with | some v => s!"v{v}" | none => "nil") [] s)
      else (st, "bad-op")
    | _, _ => (st, "bad-op")
  | [t, "go"] =>
    match t.toNat? with
    | some t =>
      if t < nWorkers then
        match parked s t with
        | .hook _ _ => macroStep st t .cont (st.ret t)
        | _ => (st, "bad-op")
      else (st, "bad-op")
    | none => (st, "bad-op")
  | [t, op, p] =>
    match t.toNat?, p.toNat? with
    | some t, some p =>
      if t < nWorkers ∧ p < s.np ∧ free s t then
        if op = "fork" then macroStep st t (.start (.fork p)) s!"p{s.np}"
        else if op = "join" then macroStep st t (.start (.join p)) "-"
        else (st, "bad-op")
      else (st, "bad-op")
    | _, _ => (st, "bad-op")
  | [t, op, p, x] =>
    match t.toNat?, p.toNat?, x.toNat? with
    | some t, some p, some x =>
      if t < nWorkers ∧ p < s.np ∧ free s t then
        if op = "exit" then macroStep st t (.start (.exit p x)) "-"
        else if op = "add" then
          macroStep st t (.start (.add p x))
            (if (s.procs p).terminated || isDup s p x then "f" else "t")
        else (st, "bad-op")
      else (st, "bad-op")
    | _, _, _ => (st, "bad-op")
  | _ => (st, "bad-op")

def handler : Handler := { σ := St, init := {}, step := step }

end Uniflow.Driver.C04
