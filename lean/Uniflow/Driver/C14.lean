/-
Driver for C14: runs `Uniflow.Value.equal / cmp / hash` on wire-encoded values.

  val <v>        parse and print back (parser/printer echo)     → the value's tokens
  hash <v>       `types.HashOf`                                 → decimal uint64
  eq <a> <b>     `types.Equal`                                  → true | false
  cmp <a> <b>    `types.Compare`                                → -1 | 0 | 1
-/
import Uniflow.Driver.Core
import Uniflow.Model.Value

namespace Uniflow.Driver.C14
open Uniflow.Value

def two (toks : List String) : Option (Val × Val) :=
  match parseVal toks with
  | some (a, r) =>
    match parseVal r with
    | some (b, []) => some (a, b)
    | _ => none
  | none => none

def step (st : Unit) : List String → Unit × String
  | "val" :: r =>
    match parseVal r with
    | some (v, []) => (st, joinSp (printVal v))
    | _ => (st, "bad-op")
  | "hash" :: r =>
    match parseVal r with
    | some (v, []) => (st, toString (hash v).toNat)
    | _ => (st, "bad-op")
  | "eq" :: r =>
    match two r with
    | some (a, b) => (st, if equal a b then "true" else "false")
    | none => (st, "bad-op")
  | "cmp" :: r =>
    match two r with
    | some (a, b) => (st, toString (cmp a b))
    | none => (st, "bad-op")
  | _ => (st, "bad-op")

def handler : Handler := { σ := Unit, init := (), step := step }

end Uniflow.Driver.C14
