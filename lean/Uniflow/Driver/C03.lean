/-
Driver for C03: `Uniflow.Teardown.step` over the line protocol.  One case = wiring lines, then
the sequentialised schedule up to the crash point, the teardown action(s), then `settle`.

  wiring (all answer `ok`):
    rule discard|drain               exit rule of the writer pumps (default discard = the code)
    handover off                     the code before the listeners were handed their writer (witness only)
    cons <w> req | cons <w> node <upW> <upR>      who consumes Receive() of writer w
    lis <w> <r> sink <k> | lis <w> <r> node <outW>   who listens on reader r of writer w
    inport <w> <r> …                 next in-port: its per-process readers, in Close order
    outport <w> …                    next out-port: its per-process writers
    node <i> <o>                     next node: in-port i, out-port o
    proc R <w> <r> | W <w> …         next process: its exit hooks in registration order
  steps:
    link <w> <r>                     → t | f
    write <w> <v>                    requester write, then the forward loops of the nodes run until
                                     every request rests at a sink (or has been echoed back and the
                                     backward loops have passed the echo up)
                                     → n<cnt>{ d<k>:<v>}{ | w<w>:<resp>}
    ans <k> n | e <id> | v <id>      sink k answers the oldest request it holds, then the backward
                                     loops run → t | f | none{ | w<w>:<resp>}
    pwrite <w> <v> / pans <k> <a>    the same two steps after the crash point → n<cnt> / t | f | none
    dropw <w> <r> <write>            the held-back drop notice of reader r for that write number is delivered now → u | none
    wwrite <w> <v> / relay           the requester's write alone → n<cnt>; then the node loops → u
    bwdlate <w>                      the backward listener of the node consuming w makes its own Open only now → u
    recv <w>                         the requester's `<-Receive()` → <resp> | closed | blocked | notowed
    down reader <w> <r> | writer <w> | inport <i> | outport <o> | node <n> | exit <p>   → u
    settle                           a fair completion in which every consumer is parked when its packet is
                                     handed over: every held-back drop notice is delivered, every node loop
                                     runs, every requester receives what is buffered; only then the pumps return
                                     → {w<w>:<resp>,…[;blocked<k>] }   (one group per requester writer with accepted writes)
  resp ::= N | E<k>,… | v<k> | V<k>,…
-/
import Uniflow.Driver.Core
import Uniflow.Model.Teardown

namespace Uniflow.Driver.C03
open Uniflow.Writer Uniflow.Teardown

structure St where
  rule : Pump.Rule := .discard
  topo : Topo := {}
  sys : Sys := {}
  nW : Nat := 0                                 -- writer ids in use are < nW
  sinks : List (Nat × WId × RId) := []          -- sink k ↦ the reader it listens on
  held : List (Nat × Nat) := []                 -- (sink, payload) requests resting at sinks, oldest first

def showNats (ns : List Nat) : String := ",".intercalate (ns.map toString)

def showResp : Resp → String
  | .none => "N"
  | .err es => "E" ++ showNats es
  | .val v => s!"v{v}"
  | .vals vs => "V" ++ showNats vs

def showRecv : Pump.Recv Resp → String
  | .got a => showResp a
  | .closed => "closed"
  | .blocked => "blocked"

def bump (st : St) (w : Nat) : St := if w < st.nW then st else { st with nW := w + 1 }

def isReq (st : St) (w : WId) : Bool :=
  match st.topo.consumer w with
  | .requester => true
  | .node _ _ => false

/-- Lengths of what has been pushed into the pumps of the requester writers (to report what a
step made available to requesters). -/
def pushedLens (st : St) : List Nat := (List.range st.nW).map fun w => (st.sys.comp w).p.pushed.length

def newPushed (st : St) (before : List Nat) : String :=
  String.join ((List.range st.nW).map fun w =>
    if isReq st w then
      let old := match before[w]? with | some n => n | none => 0
      String.join (((st.sys.comp w).p.pushed.drop old).map fun a => s!" | w{w}:{showResp a}")
    else "")

/-- One pass of the node loops: every forward loop takes what its reader was handed, every
backward loop passes one response up. Returns whether anything moved, and sink deliveries. -/
def relayPass (st : St) : St × Bool × List (Nat × Nat) := Id.run do
  let mut s := st
  let mut moved := false
  let mut deliv : List (Nat × Nat) := []
  for w in List.range st.nW do
    for r in (s.sys.comp w).w.readers do
      match s.topo.listener w r, s.sys.inbox w r with
      | .node wo, _ :: _ =>
        let before := (s.sys.comp wo).w
        let r2 := step s.rule s.topo s.sys (.fwd w r)
        s := { s with sys := r2.1 }
        moved := true
        -- requests the out-writer handed to sinks
        match r2.2 with
        | .c (.w o) =>
          for d in o.deliv do
            match s.topo.listener wo d.1 with
            | .sink k => deliv := deliv ++ [(k, d.2)]
            | .node _ => pure ()
        | _ => pure ()
        let _ := before
      | _, _ => pure ()
  for w in List.range st.nW do
    match s.topo.consumer w with
    | .node wi r =>
      match Pump.recv (s.sys.comp w).p with
      | .got _ =>
        s := { s with sys := (step s.rule s.topo s.sys (.bwd w)).1 }
        moved := true
      | .closed =>
        -- the backward loop ends on the closed channel: Tracer.Drop, if anything still waits
        if (s.sys.reads wi r).any (fun e => e.2.isNone) then
          s := { s with sys := (step s.rule s.topo s.sys (.bwd w)).1 }
          moved := true
      | .blocked => pure ()
    | .requester => pure ()
  return (s, moved, deliv)

def relayAll (st : St) : Nat → St × List (Nat × Nat)
  | 0 => (st, [])
  | fuel + 1 =>
    let (s, moved, d) := relayPass st
    if moved then
      let (s', d') := relayAll s fuel
      (s', d ++ d')
    else (s, d)

def showDeliv (ds : List (Nat × Nat)) : String := String.join (ds.map fun d => s!" d{d.1}:{d.2}")

def sinkOf (st : St) (k : Nat) : Option (WId × RId) := st.sinks.lookup k

def popHeld (k : Nat) : List (Nat × Nat) → Option (Nat × List (Nat × Nat))
  | [] => none
  | (k', v) :: rest =>
    if k' = k then some (v, rest)
    else match popHeld k rest with
      | some (v', rest') => some (v', (k', v) :: rest')
      | none => none

def parseAns : List String → Option Ans
  | ["n"] => some .none
  | ["e", k] => k.toNat?.map Ans.err
  | ["v", k] => k.toNat?.map Ans.val
  | _ => none

def parseCloses : List String → Option (List Close)
  | [] => some []
  | "R" :: w :: r :: rest =>
    match w.toNat?, r.toNat?, parseCloses rest with
    | some w, some r, some cs => some (.reader w r :: cs)
    | _, _, _ => none
  | "W" :: w :: rest =>
    match w.toNat?, parseCloses rest with
    | some w, some cs => some (.writer w :: cs)
    | _, _ => none
  | _ => none

def parsePairs : List String → Option (List (Nat × Nat))
  | [] => some []
  | a :: b :: rest =>
    match a.toNat?, b.toNat?, parsePairs rest with
    | some a, some b, some ps => some ((a, b) :: ps)
    | _, _, _ => none
  | _ => none

def parseDown : List String → Option Teardown
  | ["reader", w, r] => match w.toNat?, r.toNat? with
    | some w, some r => some (.readerClose w r)
    | _, _ => none
  | ["writer", w] => w.toNat?.map Teardown.writerClose
  | ["inport", i] => i.toNat?.map Teardown.inPortClose
  | ["outport", o] => o.toNat?.map Teardown.outPortClose
  | ["node", n] => n.toNat?.map Teardown.nodeClose
  | ["exit", p] => p.toNat?.map Teardown.processExit
  | _ => none

/-- One round of the fair completion. -/
def settlePass (st : St) : St × Bool := Id.run do
  let mut s := st
  let mut moved := false
  for w in List.range st.nW do
    -- held-back drop notices (the goroutines Reader.Close spawned)
    for r in (List.range 8) do
      for _ in List.range (((s.sys.comp w).w.drops r).length) do
        s := { s with sys := (step s.rule s.topo s.sys (.prim w (.w (.deliverDrop r)))).1 }
        moved := true
  let (s2, d) := relayAll s 64
  let _ := d
  if (pushedLens s2) != (pushedLens s) then moved := true
  s := s2
  -- consumers first (the schedule in which every receiver is parked when the packet is handed
  -- over): requesters receive what is buffered …
  for w in List.range st.nW do
    if isReq s w then
      for _ in List.range ((s.sys.comp w).outstanding) do
        match Pump.recv (s.sys.comp w).p with
        | .got _ =>
          s := { s with sys := (step s.rule s.topo s.sys (.prim w .recv)).1 }
          moved := true
        | _ => pure ()
  -- … then the pump goroutines return where their exit rule allows it, and requesters still owed
  -- something see the closed channel
  if !moved then
    for w in List.range st.nW do
      let before := (s.sys.comp w).p.exited
      s := { s with sys := (step s.rule s.topo s.sys (.prim w .pumpExit)).1 }
      if (s.sys.comp w).p.exited != before then moved := true
      if isReq s w then
        for _ in List.range ((s.sys.comp w).outstanding) do
          match Pump.recv (s.sys.comp w).p with
          | .closed =>
            s := { s with sys := (step s.rule s.topo s.sys (.prim w .recv)).1 }
            moved := true
          | _ => pure ()
  return (s, moved)

def settleAll (st : St) : Nat → St
  | 0 => st
  | fuel + 1 =>
    let (s, moved) := settlePass st
    if moved then settleAll s fuel else s

def showSettle (st : St) : String :=
  let groups := (List.range st.nW).filterMap fun w =>
    let c := st.sys.comp w
    if isReq st w && c.accepted > 0 then
      let body := ",".intercalate (c.got.map showRecv)
      let blk := if c.outstanding > 0 then s!";blocked{c.outstanding}" else ""
      some s!"w{w}:{body}{blk}"
    else none
  if groups.isEmpty then "-" else " ".intercalate groups

def stepLine (st : St) (toks : List String) : St × String :=
  match toks with
  | ["handover", "off"] => let t := st.topo; ({ st with topo := { t with handOver := false } }, "ok")
  | ["bwdlate", w] =>
    -- the backward listener of the node consuming writer w makes its own Open only now
    match w.toNat? with
    | some w => ({ st with sys := (step st.rule st.topo st.sys (.bwdLate w)).1 }, "u")
    | none => (st, "bad-op")
  | ["rule", "drain"] => ({ st with rule := .drain }, "ok")
  | ["rule", "discard"] => ({ st with rule := .discard }, "ok")
  | ["cons", w, "req"] =>
    match w.toNat? with
    | some w => (bump st w, "ok")
    | none => (st, "bad-op")
  | ["cons", w, "node", uw, ur] =>
    match w.toNat?, uw.toNat?, ur.toNat? with
    | some w, some uw, some ur =>
      let t := st.topo
      (bump (bump { st with topo := { t with consumer := fun x => if x = w then .node uw ur else t.consumer x } } w) uw, "ok")
    | _, _, _ => (st, "bad-op")
  | ["lis", w, r, "sink", k] =>
    match w.toNat?, r.toNat?, k.toNat? with
    | some w, some r, some k =>
      let t := st.topo
      (bump { st with topo := { t with listener := fun x y => if x = w ∧ y = r then .sink k else t.listener x y },
                      sinks := (k, w, r) :: st.sinks } w, "ok")
    | _, _, _ => (st, "bad-op")
  | ["lis", w, r, "node", wo] =>
    match w.toNat?, r.toNat?, wo.toNat? with
    | some w, some r, some wo =>
      let t := st.topo
      (bump (bump { st with topo := { t with listener := fun x y => if x = w ∧ y = r then .node wo else t.listener x y } } w) wo, "ok")
    | _, _, _ => (st, "bad-op")
  | "inport" :: rest =>
    match parsePairs rest with
    | some ps => let t := st.topo; ({ st with topo := { t with inPorts := t.inPorts ++ [ps] } }, "ok")
    | none => (st, "bad-op")
  | "outport" :: rest =>
    match rest.mapM String.toNat? with
    | some ws => let t := st.topo; ({ st with topo := { t with outPorts := t.outPorts ++ [ws] } }, "ok")
    | none => (st, "bad-op")
  | ["node", i, o] =>
    match i.toNat?, o.toNat? with
    | some i, some o => let t := st.topo; ({ st with topo := { t with nodes := t.nodes ++ [(i, o)] } }, "ok")
    | _, _ => (st, "bad-op")
  | "proc" :: rest =>
    match parseCloses rest with
    | some cs => let t := st.topo; ({ st with topo := { t with procs := t.procs ++ [cs] } }, "ok")
    | none => (st, "bad-op")
  | ["link", w, r] =>
    match w.toNat?, r.toNat? with
    | some w, some r =>
      let st := bump st w
      let p := step st.rule st.topo st.sys (.prim w (.w (.link r)))
      ({ st with sys := p.1 }, match p.2 with
        | .c (.w o) => (match o.ret with | .ok true => "t" | .ok false => "f" | _ => "?")
        | _ => "?")
    | _, _ => (st, "bad-op")
  | ["write", w, v] =>
    match w.toNat?, v.toNat? with
    | some w, some v =>
      let st := bump st w
      let before := pushedLens st
      let p := step st.rule st.topo st.sys (.prim w (.w (.write v)))
      match p.2 with
      | .c (.w o) =>
        let direct := o.deliv.filterMap fun d =>
          match st.topo.listener w d.1 with
          | .sink k => some (k, d.2)
          | .node _ => none
        let (st2, more) := relayAll { st with sys := p.1 } 64
        let ds := direct ++ more
        let cnt := match o.ret with | .cnt n => s!"n{n}" | _ => "?"
        ({ st2 with held := st2.held ++ ds }, cnt ++ showDeliv ds ++ newPushed st2 before)
      | _ => (st, "bad-op")
    | _, _ => (st, "bad-op")
  | "ans" :: k :: a =>
    match k.toNat?, parseAns a with
    | some k, some a =>
      -- the owner of the reader sink k listens on answers the oldest request in the reader's queue
      -- (`Sys.queue`: with fan-in the requests of several writers, interleaved)
      match st.sys.queue k with
      | _ :: _ =>
        let before := pushedLens st
        let p := step st.rule st.topo st.sys (.sinkAnswer k a)
        let ret := match p.2 with
          | .c (.w o) => (match o.ret with | .ok true => "t" | .ok false => "f" | _ => "?")
          | _ => "?"
        let (st2, _) := relayAll { st with sys := p.1 } 64
        (st2, ret ++ newPushed st2 before)
      | [] => (st, "none")
    | _, _ => (st, "bad-op")
  | ["dropw", w, r, wr] =>
    -- the held-back drop notice of reader r of writer w that belongs to write number wr is delivered
    -- now, whatever its position (`Teardown.deliverDropK`), then the node loops run
    match w.toNat?, r.toNat?, wr.toNat? with
    | some w, some r, some wr =>
      match ((st.sys.comp w).w.drops r).findIdx? (fun e => e.2 == wr) with
      | some k =>
        let p := deliverDropK st.rule (st.sys.comp w) r k
        let (st2, _) := relayAll { st with sys := setComp st.sys w p.1 } 64
        (st2, "u")
      | none => (st, "none")
    | _, _, _ => (st, "bad-op")
  | ["wwrite", w, v] =>
    -- the requester's write alone: the node loops do not run yet (the request rests in the reader)
    match w.toNat?, v.toNat? with
    | some w, some v =>
      let st := bump st w
      let p := step st.rule st.topo st.sys (.prim w (.w (.write v)))
      ({ st with sys := p.1 }, match p.2 with
        | .c (.w o) => (match o.ret with | .cnt n => s!"n{n}" | _ => "?")
        | _ => "?")
    | _, _ => (st, "bad-op")
  | ["relay"] =>
    -- the node loops run until nothing moves
    let (st2, _) := relayAll st 64
    (st2, "u")
  | ["pwrite", w, v] =>
    -- a write after the crash point: same step, only the count is compared
    match w.toNat?, v.toNat? with
    | some w, some v =>
      let st := bump st w
      let p := step st.rule st.topo st.sys (.prim w (.w (.write v)))
      match p.2 with
      | .c (.w o) =>
        let direct := o.deliv.filterMap fun d =>
          match st.topo.listener w d.1 with
          | .sink k => some (k, d.2)
          | .node _ => none
        let (st2, more) := relayAll { st with sys := p.1 } 64
        ({ st2 with held := st2.held ++ direct ++ more }, match o.ret with | .cnt n => s!"n{n}" | _ => "?")
      | _ => (st, "bad-op")
    | _, _ => (st, "bad-op")
  | "pans" :: k :: a =>
    -- an answer after the crash point: only the return value is compared
    match k.toNat?, parseAns a with
    | some k, some a =>
      match st.sys.queue k with
      | _ :: _ =>
        let p := step st.rule st.topo st.sys (.sinkAnswer k a)
        let ret := match p.2 with
          | .c (.w o) => (match o.ret with | .ok true => "t" | .ok false => "f" | _ => "?")
          | _ => "?"
        let (st2, _) := relayAll { st with sys := p.1 } 64
        (st2, ret)
      | [] => (st, "none")
    | _, _ => (st, "bad-op")
  | ["recv", w] =>
    match w.toNat? with
    | some w =>
      let p := step st.rule st.topo st.sys (.prim w .recv)
      ({ st with sys := p.1 }, match p.2 with
        | .c (.recv r) => showRecv r
        | .c .notOwed => "notowed"
        | _ => "?")
    | none => (st, "bad-op")
  | "down" :: rest =>
    match parseDown rest with
    | some td => ({ st with sys := (step st.rule st.topo st.sys (.down td)).1 }, "u")
    | none => (st, "bad-op")
  | ["settle"] =>
    let st2 := settleAll st 64
    (st2, showSettle st2)
  | _ => (st, "bad-op")

def handler : Handler := { σ := St, init := {}, step := stepLine }

end Uniflow.Driver.C03
