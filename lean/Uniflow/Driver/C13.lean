/-
Driver for C13: `Uniflow.Stream.step` over the line protocol.

  watch w                       → ok | bad-op
  doc id op acc k w1 … wk       → ok      (op 0 insert 1 update 2 delete; acc 0|1; matched watchers)
  next w                        → ev id op | none | closed
  close w                       → ok
  exit w                        → ok | bad-op   (the pump of w has observed `done`)
-/
import Uniflow.Driver.Core
import Uniflow.Model.Stream

namespace Uniflow.Driver.C13
open Uniflow.Stream

def showOut : Out → String
  | .ok => "ok"
  | .ev e => s!"ev {e.id} {e.op}"
  | .none_ => "none"
  | .closed => "closed"
  | .bad => "bad-op"

def parseOp : List String → Option Op
  | ["watch", w] => w.toNat?.map Op.watch
  | "doc" :: id :: op :: acc :: k :: ws =>
    match id.toNat?, op.toNat?, acc.toNat?, k.toNat?, ws.mapM String.toNat? with
    | some id, some op, some acc, some k, some ws =>
      if ws.length = k ∧ op < 3 ∧ acc < 2 then some (Op.doc ⟨id, op⟩ (acc == 1) ws) else none
    | _, _, _, _, _ => none
  | ["next", w] => w.toNat?.map Op.next
  | ["close", w] => w.toNat?.map Op.close
  | ["exit", w] => w.toNat?.map Op.pumpExit
  | _ => none

def stepLine (st : St) (toks : List String) : St × String :=
  match parseOp toks with
  | none => (st, "bad-op")
  | some op => let (st', o) := step st op; (st', showOut o)

def handler : Handler := { σ := St, init := {}, step := stepLine }

end Uniflow.Driver.C13
