/-
Driver for C12: the same store machine and line protocol as C10 (Driver/C10.lean); the harness mixes failing
mutations into the histories and re-reads the store through every access path after each failure.
-/
import Uniflow.Driver.C10

namespace Uniflow.Driver.C12

def handler : Handler := Uniflow.Driver.C10.handler

end Uniflow.Driver.C12
