/-
Driver for C05 (debug agent: process table and frames, `Uniflow.AgentProc`, guarded packet hooks).

  accept p | term p | hook p                  → ok
  inb p sym in out pck | outb p sym in out pck → ok     (`in`, `out`: number or `-`)
  keys n                                       → procs=… frames=…   key sets of a.processes / a.frames among 0..n-1
  nframes p                                    → number of frames of p (0 when the key is absent)
-/
import Uniflow.Driver.Core
import Uniflow.Model.AgentProc

namespace Uniflow.Driver.C05A
open Uniflow Uniflow.AgentProc

def optTok (t : String) : Option (Option Nat) :=
  if t = "-" then some none else t.toNat?.map some

def parseKey (sym i o : String) : Option Agent.Key :=
  match sym.toNat?, optTok i, optTok o with
  | some sym, some i, some o => some { sym := sym, inPort := i, outPort := o }
  | _, _, _ => none

def commaNat (xs : List Nat) : String :=
  if xs.isEmpty then "-" else ",".intercalate (xs.map toString)

def parseEv : List String → Option Ev
  | ["accept", p] => p.toNat?.map Ev.accept
  | ["term", p] => p.toNat?.map Ev.term
  | ["hook", p] => p.toNat?.map Ev.hook
  | ["inb", p, sym, i, o, pck] => do some (.inb (← p.toNat?) (← parseKey sym i o) (← pck.toNat?))
  | ["outb", p, sym, i, o, pck] => do some (.outb (← p.toNat?) (← parseKey sym i o) (← pck.toNat?))
  | _ => none

def stepLine (s : St) (toks : List String) : St × String :=
  match toks with
  | ["keys", n] =>
    match n.toNat? with
    | some n => (s, s!"procs={commaNat (procKeys s n)} frames={commaNat (frameKeys s n)}")
    | none => (s, "bad-op")
  | ["nframes", p] =>
    match p.toNat? with
    | some p => (s, toString (listOf s p).length)
    | none => (s, "bad-op")
  | _ =>
    match parseEv toks with
    | some e => (step true s e, "ok")
    | none => (s, "bad-op")

def handler : Handler := { σ := St, init := init, step := stepLine }

end Uniflow.Driver.C05A
