/-
Driver for C05 (tracer calls of a hand-written node, `Uniflow.Tracer`, fixed code):

  read r p            Tracer.Read(reader r, packet p)
  link p q            Tracer.Link(p, q)
  write w k acc       Tracer.Write(writer w, packet k); acc = 1 iff the writer accepted it (w = `-`: nil writer)
  recv w nil          Tracer.Receive(w, nil)            – discard
  recv w none         Tracer.Receive(w, packet.None)
  recv w <k>          Tracer.Receive(w, a packet with payload atom k)
  drop w              Tracer.Drop(w)
        → sizes=h,s,t,rc,rd,wr,rr [panic]
  replies             → every reply sent so far, in order: <reader>:<answer>,… (answers: none | a<k> | other) | -
-/
import Uniflow.Driver.Core
import Uniflow.Model.Tracer

namespace Uniflow.Driver.C05T
open Uniflow.Tracer

def showAns : Ans → String
  | .empty => "none"
  | .pay (.atom k) => s!"a{k}"
  | _ => "other"

def showEv : Ev → String
  | .reply r a => s!"{r}:{showAns a}"
  | .hook p a => s!"h{p}:{showAns a}"

def showT (t : T) (ev : List Ev) : String :=
  let sz := [t.hooks.length, t.sources.length, t.targets.length, t.receives.length, t.reads.length,
             t.writes.length, t.reader.length]
  let _ := ev
  s!"sizes={",".intercalate (sz.map toString)}" ++ (if t.panic then " panic" else "")

def stepT (t : T) : List String → (T × List Ev) × String
  | ["read", r, p] =>
    match r.toNat?, p.toNat? with
    | some r, some p => let t' := read t r p; ((t', []), showT t' [])
    | _, _ => ((t, []), "bad-op")
  | ["link", p, q] =>
    match p.toNat?, q.toNat? with
    | some p, some q => let t' := link t p q; ((t', []), showT t' [])
    | _, _ => ((t, []), "bad-op")
  | ["write", w, k, acc] =>
    match (if w = "-" then some none else w.toNat?.map some), k.toNat?, acc.toNat? with
    | some w, some k, some acc =>
      if acc < 2 then let r := write true t w k (.pay (.atom k)) (acc == 1); ((r.1, r.2), showT r.1 r.2) else ((t, []), "bad-op")
    | _, _, _ => ((t, []), "bad-op")
  | ["recv", w, a] =>
    match w.toNat? with
    | some w =>
      let ans : Option (Option Ans) :=
        if a = "nil" then some none else if a = "none" then some (some .empty) else a.toNat?.map (fun k => some (.pay (.atom k)))
      match ans with
      | some ans => let r := receiveW true t w ans; ((r.1, r.2), showT r.1 r.2)
      | none => ((t, []), "bad-op")
    | none => ((t, []), "bad-op")
  | ["drop", w] =>
    match w.toNat? with
    | some w => let r := dropW true t w; ((r.1, r.2), showT r.1 r.2)
    | none => ((t, []), "bad-op")
  | _ => ((t, []), "bad-op")

/-- the state carries every reply sent so far; `replies` prints the answers in order -/
def step (st : T × List Ev) (toks : List String) : (T × List Ev) × String :=
  match toks with
  | ["replies"] =>
    (st, if st.2.isEmpty then "-" else ",".intercalate (st.2.map showEv))
  | _ =>
    let r := stepT st.1 toks
    ((r.1.1, st.2 ++ r.1.2), r.2)

def handler : Handler := { σ := T × List Ev, init := ({}, []), step := step }

end Uniflow.Driver.C05T
