/-
Driver for C05 (port endpoint maps): `Uniflow.PortMaps` at yield-point granularity.

  call t open q p | close q | exit p     thread t (idle) begins the operation and runs to its first yield point
  run t                                  thread t is released and runs to its next yield point
        → y<site> | ret unit | ret sentinel | ret ep open | ret ep closed | blocked | bad-op
  seq open q p | close q | exit p        one whole operation, run to completion on a scratch thread → ok
  pumps                                  → open=k   (endpoints created and not closed: running pump goroutines)
  obs nports nprocs                      → sizes=a,b,…   (entries of every port among processes 0..nprocs-1)
-/
import Uniflow.Driver.Core
import Uniflow.Model.PortMaps

namespace Uniflow.Driver.C05P
open Uniflow.PortMaps

def fuel : Nat := 256

def showEv (s : State) : Ev → String
  | .tau => "unit"
  | .unit => "unit"
  | .sentinel => "sentinel"
  | .ep e => if s.closed e then "ep closed" else "ep open"

def showMacro (s : State) : Macro → String
  | .parked site => s!"y{site}"
  | .ret e => s!"ret {showEv s e}"
  | .blocked => "blocked"

def parseCall : List String → Option Call
  | ["open", q, p] => do some (.open_ (← q.toNat?) (← p.toNat?))
  | ["close", q] => do some (.close (← q.toNat?))
  | ["exit", p] => do some (.exit (← p.toNat?))
  | _ => none

def seqTid : Tid := 1000

/-- Step the scratch thread until it is idle again. -/
def runSeq : Nat → State → State
  | 0, s => s
  | n + 1, s =>
    if s.thr seqTid = .idle then s
    else match step s seqTid with
      | some (s', _) => runSeq n s'
      | none => s

def stepLine (s : State) : List String → State × String
  | "call" :: t :: rest =>
    match t.toNat?, parseCall rest with
    | some t, some c =>
      if s.thr t = .idle then
        let (s2, m) := advance fuel (apply s (.call t c)) t .tau
        (s2, showMacro s2 m)
      else (s, "bad-op")
    | _, _ => (s, "bad-op")
  | ["run", t] =>
    match t.toNat? with
    | some t =>
      if s.thr t = .idle then (s, "bad-op")
      else let (s2, m) := release fuel s t; (s2, showMacro s2 m)
    | none => (s, "bad-op")
  | "seq" :: rest =>
    -- one whole operation on a scratch thread, run to completion
    match parseCall rest with
    | some c =>
      if s.thr seqTid = .idle then (runSeq 64 (apply s (.call seqTid c)), "ok") else (s, "bad-op")
    | none => (s, "bad-op")
  | ["pumps"] => (s, s!"open={openEndpoints s}")
  | ["obs", nq, np] =>
    match nq.toNat?, np.toNat? with
    | some nq, some np => (s, "sizes=" ++ ",".intercalate ((List.range nq).map (fun q => toString (size s q np))))
    | _, _ => (s, "bad-op")
  | _ => (s, "bad-op")

def handler : Handler := { σ := State, init := init, step := stepLine }

end Uniflow.Driver.C05P
