/-
Driver for C18: runs `Uniflow.Template.run`, `Uniflow.Bind.bind/build/isBound` with
`text/template` supplied as a table (what the real text/template did for each string and data).

Values (prefix notation; strings are `x` + hex of the UTF-8 bytes, one token):
  Doc ::= n | t | f | i <int> | s <xHEX> | l <k> Doc*k | m <k> (<xHEX> Doc)*k

  dot <Doc>                                  register a data value            → ok <Doc>      (echo)
  render <xS> <0|1> <k> (<dot#> (e | o <xT>))*k
                                             text/template on string S: Parse ok?, Execute on dot# → ok
  vals <k> (<id> <xNs> <xName> <Doc>)*k      the values handed to Bind         → ok <echo>
  spec <xNs> <k> (<xKey> <id> <xName> <Doc>)*k (N | F <j> (<xKey> <Doc>)*j)
                                             namespace, env, fields           → ok <echo>
  bind                                       (*Meta).Bind(vals...)            → ok <env, keys sorted> | err <classes of all failing entries> | panic
  build                                      (*Unstructured).Build()          → ok (N | F …sorted) | err <class> | panic
  isbound <k> <val#>*k                       (*Meta).IsBound(those values)    → true | false
  tmpl <dot#> <Doc>                          template.Execute(Doc, dot)       → ok <Doc, keys sorted> | err template | panic
-/
import Uniflow.Driver.Core
import Uniflow.Model.Template
import Uniflow.Model.Bind

namespace Uniflow.Driver.C18
open Uniflow.Template Uniflow.Bind

/-! ### hex strings -/

def hexVal (c : Char) : Option Nat :=
  if '0' ≤ c ∧ c ≤ '9' then some (c.toNat - '0'.toNat)
  else if 'a' ≤ c ∧ c ≤ 'f' then some (c.toNat - 'a'.toNat + 10)
  else none

def hexBytes : List Char → Option (List UInt8)
  | [] => some []
  | a :: b :: r =>
    match hexVal a, hexVal b, hexBytes r with
    | some x, some y, some bs => some (UInt8.ofNat (x * 16 + y) :: bs)
    | _, _, _ => none
  | _ => none

def unhex (t : String) : Option String :=
  match t.toList with
  | 'x' :: cs =>
    match hexBytes cs with
    | some bs => String.fromUTF8? (ByteArray.mk bs.toArray)
    | none => none
  | _ => none

def hexDigit (n : Nat) : Char :=
  if n < 10 then Char.ofNat ('0'.toNat + n) else Char.ofNat ('a'.toNat + (n - 10))

def hex (s : String) : String :=
  "x" ++ String.ofList (s.toUTF8.toList.flatMap fun b => [hexDigit (b.toNat / 16), hexDigit (b.toNat % 16)])

/-! ### Doc parser / printer -/

mutual
def pDoc : Nat → List String → Option (Doc × List String)
  | 0, _ => none
  | _ + 1, "n" :: r => some (.null, r)
  | _ + 1, "t" :: r => some (.bool true, r)
  | _ + 1, "f" :: r => some (.bool false, r)
  | _ + 1, "i" :: v :: r => v.toInt?.map fun n => (.num n, r)
  | _ + 1, "s" :: v :: r => (unhex v).map fun s => (.str s, r)
  | fuel + 1, "l" :: k :: r =>
    match k.toNat? with
    | some k => (pList fuel k r).map fun (xs, r') => (.list xs, r')
    | none => none
  | fuel + 1, "m" :: k :: r =>
    match k.toNat? with
    | some k => (pMap fuel k r).map fun (xs, r') => (.map xs, r')
    | none => none
  | _ + 1, _ => none
def pList : Nat → Nat → List String → Option (List Doc × List String)
  | 0, _, _ => none
  | _ + 1, 0, r => some ([], r)
  | fuel + 1, k + 1, r =>
    match pDoc fuel r with
    | some (d, r') => (pList fuel k r').map fun (ds, r'') => (d :: ds, r'')
    | none => none
def pMap : Nat → Nat → List String → Option (List (String × Doc) × List String)
  | 0, _, _ => none
  | _ + 1, 0, r => some ([], r)
  | fuel + 1, k + 1, key :: r =>
    match unhex key, pDoc fuel r with
    | some ks, some (d, r') => (pMap fuel k r').map fun (ds, r'') => ((ks, d) :: ds, r'')
    | _, _ => none
  | _ + 1, _ + 1, [] => none
end

def parseDoc (ts : List String) : Option (Doc × List String) := pDoc (2 * ts.length + 2) ts

mutual
def showDoc : Doc → List String
  | .null => ["n"]
  | .bool true => ["t"]
  | .bool false => ["f"]
  | .num n => ["i", toString n]
  | .str s => ["s", hex s]
  | .list xs => "l" :: toString xs.length :: showList xs
  | .map kvs => "m" :: toString kvs.length :: showMap kvs
def showList : List Doc → List String
  | [] => []
  | x :: xs => showDoc x ++ showList xs
def showMap : List (String × Doc) → List String
  | [] => []
  | (k, v) :: r => hex k :: (showDoc v ++ showMap r)
end

def insKey {α : Type} (k : String) (v : α) : List (String × α) → List (String × α)
  | [] => [(k, v)]
  | (k', v') :: r => if k < k' then (k, v) :: (k', v') :: r else (k', v') :: insKey k v r

def sortKeys {α : Type} (l : List (String × α)) : List (String × α) :=
  l.foldl (fun acc p => insKey p.1 p.2 acc) []

mutual
/-- canonical form: map entries sorted by key at every level -/
def canon : Doc → Doc
  | .list xs => .list (canonList xs)
  | .map kvs => .map (sortKeys (canonMap kvs))
  | d => d
def canonList : List Doc → List Doc
  | [] => []
  | x :: xs => canon x :: canonList xs
def canonMap : List (String × Doc) → List (String × Doc)
  | [] => []
  | (k, v) :: r => (k, canon v) :: canonMap r
end

mutual
def beqDoc : Doc → Doc → Bool
  | .null, .null => true
  | .bool a, .bool b => a == b
  | .num a, .num b => a == b
  | .str a, .str b => a == b
  | .list xs, .list ys => beqList xs ys
  | .map xs, .map ys => beqMap xs ys
  | _, _ => false
def beqList : List Doc → List Doc → Bool
  | [], [] => true
  | x :: xs, y :: ys => beqDoc x y && beqList xs ys
  | _, _ => false
def beqMap : List (String × Doc) → List (String × Doc) → Bool
  | [], [] => true
  | (k, x) :: xs, (k', y) :: ys => k == k' && beqDoc x y && beqMap xs ys
  | _, _ => false
end

/-! ### state -/

structure St where
  dots : List Doc := []                                  -- canonical forms, index = position
  parseTbl : List (String × Bool) := []
  execTbl : List (String × Nat × Option String) := []
  vals : List Val := []
  spec : Option Spec := none

def dotIndex (dots : List Doc) (d : Doc) : Option Nat :=
  let c := canon d
  (dots.zipIdx.find? fun p => beqDoc p.1 c).map (·.2)

/-- text/template as recorded from the real run. A string or (string, data) pair the harness
did not record counts as a failure, which surfaces as a difference. -/
def tt (st : St) : TextTemplate where
  parse s := (st.parseTbl.lookup s).getD false
  exec s dot :=
    match dotIndex st.dots dot with
    | none => none
    | some i =>
      match st.execTbl.find? fun r => r.1 == s && r.2.1 == i with
      | some r => r.2.2
      | none => none

/-- the enumeration order of `range m.children` used by the driver: reversed -/
def ord : Ord := List.reverse

def showErr : Err → String
  | .template => "template"
  | .unsupported => "unsupported"

/-! ### op parsers -/

def pRenderRows : Nat → List String → Option (List (Nat × Option String))
  | 0, [] => some []
  | k + 1, i :: "e" :: r =>
    match i.toNat?, pRenderRows k r with
    | some i, some rows => some ((i, none) :: rows)
    | _, _ => none
  | k + 1, i :: "o" :: t :: r =>
    match i.toNat?, unhex t, pRenderRows k r with
    | some i, some t, some rows => some ((i, some t) :: rows)
    | _, _, _ => none
  | _, _ => none

def pVals : Nat → List String → Option (List Val × List String)
  | 0, r => some ([], r)
  | k + 1, id :: ns :: name :: r =>
    match id.toNat?, unhex ns, unhex name, parseDoc r with
    | some id, some ns, some name, some (d, r') =>
      (pVals k r').map fun (vs, r'') => ({ id, ns, name, data := d } :: vs, r'')
    | _, _, _, _ => none
  | _, _ => none

def pEnv : Nat → List String → Option (List (String × Entry) × List String)
  | 0, r => some ([], r)
  | k + 1, key :: id :: name :: r =>
    match unhex key, id.toNat?, unhex name, parseDoc r with
    | some key, some id, some name, some (d, r') =>
      (pEnv k r').map fun (es, r'') => ((key, { id, name, data := d }) :: es, r'')
    | _, _, _, _ => none
  | _, _ => none

def showVals (vs : List Val) : List String :=
  toString vs.length :: vs.flatMap fun v => [toString v.id, hex v.ns, hex v.name] ++ showDoc v.data

def showEnv (es : List (String × Entry)) : List String :=
  toString es.length :: es.flatMap fun p => [hex p.1, toString p.2.id, hex p.2.name] ++ showDoc p.2.data

def showFields : Option (List (String × Doc)) → List String
  | none => ["N"]
  | some kvs => "F" :: toString kvs.length :: showMap kvs

def canonFields : Option (List (String × Doc)) → Option (List (String × Doc))
  | none => none
  | some kvs => some (sortKeys (canonMap kvs))

def canonEnv (es : List (String × Entry)) : List (String × Entry) :=
  sortKeys (es.map fun p => (p.1, { p.2 with data := canon p.2.data }))

def insStr (s : String) : List String → List String
  | [] => [s]
  | x :: r => if s < x then s :: x :: r else if s = x then x :: r else x :: insStr s r

/-- every entry's own failure class (sorted set); `none` when some entry panics -/
def failClasses (T : TextTemplate) (s : Spec) (vals : List Val) : Option (List String) :=
  s.env.foldl (fun acc p =>
    match acc, bindEntry T ord s.ns vals p.2 with
    | none, _ => none
    | _, .panic _ => none
    | some cs, .err e => some (insStr (showErr e) cs)
    | some cs, .ok _ => some cs) (some [])

def step (st : St) : List String → St × String
  | "dot" :: r =>
    match parseDoc r with
    | some (d, []) => ({ st with dots := st.dots ++ [canon d] }, joinSp ("ok" :: showDoc d))
    | _ => (st, "bad-op")
  | "render" :: s :: p :: k :: r =>
    match unhex s, p.toNat?, k.toNat? with
    | some s, some p, some k =>
      match pRenderRows k r with
      | some rows =>
        ({ st with parseTbl := (s, p == 1) :: st.parseTbl,
                   execTbl := rows.map (fun row => (s, row.1, row.2)) ++ st.execTbl }, "ok")
      | none => (st, "bad-op")
    | _, _, _ => (st, "bad-op")
  | "vals" :: k :: r =>
    match k.toNat? with
    | some k =>
      match pVals k r with
      | some (vs, []) => ({ st with vals := vs }, joinSp ("ok" :: showVals vs))
      | _ => (st, "bad-op")
    | none => (st, "bad-op")
  | "spec" :: ns :: k :: r =>
    match unhex ns, k.toNat? with
    | some ns, some k =>
      match pEnv k r with
      | some (env, ["N"]) =>
        let s : Spec := { ns, env, fields := none }
        ({ st with spec := some s }, joinSp ("ok" :: hex ns :: (showEnv env ++ showFields none)))
      | some (env, "F" :: j :: r') =>
        match j.toNat? with
        | some j =>
          match pMap (2 * r'.length + 2) j r' with
          | some (kvs, []) =>
            let s : Spec := { ns, env, fields := some kvs }
            ({ st with spec := some s }, joinSp ("ok" :: hex ns :: (showEnv env ++ showFields (some kvs))))
          | _ => (st, "bad-op")
        | none => (st, "bad-op")
      | _ => (st, "bad-op")
    | _, _ => (st, "bad-op")
  | ["bind"] =>
    match st.spec with
    | none => (st, "bad-op")
    | some s =>
      match bindSpec (tt st) ord s st.vals with
      | .ok s' => ({ st with spec := some s' }, joinSp ("ok" :: showEnv (canonEnv s'.env)))
      | .panic _ => (st, "panic")
      | .err _ =>
        match failClasses (tt st) s st.vals with
        | some cs => (st, "err " ++ "|".intercalate cs)
        | none => (st, "panic")
  | ["build"] =>
    match st.spec with
    | none => (st, "bad-op")
    | some s =>
      match build (tt st) ord s with
      | .ok s' => ({ st with spec := some s' }, joinSp ("ok" :: showFields (canonFields s'.fields)))
      | .err e => (st, "err " ++ showErr e)
      | .panic _ => (st, "panic")
  | "isbound" :: k :: r =>
    match st.spec, k.toNat?, r.mapM String.toNat? with
    | some s, some k, some idx =>
      if idx.length = k ∧ idx.all (· < st.vals.length) then
        let vs := idx.filterMap fun i => st.vals[i]?
        (st, if isBound s vs then "true" else "false")
      else (st, "bad-op")
    | _, _, _ => (st, "bad-op")
  | "tmpl" :: i :: r =>
    match i.toNat?, parseDoc r with
    | some i, some (d, []) =>
      match st.dots[i]? with
      | some dot =>
        match run (tt st) ord d dot with
        | .ok d' => (st, joinSp ("ok" :: showDoc (canon d')))
        | .err e => (st, "err " ++ showErr e)
        | .panic _ => (st, "panic")
      | none => (st, "bad-op")
    | _, _ => (st, "bad-op")
  | _ => (st, "bad-op")

def handler : Handler := { σ := St, init := {}, step := step }

end Uniflow.Driver.C18
