/-
Driver for C15: op sequences on map handles over `Uniflow.MapHeap`.
Handles are numbered in creation order (every handle-returning line allocates the next number).

  new | newi                    fresh mutable / immutable empty map          → <idx>
  newp <k> <v> <k> <v> …        types.NewMap(k, v, k, v, …): the pairs set one after the other (a repeated
                                key keeps its last value), ONE new immutable handle                 → <idx>
  set i <k> <v> | del i <k> | clear i | mut i | imm i
                                the Map method on handle i                   → <idx> same|fresh
                                (same = the method returned its receiver)
  get i <k>                     Get  (nil for a missing key)                 → value tokens
  has i <k>                     Has                                          → true|false
  len i                         Len                                          → n
  dump i                        the map in Range order                       → m n k v …
  keys i                        Keys, as sorted wire strings                 → k | k | …
-/
import Uniflow.Driver.Core
import Uniflow.Model.MapHeap

namespace Uniflow.Driver.C15
open Uniflow.Value Uniflow.MapHeap

structure St where
  hp : Heap := {}
  regs : Array Handle := #[]

def res (st : St) : Res → St × String
  | .ok hp h same => ({ hp, regs := st.regs.push h }, s!"{st.regs.size} {if same then "same" else "fresh"}")
  | .panic => (st, "panic")
  | .bad => (st, "bad-op")

def withH (st : St) (i : String) (f : Handle → St × String) : St × String :=
  match i.toNat? with
  | some i => match st.regs[i]? with
    | some h => f h
    | none => (st, "bad-op")
  | none => (st, "bad-op")

def withT (st : St) (i : String) (f : Table → String) : St × String :=
  withH st i fun h => match st.hp.content h with
    | some t => (st, f t)
    | none => (st, "bad-op")

/-- `NewMap(pairs…)` as map.go does it: `NewMapWithSize`, `Set` for every pair on that MUTABLE map, then
`Immutable()`; only the final handle is registered -/
def newPairs (hp : Heap) (h : Handle) : Nat → List String → Option (Heap × Handle)
  | _, [] => some (hp, h)
  | 0, _ => none
  | fuel + 1, toks =>
    match parseVal toks with
    | some (k, r') => match parseVal r' with
      | some (v, rest) => match hp.set h k v with
        | .ok hp' h' _ => newPairs hp' h' fuel rest
        | _ => none
      | none => none
    | none => none

def step (st : St) : List String → St × String
  | "newp" :: toks =>
    let (hp, h) := st.hp.newMut
    match newPairs hp h (toks.length + 1) toks with
    | some (hp', h') => match hp'.immutable h' with
      | .ok hp'' h'' _ => ({ hp := hp'', regs := st.regs.push h'' }, toString st.regs.size)
      | _ => (st, "bad-op")
    | none => (st, "bad-op")
  | ["new"] => let (hp, h) := st.hp.newMut; ({ hp, regs := st.regs.push h }, toString st.regs.size)
  | ["newi"] => let (hp, h) := st.hp.newImm; ({ hp, regs := st.regs.push h }, toString st.regs.size)
  | "set" :: i :: r =>
    match parseVal r with
    | some (k, r') => match parseVal r' with
      | some (v, []) => withH st i fun h => res st (st.hp.set h k v)
      | _ => (st, "bad-op")
    | none => (st, "bad-op")
  | "del" :: i :: r =>
    match parseVal r with
    | some (k, []) => withH st i fun h => res st (st.hp.delete h k)
    | _ => (st, "bad-op")
  | ["clear", i] => withH st i fun h => res st (st.hp.clear h)
  | ["mut", i] => withH st i fun h => res st (st.hp.mutable h)
  | ["imm", i] => withH st i fun h => res st (st.hp.immutable h)
  | "get" :: i :: r =>
    match parseVal r with
    | some (k, []) => withT st i fun t => match tLook t k with
      | .hit v => joinSp (printVal v)
      | .miss => "n"
      | .panic => "panic"
    | _ => (st, "bad-op")
  | "has" :: i :: r =>
    match parseVal r with
    | some (k, []) => withT st i fun t => match tLook t k with
      | .hit _ => "true"
      | .miss => "false"
      | .panic => "panic"
    | _ => (st, "bad-op")
  | ["len", i] => withT st i fun t => toString (tLen t)
  | ["dump", i] => withT st i fun t => joinSp (printVal (tVal t))
  | ["keys", i] => withT st i fun t =>
      " | ".intercalate (((tPairs t).map fun p => joinSp (printVal p.1)).mergeSort (fun a b => decide (a ≤ b)))
  | _ => (st, "bad-op")

def handler : Handler := { σ := St, init := {}, step := step }

end Uniflow.Driver.C15
