/-
Line-protocol plumbing shared by every per-property driver.

One input line = one operation, space separated tokens; one output line per input line.
A driver is a `Handler`: a state type, its initial value and a total `step`.
The line `reset` (handled generically in `Main`) restores the initial state, so a run
can carry many independent cases.
-/
namespace Uniflow.Driver

structure Handler where
  σ : Type
  init : σ
  step : σ → List String → σ × String

def tokens (line : String) : List String :=
  (line.splitOn " ").filter (fun t => t ≠ "")

def natTok (t : String) : Option Nat := t.toNat?

def intTok (t : String) : Option Int := t.toInt?

def joinSp (xs : List String) : String := " ".intercalate xs

end Uniflow.Driver
