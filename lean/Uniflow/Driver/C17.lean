/-
Driver for C17: runs `Uniflow.Group.decode` on table-defined decoders.

  new D T V r_0 … r_{D*T*V-1}   decoders as a result table, index (j*T + t)*V + v,
                                r ::= u | o<k> | e<k>            → "ok"
  dec t v                       decode source (type t, value v)   → o<k> | u | e<k> | nil
  asm C TT T V b… r…            a DecodeAssembler: C compilers in `Add` order, TT target types,
                                b = C*TT bits "compiler j compiles target type tt" (index j*TT+tt),
                                r = C*TT*T*V decoder results (index ((j*TT+tt)*T+t)*V+v) → "ok"
  adec tt t v                   assembler decode into target type tt                → result
-/
import Uniflow.Driver.Core
import Uniflow.Model.Group

namespace Uniflow.Driver.C17
open Uniflow.Group

structure St where
  d : Nat := 0
  t : Nat := 0
  v : Nat := 0
  tbl : Array (R Nat) := #[]
  cache : Cache := []
  -- assembler
  ac : Nat := 0
  att : Nat := 0
  bits : Array Bool := #[]
  memo : Memo := Memo.empty

def parseR (s : String) : Option (R Nat) :=
  if s = "u" then some .unsupported
  else if s.startsWith "o" then (s.drop 1).toNat?.map R.ok
  else if s.startsWith "e" then (s.drop 1).toNat?.map R.other
  else none

def showR : R Nat → String
  | .ok k => s!"o{k}"
  | .unsupported => "u"
  | .other e => s!"e{e}"
  | .noop => "nil"

def decoders (st : St) : List (Nat × Nat → R Nat) :=
  (List.range st.d).map fun j => fun (s : Nat × Nat) =>
    if s.1 < st.t ∧ s.2 < st.v then st.tbl.getD ((j * st.t + s.1) * st.v + s.2) .unsupported
    else .unsupported

/-- Compilers in assembler order: `Add` prepends, so the last added comes first. -/
def compilers (st : St) : List (Compiler (Nat × Nat) Nat) :=
  (List.range st.ac).foldl (fun cs j =>
    addCompiler cs (fun tt =>
      if tt < st.att ∧ st.bits.getD (j * st.att + tt) false then
        some (fun (s : Nat × Nat) =>
          if s.1 < st.t ∧ s.2 < st.v then st.tbl.getD (((j * st.att + tt) * st.t + s.1) * st.v + s.2) .unsupported
          else .unsupported)
      else none)) []

def parseBit (s : String) : Option Bool := if s = "1" then some true else if s = "0" then some false else none

def step (st : St) : List String → St × String
  | "new" :: d :: t :: v :: rs =>
    match d.toNat?, t.toNat?, v.toNat?, rs.mapM parseR with
    | some d, some t, some v, some rs =>
      if rs.length = d * t * v then ({ d, t, v, tbl := rs.toArray, cache := [] }, "ok")
      else (st, "bad-op")
    | _, _, _, _ => (st, "bad-op")
  | "asm" :: c :: tt :: t :: v :: rest =>
    match c.toNat?, tt.toNat?, t.toNat?, v.toNat? with
    | some c, some tt, some t, some v =>
      match (rest.take (c * tt)).mapM parseBit, (rest.drop (c * tt)).mapM parseR with
      | some bs, some rs =>
        if bs.length = c * tt ∧ rs.length = c * tt * t * v then
          ({ ac := c, att := tt, t, v, bits := bs.toArray, tbl := rs.toArray, memo := Memo.empty }, "ok")
        else (st, "bad-op")
      | _, _ => (st, "bad-op")
    | _, _, _, _ => (st, "bad-op")
  | ["adec", tt, t, v] =>
    match tt.toNat?, t.toNat?, v.toNat? with
    | some tt, some t, some v =>
      if tt < st.att ∧ t < st.t ∧ v < st.v then
        let (r, m) := asmDecode Prod.fst (compilers st) st.memo tt (t, v)
        ({ st with memo := m }, showR r)
      else (st, "bad-op")
    | _, _, _ => (st, "bad-op")
  | ["dec", t, v] =>
    match t.toNat?, v.toNat? with
    | some t, some v =>
      if t < st.t ∧ v < st.v then
        let (r, c) := decode Prod.fst (decoders st) st.cache (t, v)
        ({ st with cache := c }, showR r)
      else (st, "bad-op")
    | _, _ => (st, "bad-op")
  | _ => (st, "bad-op")

def handler : Handler := { σ := St, init := {}, step := step }

end Uniflow.Driver.C17
