/-
Driver for C16: runs `Uniflow.Codec.encode / decode` on a type descriptor and a value in prefix notation
(harness/c16/types.go documents the grammar).

  rt <T> <V>          encode the value, decode the document into a fresh T, re-encode
                      → E <doc> D <V'> R <doc'>   |  E <doc> X <error class>  |  E <doc> panic decode
  as <T> <V> <T2>     the same, decoding into T2 (typed spec ↔ spec.Unstructured)
  js <T> <V>          the same through the JSON form of the document
                      → E <doc> J <json doc> D <V'> R <doc'>  |  E <doc> J-unsupported | …

Lines that do not parse, types that are not well formed (`GoType.wf`) and values that do not have the type
(`hasType`) are rejected with `bad-op`.
-/
import Uniflow.Driver.Core
import Uniflow.Model.Codec
import Uniflow.Model.CodecJSON

namespace Uniflow.Driver.C16
open Uniflow.Value Uniflow.Codec

def widthOf (s : String) : Option Width :=
  if s = "" then some .native else if s = "8" then some .w8 else if s = "16" then some .w16
  else if s = "32" then some .w32 else if s = "64" then some .w64 else none

def modeOf (s : String) : Option FMode :=
  if s = "n" then some .named else if s = "o" then some .omit else if s = "i" then some .inline
  else if s = "x" then some .ignored else none

mutual
  def parseTyF : Nat → List String → Option (GoType × List String)
    | 0, _ => none
    | fuel + 1, toks =>
      match toks with
      | [] => none
      | t :: r =>
        -- `named T`: a declared named Go type with underlying type T encodes and decodes like T
        if t = "named" then parseTyF fuel r
        else if t = "f32" then some (.f32, r) else if t = "f64" then some (.f64, r)
        else if t = "str" then some (.str, r) else if t = "bool" then some (.bool, r)
        else if t = "bytes" then some (.bytes, r) else if t = "time" then some (.time, r)
        else if t = "dur" then some (.dur, r) else if t = "uuid" then some (.uuid, r)
        else if t = "any" then some (.any, r)
        else if t = "ptr" then (parseTyF fuel r).map fun (e, r') => (.ptr e, r')
        else if t = "slice" then (parseTyF fuel r).map fun (e, r') => (.slice e, r')
        else if t = "map" then (parseTyF fuel r).map fun (e, r') => (.map e, r')
        else if t = "barr" then
          match r with
          | n :: r' => n.toNat?.map fun n => (.barr n, r')
          | [] => none
        else if t = "arr" then
          match r with
          | n :: r' => n.toNat?.bind fun n => (parseTyF fuel r').map fun (e, r'') => (.arr n e, r'')
          | [] => none
        else if t = "struct" then
          match r with
          | n :: r' => n.toNat?.bind fun n => (parseFieldsF fuel n r').map fun (fs, r'') => (.struct fs, r'')
          | [] => none
        else if t.startsWith "uint" then (widthOf (t.drop 4).toString).map fun w => (.uint w, r)
        else if t.startsWith "int" then (widthOf (t.drop 3).toString).map fun w => (.int w, r)
        else none
  def parseFieldsF : Nat → Nat → List String → Option (Fields × List String)
    | 0, _, _ => none
    | _ + 1, 0, r => some (.nil, r)
    | fuel + 1, n + 1, r =>
      match r with
      | m :: a :: r' =>
        -- N / O: named / omitempty with the *default* alias: the harness sends the alias the Go side must derive from
        -- the field name (its own snake_case), followed by the field name, which the model does not need
        let (m, r') := if m = "N" then ("n", r'.drop 1) else if m = "O" then ("o", r'.drop 1) else (m, r')
        match modeOf m, unhex a, parseTyF fuel r' with
        | some mode, some alias, some (t, r'') =>
          (parseFieldsF fuel n r'').map fun (fs, r''') => (.cons mode alias t fs, r''')
        | _, _, _ => none
      | _ => none
end

mutual
  def parseGVF : Nat → GoType → List String → Option (GoVal × List String)
    | 0, _, _ => none
    | fuel + 1, t, toks =>
      match t, toks with
      | .int _, a :: r => a.toInt?.map fun v => (.int v, r)
      | .uint _, a :: r => a.toNat?.map fun v => (.uint v, r)
      | .f32, a :: r => a.toNat?.map fun v => (.f32 v, r)
      | .f64, a :: r => a.toNat?.map fun v => (.f64 v, r)
      | .str, a :: r => (unhex a).map fun s => (.str s, r)
      | .bool, a :: r => if a = "true" then some (.bool true, r) else if a = "false" then some (.bool false, r) else none
      | .bytes, a :: r => if a = "nil" then some (.bytesNil, r) else (unhex a).map fun s => (.bytes s, r)
      | .barr _, a :: r => (unhex a).map fun s => (.barr s, r)
      | .uuid, a :: r => (unhex a).map fun s => (.uuid s, r)
      | .time, a :: b :: r =>
        match a.toInt?, b.toNat? with
        | some ms, some lost => some (.time ms lost, r)
        | _, _ => none
      | .dur, a :: r => a.toInt?.map fun v => (.dur v, r)
      | .ptr e, a :: r =>
        if a = "nil" then some (.ptrNil, r)
        else if a = "&" then (parseGVF fuel e r).map fun (v, r') => (.ptr v, r')
        else none
      | .slice e, a :: r =>
        if a = "nil" then some (.sliceNil, r)
        else if a = "l" then
          match r with
          | n :: r' => n.toNat?.bind fun n => (parseGVsF fuel e n r').map fun (vs, r'') => (.slice vs, r'')
          | [] => none
        else none
      | .arr n e, r => (parseGVsF fuel e n r).map fun (vs, r') => (.arr vs, r')
      | .map e, a :: r =>
        if a = "nil" then some (.mapNil, r)
        else if a = "m" then
          match r with
          | n :: r' => n.toNat?.bind fun n => (parseKVsF fuel e n r').map fun (kvs, r'') => (.map kvs, r'')
          | [] => none
        else none
      | .struct fs, r => (parseStructF fuel fs r).map fun (vs, r') => (.struct vs, r')
      | .any, a :: r =>
        if a = "nil" then some (.anyNil, r)
        else if a = ":" then
          match parseTyF fuel r with
          | some (dt, r') => (parseGVF fuel dt r').map fun (v, r'') => (.any dt v, r'')
          | none => none
        else none
      | _, _ => none
  def parseGVsF : Nat → GoType → Nat → List String → Option (GoVals × List String)
    | 0, _, _, _ => none
    | _ + 1, _, 0, r => some (.nil, r)
    | fuel + 1, t, n + 1, r =>
      match parseGVF fuel t r with
      | some (v, r') => (parseGVsF fuel t n r').map fun (vs, r'') => (.cons v vs, r'')
      | none => none
  def parseKVsF : Nat → GoType → Nat → List String → Option (GoKVs × List String)
    | 0, _, _, _ => none
    | _ + 1, _, 0, r => some (.nil, r)
    | fuel + 1, t, n + 1, r =>
      match r with
      | k :: r' =>
        match unhex k, parseGVF fuel t r' with
        | some kb, some (v, r'') => (parseKVsF fuel t n r'').map fun (kvs, r''') => (.cons kb v kvs, r''')
        | _, _ => none
      | [] => none
  def parseStructF : Nat → Fields → List String → Option (GoVals × List String)
    | 0, _, _ => none
    | _ + 1, .nil, r => some (.nil, r)
    | fuel + 1, .cons _ _ t rest, r =>
      match parseGVF fuel t r with
      | some (v, r') => (parseStructF fuel rest r').map fun (vs, r'') => (.cons v vs, r'')
      | none => none
end

mutual
  def showTy : GoType → List String
    | .int w => ["int" ++ w.suffix] | .uint w => ["uint" ++ w.suffix]
    | .f32 => ["f32"] | .f64 => ["f64"] | .str => ["str"] | .bool => ["bool"] | .bytes => ["bytes"]
    | .barr n => ["barr", toString n] | .time => ["time"] | .dur => ["dur"] | .uuid => ["uuid"] | .any => ["any"]
    | .ptr t => "ptr" :: showTy t | .slice t => "slice" :: showTy t | .arr n t => "arr" :: toString n :: showTy t
    | .map t => "map" :: showTy t
    | .struct fs => "struct" :: toString (countF fs) :: showFields fs
  def showFields : Fields → List String
    | .nil => []
    | .cons m a t rest =>
      (match m with | .named => "n" | .omit => "o" | .inline => "i" | .ignored => "x") :: hexOf a :: (showTy t ++ showFields rest)
  def countF : Fields → Nat
    | .nil => 0
    | .cons _ _ _ rest => countF rest + 1
end

/-- insert by bytewise key order (`sort.Strings` of the harness) -/
def insertKey (k : Bytes) (toks : List String) : List (Bytes × List String) → List (Bytes × List String)
  | [] => [(k, toks)]
  | (k', t') :: rest => if cmpBytes k k' < 0 then (k, toks) :: (k', t') :: rest else (k', t') :: insertKey k toks rest

mutual
  def showGV : GoVal → List String
    | .int v => [toString v] | .uint v => [toString v] | .f32 b => [toString b] | .f64 b => [toString b]
    | .str s => [hexOf s] | .bool b => [if b then "true" else "false"]
    | .bytesNil => ["nil"] | .bytes bs => [hexOf bs] | .barr bs => [hexOf bs]
    | .time ms lost => [toString ms, toString lost] | .dur ns => [toString ns] | .uuid bs => [hexOf bs]
    | .ptrNil => ["nil"] | .ptr v => "&" :: showGV v
    | .sliceNil => ["nil"] | .slice xs => "l" :: toString xs.length :: showGVs xs
    | .arr xs => showGVs xs
    | .mapNil => ["nil"]
    | .map kvs =>
      let es := showKVs kvs []
      "m" :: toString es.length :: es.flatMap fun (k, t) => hexOf k :: t
    | .struct vs => showGVs vs
    | .anyNil => ["nil"]
    | .any t v => ":" :: (showTy t ++ showGV v)
  def showGVs : GoVals → List String
    | .nil => []
    | .cons v vs => showGV v ++ showGVs vs
  def showKVs : GoKVs → List (Bytes × List String) → List (Bytes × List String)
    | .nil, acc => acc
    | .cons k v kvs, acc => showKVs kvs (insertKey k (showGV v) acc)
end

def errName : Err → String
  | .unsupportedType => "unsupported-type"
  | .unsupportedValue => "unsupported-value"
  | .other => "other"

/-- the tail of an answer: decode `doc` into `dst`, print the value and its re-encoding -/
def decodePart (dst : GoType) (doc : Val) : List String :=
  match decode dst doc with
  | .ok v' => "D" :: (showGV v' ++ "R" :: printVal (encode dst v'))
  | .err e => ["X", errName e]
  | .panic => ["panic", "decode"]

def step (st : Unit) : List String → Unit × String
  | ["pt", ms, sub, off] =>
    -- the RFC 3339 text `MarshalText` gives a *time.Time (Model/CodecTime.lean)
    match ms.toInt?, sub.toNat?, off.toInt? with
    | some ms, some sub, some off =>
      match rfc3339 ms sub off with
      | some t => (st, "T " ++ hexOf t)
      | none => (st, "T none")
    | _, _, _ => (st, "bad-op")
  | op :: rest =>
    if op = "rt" ∨ op = "as" ∨ op = "js" then
      match parseTyF (rest.length + 2) rest with
      | some (t, r) =>
        match parseGVF (rest.length * 8 + 1000) t r with
        | some (v, r') =>
          let dst : Option GoType :=
            if op = "as" then
              match parseTyF (rest.length + 2) r' with
              | some (t2, []) => some t2
              | _ => none
            else if r'.isEmpty then some t else none
          match dst with
          | some t2 =>
            if t.wf ∧ t2.wf ∧ hasType t v then
              let doc := encode t v
              if op = "js" then
                match jsonForm doc with
                | some j => (st, joinSp ("E" :: printVal doc ++ "J" :: printVal j ++ decodePart t2 j))
                | none => (st, joinSp ("E" :: printVal doc ++ ["J-unsupported"]))
              else (st, joinSp ("E" :: printVal doc ++ decodePart t2 doc))
            else (st, "bad-op")
          | none => (st, "bad-op")
        | none => (st, "bad-op")
      | none => (st, "bad-op")
    else (st, "bad-op")
  | _ => (st, "bad-op")

def handler : Handler := { σ := Unit, init := (), step := step }

end Uniflow.Driver.C16
