/-
C02 – regenerated tie over Generated/FlowFuncs.lean (extract/funcs.go): the outline of EVERY function of the source
files named below – regenerated from /repo on every run – equals the transcript frozen here (bin/freeze_all.py, repo 7f54b88,
2026-10-01). A theorem that stops checking names the file whose code is no longer the code that was modelled; bin/check then
searches for a failing input.
-/
import Uniflow.Generated.FlowFuncs

set_option maxRecDepth 16384 in
/-- pkg/packet/tracer.go as modelled (part 1 of 3): its declarations (in source order) and the outline of each -/
theorem C02.src_packet_tracer_as_modelled_1 :
    Uniflow.Generated.FlowFuncs.o_packet_tracer_fn_NewTracer = [
      "return &Tracer{ hooks: make(map[uuid.UUID]Hooks), sources: make(map[uuid.UUID][]*Packet), targets: make(map[uuid.UUID][]*Packet), receives: make(map[uuid.UUID][]*Packet), reads: make(map[*Reader][]*Packet), writes: make(map[*Writer][]*Packet), reader: make(map[uuid.UUID]*Reader), }"
    ] ∧
    Uniflow.Generated.FlowFuncs.o_packet_tracer_Tracer_Dispatch = [
      "t.mu.Lock()",
      "defer t.mu.Unlock()",
      "t.hooks[pck.ID()] = append(t.hooks[pck.ID()], hook)"
    ] ∧
    Uniflow.Generated.FlowFuncs.o_packet_tracer_Tracer_Links = [
      "t.mu.RLock()",
      "defer t.mu.RUnlock()",
      "if source != nil && target != nil",
      "  queue := [][]*Packet{{source}}",
      "  visited := make(map[uuid.UUID]bool)",
      "  visited[source.ID()] = true",
      "  for len(queue) > 0",
      "    path := queue[0]",
      "    queue = queue[1:]",
      "    last := path[len(path)-1]",
      "    if last.ID() == target.ID()",
      "      return path",
      "    for _, next := range t.targets[last.ID()]",
      "      if !visited[next.ID()]",
      "        visited[next.ID()] = true",
      "        path = append(path, next)",
      "        queue = append(queue, path)",
      "  return nil",
      "var start *Packet",
      "var links map[uuid.UUID][]*Packet",
      "if source != nil",
      "  start = source",
      "  links = t.targets",
      "else",
      "  if target != nil",
      "    start = target",
      "    links = t.sources",
      "  else",
      "    return nil",
      "queue := []*Packet{start}",
      "visited := make(map[uuid.UUID]bool)",
      "visited[start.ID()] = true",
      "var path []*Packet",
      "for len(queue) > 0",
      "  curr := queue[0]",
      "  queue = queue[1:]",
      "  path = append(path, curr)",
      "  for _, next := range links[curr.ID()]",
      "    if !visited[next.ID()]",
      "      visited[next.ID()] = true",
      "      queue = append(queue, next)",
      "return path"
    ] ∧
    Uniflow.Generated.FlowFuncs.o_packet_tracer_Tracer_Link = [
      "t.mu.Lock()",
      "defer t.mu.Unlock()",
      "if source == nil || target == nil || source == target",
      "  return",
      "t.sources[target.ID()] = append(t.sources[target.ID()], source)",
      "t.targets[source.ID()] = append(t.targets[source.ID()], target)",
      "t.receives[source.ID()] = append(t.receives[source.ID()], nil)"
    ] ∧
    Uniflow.Generated.FlowFuncs.o_packet_tracer_Tracer_Reads = [
      "t.mu.RLock()",
      "defer t.mu.RUnlock()",
      "return append([]*Packet(nil), t.reads[reader]...)"
    ] ∧
    Uniflow.Generated.FlowFuncs.o_packet_tracer_Tracer_Read = [
      "t.mu.Lock()",
      "defer t.mu.Unlock()",
      "t.reads[reader] = append(t.reads[reader], pck)",
      "t.reader[pck.ID()] = reader"
    ] ∧
    Uniflow.Generated.FlowFuncs.o_packet_tracer_Tracer_Writes = [
      "t.mu.RLock()",
      "defer t.mu.RUnlock()",
      "return append([]*Packet(nil), t.writes[writer]...)"
    ] ∧
    Uniflow.Generated.FlowFuncs.o_packet_tracer_Tracer_Write = [
      "t.mu.Lock()",
      "defer t.mu.Unlock()",
      "if writer != nil && writer.Write(pck) > 0",
      "  t.writes[writer] = append(t.writes[writer], pck)",
      "  t.receives[pck.ID()] = append(t.receives[pck.ID()], nil)",
      "else",
      "  t.receive(pck, pck)",
      "  t.resolve(pck)"
    ] ∧
    Uniflow.Generated.FlowFuncs.o_packet_tracer_Tracer_Receives = [
      "t.mu.RLock()",
      "defer t.mu.RUnlock()",
      "return append([]*Packet(nil), t.receives[pck.ID()]...)"
    ] := by
  decide

set_option maxRecDepth 16384 in
/-- pkg/node/onetomany.go as modelled: its declarations (in source order) and the outline of each -/
theorem C02.src_node_onetomany_as_modelled :
    Uniflow.Generated.FlowFuncs.o_node_onetomany_fn_NewOneToManyNode = [
      "n := &OneToManyNode{ action: action, tracer: packet.NewTracer(), inPort: port.NewIn(), outPorts: nil, errPort: port.NewOut(), }",
      "if n.action != nil",
      "  n.inPort.AddListener(port.ListenFunc(n.forward))",
      "  n.errPort.AddListener(port.ListenFunc(n.catch))",
      "return n"
    ] ∧
    Uniflow.Generated.FlowFuncs.o_node_onetomany_OneToManyNode_In = [
      "n.mu.RLock()",
      "defer n.mu.RUnlock()",
      "switch name",
      "  case PortIn",
      "    return n.inPort",
      "  default",
      "    return nil"
    ] ∧
    Uniflow.Generated.FlowFuncs.o_node_onetomany_OneToManyNode_Out = [
      "n.mu.Lock()",
      "defer n.mu.Unlock()",
      "if name == PortError",
      "  return n.errPort",
      "if NameOfPort(name) == PortOut",
      "  index, _ := IndexOfPort(name)",
      "  for i := 0; i <= index; i++",
      "    if len(n.outPorts) <= i",
      "      outPort := port.NewOut()",
      "      n.outPorts = append(n.outPorts, outPort)",
      "      if n.action != nil",
      "        outPort.AddListener(n.backward(i))",
      "  return n.outPorts[index]",
      "return nil"
    ] ∧
    Uniflow.Generated.FlowFuncs.o_node_onetomany_OneToManyNode_Close = [
      "n.mu.RLock()",
      "defer n.mu.RUnlock()",
      "n.inPort.Close()",
      "for _, outPort := range n.outPorts",
      "  outPort.Close()",
      "n.errPort.Close()",
      "n.tracer.Close()",
      "return nil"
    ] ∧
    Uniflow.Generated.FlowFuncs.o_node_onetomany_OneToManyNode_forward = [
      "n.mu.RLock()",
      "defer n.mu.RUnlock()",
      "inReader := n.inPort.Open(proc)",
      "outWriters := make([]*packet.Writer, len(n.outPorts))",
      "var errWriter *packet.Writer",
      "for inPck := range inReader.Read()",
      "  n.tracer.Read(inReader, inPck)",
      "  if outPcks, errPck := n.action(proc, inPck); errPck != nil",
      "    if errWriter == nil",
      "      errWriter = n.errPort.Open(proc)",
      "    errPck = derive(errPck, inPck)",
      "    n.tracer.Link(inPck, errPck)",
      "    n.tracer.Write(errWriter, errPck)",
      "  else",
      "    outPcks = slices.Clone(outPcks)",
      "    for i, outPck := range outPcks",
      "      if i < len(outWriters) && outPck != nil",
      "        outPcks[i] = derive(outPck, append(outPcks[:i:i], inPck)...)",
      "        n.tracer.Link(inPck, outPcks[i])",
      "    count := 0",
      "    for i, outPck := range outPcks",
      "      if i < len(outWriters) && outPck != nil",
      "        if outWriters[i] == nil",
      "          outWriters[i] = n.outPorts[i].Open(proc)",
      "        n.tracer.Write(outWriters[i], outPck)",
      "        count++",
      "    if count == 0",
      "      n.tracer.Write(nil, inPck)",
      "for _, outWriter := range outWriters",
      "  n.tracer.Drop(outWriter)",
      "n.tracer.Drop(errWriter)"
    ] ∧
    Uniflow.Generated.FlowFuncs.o_node_onetomany_OneToManyNode_backward = [
      "outPort := n.outPorts[index]",
      "return port.ListenFunc(func#1)",
      "func#1(proc *process.Process)",
      "  outWriter := outPort.Open(proc)",
      "  for backPck := range outWriter.Receive()",
      "    n.tracer.Receive(outWriter, backPck)",
      "  n.tracer.Drop(outWriter)"
    ] ∧
    Uniflow.Generated.FlowFuncs.o_node_onetomany_OneToManyNode_catch = [
      "errWriter := n.errPort.Open(proc)",
      "for backPck := range errWriter.Receive()",
      "  n.tracer.Receive(errWriter, backPck)",
      "n.tracer.Drop(errWriter)"
    ] ∧
    Uniflow.Generated.FlowFuncs.names_node_onetomany = ["fn.NewOneToManyNode", "OneToManyNode.In", "OneToManyNode.Out", "OneToManyNode.Close", "OneToManyNode.forward", "OneToManyNode.backward", "OneToManyNode.catch"] := by
  decide

set_option maxRecDepth 16384 in
/-- pkg/packet/tracer.go as modelled (part 2 of 3): its declarations (in source order) and the outline of each -/
theorem C02.src_packet_tracer_as_modelled_2 :
    Uniflow.Generated.FlowFuncs.o_packet_tracer_Tracer_Receive = [
      "t.mu.Lock()",
      "defer t.mu.Unlock()",
      "writes := t.writes[writer]",
      "if len(writes) == 0",
      "  return",
      "write := writes[0]",
      "t.writes[writer] = writes[1:]",
      "if len(t.writes[writer]) == 0",
      "  delete(t.writes, writer)",
      "if pck != nil",
      "  t.receive(write, pck)",
      "else",
      "  t.discard(write)",
      "t.resolve(write)"
    ] ∧
    Uniflow.Generated.FlowFuncs.o_packet_tracer_Tracer_Drop = [
      "t.mu.Lock()",
      "defer t.mu.Unlock()",
      "writes := t.writes[writer]",
      "delete(t.writes, writer)",
      "for _, write := range writes",
      "  t.receive(write, New(ErrDroppedPacket))",
      "  t.resolve(write)"
    ] ∧
    Uniflow.Generated.FlowFuncs.o_packet_tracer_Tracer_Close = [
      "t.mu.Lock()",
      "defer t.mu.Unlock()",
      "for _, reader := range t.reader",
      "  reader.Receive(New(ErrDroppedPacket))",
      "t.hooks = make(map[uuid.UUID]Hooks)",
      "t.sources = make(map[uuid.UUID][]*Packet)",
      "t.targets = make(map[uuid.UUID][]*Packet)",
      "t.receives = make(map[uuid.UUID][]*Packet)",
      "t.reads = make(map[*Reader][]*Packet)",
      "t.writes = make(map[*Writer][]*Packet)",
      "t.reader = make(map[uuid.UUID]*Reader)"
    ] ∧
    Uniflow.Generated.FlowFuncs.o_packet_tracer_Tracer_receive = [
      "receives := t.receives[source.ID()]",
      "for i := 0; i < len(receives); i++",
      "  if receives[i] == nil",
      "    receives[i] = target",
      "    return",
      "t.receives[source.ID()] = append(receives, target)"
    ] ∧
    Uniflow.Generated.FlowFuncs.o_packet_tracer_Tracer_discard = [
      "receives := t.receives[source.ID()]",
      "for i := 0; i < len(receives); i++",
      "  if receives[i] == nil",
      "    t.receives[source.ID()] = append(receives[:i], receives[i+1:]...)",
      "    return"
    ] := by
  decide

set_option maxRecDepth 16384 in
/-- pkg/port/pipe.go as modelled: its declarations (in source order) and the outline of each -/
theorem C02.src_port_pipe_as_modelled :
    Uniflow.Generated.FlowFuncs.o_port_pipe_fn_Pipe = [
      "inPort, outPort := NewIn(), NewOut()",
      "tracer := packet.NewTracer()",
      "inPort.AddListener(ListenFunc(func#1))",
      "func#1(proc *process.Process)",
      "  reader := inPort.Open(proc)",
      "  var writer *packet.Writer",
      "  for inPck := range reader.Read()",
      "    if writer == nil",
      "      writer = outPort.Open(proc)",
      "    tracer.Read(reader, inPck)",
      "    tracer.Write(writer, inPck)",
      "  tracer.Drop(writer)",
      "outPort.AddListener(ListenFunc(func#2))",
      "func#2(proc *process.Process)",
      "  writer := outPort.Open(proc)",
      "  for backPck := range writer.Receive()",
      "    tracer.Receive(writer, backPck)",
      "  tracer.Drop(writer)",
      "return inPort, outPort"
    ] ∧
    Uniflow.Generated.FlowFuncs.names_port_pipe = ["fn.Pipe"] := by
  decide

