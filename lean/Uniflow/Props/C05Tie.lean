/-
C05Tie – re-statement, under this property's name, of regenerated-source tie theorems proved in
C04Tie C01Tie (the property's model rests on the same source facts; `bin/check` builds and audits only
Props/<this property>*.lean, so without this file a source change that breaks these ties would be
reported for the other property only). Each theorem below has the SAME statement (type_of%) as the
theorem it cites and is proved by it.
-/
import Uniflow.Props.C04Tie
import Uniflow.Props.C01Tie

theorem C05.add_hook_facts : type_of% C04.add_hook_facts := C04.add_hook_facts
theorem C05.add_hook_as_modelled : type_of% C04.add_hook_as_modelled := C04.add_hook_as_modelled
theorem C05.exit_flip_as_modelled : type_of% C04.exit_flip_as_modelled := C04.exit_flip_as_modelled
theorem C05.close_loops_as_modelled : type_of% C01.close_loops_as_modelled := C01.close_loops_as_modelled
