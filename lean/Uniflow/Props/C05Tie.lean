/-
C05Tie – re-statement, under this property's name, of regenerated-source tie theorems proved in
C04Tie C01Tie (the property's model rests on the same source facts; `bin/check` builds and audits only
Props/<this property>*.lean, so without this file a source change that breaks these ties would be
reported for the other property only). Each theorem below has the SAME statement (type_of%) as the
theorem it cites and is proved by it.
-/
import Uniflow.Props.C04Tie
import Uniflow.Props.C01Tie
import Uniflow.Model.Lockset

theorem C05.add_hook_facts : type_of% C04.add_hook_facts := C04.add_hook_facts
theorem C05.add_hook_as_modelled : type_of% C04.add_hook_as_modelled := C04.add_hook_as_modelled
theorem C05.exit_flip_as_modelled : type_of% C04.exit_flip_as_modelled := C04.exit_flip_as_modelled
theorem C05.close_loops_as_modelled : type_of% C01.close_loops_as_modelled := C01.close_loops_as_modelled

/-! ### call-outs of `process.Local` happen outside every critical section of `l.mu`

`Generated/Locks.lean` is regenerated from the source by the extractor on every run; `calls` lists
every call a method of a locked type makes, with the own mutexes held at the call. The model
(`Uniflow.Local`) runs user hooks, the lazy initialiser, `AddExitHook` and the hook-side `Delete`
with `l.mu` released (`C05.hooks_run_unlocked`); this is the source-level counterpart. The same facts
feed C20's `callouts_as_reviewed` (which flags a new call-out under a lock for any type); it is
re-stated here for `process.Local` so that a change like the pinned `Store` (5790134) or seeded change
c05e (hook called under `l.mu.RLock()`) breaks a theorem of THIS property. -/

open Uniflow.Generated.Locks in
/-- No method of `process.Local` makes any call – to a store hook, the initialiser, `AddExitHook`,
its own `Delete` – while holding `l.mu` (read or write). -/
theorem C05.local_calls_out_unlocked :
    (calls.filter (fun c => c.typ == "process.Local")).all (fun c => c.held.isEmpty && c.heldExcl.isEmpty) = true := by
  decide

open Uniflow.Generated.Locks in
/-- … and the table does see those calls (the statement above is not vacuous): the hook call of
`AddStoreHook`, the fetched hooks of `Store` and `LoadOrStore`, the initialiser, `AddExitHook`. -/
theorem C05.local_calls_out_present :
    [("AddStoreHook", "dyn:process.StoreHook.Store"), ("Store", "process.StoreHooks.Store"),
     ("LoadOrStore", "process.StoreHooks.Store"), ("LoadOrStore", "process.lazy.Do"),
     ("Store", "process.Process.AddExitHook"), ("LoadOrStore", "process.Process.AddExitHook")].all
      (fun mc => calls.any (fun c => c.typ == "process.Local" && c.meth == mc.1 && c.callee == mc.2)) = true := by
  decide
