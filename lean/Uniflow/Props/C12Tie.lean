/-
C12 – theorems that tie the store model to a fact table regenerated from pkg/store/segment.go, store.go and helper.go
on every run (extract/store.go → Generated/StoreFacts.lean).

* `segment.Store` / `Swap` / `Delete` are extracted as *phases* – one classified string per top-level statement: an
  early failure with its error, a pass over ALL indexes (`each-index: conflict(doc)`, `each-index: unindex(old.value),
  index(doc)`) or the statement's text. `C12.segment_phases_as_modelled` pins the three lists; `C12.runPhases` runs a
  phase list on the model's segment state, and `C12.store_as_modelled` / `C12.swap_as_modelled` /
  `C12.delete_as_modelled` prove that running the regenerated lists is the model's `segStore` / `segSwap` /
  `segDelete` for every state and document. The property's core – the pre-check pass over every index comes before the
  first write – is thereby a fact about the source: moving the write up, skipping an index in the pre-check, or
  `continue`-ing inside the maintenance pass changes the regenerated list and these theorems stop checking.
* `section.Range` (ids collected in a B-tree keyed by id: each document once, in id order), `section.Scan` (which
  indexes are walked, the two walks and their stop tests).
* `store.Find`: `s.find(f)` sees the filter only and its scan loop has no `break`; sort; then the window arithmetic,
  extracted statement by statement and run on 64-bit integers with explicit wrap-around (`C12.windowBy`) – equal to the
  model's `window` for every skip, limit and length an `int` can hold; the earlier shape overflowed (`C12.pinned_window_overflows`).
* `patch` works on `doc.Immutable().Mutable()` (a private copy also of a mutable document) and returns `doc.Immutable()`.
* outlines of the functions the model follows statement by statement (`conflict`, `index`, `unindex`, `segment.Index`
  with its rollback, `section.Scan`, `section.Range`, `Find`, `find`, `patch`).
-/
import Uniflow.Generated.StoreFacts
import Uniflow.Model.Index

open Uniflow.Value Uniflow.Store Uniflow.Index Uniflow.Generated.StoreFacts

namespace C12

/-- what a segment method has in hand while it runs: the state, the document, `id`, and the entry found
(`old` / `l` with `ok`) -/
structure Ctx where
  s : State
  doc : PList
  id : Val
  old : Option PList

inductive Step where
  | next (c : Ctx)
  | done (m : Mut)
  | bad

/-- a pass over ALL indexes with `f`, stopping at the first failure (indexes already processed keep their new content) -/
def eachIndex (c : Ctx) (f : Index → Res Index) : Step :=
  match mapIdx f c.s.indexes with
  | (idxs, none) => .next { c with s := { c.s with indexes := idxs } }
  | (idxs, some r) => .done ({ c.s with indexes := idxs }, some r)

/-- one phase of `segment.Store` / `Swap` / `Delete` (Generated/StoreFacts `segment…Phases`) on the model's state -/
def phase (ph : String) (c : Ctx) : Step :=
  if ph = "s.mu.Lock()" ∨ ph = "defer s.mu.Unlock()" then .next c
  else if ph = "id := doc.Get(types.NewString(\"id\"))" then .next { c with id := mget c.doc keyId }
  else if ph = "fail-if id == nil: ErrKeyMissing" then
    (if isNil c.id then .done (failE c.s .keyMissing) else .next c)
  else if ph = "fail-if s.entries.Has(&entry{key: id}): ErrKeyDuplicate" then
    (if (getDoc c.s.docs c.id).isSome then .done (failE c.s .keyDuplicate) else .next c)
  else if ph = "old, ok := s.entries.Get(&entry{key: id})" then .next { c with old := getDoc c.s.docs c.id }
  else if ph = "l, ok := s.entries.Delete(&entry{key: id})" then
    .next { c with old := getDoc c.s.docs c.id, s := { c.s with docs := delDoc c.s.docs c.id } }
  else if ph = "fail-if !ok: ErrKeyNotFound" then
    (match c.old with | none => .done (failE c.s .keyNotFound) | some _ => .next c)
  else if ph = "each-index: conflict(doc)" then
    (match firstConflict c.doc c.s.indexes with | some e => .done (failE c.s e) | none => .next c)
  else if ph = "s.entries.ReplaceOrInsert(&entry{key: id, value: doc})" then
    .next { c with s := { c.s with docs := putDoc c.s.docs c.id c.doc } }
  else if ph = "each-index: index(doc)" then eachIndex c fun idx => index idx c.doc
  else if ph = "each-index: unindex(old.value), index(doc)" then
    (match c.old with
     | some old => eachIndex c fun idx => (unindex idx old).bind fun idx' => index idx' c.doc
     | none => .bad)
  else if ph = "each-index: unindex(l.value)" then
    (match c.old with | some old => eachIndex c fun idx => unindex idx old | none => .bad)
  else if ph = "return nil" then .done (c.s, none)
  else .bad

def runPhases : List String → Ctx → Option Mut
  | [], _ => none
  | ph :: rest, c =>
    match phase ph c with
    | .next c' => runPhases rest c'
    | .done m => some m
    | .bad => none
end C12

theorem C12.segment_phases_as_modelled :
    segmentStorePhases = [
      "s.mu.Lock()", "defer s.mu.Unlock()",
      "id := doc.Get(types.NewString(\"id\"))",
      "fail-if id == nil: ErrKeyMissing",
      "fail-if s.entries.Has(&entry{key: id}): ErrKeyDuplicate",
      "each-index: conflict(doc)",
      "s.entries.ReplaceOrInsert(&entry{key: id, value: doc})",
      "each-index: index(doc)",
      "return nil"] ∧
    segmentSwapPhases = [
      "s.mu.Lock()", "defer s.mu.Unlock()",
      "id := doc.Get(types.NewString(\"id\"))",
      "fail-if id == nil: ErrKeyMissing",
      "old, ok := s.entries.Get(&entry{key: id})",
      "fail-if !ok: ErrKeyNotFound",
      "each-index: conflict(doc)",
      "s.entries.ReplaceOrInsert(&entry{key: id, value: doc})",
      "each-index: unindex(old.value), index(doc)",
      "return nil"] ∧
    segmentDeletePhases = [
      "s.mu.Lock()", "defer s.mu.Unlock()",
      "l, ok := s.entries.Delete(&entry{key: id})",
      "fail-if !ok: ErrKeyNotFound",
      "each-index: unindex(l.value)",
      "return nil"] := by
  decide

theorem C12.store_as_modelled (s : State) (doc : PList) :
    C12.runPhases segmentStorePhases ⟨s, doc, .nil, none⟩ = some (segStore s doc) := by
  have h : segmentStorePhases = [
      "s.mu.Lock()", "defer s.mu.Unlock()",
      "id := doc.Get(types.NewString(\"id\"))",
      "fail-if id == nil: ErrKeyMissing",
      "fail-if s.entries.Has(&entry{key: id}): ErrKeyDuplicate",
      "each-index: conflict(doc)",
      "s.entries.ReplaceOrInsert(&entry{key: id, value: doc})",
      "each-index: index(doc)",
      "return nil"] := by decide
  rw [h]
  simp only [C12.runPhases, C12.phase]
  simp (config := { decide := true }) only [if_true, if_false]
  unfold segStore
  by_cases h1 : isNil (mget doc keyId) = true
  · simp [h1]
  · by_cases h2 : (getDoc s.docs (mget doc keyId)).isSome = true
    · simp [h1, h2]
    · cases h3 : firstConflict doc s.indexes with
      | some e => simp [h1, h2, h3]
      | none =>
        simp only [h1, h2, h3, if_false, Bool.false_eq_true]
        simp only [C12.eachIndex]
        cases h4 : mapIdx (fun idx => index idx doc) s.indexes with
        | mk idxs e => cases e <;> simp

theorem C12.swap_as_modelled (s : State) (doc : PList) :
    C12.runPhases segmentSwapPhases ⟨s, doc, .nil, none⟩ = some (segSwap s doc) := by
  have h : segmentSwapPhases = [
      "s.mu.Lock()", "defer s.mu.Unlock()",
      "id := doc.Get(types.NewString(\"id\"))",
      "fail-if id == nil: ErrKeyMissing",
      "old, ok := s.entries.Get(&entry{key: id})",
      "fail-if !ok: ErrKeyNotFound",
      "each-index: conflict(doc)",
      "s.entries.ReplaceOrInsert(&entry{key: id, value: doc})",
      "each-index: unindex(old.value), index(doc)",
      "return nil"] := by decide
  rw [h]
  simp only [C12.runPhases, C12.phase]
  simp (config := { decide := true }) only [if_true, if_false]
  unfold segSwap
  by_cases h1 : isNil (mget doc keyId) = true
  · simp [h1]
  · cases h2 : getDoc s.docs (mget doc keyId) with
    | none => simp [h1, h2]
    | some old =>
      cases h3 : firstConflict doc s.indexes with
      | some e => simp [h1, h2, h3]
      | none =>
        simp only [h1, h2, h3, if_false, Bool.false_eq_true]
        simp only [C12.eachIndex]
        cases h4 : mapIdx (fun idx => (unindex idx old).bind fun idx' => index idx' doc) s.indexes with
        | mk idxs e => cases e <;> simp

theorem C12.delDoc_absent (docs : List (Val × PList)) (id : Val) (h : getDoc docs id = none) : delDoc docs id = docs := by
  induction docs with
  | nil => rfl
  | cons x xs ih =>
    obtain ⟨i, e⟩ := x
    by_cases hc : cmp i id = 0
    · simp [getDoc, hc] at h
    · simp [getDoc, hc] at h
      simp [delDoc, hc, ih h]

theorem C12.delete_as_modelled (s : State) (id : Val) :
    C12.runPhases segmentDeletePhases ⟨s, PList.nil, id, none⟩ = some (segDelete s id) := by
  have h : segmentDeletePhases = [
      "s.mu.Lock()", "defer s.mu.Unlock()",
      "l, ok := s.entries.Delete(&entry{key: id})",
      "fail-if !ok: ErrKeyNotFound",
      "each-index: unindex(l.value)",
      "return nil"] := by decide
  rw [h]
  simp only [C12.runPhases, C12.phase]
  simp (config := { decide := true }) only [if_true, if_false]
  unfold segDelete
  cases h2 : getDoc s.docs id with
  | none => simp [failE, C12.delDoc_absent _ _ h2]
  | some old =>
    simp only [C12.eachIndex]
    cases h4 : mapIdx (fun idx => unindex idx old) s.indexes with
    | mk idxs e => cases e <;> simp

/-! ## `section.Range` / `Scan` -/

theorem C12.range_scan_facts :
    rangeCollector = "btree.NewG[*entry](2, func#1)" ∧
    rangeCollect = "entries.ReplaceOrInsert(e)" ∧
    rangeYield = "entries.Ascend(func#1); func#1(e *entry) bool; return yield(e.key, e.value)" ∧
    rangeHeads = ["s.mu.RLock()", "defer s.mu.RUnlock()", "var indexes []*index", "curr := s.indexes", "for",
      "entries := btree.NewG[*entry](2, func#1)", "for _, idx := range indexes", "return func#1"] ∧
    scanLoopHeader = "range s.indexes" ∧
    scanSkip = "len(idx.Keys) == 0 || idx.Keys[0] != key" ∧
    scanBranch = "max != nil" ∧
    scanWalks = [
      ("idx.nodes.DescendLessOrEqual(&node{key: max})", "min != nil && types.Compare(n.key, min) < 0"),
      ("idx.nodes.AscendGreaterOrEqual(&node{key: min})", "max != nil && types.Compare(n.key, max) > 0")] := by
  decide

/-- `section.Range` collects the entries of the leaves in a B-tree keyed by id (`ReplaceOrInsert`: an id reached
through several leaves is kept once) and yields that tree in ascending order – the model's `rangeSection` yields a
sub-list of the stored documents (each at most once, in id order). -/
theorem C12.range_dedups_as_modelled (docs : List (Val × PList)) (cur : Section) (r : List PList)
    (h : rangeSection docs cur = some r) :
    rangeCollector = "btree.NewG[*entry](2, func#1)" ∧ rangeCollect = "entries.ReplaceOrInsert(e)" ∧
    List.Sublist r (docs.map (·.2)) := by
  refine ⟨by decide, by decide, ?_⟩
  unfold rangeSection at h
  simp only at h
  split at h
  · cases h
    exact List.Sublist.map _ List.filter_sublist
  · cases h

/-! ## `store.Find` -/

/-! Go's `int` (amd64) is a 64-bit two's-complement number: the statements are run on `Int` with every addition and
subtraction reduced by `wrap`, so an overflow is *visible* to the interpreter (an earlier version of this tie ran the
statements on naturals and could not see the overflow of `limit = skip + limit`, which panicked for `Skip > 0` and a
`Limit` near `math.MaxInt`; `C12.pinned_window_overflows` replays it). -/

/-- the value an `int` operation yields for the mathematical result `x` -/
def C12.wrap (x : Int) : Int := (x + 9223372036854775808) % 18446744073709551616 - 9223372036854775808

/-- `if x > len(docs) { x = len(docs) }` and `if x == 0 { x = len(docs) }` -/
def C12.clampTo (n x : Int) : Int := if x > n then n else x
def C12.defaultTo (n x : Int) : Int := if x = 0 then n else x
/-- `if x == 0 || x > len(docs)-y { x = len(docs) - y }` -/
def C12.restTo (n x y : Int) : Int := if x = 0 ∨ x > C12.wrap (n - y) then C12.wrap (n - y) else x
/-- `docs = docs[a:b]` (Go panics unless 0 ≤ a ≤ b ≤ len) -/
def C12.sliceDocs (a b : Int) (docs : List PList) : Option (List PList) :=
  if 0 ≤ a ∧ a ≤ b ∧ b ≤ docs.length then some ((docs.take b.toNat).drop a.toNat) else none

inductive C12.WStep where
  | next (skip limit : Int)
  | done (r : Option (List PList))

/-- one statement of `Find` between the sort and the return, on (skip, limit); `none` = panic or unknown statement.
Both the present statements and those of the earlier shape are interpreted. -/
def C12.windowStep (st : String) (skip limit : Int) (docs : List PList) : C12.WStep :=
  if st = "clamp:skip" then .next (C12.clampTo docs.length skip) limit
  else if st = "rest:limit,skip" then .next skip (C12.restTo docs.length limit skip)
  else if st = "slice:skip,skip + limit" then .done (C12.sliceDocs skip (C12.wrap (skip + limit)) docs)
  else if st = "default:limit" then .next skip (C12.defaultTo docs.length limit)
  else if st = "add:limit,skip" then .next skip (C12.wrap (skip + limit))
  else if st = "clamp:limit" then .next skip (C12.clampTo docs.length limit)
  else if st = "slice:skip,limit" then .done (C12.sliceDocs skip limit docs)
  else .done none

def C12.windowBy : List String → Int → Int → List PList → Option (List PList)
  | [], _, _, _ => none
  | st :: rest, skip, limit, docs =>
    match C12.windowStep st skip limit docs with
    | .next skip' limit' => windowBy rest skip' limit' docs
    | .done r => r

theorem C12.find_facts :
    findHeads = ["s.mu.RLock()", "defer s.mu.RUnlock()", "var limit int", "var skip int", "var sort types.Map",
      "for _, opt := range opts", "var f types.Map", "if filter != nil", "docs, err := s.find(f)", "if err != nil",
      "if sort != nil", "if skip > len(docs)", "if limit == 0 || limit > len(docs)-skip",
      "docs = docs[skip : skip+limit]", "return newCursor(docs), nil"] ∧
    findWindow = ["clamp:skip", "rest:limit,skip", "slice:skip,skip + limit"] ∧
    findCalls = [("Update", "f"), ("Delete", "f"), ("Find", "f")] ∧
    findInnerHeads = ["if err := validate(filter); err != nil", "plan, err := s.explain(filter)", "if err != nil",
      "scan := scanner(s.segment)", "for plan != nil", "var docs []types.Map", "for _, doc := range scan.Range()",
      "return docs, nil"] ∧
    findScanLoop = ⟨"range", "scan.Range()", "_,doc", true, false, true,
      ["if filter == nil", "  docs = append(docs, doc)", "  continue", "if ok, err := match(doc, filter); err != nil",
       "  return nil, err", "else", "  if ok", "    docs = append(docs, doc)"]⟩ := by
  decide

/-- skip after the clamp, limit after the cut – as naturals -/
def C12.skipN (n skip : Nat) : Nat := if skip > n then n else skip
def C12.limitN (n skip limit : Nat) : Nat :=
  if limit = 0 ∨ limit > n - C12.skipN n skip then n - C12.skipN n skip else limit

theorem C12.skipN_le (n skip : Nat) : C12.skipN n skip ≤ n := by unfold C12.skipN; split <;> omega

theorem C12.clampTo_nat (n skip : Nat) : C12.clampTo n skip = (C12.skipN n skip : Int) := by
  unfold C12.clampTo C12.skipN
  by_cases h : skip > n
  · rw [if_pos (by omega), if_pos h]
  · rw [if_neg (by omega), if_neg h]

theorem C12.restTo_nat (n skip limit : Nat) (hn : n < 9223372036854775808) (hl : limit < 9223372036854775808) :
    C12.restTo n limit (C12.skipN n skip : Int) = (C12.limitN n skip limit : Int) := by
  have hle := C12.skipN_le n skip
  unfold C12.restTo C12.limitN C12.wrap
  generalize C12.skipN n skip = a at hle ⊢
  have hw : ((n : Int) - a + 9223372036854775808) % 18446744073709551616 - 9223372036854775808 = ((n - a : Nat) : Int) := by
    omega
  rw [hw]
  by_cases h : limit = 0 ∨ limit > n - a
  · rw [if_pos h, if_pos (by omega)]
  · rw [if_neg h, if_neg (by omega)]

theorem C12.limitN_sum (n skip limit : Nat) : C12.skipN n skip + C12.limitN n skip limit ≤ n := by
  have := C12.skipN_le n skip
  unfold C12.limitN
  split <;> omega

theorem C12.window_nat (skip limit : Nat) (docs : List PList) :
    window skip limit docs =
      (docs.take (C12.skipN docs.length skip + C12.limitN docs.length skip limit)).drop (C12.skipN docs.length skip) := by
  unfold window C12.limitN C12.skipN
  simp only
  generalize docs.length = n
  have e1 : (if (if skip > n then n else skip) + (if limit = 0 then n else limit) > n then n
      else (if skip > n then n else skip) + (if limit = 0 then n else limit)) =
      (if skip > n then n else skip) +
        (if limit = 0 ∨ limit > n - (if skip > n then n else skip) then n - (if skip > n then n else skip) else limit) := by
    by_cases h1 : skip > n <;> by_cases h2 : limit = 0
    · simp [h1, h2]
    · simp only [if_pos h1, if_neg h2]
      rw [if_pos (by omega), if_pos (by omega)]; omega
    · simp only [if_neg h1, if_pos h2]
      rw [if_pos (Or.inl h2)]; split <;> omega
    · simp only [if_neg h1, if_neg h2]
      by_cases h3 : limit > n - skip
      · rw [if_pos (by omega), if_pos (Or.inr h3)]; omega
      · rw [if_neg (by omega), if_neg (by omega)]
  rw [e1]

/-- `Find` evaluates the filter over the whole scan (`s.find(f)` takes the filter only, its loop has no `break`),
sorts, and only then applies skip and limit; the window arithmetic, run statement by statement on 64-bit integers
(`wrap`), is the model's `window` for **every** skip and limit an `int` can hold (the option loop of `Find` keeps only
positive values) and every slice length – including `Limit = math.MaxInt` with `Skip > 0`. -/
theorem C12.find_window_as_modelled (skip limit : Nat) (docs : List PList)
    (_hs : skip < 9223372036854775808) (hl : limit < 9223372036854775808) (hd : docs.length < 9223372036854775808) :
    findCalls = [("Update", "f"), ("Delete", "f"), ("Find", "f")] ∧ findScanLoop.hasBreak = false ∧
    C12.windowBy findWindow skip limit docs = some (window skip limit docs) := by
  have h : findWindow = ["clamp:skip", "rest:limit,skip", "slice:skip,skip + limit"] := by decide
  refine ⟨by decide, by decide, ?_⟩
  rw [h]
  simp only [C12.windowBy, C12.windowStep]
  simp (config := { decide := true }) only [if_true, if_false]
  rw [C12.clampTo_nat, C12.restTo_nat _ _ _ hd hl]
  have hsum := C12.limitN_sum docs.length skip limit
  have hw : C12.wrap ((C12.skipN docs.length skip : Int) + (C12.limitN docs.length skip limit : Int)) =
      ((C12.skipN docs.length skip + C12.limitN docs.length skip limit : Nat) : Int) := by
    unfold C12.wrap; omega
  rw [hw]
  unfold C12.sliceDocs
  rw [if_pos (by omega)]
  simp only [Int.toNat_natCast]
  rw [C12.window_nat]

/-- the pinned shape of the window arithmetic (`clamp skip; default limit; limit = skip + limit; clamp limit;
docs[skip:limit]`) on three documents with `Skip = 1`, `Limit = math.MaxInt`: the sum wraps to a negative number and the
slice expression panics (`none`), where the model's `window` – and the present statements – return the last two
documents. -/
theorem C12.pinned_window_overflows :
    let docs : List PList := [.nil, .cons (.str [97]) .nil .nil, .cons (.str [98]) .nil .nil]
    (C12.windowBy ["clamp:skip", "default:limit", "add:limit,skip", "clamp:limit", "slice:skip,limit"]
        1 9223372036854775807 docs).isNone = true ∧
    (C12.windowBy findWindow 1 9223372036854775807 docs).isSome = true ∧
    (window 1 9223372036854775807 docs).length = 2 := by
  decide

/-! ## `patch` -/

/-- `patch` edits a private mutable copy and returns it frozen: the stored document it was given is not changed by a
later `patch` of the result (the model's `patch` is a pure function on values). The copy is taken from the IMMUTABLE view
(`doc.Immutable().Mutable()`): `Mutable()` of a document that is itself a mutable map – one handed to Insert as such – is
that same map, which the pinned `doc = doc.Mutable()` then edited in place before Swap ran its checks (repo c5fc5ad). -/
theorem C12.patch_freezes_result :
    patchFirst = "doc = doc.Immutable().Mutable()" ∧ patchReturn = "return doc.Immutable(), nil" := by
  decide

/-! ## outlines -/

/-- `conflict`, `index`, `unindex` – the model's functions of the same names follow them. -/
theorem C12.index_maintenance_outline_as_modelled :
    outline_segment_conflict = [
      "if !idx.Unique || (idx.Filter != nil && !idx.Filter(doc))",
      "  return nil",
      "id := doc.Get(types.NewString(\"id\"))",
      "var val types.Value",
      "curr := idx.nodes",
      "for _, key := range idx.Keys",
      "  val = doc.Get(key)",
      "  next, ok := curr.Get(&node{key: val})",
      "  if !ok",
      "    return nil",
      "  curr = next.value",
      "var err error",
      "curr.Ascend(func#1)",
      "func#1(n *node) bool",
      "  if types.Compare(n.key, id) != 0",
      "    err = errors.WithMessagef(ErrKeyDuplicate, \"key: %v\", types.InterfaceOf(val))",
      "  return err == nil",
      "return err"] ∧
    outline_segment_index = [
      "id := doc.Get(types.NewString(\"id\"))",
      "if id == nil",
      "  return errors.WithMessage(ErrKeyMissing, \"key: id\")",
      "if idx.Filter != nil && !idx.Filter(doc)",
      "  return nil",
      "curr := idx.nodes",
      "for i, key := range idx.Keys",
      "  val := doc.Get(key)",
      "  next, ok := curr.Get(&node{key: val})",
      "  if !ok",
      "    next = &node{ key: val, value: btree.NewG[*node](2, func#1), }",
      "    func#1(x, y *node) bool",
      "      return types.Compare(x.key, y.key) < 0",
      "    curr.ReplaceOrInsert(next)",
      "  if i == len(idx.Keys)-1",
      "    if idx.Unique && next.value.Len() > 0",
      "      return errors.WithMessagef(ErrKeyDuplicate, \"key: %v\", types.InterfaceOf(val))",
      "    next.value.ReplaceOrInsert(&node{key: id})",
      "    continue",
      "  curr = next.value",
      "return nil"] ∧
    outline_segment_unindex = [
      "id := doc.Get(types.NewString(\"id\"))",
      "if id == nil",
      "  return errors.WithMessage(ErrKeyMissing, \"key: id\")",
      "curr := idx.nodes",
      "nodes := []*node{{value: curr}}",
      "for i, key := range idx.Keys",
      "  val := doc.Get(key)",
      "  next, ok := curr.Get(&node{key: val})",
      "  if !ok",
      "    break",
      "  if i == len(idx.Keys)-1",
      "    next.value.Delete(&node{key: id})",
      "  curr = next.value",
      "  nodes = append(nodes, next)",
      "for i := len(nodes) - 1; i >= 1; i--",
      "  curr := nodes[i]",
      "  if curr.value.Len() == 0",
      "    parent := nodes[i-1]",
      "    parent.value.Delete(curr)",
      "return nil"] := by
  decide

/-- `segment.Index`: build the new index over the stored documents, roll it back when a document is rejected; `Store`, `Swap`, `Delete` (the phases above are classified from these). -/
theorem C12.segment_outline_as_modelled :
    outline_segment_Index = [
      "s.mu.Lock()",
      "defer s.mu.Unlock()",
      "for i := 0; i < len(s.indexes); i++",
      "  if s.indexes[i] == idx",
      "    return nil",
      "idx.nodes = btree.NewG[*node](2, func#1)",
      "func#1(x, y *node) bool",
      "  return types.Compare(x.key, y.key) < 0",
      "s.indexes = append(s.indexes, idx)",
      "var err error",
      "s.entries.Ascend(func#2)",
      "func#2(e *entry) bool",
      "  err = s.index(idx, e.value)",
      "  return err == nil",
      "if err != nil",
      "  s.indexes = s.indexes[:len(s.indexes)-1]",
      "  idx.nodes = nil",
      "return err"] ∧
    outline_segment_Store = [
      "s.mu.Lock()",
      "defer s.mu.Unlock()",
      "id := doc.Get(types.NewString(\"id\"))",
      "if id == nil",
      "  return errors.WithMessage(ErrKeyMissing, \"key: id\")",
      "if s.entries.Has(&entry{key: id})",
      "  return errors.WithMessagef(ErrKeyDuplicate, \"key: %v\", id.Interface())",
      "for _, idx := range s.indexes",
      "  if err := s.conflict(idx, doc); err != nil",
      "    return err",
      "s.entries.ReplaceOrInsert(&entry{key: id, value: doc})",
      "for _, idx := range s.indexes",
      "  if err := s.index(idx, doc); err != nil",
      "    return err",
      "return nil"] ∧
    outline_segment_Swap = [
      "s.mu.Lock()",
      "defer s.mu.Unlock()",
      "id := doc.Get(types.NewString(\"id\"))",
      "if id == nil",
      "  return errors.WithMessage(ErrKeyMissing, \"key: id\")",
      "old, ok := s.entries.Get(&entry{key: id})",
      "if !ok",
      "  return errors.WithMessagef(ErrKeyNotFound, \"key: %v\", id.Interface())",
      "for _, idx := range s.indexes",
      "  if err := s.conflict(idx, doc); err != nil",
      "    return err",
      "s.entries.ReplaceOrInsert(&entry{key: id, value: doc})",
      "for _, idx := range s.indexes",
      "  if err := s.unindex(idx, old.value); err != nil",
      "    return err",
      "  if err := s.index(idx, doc); err != nil",
      "    return err",
      "return nil"] ∧
    outline_segment_Delete = [
      "s.mu.Lock()",
      "defer s.mu.Unlock()",
      "l, ok := s.entries.Delete(&entry{key: id})",
      "if !ok",
      "  return errors.WithMessagef(ErrKeyNotFound, \"key: %v\", id.Interface())",
      "for _, idx := range s.indexes",
      "  if err := s.unindex(idx, l.value); err != nil",
      "    return err",
      "return nil"] := by
  decide

/-- `section.Scan` and `section.Range` – the model's `scanLevel` / `rangeSection`. -/
theorem C12.scan_range_outline_as_modelled :
    outline_segment_Scan = [
      "sctn := &section{ entries: s.entries, indexes: s.indexes, mu: &s.mu, }",
      "return sctn.Scan(key, min, max)"] ∧
    outline_section_Scan = [
      "s.mu.RLock()",
      "defer s.mu.RUnlock()",
      "var indexes []*index",
      "for _, idx := range s.indexes",
      "  if len(idx.Keys) == 0 || idx.Keys[0] != key",
      "    continue",
      "  if max != nil",
      "    idx.nodes.DescendLessOrEqual(&node{key: max}, func#1)",
      "    func#1(n *node) bool",
      "      if min != nil && types.Compare(n.key, min) < 0",
      "        return false",
      "      indexes = append(indexes, &index{ Keys: idx.Keys[1:], nodes: n.value, })",
      "      return true",
      "  else",
      "    idx.nodes.AscendGreaterOrEqual(&node{key: min}, func#2)",
      "    func#2(n *node) bool",
      "      if max != nil && types.Compare(n.key, max) > 0",
      "        return false",
      "      indexes = append(indexes, &index{ Keys: idx.Keys[1:], nodes: n.value, })",
      "      return true",
      "return &section{ entries: s.entries, indexes: indexes, mu: s.mu, }"] ∧
    outline_section_Range = [
      "s.mu.RLock()",
      "defer s.mu.RUnlock()",
      "var indexes []*index",
      "curr := s.indexes",
      "for",
      "  var next []*index",
      "  for _, idx := range curr",
      "    if len(idx.Keys) == 0",
      "      indexes = append(indexes, idx)",
      "      continue",
      "    idx.nodes.Ascend(func#1)",
      "    func#1(n *node) bool",
      "      next = append(next, &index{ Keys: idx.Keys[1:], nodes: n.value, })",
      "      return true",
      "  if len(next) == 0",
      "    break",
      "  curr = next",
      "entries := btree.NewG[*entry](2, func#2)",
      "func#2(x, y *entry) bool",
      "  return types.Compare(x.key, y.key) < 0",
      "for _, idx := range indexes",
      "  idx.nodes.Ascend(func#3)",
      "  func#3(n *node) bool",
      "    e, _ := s.entries.Get(&entry{key: n.key})",
      "    entries.ReplaceOrInsert(e)",
      "    return true",
      "return func#4",
      "func#4(yield func(key types.Value, doc types.Map) bool)",
      "  entries.Ascend(func#5)",
      "  func#5(e *entry) bool",
      "    return yield(e.key, e.value)"] := by
  decide

/-- `store.Find`, `store.find` and `patch`. -/
theorem C12.find_patch_outline_as_modelled :
    outline_store_Find = [
      "s.mu.RLock()",
      "defer s.mu.RUnlock()",
      "var limit int",
      "var skip int",
      "var sort types.Map",
      "for _, opt := range opts",
      "  if opt.Limit > 0",
      "    limit = opt.Limit",
      "  if opt.Skip > 0",
      "    skip = opt.Skip",
      "  if opt.Sort != nil",
      "    var err error",
      "    if sort, err = types.Cast[types.Map](types.Marshal(opt.Sort)); err != nil",
      "      return nil, err",
      "var f types.Map",
      "if filter != nil",
      "  var err error",
      "  if f, err = types.Cast[types.Map](types.Marshal(filter)); err != nil",
      "    return nil, err",
      "docs, err := s.find(f)",
      "if err != nil",
      "  return nil, err",
      "if sort != nil",
      "  slices.SortFunc(docs, func#1)",
      "  func#1(x, y types.Map) int",
      "    for field, o := range sort.Range()",
      "      val1 := x.Get(field)",
      "      val2 := y.Get(field)",
      "      if comp := types.Compare(val1, val2); comp != 0",
      "        order := 1",
      "        _ = types.Unmarshal(o, &order)",
      "        return comp * order",
      "    return 0",
      "if skip > len(docs)",
      "  skip = len(docs)",
      "if limit == 0 || limit > len(docs)-skip",
      "  limit = len(docs) - skip",
      "docs = docs[skip : skip+limit]",
      "return newCursor(docs), nil"] ∧
    outline_store_find = [
      "if err := validate(filter); err != nil",
      "  return nil, err",
      "plan, err := s.explain(filter)",
      "if err != nil",
      "  return nil, err",
      "scan := scanner(s.segment)",
      "for plan != nil",
      "  scan = scan.Scan(plan.key, plan.min, plan.max)",
      "  plan = plan.next",
      "var docs []types.Map",
      "for _, doc := range scan.Range()",
      "  if filter == nil",
      "    docs = append(docs, doc)",
      "    continue",
      "  if ok, err := match(doc, filter); err != nil",
      "    return nil, err",
      "  else",
      "    if ok",
      "      docs = append(docs, doc)",
      "return docs, nil"] ∧
    outline_patch = [
      "doc = doc.Immutable().Mutable()",
      "for k, value := range update.Range()",
      "  key, ok := k.(types.String)",
      "  if !ok",
      "    return nil, errors.WithMessagef(ErrUnsupportedType, \"key: %v\", types.InterfaceOf(k))",
      "  switch key.String()",
      "    case \"$set\"",
      "      val, ok := value.(types.Map)",
      "      if !ok",
      "        return nil, errors.WithMessagef(ErrUnsupportedType, \"value: %v\", types.InterfaceOf(value))",
      "      for k, v := range val.Range()",
      "        doc.Set(k, v)",
      "    case \"$unset\"",
      "      val, ok := value.(types.Map)",
      "      if !ok",
      "        return nil, errors.WithMessagef(ErrUnsupportedType, \"value: %v\", types.InterfaceOf(value))",
      "      for k := range val.Range()",
      "        doc.Delete(k)",
      "    default",
      "      return nil, errors.WithMessagef(ErrUnsupportedOperation, \"operation: %v\", key.String())",
      "return doc.Immutable(), nil"] := by
  decide
