/-
C16 – regenerated tie over Generated/CodecFuncs.lean (extract/funcs.go): for every source file the models of this
property were transcribed from, the outline of EVERY function of that file – regenerated from /repo on every run –
equals the transcript frozen here (bin/freeze_outlines.py, repo 7f54b88, 2026-10-01). A theorem that stops checking
names the file whose code is no longer the code that was modelled; bin/check then searches for a failing input.
-/
import Uniflow.Generated.CodecFuncs

set_option maxRecDepth 16384 in
/-- pkg/encoding/assembler.go as modelled: its declarations (in source order) and the outline of each -/
theorem C16.src_encoding_assembler_as_modelled :
    Uniflow.Generated.CodecFuncs.o_encoding_assembler_fn_NewEncodeAssembler = [
      "return &EncodeAssembler[S, T]{}"
    ] ∧
    Uniflow.Generated.CodecFuncs.o_encoding_assembler_fn_Add = [
      "a.mu.Lock()",
      "defer a.mu.Unlock()",
      "a.compilers = append([]EncodeCompiler[S, T]{compiler}, a.compilers...)"
    ] ∧
    Uniflow.Generated.CodecFuncs.o_encoding_assembler_fn_Len = [
      "a.mu.RLock()",
      "defer a.mu.RUnlock()",
      "return len(a.compilers)"
    ] ∧
    Uniflow.Generated.CodecFuncs.o_encoding_assembler_fn_Encode = [
      "enc, err := a.Compile(reflect.TypeOf(source))",
      "if err != nil",
      "  var zero T",
      "  return zero, nil",
      "return enc.Encode(source)"
    ] ∧
    Uniflow.Generated.CodecFuncs.o_encoding_assembler_fn_Compile = [
      "if enc, ok := a.encoders.Load(typ); ok",
      "  return enc.(Encoder[S, T]), nil",
      "a.mu.RLock()",
      "compilers := a.compilers",
      "a.mu.RUnlock()",
      "encoders := make([]Encoder[S, T], 0, len(compilers))",
      "for _, compiler := range compilers",
      "  if enc, err := compiler.Compile(typ); err == nil",
      "    encoders = append(encoders, enc)",
      "if len(encoders) == 0",
      "  return nil, errors.WithStack(ErrUnsupportedType)",
      "var enc Encoder[S, T]",
      "if len(encoders) == 1",
      "  enc = encoders[0]",
      "else",
      "  group := NewEncoderGroup[S, T]()",
      "  for _, enc := range encoders",
      "    group.Add(enc)",
      "  enc = group",
      "a.encoders.Store(typ, enc)",
      "return enc, nil"
    ] ∧
    Uniflow.Generated.CodecFuncs.o_encoding_assembler_fn_NewDecodeAssembler = [
      "return &DecodeAssembler[S, T]{}"
    ] ∧
    Uniflow.Generated.CodecFuncs.o_encoding_assembler_fn_Add_2 = [
      "a.mu.Lock()",
      "defer a.mu.Unlock()",
      "a.compilers = append([]DecodeCompiler[S]{compiler}, a.compilers...)"
    ] ∧
    Uniflow.Generated.CodecFuncs.o_encoding_assembler_fn_Len_2 = [
      "a.mu.RLock()",
      "defer a.mu.RUnlock()",
      "return len(a.compilers)"
    ] ∧
    Uniflow.Generated.CodecFuncs.o_encoding_assembler_fn_Decode = [
      "val := reflect.ValueOf(target)",
      "ptr := val.UnsafePointer()",
      "dec, err := a.Compile(val.Type())",
      "if err != nil",
      "  return err",
      "return dec.Decode(source, ptr)"
    ] ∧
    Uniflow.Generated.CodecFuncs.o_encoding_assembler_fn_Compile_2 = [
      "if dec, ok := a.decoders.Load(typ); ok",
      "  return dec.(Decoder[S, unsafe.Pointer]), nil",
      "a.mu.RLock()",
      "compilers := a.compilers",
      "a.mu.RUnlock()",
      "decoders := make([]Decoder[S, unsafe.Pointer], 0, len(compilers))",
      "for _, compiler := range compilers",
      "  if dec, err := compiler.Compile(typ); err == nil",
      "    decoders = append(decoders, dec)",
      "if len(decoders) == 0",
      "  return nil, errors.WithStack(ErrUnsupportedType)",
      "var dec Decoder[S, unsafe.Pointer]",
      "if len(decoders) == 1",
      "  dec = decoders[0]",
      "else",
      "  group := NewDecoderGroup[S, unsafe.Pointer]()",
      "  for _, dec := range decoders",
      "    group.Add(dec)",
      "  dec = group",
      "a.decoders.Store(typ, dec)",
      "return dec, nil"
    ] ∧
    Uniflow.Generated.CodecFuncs.names_encoding_assembler = ["fn.NewEncodeAssembler", "fn.Add", "fn.Len", "fn.Encode", "fn.Compile", "fn.NewDecodeAssembler", "fn.Add#2", "fn.Len#2", "fn.Decode", "fn.Compile#2"] := by
  decide

set_option maxRecDepth 16384 in
/-- pkg/types/error.go as modelled: its declarations (in source order) and the outline of each -/
theorem C16.src_types_error_as_modelled :
    Uniflow.Generated.CodecFuncs.o_types_error_Error_MarshalText = [
      "return []byte(e.Error()), nil"
    ] ∧
    Uniflow.Generated.CodecFuncs.o_types_error_Error_UnmarshalText = [
      "e.value = errors.New(string(text))",
      "return nil"
    ] ∧
    Uniflow.Generated.CodecFuncs.o_types_error_Error_MarshalBinary = [
      "return e.MarshalText()"
    ] ∧
    Uniflow.Generated.CodecFuncs.o_types_error_Error_UnmarshalBinary = [
      "return e.UnmarshalText(data)"
    ] ∧
    Uniflow.Generated.CodecFuncs.o_types_error_fn_newErrorEncoder = [
      "typeError := reflect.TypeOf((*error)(nil)).Elem()",
      "return encoding2.EncodeCompilerFunc[any, Value](func#1)",
      "func#1(typ reflect.Type) (encoding2.Encoder[any, Value], error)",
      "  if typ != nil && typ.ConvertibleTo(typeError)",
      "    return encoding2.EncodeFunc(func#2), nil",
      "    func#2(source any) (Value, error)",
      "      s := source.(error)",
      "      return NewError(s), nil",
      "  return nil, errors.WithStack(encoding2.ErrUnsupportedType)"
    ] ∧
    Uniflow.Generated.CodecFuncs.o_types_error_fn_newErrorDecoder = [
      "typeError := reflect.TypeOf((*error)(nil)).Elem()",
      "typeTextUnmarshaler := reflect.TypeOf((*encoding.TextUnmarshaler)(nil)).Elem()",
      "typeBinaryUnmarshaler := reflect.TypeOf((*encoding.BinaryUnmarshaler)(nil)).Elem()",
      "return encoding2.DecodeCompilerFunc[Value](func#1)",
      "func#1(typ reflect.Type) (encoding2.Decoder[Value, unsafe.Pointer], error)",
      "  if typ == nil",
      "    return nil, errors.WithStack(encoding2.ErrUnsupportedType)",
      "  else",
      "    if typ.ConvertibleTo(typeTextUnmarshaler)",
      "      return encoding2.DecodeFunc(func#2), nil",
      "      func#2(source Value, target unsafe.Pointer) error",
      "        if s, ok := source.(Error); ok",
      "          t := reflect.NewAt(typ.Elem(), target).Interface().(encoding.TextUnmarshaler)",
      "          if err := t.UnmarshalText([]byte(s.Error())); err != nil",
      "            return errors.Wrap(encoding2.ErrUnsupportedValue, err.Error())",
      "          return nil",
      "        return errors.WithStack(encoding2.ErrUnsupportedType)",
      "    else",
      "      if typ.ConvertibleTo(typeBinaryUnmarshaler)",
      "        return encoding2.DecodeFunc(func#3), nil",
      "        func#3(source Value, target unsafe.Pointer) error",
      "          if s, ok := source.(Error); ok",
      "            t := reflect.NewAt(typ.Elem(), target).Interface().(encoding.BinaryUnmarshaler)",
      "            if err := t.UnmarshalBinary([]byte(s.Error())); err != nil",
      "              return errors.Wrap(encoding2.ErrUnsupportedValue, err.Error())",
      "            return nil",
      "          return errors.WithStack(encoding2.ErrUnsupportedType)",
      "      else",
      "        if typ.Kind() == reflect.Pointer",
      "          if typ.Elem().ConvertibleTo(typeError)",
      "            return encoding2.DecodeFunc(func#4), nil",
      "            func#4(source Value, target unsafe.Pointer) error",
      "              if s, ok := source.(Error); ok",
      "                t := reflect.NewAt(typ.Elem(), target)",
      "                t.Elem().Set(reflect.ValueOf(s.Interface()))",
      "                return nil",
      "              return errors.WithStack(encoding2.ErrUnsupportedType)",
      "          else",
      "            if typ.Elem().Kind() == reflect.String",
      "              return encoding2.DecodeFunc(func#5), nil",
      "              func#5(source Value, target unsafe.Pointer) error",
      "                if s, ok := source.(Error); ok",
      "                  *(*string)(target) = s.Error()",
      "                  return nil",
      "                return errors.WithStack(encoding2.ErrUnsupportedType)",
      "            else",
      "              if typ.Elem() == types[KindUnknown]",
      "                return encoding2.DecodeFunc(func#6), nil",
      "                func#6(source Value, target unsafe.Pointer) error",
      "                  if s, ok := source.(Error); ok",
      "                    *(*any)(target) = s.Interface()",
      "                    return nil",
      "                  return errors.WithStack(encoding2.ErrUnsupportedType)",
      "  return nil, errors.WithStack(encoding2.ErrUnsupportedType)"
    ] ∧
    Uniflow.Generated.CodecFuncs.names_types_error = ["Error.MarshalText", "Error.UnmarshalText", "Error.MarshalBinary", "Error.UnmarshalBinary", "fn.newErrorEncoder", "fn.newErrorDecoder"] := by
  decide

set_option maxRecDepth 16384 in
/-- pkg/encoding/group.go as modelled: its declarations (in source order) and the outline of each -/
theorem C16.src_encoding_group_as_modelled :
    Uniflow.Generated.CodecFuncs.o_encoding_group_fn_NewDecoderGroup = [
      "return &DecoderGroup[S, T]{}"
    ] ∧
    Uniflow.Generated.CodecFuncs.o_encoding_group_fn_NewEncoderGroup = [
      "return &EncoderGroup[S, T]{}"
    ] ∧
    Uniflow.Generated.CodecFuncs.o_encoding_group_fn_Add = [
      "g.mu.Lock()",
      "defer g.mu.Unlock()",
      "for _, enc := range g.encoders",
      "  if enc == encoder",
      "    return false",
      "g.encoders = append(g.encoders, encoder)",
      "return true"
    ] ∧
    Uniflow.Generated.CodecFuncs.o_encoding_group_fn_Len = [
      "g.mu.RLock()",
      "defer g.mu.RUnlock()",
      "return len(g.encoders)"
    ] ∧
    Uniflow.Generated.CodecFuncs.o_encoding_group_fn_Encode = [
      "g.mu.RLock()",
      "defer g.mu.RUnlock()",
      "var target T",
      "var err error",
      "for _, enc := range g.encoders",
      "  if target, err = enc.Encode(source); err == nil",
      "    return target, nil",
      "  else",
      "    if !errors.Is(err, ErrUnsupportedType)",
      "      return target, err",
      "return target, err"
    ] ∧
    Uniflow.Generated.CodecFuncs.o_encoding_group_fn_Add_2 = [
      "g.mu.Lock()",
      "defer g.mu.Unlock()",
      "for _, dec := range g.decoders",
      "  if dec == decoder",
      "    return false",
      "g.decoders = append(g.decoders, decoder)",
      "return true"
    ] ∧
    Uniflow.Generated.CodecFuncs.o_encoding_group_fn_Len_2 = [
      "g.mu.RLock()",
      "defer g.mu.RUnlock()",
      "return len(g.decoders)"
    ] ∧
    Uniflow.Generated.CodecFuncs.o_encoding_group_fn_Decode = [
      "g.mu.RLock()",
      "defer g.mu.RUnlock()",
      "typ := reflect.TypeOf(source)",
      "var err error",
      "cache, ok := g.cache.Load(typ)",
      "if ok",
      "  if err = cache.(Decoder[S, T]).Decode(source, target); err == nil",
      "    return nil",
      "  else",
      "    if !errors.Is(err, ErrUnsupportedType)",
      "      return err",
      "for _, dec := range g.decoders",
      "  if dec == cache",
      "    continue",
      "  if err = dec.Decode(source, target); err == nil",
      "    g.cache.Store(typ, dec)",
      "    return nil",
      "  else",
      "    if !errors.Is(err, ErrUnsupportedType)",
      "      return err",
      "return err"
    ] ∧
    Uniflow.Generated.CodecFuncs.names_encoding_group = ["fn.NewDecoderGroup", "fn.NewEncoderGroup", "fn.Add", "fn.Len", "fn.Encode", "fn.Add#2", "fn.Len#2", "fn.Decode"] := by
  decide

set_option maxRecDepth 16384 in
/-- pkg/types/json.go as modelled: its declarations (in source order) and the outline of each -/
theorem C16.src_types_json_as_modelled :
    Uniflow.Generated.CodecFuncs.o_types_json_fn_newJSONEncoder = [
      "typeJSONMarshaler := reflect.TypeOf((*json.Marshaler)(nil)).Elem()",
      "return encoding.EncodeCompilerFunc[any, Value](func#1)",
      "func#1(typ reflect.Type) (encoding.Encoder[any, Value], error)",
      "  if typ != nil && typ.ConvertibleTo(typeJSONMarshaler)",
      "    return encoding.EncodeFunc(func#2), nil",
      "    func#2(source any) (Value, error)",
      "      if v := reflect.ValueOf(source); v.Kind() == reflect.Pointer && v.IsNil()",
      "        return nil, nil",
      "      s := source.(json.Marshaler)",
      "      data, err := s.MarshalJSON()",
      "      if err != nil",
      "        return nil, errors.Wrap(encoding.ErrUnsupportedValue, err.Error())",
      "      var val any",
      "      if err := json.Unmarshal(data, &val); err != nil",
      "        return nil, errors.Wrap(encoding.ErrUnsupportedValue, err.Error())",
      "      return encoder.Encode(val)",
      "  return nil, errors.WithStack(encoding.ErrUnsupportedType)"
    ] ∧
    Uniflow.Generated.CodecFuncs.o_types_json_fn_newJSONDecoder = [
      "typeJSONUnmarshaler := reflect.TypeOf((*json.Unmarshaler)(nil)).Elem()",
      "return encoding.DecodeCompilerFunc[Value](func#1)",
      "func#1(typ reflect.Type) (encoding.Decoder[Value, unsafe.Pointer], error)",
      "  if typ != nil && typ.Kind() == reflect.Pointer",
      "    if typ.ConvertibleTo(typeJSONUnmarshaler)",
      "      return encoding.DecodeFunc(func#2), nil",
      "      func#2(source Value, target unsafe.Pointer) error",
      "        t := reflect.NewAt(typ.Elem(), target).Interface().(json.Unmarshaler)",
      "        var val any",
      "        if err := decoder.Decode(source, &val); err != nil",
      "          return err",
      "        data, err := json.Marshal(val)",
      "        if err != nil",
      "          return errors.Wrap(encoding.ErrUnsupportedValue, err.Error())",
      "        if err := t.UnmarshalJSON(data); err != nil",
      "          return errors.Wrap(encoding.ErrUnsupportedValue, err.Error())",
      "        return nil",
      "  return nil, errors.WithStack(encoding.ErrUnsupportedType)"
    ] ∧
    Uniflow.Generated.CodecFuncs.names_types_json = ["fn.newJSONEncoder", "fn.newJSONDecoder"] := by
  decide

set_option maxRecDepth 16384 in
/-- pkg/types/float.go as modelled (part 2 of 2): its declarations (in source order) and the outline of each -/
theorem C16.src_types_float_as_modelled_2 :
    Uniflow.Generated.CodecFuncs.o_types_float_fn_newFloatDecoderWithType = [
      "return encoding.DecodeFunc(func#1)",
      "func#1(source Value, target unsafe.Pointer) error",
      "  if s, ok := source.(Float); ok",
      "    *(*T)(target) = T(s.Float())",
      "    return nil",
      "  return errors.WithStack(encoding.ErrUnsupportedType)"
    ] ∧
    Uniflow.Generated.CodecFuncs.names_types_float = ["Float32.MarshalJSON", "Float32.UnmarshalJSON", "Float64.MarshalJSON", "Float64.UnmarshalJSON", "fn.newFloatEncoder", "fn.newFloatDecoder", "fn.newFloatDecoderWithType"] := by
  decide

set_option maxRecDepth 16384 in
/-- pkg/encoding/encoder.go as modelled: its declarations (in source order) and the outline of each -/
theorem C16.src_encoding_encoder_as_modelled :
    Uniflow.Generated.CodecFuncs.o_encoding_encoder_fn_EncodeFunc = [
      "return &encoder[S, T]{encode: encode}"
    ] ∧
    Uniflow.Generated.CodecFuncs.o_encoding_encoder_fn_Encode = [
      "return e.encode(source)"
    ] ∧
    Uniflow.Generated.CodecFuncs.names_encoding_encoder = ["fn.EncodeFunc", "fn.Encode"] := by
  decide

