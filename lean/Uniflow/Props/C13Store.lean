/-
C13 tied to the store model – watchers see each matching successful mutation exactly once, in order.

Props/C13.lean proves the property for the stream model (`Uniflow.Stream`) with *accepted by the segment* and *matches the
watcher's filter* as parameters of its `doc` operation. Here the parameters are discharged: Model/Watch.lean couples the
stream model with the store model of C10–C12 (`Uniflow.Index`: segment, indexes, `Insert`/`Update`/`Delete`) – a store
operation emits one event per document the segment accepted, in store.go's order (the new document for insert/update, the
deleted one for delete), matched against every live watcher's filter by the real `match`.

`C13.store_events_exact`: for **every** history of store operations (any filters, updates, index operations – unique or
not –, rejected documents, batches that stop half-way), `Watch`, consumer reads, `Close` and pump exits, and every watcher:
what its consumer has received is a prefix of, and – until the pump exits – together with what is still queued *exactly*,
the events (id, op) of the documents of the successful mutations between its `Watch` and its `Close` that the **reference
evaluation** `refMatch` of its filter lets through, in mutation order (`Watch.owed`). It composes `C13.events_exact`
(stream plumbing), `C10.match_eq_ref` (`match` = `refMatch` on well-formed filters) and the store model's own acceptance.
`C13.store_events_ref` then replaces "accepted by the store model" by "accepted by the reference store with unique
constraints" (Spec/RefStoreU.lean, `uEvents`) through the store refinement `C10.store_refines_unique`: after every history
of store operations (`GoodOpU`), the documents the next operation emits events for are exactly the documents of the
reference store's successful mutations (inserted documents up to the first rejected one, patched versions of the matching
documents up to the first rejected one or the upsert document, deleted documents).

Hypothesis: every watcher filter is absent or well-formed (`GoodWatches`). A filter `match` rejects makes `emit` fail after
the mutation was applied (DESIGN.md §7 row 27) – outside the property's quantifier (§5 C10 reading (v)).
Ids: `Stream.Event.id` is a number; `enc : Val → Nat` is the numbering of document ids (any function; the harness's is
injective).
-/
import Uniflow.Proofs.Watch
import Uniflow.Proofs.WatchRef

open Uniflow.Value Uniflow.Store Uniflow.Index Uniflow.Query Uniflow.Watch Uniflow.RefStoreU

/-- **Exactly the matching successful mutations, in order** – with acceptance decided by the store model and matching by
the reference evaluation of the watcher's filter. -/
theorem C13.store_events_exact (enc : Val → Nat) (h : List WOp) (hg : GoodWatches h) (w : Nat) (s : Uniflow.Stream.Strm)
    (hs : Uniflow.Stream.findW w (Uniflow.Watch.run enc {} h).strm.streams = some s) :
    s.delivered <+: owed enc w {} h false false none ∧
    (s.exited = false → s.delivered ++ s.queue = owed enc w {} h false false none) := by
  rw [run_strm] at hs
  have := C13.events_exact (trace enc {} h) w s hs
  rw [expected_trace enc w h {} false false none (J_init w none) hg] at this
  exact this

/-- a rejected document produces no event and ends the events of its call: the events of an `Insert` are those of the
documents before the first rejected one -/
theorem C13.rejected_emits_nothing (s : State) (d : PList) (ds : List PList) (r : Res Unit) (s' : State)
    (hr : segStore s d = (s', some r)) : events s (.insert (d :: ds)) = [] := by
  simp [events, insertEvents, hr]

/-- the event's document: an update emits the *patched* document, a delete the *stored* one -/
theorem C13.event_documents (s : State) (d : PList) (s' : State) :
    (segDelete s (mget d keyId) = (s', none) → deleteEvents s [d] = [(d, opDelete)]) ∧
    (segSwap s d = (s', none) → swapEvents s [d] = [(d, opUpdate)]) ∧
    (segStore s d = (s', none) → insertEvents s [d] = [(d, opInsert)]) := by
  refine ⟨fun h => ?_, fun h => ?_, fun h => ?_⟩
  · simp [deleteEvents, h]
  · simp [swapEvents, h]
  · simp [insertEvents, h]

/-- non-vacuity: a watcher with the filter `{a: {$gt: 1}}`, an insert it matches, one it does not, and a rejected
duplicate – it is owed exactly the first event -/
theorem C13.store_events_exact_nonvacuous :
    ∃ h : List WOp, GoodWatches h ∧ (owed (fun _ => 7) 1 {} h false false none).length = 1 := by
  refine ⟨[.watch 1 (some (.map (.cons (.str [97]) (.map (.cons (.str opGt) (.int .native 1) .nil)) .nil))),
    .store (.insert [.cons (.str [105, 100]) (.int .native 1) (.cons (.str [97]) (.int .native 5) .nil)]),
    .store (.insert [.cons (.str [105, 100]) (.int .native 2) (.cons (.str [97]) (.int .native 0) .nil)]),
    .store (.insert [.cons (.str [105, 100]) (.int .native 1) (.cons (.str [97]) (.int .native 9) .nil)])], ?_, by decide⟩
  intro w φ hm
  simp only [List.mem_cons, List.mem_nil_iff, or_false] at hm
  rcases hm with hm | hm | hm | hm
  · cases hm; show wf _ = true; decide
  all_goals cases hm

/-- **The emitted events are those of the reference store's successful mutations**: after every history of store operations
(unique indexes included), the documents the next store operation emits events for – and their op codes and order – are
decided by the reference store with unique constraints alone. The store component of the store-with-watchers after a
history is `Index.run init` of its store operations, so this identifies every `events ws.store op` in `Watch.owed`. -/
theorem C13.store_events_ref (ops : List Uniflow.Index.Op) (hops : ∀ op ∈ ops, GoodOpU op) (op : Uniflow.Index.Op) :
    events (Uniflow.Index.run Uniflow.Index.init ops) op = uEvents (uRun rInit ops) op := by
  have hinv : ∀ (os : List Uniflow.Index.Op) {s : State}, InvU s → (∀ o ∈ os, GoodOpU o) → InvU (Uniflow.Index.run s os) := by
    intro os
    induction os with
    | nil => intro s h _; exact h
    | cons o os ih => intro s h ho; exact ih (InvU_step h (ho o (by simp))) (fun o' h' => ho o' (by simp [h']))
  rw [events_ref (hinv ops InvU_init hops), (run_refU ops InvU_init hops).2, absOf_init]

/-- the store component of the store-with-watchers is the store model run on the store operations -/
theorem C13.watch_store_component (enc : Val → Nat) (ws : WSt) (o : WOp) :
    (Uniflow.Watch.step enc ws o).1.store = match o with | .store op => (Uniflow.Index.step ws.store op).1 | _ => ws.store := by
  cases o with
  | store op => rfl
  | watch w φ => simp only [Uniflow.Watch.step]; split <;> rfl
  | next w => rfl
  | close w => rfl
  | pumpExit w => rfl
