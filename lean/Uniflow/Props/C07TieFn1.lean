/-
C07 – regenerated tie over Generated/SymbolFuncs.lean (extract/funcs.go): the outline of EVERY function of the source
files named below – regenerated from /repo on every run – equals the transcript frozen here (bin/freeze_all.py, repo 7f54b88,
2026-10-01). A theorem that stops checking names the file whose code is no longer the code that was modelled; bin/check then
searches for a failing input.
-/
import Uniflow.Generated.SymbolFuncs

set_option maxRecDepth 16384 in
/-- pkg/hook/hook.go as modelled: its declarations (in source order) and the outline of each -/
theorem C07.src_hook_hook_as_modelled :
    Uniflow.Generated.SymbolFuncs.o_hook_hook_fn_New = [
      "return &Hook{}"
    ] ∧
    Uniflow.Generated.SymbolFuncs.o_hook_hook_Hook_AddLoadHook = [
      "h.mu.Lock()",
      "defer h.mu.Unlock()",
      "for _, h := range h.loadHooks",
      "  if h == hook",
      "    return false",
      "h.loadHooks = append(h.loadHooks, hook)",
      "return true"
    ] ∧
    Uniflow.Generated.SymbolFuncs.o_hook_hook_Hook_AddUnloadHook = [
      "h.mu.Lock()",
      "defer h.mu.Unlock()",
      "for _, h := range h.unloadHooks",
      "  if h == hook",
      "    return false",
      "h.unloadHooks = append(h.unloadHooks, hook)",
      "return true"
    ] ∧
    Uniflow.Generated.SymbolFuncs.o_hook_hook_Hook_Load = [
      "h.mu.RLock()",
      "defer h.mu.RUnlock()",
      "return h.loadHooks.Load(sb)"
    ] ∧
    Uniflow.Generated.SymbolFuncs.o_hook_hook_Hook_Unload = [
      "h.mu.RLock()",
      "defer h.mu.RUnlock()",
      "return h.unloadHooks.Unload(sb)"
    ] ∧
    Uniflow.Generated.SymbolFuncs.names_hook_hook = ["fn.New", "Hook.AddLoadHook", "Hook.AddUnloadHook", "Hook.Load", "Hook.Unload"] := by
  decide

set_option maxRecDepth 16384 in
/-- pkg/symbol/loadhook.go as modelled: its declarations (in source order) and the outline of each -/
theorem C07.src_symbol_loadhook_as_modelled :
    Uniflow.Generated.SymbolFuncs.o_symbol_loadhook_fn_LoadFunc = [
      "return &loadHook{fn: fn}"
    ] ∧
    Uniflow.Generated.SymbolFuncs.o_symbol_loadhook_fn_LoadListenerHook = [
      "return LoadFunc(func#1)",
      "func#1(symbol *Symbol) error",
      "  n := node.Node(symbol)",
      "  for n != nil",
      "    if listener, ok := n.(LoadListener); ok",
      "      if err := listener.Load(hook); err != nil",
      "        return err",
      "    n = node.Unwrap(n)",
      "  return nil"
    ] ∧
    Uniflow.Generated.SymbolFuncs.o_symbol_loadhook_LoadHooks_Load = [
      "for _, hook := range h",
      "  if err := hook.Load(symbol); err != nil",
      "    return err",
      "return nil"
    ] ∧
    Uniflow.Generated.SymbolFuncs.o_symbol_loadhook_loadHook_Load = [
      "return h.fn(symbol)"
    ] ∧
    Uniflow.Generated.SymbolFuncs.names_symbol_loadhook = ["fn.LoadFunc", "fn.LoadListenerHook", "LoadHooks.Load", "loadHook.Load"] := by
  decide

set_option maxRecDepth 16384 in
/-- pkg/symbol/unloadhook.go as modelled: its declarations (in source order) and the outline of each -/
theorem C07.src_symbol_unloadhook_as_modelled :
    Uniflow.Generated.SymbolFuncs.o_symbol_unloadhook_fn_UnloadFunc = [
      "return &unloadHook{fn: fn}"
    ] ∧
    Uniflow.Generated.SymbolFuncs.o_symbol_unloadhook_fn_UnloadListenerHook = [
      "return UnloadFunc(func#1)",
      "func#1(symbol *Symbol) error",
      "  n := node.Node(symbol)",
      "  for n != nil",
      "    if listener, ok := n.(UnloadListener); ok",
      "      if err := listener.Unload(hook); err != nil",
      "        return err",
      "    n = node.Unwrap(n)",
      "  return nil"
    ] ∧
    Uniflow.Generated.SymbolFuncs.o_symbol_unloadhook_UnloadHooks_Unload = [
      "for i := len(h) - 1; i >= 0; i--",
      "  if err := h[i].Unload(symbol); err != nil",
      "    return err",
      "return nil"
    ] ∧
    Uniflow.Generated.SymbolFuncs.o_symbol_unloadhook_unloadHook_Unload = [
      "return h.fn(symbol)"
    ] ∧
    Uniflow.Generated.SymbolFuncs.names_symbol_unloadhook = ["fn.UnloadFunc", "fn.UnloadListenerHook", "UnloadHooks.Unload", "unloadHook.Unload"] := by
  decide

