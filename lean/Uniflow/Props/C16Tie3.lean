/-
C16 – regenerated tie over Generated/CodecFuncs.lean (extract/funcs.go): for every source file the models of this
property were transcribed from, the outline of EVERY function of that file – regenerated from /repo on every run –
equals the transcript frozen here (bin/freeze_outlines.py, repo 7f54b88, 2026-10-01). A theorem that stops checking
names the file whose code is no longer the code that was modelled; bin/check then searches for a failing input.
-/
import Uniflow.Generated.CodecFuncs

set_option maxRecDepth 16384 in
/-- pkg/types/float.go as modelled (part 1 of 2): its declarations (in source order) and the outline of each -/
theorem C16.src_types_float_as_modelled_1 :
    Uniflow.Generated.CodecFuncs.o_types_float_Float32_MarshalJSON = [
      "return json.Marshal(f.value)"
    ] ∧
    Uniflow.Generated.CodecFuncs.o_types_float_Float32_UnmarshalJSON = [
      "if err := json.Unmarshal(bytes, &f.value); err != nil",
      "  return errors.Wrap(encoding.ErrUnsupportedValue, err.Error())",
      "return nil"
    ] ∧
    Uniflow.Generated.CodecFuncs.o_types_float_Float64_MarshalJSON = [
      "return json.Marshal(f.value)"
    ] ∧
    Uniflow.Generated.CodecFuncs.o_types_float_Float64_UnmarshalJSON = [
      "if err := json.Unmarshal(bytes, &f.value); err != nil",
      "  return errors.Wrap(encoding.ErrUnsupportedValue, err.Error())",
      "return nil"
    ] ∧
    Uniflow.Generated.CodecFuncs.o_types_float_fn_newFloatEncoder = [
      "return encoding.EncodeCompilerFunc[any, Value](func#1)",
      "func#1(typ reflect.Type) (encoding.Encoder[any, Value], error)",
      "  if typ == nil",
      "    return nil, errors.WithStack(encoding.ErrUnsupportedType)",
      "  else",
      "    if typ.Kind() == reflect.Float32",
      "      return encoding.EncodeFunc(func#2), nil",
      "      func#2(source any) (Value, error)",
      "        if s, ok := source.(float32); ok",
      "          return NewFloat32(s), nil",
      "        else",
      "          return NewFloat32(float32(reflect.ValueOf(source).Float())), nil",
      "    else",
      "      if typ.Kind() == reflect.Float64",
      "        return encoding.EncodeFunc(func#3), nil",
      "        func#3(source any) (Value, error)",
      "          if s, ok := source.(float64); ok",
      "            return NewFloat64(s), nil",
      "          else",
      "            return NewFloat64(reflect.ValueOf(source).Float()), nil",
      "  return nil, errors.WithStack(encoding.ErrUnsupportedType)"
    ] ∧
    Uniflow.Generated.CodecFuncs.o_types_float_fn_newFloatDecoder = [
      "return encoding.DecodeCompilerFunc[Value](func#1)",
      "func#1(typ reflect.Type) (encoding.Decoder[Value, unsafe.Pointer], error)",
      "  if typ != nil && typ.Kind() == reflect.Pointer",
      "    if typ.Elem().Kind() == reflect.Float32",
      "      return newFloatDecoderWithType[float32](), nil",
      "    else",
      "      if typ.Elem().Kind() == reflect.Float64",
      "        return newFloatDecoderWithType[float64](), nil",
      "      else",
      "        if typ.Elem().Kind() == reflect.Int",
      "          return newFloatDecoderWithType[int](), nil",
      "        else",
      "          if typ.Elem().Kind() == reflect.Int8",
      "            return newFloatDecoderWithType[int8](), nil",
      "          else",
      "            if typ.Elem().Kind() == reflect.Int16",
      "              return newFloatDecoderWithType[int16](), nil",
      "            else",
      "              if typ.Elem().Kind() == reflect.Int32",
      "                return newFloatDecoderWithType[int32](), nil",
      "              else",
      "                if typ.Elem().Kind() == reflect.Int64",
      "                  return newFloatDecoderWithType[int64](), nil",
      "                else",
      "                  if typ.Elem().Kind() == reflect.Uint",
      "                    return newFloatDecoderWithType[uint](), nil",
      "                  else",
      "                    if typ.Elem().Kind() == reflect.Uint8",
      "                      return newFloatDecoderWithType[uint8](), nil",
      "                    else",
      "                      if typ.Elem().Kind() == reflect.Uint16",
      "                        return newFloatDecoderWithType[uint16](), nil",
      "                      else",
      "                        if typ.Elem().Kind() == reflect.Uint32",
      "                          return newFloatDecoderWithType[uint32](), nil",
      "                        else",
      "                          if typ.Elem().Kind() == reflect.Uint64",
      "                            return newFloatDecoderWithType[uint64](), nil",
      "                          else",
      "                            if typ.Elem().Kind() == reflect.String",
      "                              return encoding.DecodeFunc(func#2), nil",
      "                              func#2(source Value, target unsafe.Pointer) error",
      "                                if s, ok := source.(Float); ok",
      "                                  *(*string)(target) = fmt.Sprint(s.Interface())",
      "                                  return nil",
      "                                return errors.WithStack(encoding.ErrUnsupportedType)",
      "                            else",
      "                              if typ.Elem() == types[KindUnknown]",
      "                                return encoding.DecodeFunc(func#3), nil",
      "                                func#3(source Value, target unsafe.Pointer) error",
      "                                  if s, ok := source.(Float); ok",
      "                                    *(*any)(target) = s.Interface()",
      "                                    return nil",
      "                                  return errors.WithStack(encoding.ErrUnsupportedType)",
      "  return nil, errors.WithStack(encoding.ErrUnsupportedType)"
    ] := by
  decide

set_option maxRecDepth 16384 in
/-- pkg/types/slice.go as modelled: its declarations (in source order) and the outline of each -/
theorem C16.src_types_slice_as_modelled :
    Uniflow.Generated.CodecFuncs.o_types_slice_Slice_MarshalJSON = [
      "return json.Marshal(s.value)"
    ] ∧
    Uniflow.Generated.CodecFuncs.o_types_slice_Slice_UnmarshalJSON = [
      "s.mu.Lock()",
      "defer s.mu.Unlock()",
      "var value []any",
      "if err := json.Unmarshal(bytes, &value); err != nil",
      "  return err",
      "s.value = make([]Value, 0, len(value))",
      "s.hash = 0",
      "for _, v := range value",
      "  val, err := Marshal(v)",
      "  if err != nil",
      "    return err",
      "  s.value = append(s.value, val)",
      "return nil"
    ] ∧
    Uniflow.Generated.CodecFuncs.o_types_slice_fn_newSliceEncoder = [
      "return encoding.EncodeCompilerFunc[any, Value](func#1)",
      "func#1(typ reflect.Type) (encoding.Encoder[any, Value], error)",
      "  if typ != nil && (typ.Kind() == reflect.Array || typ.Kind() == reflect.Slice)",
      "    valueEncoder, _ := encoder.Compile(typ.Elem())",
      "    if valueEncoder == nil",
      "      valueEncoder = encoder",
      "    return encoding.EncodeFunc(func#2), nil",
      "    func#2(source any) (Value, error)",
      "      s := reflect.ValueOf(source)",
      "      values := make([]Value, 0, s.Len())",
      "      for i := 0; i < s.Len(); i++",
      "        v := s.Index(i)",
      "        if value, err := valueEncoder.Encode(v.Interface()); err != nil",
      "          return nil, err",
      "        else",
      "          values = append(values, value)",
      "      return NewSlice(values...), nil",
      "  return nil, errors.WithStack(encoding.ErrUnsupportedType)"
    ] ∧
    Uniflow.Generated.CodecFuncs.o_types_slice_fn_newSliceDecoder = [
      "return encoding.DecodeCompilerFunc[Value](func#1)",
      "func#1(typ reflect.Type) (encoding.Decoder[Value, unsafe.Pointer], error)",
      "  if typ != nil && typ.Kind() == reflect.Pointer",
      "    if typ.Elem().Kind() == reflect.Array || typ.Elem().Kind() == reflect.Slice",
      "      valueDecoder, err := decoder.Compile(reflect.PointerTo(typ.Elem().Elem()))",
      "      if err != nil",
      "        return nil, err",
      "      return encoding.DecodeFunc(func#2), nil",
      "      func#2(source Value, target unsafe.Pointer) error",
      "        t := reflect.NewAt(typ.Elem(), target).Elem()",
      "        if s, ok := source.(Slice); ok",
      "          if t.Kind() == reflect.Slice && t.IsNil()",
      "            t.Set(reflect.MakeSlice(t.Type(), 0, s.Len()))",
      "          for t.Len() < s.Len()",
      "            if t.Kind() != reflect.Slice",
      "              return errors.WithStack(encoding.ErrUnsupportedValue)",
      "            else",
      "              t.Set(reflect.Append(t, reflect.Zero(t.Type().Elem())))",
      "          for i, v := range s.Range()",
      "            if err := valueDecoder.Decode(v, t.Index(i).Addr().UnsafePointer()); err != nil",
      "              return err",
      "          return nil",
      "        if t.Len() == 0",
      "          if t.Kind() != reflect.Slice",
      "            return errors.WithStack(encoding.ErrUnsupportedValue)",
      "          else",
      "            t.Set(reflect.Append(t, reflect.Zero(t.Type().Elem())))",
      "        return valueDecoder.Decode(source, t.Index(0).Addr().UnsafePointer())",
      "    else",
      "      if typ.Elem() == types[KindUnknown]",
      "        return encoding.DecodeFunc(func#3), nil",
      "        func#3(source Value, target unsafe.Pointer) error",
      "          if s, ok := source.(Slice); ok",
      "            *(*any)(target) = s.Interface()",
      "            return nil",
      "          return errors.WithStack(encoding.ErrUnsupportedType)",
      "  return nil, errors.WithStack(encoding.ErrUnsupportedType)"
    ] ∧
    Uniflow.Generated.CodecFuncs.names_types_slice = ["Slice.MarshalJSON", "Slice.UnmarshalJSON", "fn.newSliceEncoder", "fn.newSliceDecoder"] := by
  decide

set_option maxRecDepth 16384 in
/-- pkg/types/integer.go as modelled (part 2 of 2): its declarations (in source order) and the outline of each -/
theorem C16.src_types_integer_as_modelled_2 :
    Uniflow.Generated.CodecFuncs.o_types_integer_fn_newIntegerDecoder = [
      "return encoding.DecodeCompilerFunc[Value](func#1)",
      "func#1(typ reflect.Type) (encoding.Decoder[Value, unsafe.Pointer], error)",
      "  if typ != nil && typ.Kind() == reflect.Pointer",
      "    if typ.Elem().Kind() == reflect.Float32",
      "      return newIntegerDecoderWithType[float32](), nil",
      "    else",
      "      if typ.Elem().Kind() == reflect.Float64",
      "        return newIntegerDecoderWithType[float64](), nil",
      "      else",
      "        if typ.Elem().Kind() == reflect.Int",
      "          return newIntegerDecoderWithType[int](), nil",
      "        else",
      "          if typ.Elem().Kind() == reflect.Int8",
      "            return newIntegerDecoderWithType[int8](), nil",
      "          else",
      "            if typ.Elem().Kind() == reflect.Int16",
      "              return newIntegerDecoderWithType[int16](), nil",
      "            else",
      "              if typ.Elem().Kind() == reflect.Int32",
      "                return newIntegerDecoderWithType[int32](), nil",
      "              else",
      "                if typ.Elem().Kind() == reflect.Int64",
      "                  return newIntegerDecoderWithType[int64](), nil",
      "                else",
      "                  if typ.Elem().Kind() == reflect.Uint",
      "                    return newIntegerDecoderWithType[uint](), nil",
      "                  else",
      "                    if typ.Elem().Kind() == reflect.Uint8",
      "                      return newIntegerDecoderWithType[uint8](), nil",
      "                    else",
      "                      if typ.Elem().Kind() == reflect.Uint16",
      "                        return newIntegerDecoderWithType[uint16](), nil",
      "                      else",
      "                        if typ.Elem().Kind() == reflect.Uint32",
      "                          return newIntegerDecoderWithType[uint32](), nil",
      "                        else",
      "                          if typ.Elem().Kind() == reflect.Uint64",
      "                            return newIntegerDecoderWithType[uint64](), nil",
      "                          else",
      "                            if typ.Elem().Kind() == reflect.String",
      "                              return encoding.DecodeFunc(func#2), nil",
      "                              func#2(source Value, target unsafe.Pointer) error",
      "                                if s, ok := source.(Integer); ok",
      "                                  *(*string)(target) = fmt.Sprint(s.Interface())",
      "                                  return nil",
      "                                return errors.WithStack(encoding.ErrUnsupportedType)",
      "                            else",
      "                              if typ.Elem() == types[KindUnknown]",
      "                                return encoding.DecodeFunc(func#3), nil",
      "                                func#3(source Value, target unsafe.Pointer) error",
      "                                  if s, ok := source.(Integer); ok",
      "                                    *(*any)(target) = s.Interface()",
      "                                    return nil",
      "                                  return errors.WithStack(encoding.ErrUnsupportedType)",
      "  return nil, errors.WithStack(encoding.ErrUnsupportedType)"
    ] ∧
    Uniflow.Generated.CodecFuncs.o_types_integer_fn_newIntegerDecoderWithType = [
      "return encoding.DecodeFunc(func#1)",
      "func#1(source Value, target unsafe.Pointer) error",
      "  if s, ok := source.(Integer); ok",
      "    *(*T)(target) = T(s.Int())",
      "    return nil",
      "  return errors.WithStack(encoding.ErrUnsupportedType)"
    ] ∧
    Uniflow.Generated.CodecFuncs.names_types_integer = ["Int.MarshalJSON", "Int.UnmarshalJSON", "Int8.MarshalJSON", "Int8.UnmarshalJSON", "Int16.MarshalJSON", "Int16.UnmarshalJSON", "Int32.MarshalJSON", "Int32.UnmarshalJSON", "Int64.MarshalJSON", "Int64.UnmarshalJSON", "fn.newIntegerEncoder", "fn.newIntegerDecoder", "fn.newIntegerDecoderWithType"] := by
  decide

set_option maxRecDepth 16384 in
/-- pkg/types/map.go as modelled (part 1 of 4): its declarations (in source order) and the outline of each -/
theorem C16.src_types_map_as_modelled_1 :
    Uniflow.Generated.CodecFuncs.o_types_map_immutableMap_MarshalJSON = [
      "buf := make([]byte, 0, 512)",
      "buf = append(buf, '{')",
      "for k, v := range m.Range()",
      "  if len(buf) > 1",
      "    buf = append(buf, ',')",
      "  key, err := json.Marshal(k)",
      "  if err != nil",
      "    return nil, err",
      "  buf = append(buf, key...)",
      "  buf = append(buf, ':')",
      "  value, err := json.Marshal(v)",
      "  if err != nil",
      "    return nil, err",
      "  buf = append(buf, value...)",
      "buf = append(buf, '}')",
      "return buf, nil"
    ] ∧
    Uniflow.Generated.CodecFuncs.o_types_map_immutableMap_UnmarshalJSON = [
      "m.mu.Lock()",
      "defer m.mu.Unlock()",
      "mutable := &mutableMap{value: make(map[uint64][][2]Value)}",
      "if err := mutable.UnmarshalJSON(bytes); err != nil",
      "  return err",
      "m.value = mutable.value",
      "m.hash = 0",
      "return nil"
    ] ∧
    Uniflow.Generated.CodecFuncs.o_types_map_mutableMap_MarshalJSON = [
      "return m.immutable().MarshalJSON()"
    ] ∧
    Uniflow.Generated.CodecFuncs.o_types_map_mutableMap_UnmarshalJSON = [
      "var value map[string]any",
      "if err := json.Unmarshal(bytes, &value); err != nil",
      "  return err",
      "for k, v := range value",
      "  key := NewString(k)",
      "  val, err := Marshal(v)",
      "  if err != nil",
      "    return err",
      "  m.Set(key, val)",
      "return nil"
    ] := by
  decide

set_option maxRecDepth 16384 in
/-- pkg/encoding/compiler.go as modelled: its declarations (in source order) and the outline of each -/
theorem C16.src_encoding_compiler_as_modelled :
    Uniflow.Generated.CodecFuncs.o_encoding_compiler_fn_Compile = [
      "return f(typ)"
    ] ∧
    Uniflow.Generated.CodecFuncs.o_encoding_compiler_DecodeCompilerFunc_Compile = [
      "return f(typ)"
    ] ∧
    Uniflow.Generated.CodecFuncs.names_encoding_compiler = ["fn.Compile", "DecodeCompilerFunc.Compile"] := by
  decide

set_option maxRecDepth 16384 in
/-- pkg/types/string.go as modelled (part 3 of 3): its declarations (in source order) and the outline of each -/
theorem C16.src_types_string_as_modelled_3 :
    Uniflow.Generated.CodecFuncs.names_types_string = ["String.MarshalText", "String.UnmarshalText", "fn.newStringEncoder", "fn.newStringDecoder"] := by
  decide

