/-
C05 – regenerated tie over Generated/PortFuncs.lean, Generated/ProcessFuncs.lean (extract/funcs.go): the outline of EVERY function of the source
files named below – regenerated from /repo on every run – equals the transcript frozen here (bin/freeze_all.py, repo 7f54b88,
2026-10-01). A theorem that stops checking names the file whose code is no longer the code that was modelled; bin/check then
searches for a failing input.
-/
import Uniflow.Generated.PortFuncs
import Uniflow.Generated.ProcessFuncs

set_option maxRecDepth 16384 in
/-- pkg/port/inport.go as modelled (part 1 of 2): its declarations (in source order) and the outline of each -/
theorem C05.src_port_inport_as_modelled_1 :
    Uniflow.Generated.PortFuncs.o_port_inport_fn_NewIn = [
      "return &InPort{ readers: make(map[*process.Process]*packet.Reader), }"
    ] ∧
    Uniflow.Generated.PortFuncs.o_port_inport_InPort_AddOpenHook = [
      "p.mu.Lock()",
      "defer p.mu.Unlock()",
      "for _, h := range p.openHooks",
      "  if h == hook",
      "    return false",
      "p.openHooks = append(p.openHooks, hook)",
      "return true"
    ] ∧
    Uniflow.Generated.PortFuncs.o_port_inport_InPort_RemoveOpenHook = [
      "p.mu.Lock()",
      "defer p.mu.Unlock()",
      "for i, h := range p.openHooks",
      "  if h == hook",
      "    p.openHooks = append(p.openHooks[:i:i], p.openHooks[i+1:]...)",
      "    return true",
      "return false"
    ] ∧
    Uniflow.Generated.PortFuncs.o_port_inport_InPort_AddCloseHook = [
      "p.mu.Lock()",
      "defer p.mu.Unlock()",
      "for _, h := range p.closeHooks",
      "  if h == hook",
      "    return false",
      "p.closeHooks = append(p.closeHooks, hook)",
      "return true"
    ] ∧
    Uniflow.Generated.PortFuncs.o_port_inport_InPort_RemoveCloseHook = [
      "p.mu.Lock()",
      "defer p.mu.Unlock()",
      "for i, h := range p.closeHooks",
      "  if h == hook",
      "    p.closeHooks = append(p.closeHooks[:i], p.closeHooks[i+1:]...)",
      "    return true",
      "return false"
    ] ∧
    Uniflow.Generated.PortFuncs.o_port_inport_InPort_AddListener = [
      "p.mu.Lock()",
      "defer p.mu.Unlock()",
      "for _, l := range p.listeners",
      "  if l == listener",
      "    return false",
      "p.listeners = append(p.listeners, listener)",
      "return true"
    ] ∧
    Uniflow.Generated.PortFuncs.o_port_inport_InPort_Open = [
      "if proc.Status() == process.StatusTerminated",
      "  return packet.ClosedReader",
      "verifYield(11)",
      "p.mu.RLock()",
      "reader, ok := p.readers[proc]",
      "p.mu.RUnlock()",
      "if ok",
      "  return reader",
      "verifYield(13)",
      "p.mu.Lock()",
      "reader, ok = p.readers[proc]",
      "if ok",
      "  p.mu.Unlock()",
      "  return reader",
      "reader = packet.NewReader()",
      "p.readers[proc] = reader",
      "openHooks := p.openHooks",
      "listeners := p.listeners",
      "done := p.done",
      "p.mu.Unlock()",
      "verifYield(12)",
      "proc.AddExitHook(process.ExitFunc(func#1))",
      "func#1(_ error)",
      "  p.mu.Lock()",
      "  delete(p.readers, proc)",
      "  p.mu.Unlock()",
      "  reader.Close()",
      "openHooks.Open(proc)",
      "if done && len(listeners) == 0",
      "  go func#2()",
      "  func#2()",
      "    for range reader.Read()",
      "      reader.Receive(packet.New(packet.ErrDroppedPacket))",
      "else",
      "  go listeners.Accept(proc)",
      "return reader"
    ] ∧
    Uniflow.Generated.PortFuncs.o_port_inport_InPort_Close = [
      "p.mu.Lock()",
      "closeHooks := p.closeHooks",
      "readers := p.readers",
      "p.readers = make(map[*process.Process]*packet.Reader)",
      "p.openHooks = nil",
      "p.closeHooks = nil",
      "p.listeners = nil",
      "p.done = true",
      "p.mu.Unlock()",
      "closeHooks.Close()",
      "for _, reader := range readers",
      "  reader.Close()"
    ] := by
  decide

set_option maxRecDepth 16384 in
/-- pkg/port/outport.go as modelled (part 2 of 2): its declarations (in source order) and the outline of each -/
theorem C05.src_port_outport_as_modelled_2 :
    Uniflow.Generated.PortFuncs.o_port_outport_OutPort_Open = [
      "if proc.Status() == process.StatusTerminated",
      "  return packet.ClosedWriter",
      "verifYield(11)",
      "p.mu.RLock()",
      "writer, ok := p.lookup(proc)",
      "p.mu.RUnlock()",
      "if ok",
      "  return writer",
      "verifYield(13)",
      "p.mu.Lock()",
      "writer, ok = p.lookup(proc)",
      "if ok",
      "  p.mu.Unlock()",
      "  return writer",
      "writer = packet.NewWriter()",
      "p.writers[proc] = writer",
      "ins := p.ins",
      "openHooks := p.openHooks",
      "listeners := p.listeners",
      "if len(listeners) > 0",
      "  p.listening[proc] = writer",
      "p.mu.Unlock()",
      "openHooks.Open(proc)",
      "go func#1()",
      "func#1()",
      "  listeners.Accept(proc)",
      "  if len(listeners) > 0",
      "    p.mu.Lock()",
      "    if p.listening[proc] == writer",
      "      delete(p.listening, proc)",
      "    p.mu.Unlock()",
      "verifYield(12)",
      "proc.AddExitHook(process.ExitFunc(func#2))",
      "func#2(_ error)",
      "  p.mu.Lock()",
      "  delete(p.writers, proc)",
      "  p.mu.Unlock()",
      "  writer.Close()",
      "for _, in := range ins",
      "  reader := in.Open(proc)",
      "  writer.Link(reader)",
      "return writer"
    ] ∧
    Uniflow.Generated.PortFuncs.o_port_outport_OutPort_lookup = [
      "if writer, ok := p.writers[proc]; ok",
      "  return writer, true",
      "writer, ok := p.listening[proc]",
      "return writer, ok"
    ] ∧
    Uniflow.Generated.PortFuncs.o_port_outport_OutPort_Close = [
      "p.mu.Lock()",
      "closeHooks := p.closeHooks",
      "writers := p.writers",
      "p.writers = make(map[*process.Process]*packet.Writer)",
      "p.ins = nil",
      "p.openHooks = nil",
      "p.closeHooks = nil",
      "p.listeners = nil",
      "p.mu.Unlock()",
      "closeHooks.Close()",
      "for _, writer := range writers",
      "  writer.Close()"
    ] ∧
    Uniflow.Generated.PortFuncs.names_port_outport = ["fn.NewOut", "OutPort.AddOpenHook", "OutPort.RemoveOpenHook", "OutPort.AddCloseHook", "OutPort.RemoveCloseHook", "OutPort.AddListener", "OutPort.Links", "OutPort.Link", "OutPort.Unlink", "OutPort.Open", "OutPort.lookup", "OutPort.Close"] := by
  decide

set_option maxRecDepth 16384 in
/-- pkg/process/local.go as modelled (part 2 of 2): its declarations (in source order) and the outline of each -/
theorem C05.src_process_local_as_modelled_2 :
    Uniflow.Generated.ProcessFuncs.o_process_local_Local_Close = [
      "l.mu.Lock()",
      "defer l.mu.Unlock()",
      "l.eager = make(map[*Process]T)",
      "l.lazy = make(map[*Process]*lazy[T])",
      "l.storeHooks = make(map[*Process]StoreHooks[T])"
    ] ∧
    Uniflow.Generated.ProcessFuncs.o_process_local_lazy_Do = [
      "o.mu.Lock()",
      "defer o.mu.Unlock()",
      "if o.done.Load() == 0",
      "  defer o.done.Store(1)",
      "  o.value, o.error = o.fn()",
      "return o.value, o.error"
    ] ∧
    Uniflow.Generated.ProcessFuncs.names_process_local = ["fn.NewLocal", "Local.AddStoreHook", "Local.RemoveStoreHook", "Local.Keys", "Local.Load", "Local.Store", "Local.Delete", "Local.LoadOrStore", "Local.Close", "lazy.Do"] := by
  decide

