/-
C17 — decoding is a pure function of the value and the target type.

Property theorems about `Uniflow.Group.decode` (model of `(*DecoderGroup).Decode`).
Helper lemmas are in this file's first section only because they are short; the property
statements are the `theorem C17.*` at the end.

Decoding must also leave its *source* as it was – otherwise the same source object holds another value at the next
decode. The group model has no source state (a decoder is a function `σ → R α`), so this is a separate statement:
Props/C17Source.lean proves over the heap model of uniflow's maps (Model/MapHeap.lean) that the working copy the
repaired struct decoder takes, `source.Immutable().Mutable()`, can be consumed (Delete, Clear, anything) without the
source's Go map changing, whether the source is a mutable or an immutable map; the harness (harness/c17/mutsrc.go,
and the C16 oracle on documents rebuilt with mutable maps) decodes mutable sources twice and compares the source with a
snapshot. Before the commit "fix: decoding never modifies its source map" a decode emptied a mutable map
(witness corpus/C17/01-decode-destroys-mutable-source.ops).
-/
import Uniflow.Model.Group
import Uniflow.Generated.Decoders

namespace Uniflow.Group

variable {σ α : Type}

/-- What the group's cache may contain: for source type `τ` the cached index `i` is a valid
decoder index and every decoder before it answers `unsupported` on every source of type `τ`
(so a cold run reaches decoder `i` with nothing decided yet). -/
def CacheOK (ty : σ → Nat) (ds : List (σ → R α)) (c : Cache) : Prop :=
  ∀ τ i, lookup c τ = some i →
    (∃ d, (d, i) ∈ ds.zipIdx) ∧
    ∀ p ∈ ds.zipIdx, p.2 < i → ∀ s, ty s = τ → p.1 s = .unsupported

/-- Coherence of a decoder list at one source type: either every decoder's
"unsupported type" verdict depends on the source's type only (leaf decoders: they start with a
type switch on the source), or at most one decoder ever answers anything else on this type
(container sources, taken only by the one composite decoder). -/
def CoherentAt (ty : σ → Nat) (ds : List (σ → R α)) (τ : Nat) : Prop :=
  (∀ d ∈ ds, ∀ s s', ty s = τ → ty s' = τ → (d s = .unsupported → d s' = .unsupported)) ∨
  (∃ i, ∀ p ∈ ds.zipIdx, p.2 ≠ i → ∀ s, ty s = τ → p.1 s = .unsupported)

def Coherent (ty : σ → Nat) (ds : List (σ → R α)) : Prop := ∀ τ, CoherentAt ty ds τ

/-! ### helper lemmas on the loop -/

theorem loop_skip_absent (i : Nat) (s : σ) (l : List ((σ → R α) × Nat)) (err : R α)
    (h : ∀ p ∈ l, p.2 ≠ i) : loop (some i) s l err = loop none s l err := by
  induction l generalizing err with
  | nil => simp [loop]
  | cons p l ih =>
    obtain ⟨d, k⟩ := p
    have hk : k ≠ i := h (d, k) (by simp)
    have hrest : ∀ p ∈ l, p.2 ≠ i := fun p hp => h p (by simp [hp])
    have h1 : ¬ (some i = some k) := by intro e; exact hk (Option.some.inj e).symm
    simp only [loop, h1, if_false, reduceCtorEq]
    cases d s <;> simp [ih _ hrest]

/-- Warm path, cached decoder answered `unsupported`: the remaining loop equals the cold loop. -/
theorem loop_warm_eq_cold (i : Nat) (s : σ) (d : σ → R α) (l : List ((σ → R α) × Nat))
    (err0 : R α)
    (hsorted : l.Pairwise (fun p q => p.2 < q.2))
    (hmem : (d, i) ∈ l)
    (hpre : ∀ p ∈ l, p.2 < i → p.1 s = .unsupported)
    (hd : d s = .unsupported) :
    loop (some i) s l .unsupported = loop none s l err0 := by
  induction l generalizing err0 with
  | nil => simp at hmem
  | cons p l ih =>
    obtain ⟨d0, k⟩ := p
    rw [List.pairwise_cons] at hsorted
    obtain ⟨hhead, htail⟩ := hsorted
    rcases List.mem_cons.mp hmem with heq | hin
    · -- the cached decoder is the head
      have hd0 : d0 = d := (Prod.mk.inj heq).1.symm
      have hk : k = i := (Prod.mk.inj heq).2.symm
      subst hd0; subst hk
      have hrest : ∀ p ∈ l, p.2 ≠ k := fun p hp => Nat.ne_of_gt (hhead p hp)
      simp [loop, hd, loop_skip_absent k s l _ hrest]
    · have hlt : k < i := hhead (d, i) hin
      have hd0 : d0 s = .unsupported := hpre (d0, k) (by simp) hlt
      have hne : ¬ (some i = some k) := by
        intro e; have := Option.some.inj e; omega
      have hpre' : ∀ p ∈ l, p.2 < i → p.1 s = .unsupported :=
        fun p hp => hpre p (by simp [hp])
      simp only [loop, hne, if_false, hd0, reduceCtorEq]
      exact ih .unsupported htail hin hpre'

/-- Cold path reaching decoder `i` whose answer is not `unsupported`: that answer is the result. -/
theorem loop_cold_hits (i : Nat) (s : σ) (d : σ → R α) (l : List ((σ → R α) × Nat))
    (err0 : R α)
    (hsorted : l.Pairwise (fun p q => p.2 < q.2))
    (hmem : (d, i) ∈ l)
    (hpre : ∀ p ∈ l, p.2 < i → p.1 s = .unsupported)
    (hd : d s ≠ .unsupported) :
    (loop none s l err0).1 = d s := by
  induction l generalizing err0 with
  | nil => simp at hmem
  | cons p l ih =>
    obtain ⟨d0, k⟩ := p
    rw [List.pairwise_cons] at hsorted
    obtain ⟨hhead, htail⟩ := hsorted
    rcases List.mem_cons.mp hmem with heq | hin
    · have hd0 : d0 = d := (Prod.mk.inj heq).1.symm
      subst hd0
      simp only [loop, reduceCtorEq, if_false]
      cases h : d0 s <;> simp_all
    · have hlt : k < i := hhead (d, i) hin
      have hd0 : d0 s = .unsupported := hpre (d0, k) (by simp) hlt
      have hpre' : ∀ p ∈ l, p.2 < i → p.1 s = .unsupported :=
        fun p hp => hpre p (by simp [hp])
      simp only [loop, reduceCtorEq, if_false, hd0]
      exact ih .unsupported htail hin hpre'

/-- What a stored index means: the decoder at that index did not answer `unsupported`, and
every non-skipped decoder before it did. -/
theorem loop_stored (skip : Option Nat) (s : σ) (l : List ((σ → R α) × Nat)) (err : R α)
    (r : R α) (j : Nat) (h : loop skip s l err = (r, some j))
    (hsorted : l.Pairwise (fun p q => p.2 < q.2)) :
    (∃ d, (d, j) ∈ l ∧ d s ≠ .unsupported) ∧
    ∀ p ∈ l, p.2 < j → skip ≠ some p.2 → p.1 s = .unsupported := by
  induction l generalizing err with
  | nil => simp [loop] at h
  | cons p l ih =>
    obtain ⟨d0, k⟩ := p
    rw [List.pairwise_cons] at hsorted
    obtain ⟨hhead, htail⟩ := hsorted
    simp only [loop] at h
    by_cases hs : skip = some k
    · simp only [hs, if_true] at h
      have := ih err (by simpa [hs] using h) htail
      obtain ⟨⟨d, hd, hdn⟩, hall⟩ := this
      refine ⟨⟨d, by simp [hd], hdn⟩, ?_⟩
      intro p hp hlt hne
      rcases List.mem_cons.mp hp with heq | hin
      · subst heq; simp [hs] at hne
      · exact hall p hin hlt (by simpa [hs] using hne)
    · simp only [hs, if_false] at h
      cases hd0 : d0 s with
      | ok a =>
        simp only [hd0] at h
        have hj : k = j := by injection h with _ h2; injection h2
        subst hj
        refine ⟨⟨d0, by simp, by simp [hd0]⟩, ?_⟩
        intro p hp hlt _
        rcases List.mem_cons.mp hp with heq | hin
        · subst heq; simp at hlt
        · have := hhead p hin; omega
      | noop =>
        simp only [hd0] at h
        have hj : k = j := by injection h with _ h2; injection h2
        subst hj
        refine ⟨⟨d0, by simp, by simp [hd0]⟩, ?_⟩
        intro p hp hlt _
        rcases List.mem_cons.mp hp with heq | hin
        · subst heq; simp at hlt
        · have := hhead p hin; omega
      | other e => simp [hd0] at h
      | unsupported =>
        simp only [hd0] at h
        obtain ⟨⟨d, hd, hdn⟩, hall⟩ := ih .unsupported h htail
        refine ⟨⟨d, by simp [hd], hdn⟩, ?_⟩
        intro p hp hlt hne
        rcases List.mem_cons.mp hp with heq | hin
        · subst heq; exact hd0
        · exact hall p hin hlt hne

theorem zipIdx_sorted (l : List β) (k : Nat) :
    (l.zipIdx k).Pairwise (fun p q => p.2 < q.2) := by
  induction l generalizing k with
  | nil => simp
  | cons x l ih =>
    simp only [List.zipIdx_cons, List.pairwise_cons]
    refine ⟨?_, ih (k + 1)⟩
    intro p hp
    have := List.mem_zipIdx hp
    omega

theorem lookup_store (c : Cache) (t : Nat) (st : Option Nat) (τ i : Nat)
    (h : lookup (store c t st) τ = some i) :
    lookup c τ = some i ∨ (τ = t ∧ st = some i) := by
  cases st with
  | none => exact Or.inl h
  | some j =>
    simp only [store, lookup] at h
    by_cases ht : t = τ
    · simp only [ht, if_true] at h
      exact Or.inr ⟨ht.symm, by rw [Option.some.inj h]⟩
    · simp only [ht, if_false] at h
      exact Or.inl h

end Uniflow.Group

open Uniflow.Group

/-! ## Property theorems -/

/-- With a well-formed cache, the warm decode returns what the cold decode returns. -/
theorem C17.decode_eq_cold {σ α : Type} (ty : σ → Nat) (ds : List (σ → R α)) (c : Cache) (s : σ)
    (hc : CacheOK ty ds c) :
    (decode ty ds c s).1 = (decode ty ds [] s).1 := by
  have hsorted := zipIdx_sorted ds 0
  unfold decode
  simp only [lookup]
  cases hl : lookup c (ty s) with
  | none => simp
  | some i =>
    obtain ⟨⟨d, hmem⟩, hpre⟩ := hc (ty s) i hl
    have hget : ds[i]? = some d := by
      have := List.mem_zipIdx_iff_getElem?.mp hmem
      simpa using this
    have hpre' : ∀ p ∈ ds.zipIdx, p.2 < i → p.1 s = .unsupported :=
      fun p hp hlt => hpre p hp hlt s rfl
    simp only [hget]
    cases hd : d s with
    | ok a =>
      have := loop_cold_hits i s d ds.zipIdx .noop hsorted hmem hpre' (by simp [hd])
      simp [this, hd]
    | noop =>
      have := loop_cold_hits i s d ds.zipIdx .noop hsorted hmem hpre' (by simp [hd])
      simp [this, hd]
    | other e =>
      have := loop_cold_hits i s d ds.zipIdx .noop hsorted hmem hpre' (by simp [hd])
      simp [this, hd]
    | unsupported =>
      have := loop_warm_eq_cold i s d ds.zipIdx .noop hsorted hmem hpre' hd
      simp [this]

/-- Every decode keeps the cache well-formed, for coherent decoder lists. -/
theorem C17.cacheOK_step {σ α : Type} (ty : σ → Nat) (ds : List (σ → R α)) (c : Cache) (s : σ)
    (hcoh : Coherent ty ds) (hc : CacheOK ty ds c) :
    CacheOK ty ds (decode ty ds c s).2 := by
  have hsorted := zipIdx_sorted ds 0
  -- a store made by any loop run is fine
  have key : ∀ (skip : Option Nat) (err : R α),
      (∀ k, skip = some k → ∃ d, (d, k) ∈ ds.zipIdx ∧ d s = .unsupported) →
      CacheOK ty ds (store c (ty s) (loop skip s ds.zipIdx err).2) := by
    intro skip err hskip τ i hlk
    rcases lookup_store c (ty s) _ τ i hlk with hold | ⟨hτ, hst⟩
    · exact hc τ i hold
    · subst hτ
      have hloop : loop skip s ds.zipIdx err = ((loop skip s ds.zipIdx err).1, some i) := by
        rw [← hst]
      obtain ⟨⟨d, hd, hdn⟩, hall⟩ := loop_stored skip s ds.zipIdx err _ i hloop hsorted
      refine ⟨⟨d, hd⟩, ?_⟩
      -- every decoder before `i` answered unsupported on `s` (the skipped one too)
      have hall' : ∀ p ∈ ds.zipIdx, p.2 < i → p.1 s = .unsupported := by
        intro p hp hlt
        by_cases hsk : skip = some p.2
        · obtain ⟨d', hd', hdu⟩ := hskip p.2 hsk
          have h1 := List.mem_zipIdx_iff_getElem?.mp hd'
          have h2 := List.mem_zipIdx_iff_getElem?.mp hp
          simp at h1 h2
          have : p.1 = d' := by
            have := h2.symm.trans h1
            exact Option.some.inj this
          rw [this]; exact hdu
        · exact hall p hp hlt hsk
      intro p hp hlt s' hs'
      rcases hcoh (ty s) with hty | ⟨i0, hone⟩
      · have hpm : p.1 ∈ ds := by
          have := List.mem_zipIdx_iff_getElem?.mp hp
          exact List.mem_of_getElem? this
        exact hty p.1 hpm s s' rfl hs' (hall' p hp hlt)
      · -- only decoder i0 answers on this type, and decoder i answered, so i = i0
        have hi : i = i0 := by
          by_cases h : i = i0
          · exact h
          · exact absurd (hone (d, i) hd h s rfl) hdn
        subst hi
        exact hone p hp (Nat.ne_of_lt hlt) s' hs'
  simp only [decode]
  split
  · exact key none .noop (by intro k hk; cases hk)
  · rename_i i hl
    split
    · exact key none .noop (by intro k hk; cases hk)
    · rename_i d hg
      split
      · exact hc
      · exact hc
      · exact hc
      · rename_i hd
        refine key (some i) .unsupported ?_
        intro k hk
        have : i = k := Option.some.inj hk
        subst this
        exact ⟨d, List.mem_zipIdx_iff_getElem?.mpr (by simpa using hg), hd⟩

theorem C17.cacheOK_nil {σ α : Type} (ty : σ → Nat) (ds : List (σ → R α)) :
    CacheOK ty ds [] := by
  intro τ i h; simp [lookup] at h

theorem C17.cacheOK_warm {σ α : Type} (ty : σ → Nat) (ds : List (σ → R α)) (hcoh : Coherent ty ds)
    (c : Cache) (hist : List σ) (hc : CacheOK ty ds c) : CacheOK ty ds (warm ty ds c hist) := by
  induction hist generalizing c with
  | nil => exact hc
  | cons s ss ih => exact ih _ (C17.cacheOK_step ty ds c s hcoh hc)

/-- **C17 (group level).** After *any* warm-up history of decodes, decoding `s` gives the
result (value or error class) of decoding `s` on a fresh group. -/
theorem C17.group_pure {σ α : Type} (ty : σ → Nat) (ds : List (σ → R α)) (hcoh : Coherent ty ds)
    (hist : List σ) (s : σ) :
    (decode ty ds (warm ty ds [] hist) s).1 = (decode ty ds [] s).1 :=
  C17.decode_eq_cold ty ds _ s (C17.cacheOK_warm ty ds hcoh [] hist (C17.cacheOK_nil ty ds))

/-- Two different histories agree with each other (the form the statement uses). -/
theorem C17.group_history_independent {σ α : Type} (ty : σ → Nat) (ds : List (σ → R α))
    (hcoh : Coherent ty ds) (h₁ h₂ : List σ) (s : σ) :
    (decode ty ds (warm ty ds [] h₁) s).1 = (decode ty ds (warm ty ds [] h₂) s).1 := by
  rw [C17.group_pure ty ds hcoh h₁, C17.group_pure ty ds hcoh h₂]

/-! ### Non-vacuity and the pinned-tree defect -/

namespace Uniflow.Group.Ex

/-- Sources: (type, value). Decoder 0 = "base64 into []byte" (fails with an error on value 7),
decoder 1 = "string bytes" (accepts every string). Both accept type 0 only. -/
def ty : Nat × Nat → Nat := Prod.fst
def d0 : Nat × Nat → R Nat := fun s => if s.1 = 0 then (if s.2 = 7 then .other 1 else .ok s.2) else .unsupported
def d1 : Nat × Nat → R Nat := fun s => if s.1 = 0 then .ok (100 + s.2) else .unsupported
def ds : List (Nat × Nat → R Nat) := [d0, d1]

theorem coherent : Coherent ty ds := by
  intro τ; left
  intro d hd s s' hs hs' h
  simp [ds] at hd
  rcases hd with rfl | rfl <;> simp_all [d0, d1, ty] <;> split at h <;> simp_all

end Uniflow.Group.Ex

open Uniflow.Group.Ex in
/-- The hypotheses of `group_pure` are satisfiable by a non-trivial group (two decoders that
both take the same source type, one of which fails on some values). -/
theorem C17.nonvacuous : Coherent ty ds ∧
    (decode ty ds (warm ty ds [] [(0, 3)]) (0, 7)).1 = .other 1 :=
  ⟨coherent, by decide⟩

open Uniflow.Group.Ex in
/-- The pinned tree's `Decode` was *not* pure, even for this coherent group: cold, `(0,7)` is
an error; after one successful decode it is answered by the second decoder. This is the
`"7" → []byte` history dependence found on the real registry. -/
theorem C17.pinned_impure :
    (decodePinned ty ds [] (0, 7)).1 = .other 1 ∧
    (decodePinned ty ds (decodePinned ty ds [] (0, 3)).2 (0, 7)).1 = .ok 107 := by
  decide

/-! ## The assembler: memoised compilation is unobservable -/

namespace Uniflow.Group

def MemoOK {σ α : Type} (ty : σ → Nat) (cs : List (Compiler σ α)) (m : Memo) : Prop :=
  ∀ τ, CacheOK ty (compiled cs τ) ((m τ).getD [])

theorem memoOK_step {σ α : Type} (ty : σ → Nat) (cs : List (Compiler σ α)) (m : Memo) (τ : Nat) (s : σ)
    (hcoh : ∀ τ, Coherent ty (compiled cs τ)) (hm : MemoOK ty cs m) :
    MemoOK ty cs (asmDecode ty cs m τ s).2 := by
  intro τ'
  unfold asmDecode
  split
  · exact hm τ'
  · simp only [Memo.set]
    by_cases h : τ' = τ
    · subst h; simp only [if_true, Option.getD_some]; exact C17.cacheOK_nil ty _
    · simp only [h, if_false]; exact hm τ'
  · rename_i ds _ _
    simp only [Memo.set]
    by_cases h : τ' = τ
    · subst h
      simp only [if_true, Option.getD_some]
      exact C17.cacheOK_step ty _ _ s (hcoh τ') (hm τ')
    · simp only [h, if_false]; exact hm τ'

theorem memoOK_warm {σ α : Type} (ty : σ → Nat) (cs : List (Compiler σ α))
    (hcoh : ∀ τ, Coherent ty (compiled cs τ)) (m : Memo) (hist : List (Nat × σ)) (hm : MemoOK ty cs m) :
    MemoOK ty cs (asmWarm ty cs m hist) := by
  induction hist generalizing m with
  | nil => exact hm
  | cons p rest ih => exact ih _ (memoOK_step ty cs m p.1 p.2 hcoh hm)

end Uniflow.Group

/-- **C17 (assembler level).** For compilers whose compiled decoder lists are coherent, decoding
source `s` into target type `τ` after *any* history of decodes into the same and other target
types gives the result of the same decode on a fresh assembler: neither the memoised
compilation nor any group's cache is observable. -/
theorem C17.assembler_pure {σ α : Type} (ty : σ → Nat) (cs : List (Compiler σ α))
    (hcoh : ∀ τ, Coherent ty (compiled cs τ)) (hist : List (Nat × σ)) (τ : Nat) (s : σ) :
    (asmDecode ty cs (asmWarm ty cs Memo.empty hist) τ s).1 = (asmDecode ty cs Memo.empty τ s).1 := by
  have hm : MemoOK ty cs (asmWarm ty cs Memo.empty hist) :=
    memoOK_warm ty cs hcoh _ hist (by intro τ'; exact C17.cacheOK_nil ty _)
  unfold asmDecode
  split
  · rfl
  · rfl
  · simp only [Memo.empty, Option.getD_none]
    exact C17.decode_eq_cold ty _ _ s (hm τ)

/-! ## The real registry's leaf decoders (regenerated shape table)

`Coherent` is a hypothesis of the purity theorems. For the real codec registry its first
clause ("a decoder's *unsupported type* verdict depends on the source's dynamic type only") is
backed structurally by `Generated/Decoders.lean`, regenerated from pkg/types on every run: every
leaf decoder has the shape `if s, ok := source.(K); ok { … } return ErrUnsupportedType` (or a
type switch) and does not mention `ErrUnsupportedType` inside the guarded branch. The decoders
that do not have that shape are the reviewed ones below; for them (and for everything else)
the cold/warm/concurrent oracle of the harness is the evidence. -/

/-- Constructors whose decoders are not of the simple guarded shape, with the reason. -/
def C17.reviewedDecoderCtors : List String :=
  [ "newPointerDecoder",   -- nil target / pointer-to-pointer: delegates to the element decoder
    "newShortcutDecoder",  -- Value → Value: verdict by convertibility of the source's type
    "newJSONDecoder",      -- json.Unmarshaler targets: delegates
    "newMapDecoder",       -- composite: struct / map targets, verdict can depend on the elements
    "newSliceDecoder",     -- composite: slice / array targets
    "newTimeDecoder",      -- if/else-if chain of type assertions, `else` ⇒ ErrUnsupportedType
    "newDurationDecoder" ] -- same chain shape

open Uniflow.Generated.Decoders in
theorem C17.leaf_decoders_type_guarded :
    shapes.all (fun d =>
      (d.guard != "none" && !d.unsupportedInside && !d.delegates && d.tailUnsupported) ||
      C17.reviewedDecoderCtors.contains d.fn) = true := by decide

open Uniflow.Generated.Decoders in
/-- The table is not empty and most of it is of the guarded shape (non-vacuity). -/
theorem C17.leaf_decoders_nonvacuous :
    (shapes.filter (fun d => d.guard != "none" && !d.unsupportedInside && d.tailUnsupported)).length ≥ 40 := by
  decide
