/-
C19Tie – re-statement, under this property's name, of regenerated-source tie theorems proved in
C01Tie (the property's model rests on the same source facts; `bin/check` builds and audits only
Props/<this property>*.lean, so without this file a source change that breaks these ties would be
reported for the other property only). Each theorem below has the SAME statement (type_of%) as the
theorem it cites and is proved by it.
-/
import Uniflow.Props.C01Tie

theorem C19.write_facts : type_of% C01.write_facts := C01.write_facts
theorem C19.write_row_as_modelled : type_of% C01.write_row_as_modelled := C01.write_row_as_modelled
theorem C19.receive_outline_as_modelled : type_of% C01.receive_outline_as_modelled := C01.receive_outline_as_modelled
