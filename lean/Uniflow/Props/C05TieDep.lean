/-
C05 – re-statements of the function-outline ties of source files this property DEPENDS on without being anchored in
them (bin/mk_dependency_ties.py; hand-run): a source change there is reported for C05 as well.
-/
import Uniflow.Props.C04TieFn1
import Uniflow.Props.C02TieFn1
import Uniflow.Props.C02TieFn2
import Uniflow.Props.C01TieFn1
import Uniflow.Props.C01TieLayer
import Uniflow.Props.C02TieLayer

theorem C05.dep_C04_process_process_as_modelled_1 : type_of% C04.src_process_process_as_modelled_1 := C04.src_process_process_as_modelled_1
theorem C05.dep_C04_process_process_as_modelled_2 : type_of% C04.src_process_process_as_modelled_2 := C04.src_process_process_as_modelled_2
theorem C05.dep_C04_process_exithook_as_modelled : type_of% C04.src_process_exithook_as_modelled := C04.src_process_exithook_as_modelled
theorem C05.dep_C02_node_onetoone_as_modelled : type_of% C02.src_node_onetoone_as_modelled := C02.src_node_onetoone_as_modelled
theorem C05.dep_C02_node_onetomany_as_modelled : type_of% C02.src_node_onetomany_as_modelled := C02.src_node_onetomany_as_modelled
theorem C05.dep_C02_node_manytoone_as_modelled : type_of% C02.src_node_manytoone_as_modelled := C02.src_node_manytoone_as_modelled
theorem C05.dep_C01_packet_packet_as_modelled : type_of% C01.src_packet_packet_as_modelled := C01.src_packet_packet_as_modelled
theorem C05.dep_C01_packet_hook_as_modelled : type_of% C01.src_packet_hook_as_modelled := C01.src_packet_hook_as_modelled
theorem C05.dep_C02_node_node_as_modelled : type_of% C02.src_node_node_as_modelled := C02.src_node_node_as_modelled
theorem C05.dep_C02_node_port_as_modelled : type_of% C02.src_node_port_as_modelled := C02.src_node_port_as_modelled
