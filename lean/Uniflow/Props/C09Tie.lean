/-
C09Tie – re-statement, under this property's name, of regenerated-source tie theorems proved in
C13Tie (the property's model rests on the same source facts; `bin/check` builds and audits only
Props/<this property>*.lean, so without this file a source change that breaks these ties would be
reported for the other property only). Each theorem below has the SAME statement (type_of%) as the
theorem it cites and is proved by it.
-/
import Uniflow.Props.C13Tie
import Uniflow.Generated.RuntimeFacts

theorem C09.stream_emit_as_modelled : type_of% C13.stream_emit_as_modelled := C13.stream_emit_as_modelled
theorem C09.stream_outline_as_modelled : type_of% C13.stream_outline_as_modelled := C13.stream_outline_as_modelled
theorem C09.emit_loop_as_modelled : type_of% C13.emit_loop_as_modelled := C13.emit_loop_as_modelled

/-! ## `Reconcile` and the symbol table: everything goes through `Load` / `reload`, under `loadMu`

Generated/RuntimeFacts (extract/runtime.go, regenerated from pkg/runtime/runtime.go on every run)
lists, for every method of `*Runtime`, the calls made through the receiver (`r.M(…)`, `r.F.M(…)`,
function literals included) and every other use of a receiver field. `C09.converges_concurrent`
assumes that an event – of whatever kind – is handled only when no load is in flight; these
theorems are the source facts behind that assumption. -/

open Uniflow.Generated.RuntimeFacts

/-- The calls method `fn` makes through the receiver: (field – "" for the runtime itself –, method). -/
def C09.callsIn (fn : String) : List (String × String) := (calls.filter (fun c => c.1 == fn)).map (·.2)

/-- `Reconcile` never touches the symbol table itself: through its receiver it calls only the
stream-field lock, `Load` and `reload`; the only fields it reads are the two streams. -/
theorem C09.reconcile_reaches_table_only_through_load :
    C09.callsIn "Reconcile" = [("mu", "RLock"), ("mu", "RUnlock"), ("", "Load"), ("", "reload")] ∧
    fieldUses.filter (fun u => u.1 == "Reconcile") = [("Reconcile", "specStream"), ("Reconcile", "valueStream")] := by
  decide

/-- Both things `Reconcile` does with an event start by taking `loadMu` and release it on return;
`reload` only *reads* the table (`Keys`, `Lookup`) before it calls `load`. -/
theorem C09.event_handlers_run_under_loadMu :
    C09.callsIn "Load" = [("loadMu", "Lock"), ("loadMu", "Unlock"), ("", "load")] ∧
    C09.callsIn "reload" = [("loadMu", "Lock"), ("loadMu", "Unlock"), ("valueStore", "Find"),
      ("symbolTable", "Keys"), ("symbolTable", "Lookup"), ("", "load")] ∧
    outline_Runtime_Load = ["r.loadMu.Lock()", "defer r.loadMu.Unlock()", "return r.load(ctx, filter)"] ∧
    outline_Runtime_reload.take 2 = ["r.loadMu.Lock()", "defer r.loadMu.Unlock()"] := by
  decide

/-- The table is written (`Insert`, `Free`, `Close`) only by `load` and by `Close`; `load` is
called only by `Load` and `reload`; no method hands the table or `loadMu` to anything else. -/
theorem C09.table_written_only_by_load_and_close :
    (calls.filter (fun c => c.2.1 == "symbolTable" && (c.2.2 == "Insert" || c.2.2 == "Free" || c.2.2 == "Close"))).map (·.1)
      = ["load", "load", "Close"] ∧
    (calls.filter (fun c => c.2.1 == "" && c.2.2 == "load")).map (·.1) = ["Load", "reload"] ∧
    fieldUses.all (fun u => u.2 != "symbolTable" && u.2 != "loadMu") = true := by
  decide

/-- The two consumer loops as the model's `consumeSpec` / `consumeVal` (`beginSpec` / `beginVal`)
have them: every spec event, of every kind, is turned into `Load({id})`; every value event into
`reload(id)`; nothing else happens per event. -/
theorem C09.reconcile_outline_as_modelled :
    outline_Runtime_Reconcile = [
      "r.mu.RLock()",
      "specStream := r.specStream",
      "valueStream := r.valueStream",
      "r.mu.RUnlock()",
      "if specStream == nil || valueStream == nil",
      "  return nil",
      "g, _ := errgroup.WithContext(ctx)",
      "g.Go(func#1)",
      "func#1() error",
      "  for specStream.Next(ctx)",
      "    var event store.Event",
      "    if err := specStream.Decode(&event); err != nil",
      "      return err",
      "    _ = r.Load(ctx, map[string]any{spec.KeyID: event.ID})",
      "  return nil",
      "g.Go(func#2)",
      "func#2() error",
      "  for valueStream.Next(ctx)",
      "    var event store.Event",
      "    if err := valueStream.Decode(&event); err != nil",
      "      return err",
      "    if err := r.reload(ctx, event.ID); err != nil",
      "      return err",
      "  return nil",
      "return g.Wait()"] := by
  decide
