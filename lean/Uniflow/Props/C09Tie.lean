/-
C09Tie – re-statement, under this property's name, of regenerated-source tie theorems proved in
C13Tie (the property's model rests on the same source facts; `bin/check` builds and audits only
Props/<this property>*.lean, so without this file a source change that breaks these ties would be
reported for the other property only). Each theorem below has the SAME statement (type_of%) as the
theorem it cites and is proved by it.
-/
import Uniflow.Props.C13Tie

theorem C09.stream_emit_as_modelled : type_of% C13.stream_emit_as_modelled := C13.stream_emit_as_modelled
theorem C09.stream_outline_as_modelled : type_of% C13.stream_outline_as_modelled := C13.stream_outline_as_modelled
theorem C09.emit_loop_as_modelled : type_of% C13.emit_loop_as_modelled := C13.emit_loop_as_modelled
