/-
C03 – re-statements of the function-outline ties of source files this property DEPENDS on without being anchored in
them (bin/mk_dependency_ties.py; hand-run): a source change there is reported for C03 as well.
-/
import Uniflow.Props.C01TieFn1
import Uniflow.Props.C02TieFn2
import Uniflow.Props.C02TieFn1
import Uniflow.Props.C04TieFn1
import Uniflow.Props.C01TieLayer
import Uniflow.Props.C05TieLayer
import Uniflow.Props.C02TieLayer

theorem C03.dep_C01_packet_packet_as_modelled : type_of% C01.src_packet_packet_as_modelled := C01.src_packet_packet_as_modelled
theorem C03.dep_C02_node_onetomany_as_modelled : type_of% C02.src_node_onetomany_as_modelled := C02.src_node_onetomany_as_modelled
theorem C03.dep_C02_node_manytoone_as_modelled : type_of% C02.src_node_manytoone_as_modelled := C02.src_node_manytoone_as_modelled
theorem C03.dep_C02_packet_readgroup_as_modelled : type_of% C02.src_packet_readgroup_as_modelled := C02.src_packet_readgroup_as_modelled
theorem C03.dep_C04_process_exithook_as_modelled : type_of% C04.src_process_exithook_as_modelled := C04.src_process_exithook_as_modelled
theorem C03.dep_C01_packet_hook_as_modelled : type_of% C01.src_packet_hook_as_modelled := C01.src_packet_hook_as_modelled
theorem C03.dep_C05_port_openhook_as_modelled : type_of% C05.src_port_openhook_as_modelled := C05.src_port_openhook_as_modelled
theorem C03.dep_C05_port_closehook_as_modelled : type_of% C05.src_port_closehook_as_modelled := C05.src_port_closehook_as_modelled
theorem C03.dep_C05_port_listener_as_modelled : type_of% C05.src_port_listener_as_modelled := C05.src_port_listener_as_modelled
theorem C03.dep_C02_node_node_as_modelled : type_of% C02.src_node_node_as_modelled := C02.src_node_node_as_modelled
theorem C03.dep_C02_node_port_as_modelled : type_of% C02.src_node_port_as_modelled := C02.src_node_port_as_modelled
