/-
C17 – the codec's source as modelled: re-statements of the regenerated ties of Props/C16Tie1…6.lean (Generated/CodecFuncs.lean,
extract/funcs.go). The decoder groups, the assemblers and every leaf decoder are what "decoding is a pure function of value
and target type" is about; a source change in any of them is reported for C17 as well as for C16.
-/
import Uniflow.Props.C16Tie1
import Uniflow.Props.C16Tie2
import Uniflow.Props.C16Tie3
import Uniflow.Props.C16Tie4
import Uniflow.Props.C16Tie5
import Uniflow.Props.C16Tie6

theorem C17.src_types_string_as_modelled_2 : type_of% C16.src_types_string_as_modelled_2 := C16.src_types_string_as_modelled_2
theorem C17.src_types_binary_as_modelled_1 : type_of% C16.src_types_binary_as_modelled_1 := C16.src_types_binary_as_modelled_1
theorem C17.src_spec_encoding_as_modelled : type_of% C16.src_spec_encoding_as_modelled := C16.src_spec_encoding_as_modelled
theorem C17.src_types_map_as_modelled_3 : type_of% C16.src_types_map_as_modelled_3 := C16.src_types_map_as_modelled_3
theorem C17.src_types_integer_as_modelled_1 : type_of% C16.src_types_integer_as_modelled_1 := C16.src_types_integer_as_modelled_1
theorem C17.src_types_uinteger_as_modelled_2 : type_of% C16.src_types_uinteger_as_modelled_2 := C16.src_types_uinteger_as_modelled_2
theorem C17.src_types_string_as_modelled_1 : type_of% C16.src_types_string_as_modelled_1 := C16.src_types_string_as_modelled_1
theorem C17.src_types_buffer_as_modelled_1 : type_of% C16.src_types_buffer_as_modelled_1 := C16.src_types_buffer_as_modelled_1
theorem C17.src_types_float_as_modelled_1 : type_of% C16.src_types_float_as_modelled_1 := C16.src_types_float_as_modelled_1
theorem C17.src_types_slice_as_modelled : type_of% C16.src_types_slice_as_modelled := C16.src_types_slice_as_modelled
theorem C17.src_types_integer_as_modelled_2 : type_of% C16.src_types_integer_as_modelled_2 := C16.src_types_integer_as_modelled_2
theorem C17.src_types_map_as_modelled_1 : type_of% C16.src_types_map_as_modelled_1 := C16.src_types_map_as_modelled_1
theorem C17.src_encoding_compiler_as_modelled : type_of% C16.src_encoding_compiler_as_modelled := C16.src_encoding_compiler_as_modelled
theorem C17.src_types_string_as_modelled_3 : type_of% C16.src_types_string_as_modelled_3 := C16.src_types_string_as_modelled_3
theorem C17.src_types_buffer_as_modelled_2 : type_of% C16.src_types_buffer_as_modelled_2 := C16.src_types_buffer_as_modelled_2
theorem C17.src_types_time_as_modelled : type_of% C16.src_types_time_as_modelled := C16.src_types_time_as_modelled
theorem C17.src_types_uinteger_as_modelled_1 : type_of% C16.src_types_uinteger_as_modelled_1 := C16.src_types_uinteger_as_modelled_1
theorem C17.src_types_encoding_as_modelled_2 : type_of% C16.src_types_encoding_as_modelled_2 := C16.src_types_encoding_as_modelled_2
theorem C17.src_types_map_as_modelled_4 : type_of% C16.src_types_map_as_modelled_4 := C16.src_types_map_as_modelled_4
theorem C17.src_encoding_assembler_as_modelled : type_of% C16.src_encoding_assembler_as_modelled := C16.src_encoding_assembler_as_modelled
theorem C17.src_types_error_as_modelled : type_of% C16.src_types_error_as_modelled := C16.src_types_error_as_modelled
theorem C17.src_encoding_group_as_modelled : type_of% C16.src_encoding_group_as_modelled := C16.src_encoding_group_as_modelled
theorem C17.src_types_json_as_modelled : type_of% C16.src_types_json_as_modelled := C16.src_types_json_as_modelled
theorem C17.src_types_float_as_modelled_2 : type_of% C16.src_types_float_as_modelled_2 := C16.src_types_float_as_modelled_2
theorem C17.src_encoding_encoder_as_modelled : type_of% C16.src_encoding_encoder_as_modelled := C16.src_encoding_encoder_as_modelled
theorem C17.src_types_encoding_as_modelled_1 : type_of% C16.src_types_encoding_as_modelled_1 := C16.src_types_encoding_as_modelled_1
theorem C17.src_types_map_as_modelled_2 : type_of% C16.src_types_map_as_modelled_2 := C16.src_types_map_as_modelled_2
theorem C17.src_types_binary_as_modelled_2 : type_of% C16.src_types_binary_as_modelled_2 := C16.src_types_binary_as_modelled_2
theorem C17.src_types_boolean_as_modelled : type_of% C16.src_types_boolean_as_modelled := C16.src_types_boolean_as_modelled
theorem C17.src_encoding_decoder_as_modelled : type_of% C16.src_encoding_decoder_as_modelled := C16.src_encoding_decoder_as_modelled
