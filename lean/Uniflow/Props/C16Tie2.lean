/-
C16 – regenerated tie over Generated/CodecFuncs.lean (extract/funcs.go): for every source file the models of this
property were transcribed from, the outline of EVERY function of that file – regenerated from /repo on every run –
equals the transcript frozen here (bin/freeze_outlines.py, repo 7f54b88, 2026-10-01). A theorem that stops checking
names the file whose code is no longer the code that was modelled; bin/check then searches for a failing input.
-/
import Uniflow.Generated.CodecFuncs

set_option maxRecDepth 16384 in
/-- pkg/types/map.go as modelled (part 3 of 4): its declarations (in source order) and the outline of each -/
theorem C16.src_types_map_as_modelled_3 :
    Uniflow.Generated.CodecFuncs.o_types_map_fn_newMapDecoder = [
      "return encoding.DecodeCompilerFunc[Value](func#1)",
      "func#1(typ reflect.Type) (encoding.Decoder[Value, unsafe.Pointer], error)",
      "  if typ != nil && typ.Kind() == reflect.Pointer",
      "    if typ.Elem().Kind() == reflect.Map",
      "      keyType := typ.Elem().Key()",
      "      valueType := typ.Elem().Elem()",
      "      keyDecoder, err := decoder.Compile(reflect.PointerTo(keyType))",
      "      if err != nil",
      "        return nil, err",
      "      valueDecoder, err := decoder.Compile(reflect.PointerTo(valueType))",
      "      if err != nil",
      "        return nil, err",
      "      return encoding.DecodeFunc(func#2), nil",
      "      func#2(source Value, target unsafe.Pointer) error",
      "        if source == nil",
      "          return nil",
      "        var m Map",
      "        working := false",
      "        if w, ok := source.(workingMap); ok",
      "          m, working = w.Map, true",
      "        else",
      "          if s, ok := source.(Map); ok",
      "            m = s",
      "          else",
      "            return errors.WithStack(encoding.ErrUnsupportedType)",
      "        t := reflect.NewAt(typ.Elem(), target).Elem()",
      "        if t.IsNil()",
      "          t.Set(reflect.MakeMapWithSize(t.Type(), m.Len()))",
      "        for key, value := range m.Range()",
      "          k := reflect.New(keyType)",
      "          v := reflect.New(valueType)",
      "          if err := keyDecoder.Decode(key, k.UnsafePointer()); err != nil",
      "            return err",
      "          else",
      "            if err := valueDecoder.Decode(value, v.UnsafePointer()); err != nil",
      "              return err",
      "          t.SetMapIndex(k.Elem(), v.Elem())",
      "        if working",
      "          m.Clear()",
      "        return nil",
      "    else",
      "      if typ.Elem().Kind() == reflect.Struct",
      "        var decoders []encoding.Decoder[Map, unsafe.Pointer]",
      "        var inlineMaps []encoding.Decoder[Map, unsafe.Pointer]",
      "        for i := 0; i < typ.Elem().NumField(); i++",
      "          field := typ.Elem().Field(i)",
      "          meta := getMapMeta(field)",
      "          if !field.IsExported() || meta.ignore",
      "            continue",
      "          child, err := decoder.Compile(reflect.PointerTo(field.Type))",
      "          if err != nil",
      "            return nil, err",
      "          offset := field.Offset",
      "          alias := NewString(meta.alias)",
      "          var dec encoding.Decoder[Map, unsafe.Pointer]",
      "          if meta.inline",
      "            dec = encoding.DecodeFunc(func#3)",
      "            func#3(source Map, target unsafe.Pointer) error",
      "              return child.Decode(workingMap{source}, unsafe.Pointer(uintptr(target)+offset))",
      "          else",
      "            dec = encoding.DecodeFunc(func#4)",
      "            func#4(source Map, target unsafe.Pointer) error",
      "              value := source.Get(alias)",
      "              source.Delete(alias)",
      "              if value == nil",
      "                return nil",
      "              return child.Decode(value, unsafe.Pointer(uintptr(target)+offset))",
      "          if meta.inline && field.Type.Kind() == reflect.Map",
      "            inlineMaps = append(inlineMaps, dec)",
      "          else",
      "            decoders = append(decoders, dec)",
      "        decoders = append(decoders, inlineMaps...)",
      "        return encoding.DecodeFunc(func#5), nil",
      "        func#5(source Value, target unsafe.Pointer) error",
      "          if source == nil",
      "            return nil",
      "          var m Map",
      "          if w, ok := source.(workingMap); ok",
      "            m = w.Map",
      "          else",
      "            if s, ok := source.(Map); ok",
      "              m = s.Immutable().Mutable()",
      "            else",
      "              return errors.WithStack(encoding.ErrUnsupportedType)",
      "          for _, dec := range decoders",
      "            if err := dec.Decode(m, target); err != nil",
      "              return err",
      "          return nil",
      "      else",
      "        if typ.Elem() == types[KindUnknown]",
      "          return encoding.DecodeFunc(func#6), nil",
      "          func#6(source Value, target unsafe.Pointer) error",
      "            if s, ok := source.(Map); ok",
      "              *(*any)(target) = s.Interface()",
      "              return nil",
      "            return errors.WithStack(encoding.ErrUnsupportedType)",
      "  return nil, errors.WithStack(encoding.ErrUnsupportedType)"
    ] := by
  decide

set_option maxRecDepth 16384 in
/-- pkg/types/integer.go as modelled (part 1 of 2): its declarations (in source order) and the outline of each -/
theorem C16.src_types_integer_as_modelled_1 :
    Uniflow.Generated.CodecFuncs.o_types_integer_Int_MarshalJSON = [
      "return json.Marshal(i.value)"
    ] ∧
    Uniflow.Generated.CodecFuncs.o_types_integer_Int_UnmarshalJSON = [
      "return json.Unmarshal(bytes, &i.value)"
    ] ∧
    Uniflow.Generated.CodecFuncs.o_types_integer_Int8_MarshalJSON = [
      "return json.Marshal(i.value)"
    ] ∧
    Uniflow.Generated.CodecFuncs.o_types_integer_Int8_UnmarshalJSON = [
      "return json.Unmarshal(bytes, &i.value)"
    ] ∧
    Uniflow.Generated.CodecFuncs.o_types_integer_Int16_MarshalJSON = [
      "return json.Marshal(i.value)"
    ] ∧
    Uniflow.Generated.CodecFuncs.o_types_integer_Int16_UnmarshalJSON = [
      "return json.Unmarshal(bytes, &i.value)"
    ] ∧
    Uniflow.Generated.CodecFuncs.o_types_integer_Int32_MarshalJSON = [
      "return json.Marshal(i.value)"
    ] ∧
    Uniflow.Generated.CodecFuncs.o_types_integer_Int32_UnmarshalJSON = [
      "return json.Unmarshal(bytes, &i.value)"
    ] ∧
    Uniflow.Generated.CodecFuncs.o_types_integer_Int64_MarshalJSON = [
      "return json.Marshal(i.value)"
    ] ∧
    Uniflow.Generated.CodecFuncs.o_types_integer_Int64_UnmarshalJSON = [
      "return json.Unmarshal(bytes, &i.value)"
    ] ∧
    Uniflow.Generated.CodecFuncs.o_types_integer_fn_newIntegerEncoder = [
      "return encoding.EncodeCompilerFunc[any, Value](func#1)",
      "func#1(typ reflect.Type) (encoding.Encoder[any, Value], error)",
      "  if typ == nil",
      "    return nil, errors.WithStack(encoding.ErrUnsupportedType)",
      "  else",
      "    if typ.Kind() == reflect.Int",
      "      return encoding.EncodeFunc(func#2), nil",
      "      func#2(source any) (Value, error)",
      "        if s, ok := source.(int); ok",
      "          return NewInt(s), nil",
      "        else",
      "          return NewInt(int(reflect.ValueOf(source).Int())), nil",
      "    else",
      "      if typ.Kind() == reflect.Int8",
      "        return encoding.EncodeFunc(func#3), nil",
      "        func#3(source any) (Value, error)",
      "          if s, ok := source.(int8); ok",
      "            return NewInt8(s), nil",
      "          else",
      "            return NewInt8(int8(reflect.ValueOf(source).Int())), nil",
      "      else",
      "        if typ.Kind() == reflect.Int16",
      "          return encoding.EncodeFunc(func#4), nil",
      "          func#4(source any) (Value, error)",
      "            if s, ok := source.(int16); ok",
      "              return NewInt16(s), nil",
      "            else",
      "              return NewInt16(int16(reflect.ValueOf(source).Int())), nil",
      "        else",
      "          if typ.Kind() == reflect.Int32",
      "            return encoding.EncodeFunc(func#5), nil",
      "            func#5(source any) (Value, error)",
      "              if s, ok := source.(int32); ok",
      "                return NewInt32(s), nil",
      "              else",
      "                return NewInt32(int32(reflect.ValueOf(source).Int())), nil",
      "          else",
      "            if typ.Kind() == reflect.Int64",
      "              return encoding.EncodeFunc(func#6), nil",
      "              func#6(source any) (Value, error)",
      "                if s, ok := source.(int64); ok",
      "                  return NewInt64(s), nil",
      "                else",
      "                  return NewInt64(reflect.ValueOf(source).Int()), nil",
      "  return nil, errors.WithStack(encoding.ErrUnsupportedType)"
    ] := by
  decide

set_option maxRecDepth 16384 in
/-- pkg/types/uinteger.go as modelled (part 2 of 2): its declarations (in source order) and the outline of each -/
theorem C16.src_types_uinteger_as_modelled_2 :
    Uniflow.Generated.CodecFuncs.o_types_uinteger_fn_newUintegerDecoder = [
      "return encoding.DecodeCompilerFunc[Value](func#1)",
      "func#1(typ reflect.Type) (encoding.Decoder[Value, unsafe.Pointer], error)",
      "  if typ != nil && typ.Kind() == reflect.Pointer",
      "    if typ.Elem().Kind() == reflect.Float32",
      "      return newUintegerDecoderWithType[float32](), nil",
      "    else",
      "      if typ.Elem().Kind() == reflect.Float64",
      "        return newUintegerDecoderWithType[float64](), nil",
      "      else",
      "        if typ.Elem().Kind() == reflect.Int",
      "          return newUintegerDecoderWithType[int](), nil",
      "        else",
      "          if typ.Elem().Kind() == reflect.Int8",
      "            return newUintegerDecoderWithType[int8](), nil",
      "          else",
      "            if typ.Elem().Kind() == reflect.Int16",
      "              return newUintegerDecoderWithType[int16](), nil",
      "            else",
      "              if typ.Elem().Kind() == reflect.Int32",
      "                return newUintegerDecoderWithType[int32](), nil",
      "              else",
      "                if typ.Elem().Kind() == reflect.Int64",
      "                  return newUintegerDecoderWithType[int64](), nil",
      "                else",
      "                  if typ.Elem().Kind() == reflect.Uint",
      "                    return newUintegerDecoderWithType[uint](), nil",
      "                  else",
      "                    if typ.Elem().Kind() == reflect.Uint8",
      "                      return newUintegerDecoderWithType[uint8](), nil",
      "                    else",
      "                      if typ.Elem().Kind() == reflect.Uint16",
      "                        return newUintegerDecoderWithType[uint16](), nil",
      "                      else",
      "                        if typ.Elem().Kind() == reflect.Uint32",
      "                          return newUintegerDecoderWithType[uint32](), nil",
      "                        else",
      "                          if typ.Elem().Kind() == reflect.Uint64",
      "                            return newUintegerDecoderWithType[uint64](), nil",
      "                          else",
      "                            if typ.Elem().Kind() == reflect.String",
      "                              return encoding.DecodeFunc(func#2), nil",
      "                              func#2(source Value, target unsafe.Pointer) error",
      "                                if s, ok := source.(Uinteger); ok",
      "                                  *(*string)(target) = fmt.Sprint(s.Interface())",
      "                                  return nil",
      "                                return errors.WithStack(encoding.ErrUnsupportedType)",
      "                            else",
      "                              if typ.Elem() == types[KindUnknown]",
      "                                return encoding.DecodeFunc(func#3), nil",
      "                                func#3(source Value, target unsafe.Pointer) error",
      "                                  if s, ok := source.(Uinteger); ok",
      "                                    *(*any)(target) = s.Interface()",
      "                                    return nil",
      "                                  return errors.WithStack(encoding.ErrUnsupportedType)",
      "  return nil, errors.WithStack(encoding.ErrUnsupportedType)"
    ] ∧
    Uniflow.Generated.CodecFuncs.o_types_uinteger_fn_newUintegerDecoderWithType = [
      "return encoding.DecodeFunc(func#1)",
      "func#1(source Value, target unsafe.Pointer) error",
      "  if s, ok := source.(Uinteger); ok",
      "    *(*T)(target) = T(s.Uint())",
      "    return nil",
      "  return errors.WithStack(encoding.ErrUnsupportedType)"
    ] ∧
    Uniflow.Generated.CodecFuncs.names_types_uinteger = ["Uint.MarshalJSON", "Uint.UnmarshalJSON", "Uint8.MarshalJSON", "Uint8.UnmarshalJSON", "Uint16.MarshalJSON", "Uint16.UnmarshalJSON", "Uint32.MarshalJSON", "Uint32.UnmarshalJSON", "Uint64.MarshalJSON", "Uint64.UnmarshalJSON", "fn.newUintegerEncoder", "fn.newUintegerDecoder", "fn.newUintegerDecoderWithType"] := by
  decide

set_option maxRecDepth 16384 in
/-- pkg/types/string.go as modelled (part 1 of 3): its declarations (in source order) and the outline of each -/
theorem C16.src_types_string_as_modelled_1 :
    Uniflow.Generated.CodecFuncs.o_types_string_String_MarshalText = [
      "return []byte(s.value), nil"
    ] ∧
    Uniflow.Generated.CodecFuncs.o_types_string_String_UnmarshalText = [
      "s.value = string(text)",
      "return nil"
    ] ∧
    Uniflow.Generated.CodecFuncs.o_types_string_fn_newStringEncoder = [
      "typeTextMarshaler := reflect.TypeOf((*encoding.TextMarshaler)(nil)).Elem()",
      "return encoding2.EncodeCompilerFunc[any, Value](func#1)",
      "func#1(typ reflect.Type) (encoding2.Encoder[any, Value], error)",
      "  if typ == nil",
      "    return nil, errors.WithStack(encoding2.ErrUnsupportedType)",
      "  else",
      "    if typ.ConvertibleTo(typeTextMarshaler)",
      "      return encoding2.EncodeFunc[any, Value](func#2), nil",
      "      func#2(source any) (Value, error)",
      "        if v := reflect.ValueOf(source); v.Kind() == reflect.Pointer && v.IsNil()",
      "          return nil, nil",
      "        s := source.(encoding.TextMarshaler)",
      "        if s, err := s.MarshalText(); err != nil",
      "          return nil, errors.Wrap(encoding2.ErrUnsupportedValue, err.Error())",
      "        else",
      "          return NewString(string(s)), nil",
      "    else",
      "      if typ.Kind() == reflect.String",
      "        return encoding2.EncodeFunc[any, Value](func#3), nil",
      "        func#3(source any) (Value, error)",
      "          if s, ok := source.(string); ok",
      "            return NewString(s), nil",
      "          else",
      "            return NewString(reflect.ValueOf(source).String()), nil",
      "  return nil, errors.WithStack(encoding2.ErrUnsupportedType)"
    ] := by
  decide

set_option maxRecDepth 16384 in
/-- pkg/types/buffer.go as modelled (part 1 of 2): its declarations (in source order) and the outline of each -/
theorem C16.src_types_buffer_as_modelled_1 :
    Uniflow.Generated.CodecFuncs.o_types_buffer_Buffer_MarshalBinary = [
      "return b.Bytes()"
    ] ∧
    Uniflow.Generated.CodecFuncs.o_types_buffer_Buffer_UnmarshalBinary = [
      "if err := b.Close(); err != nil",
      "  return err",
      "b.value = bytes.NewBuffer(data)",
      "return nil"
    ] ∧
    Uniflow.Generated.CodecFuncs.o_types_buffer_fn_newBufferEncoder = [
      "typeReader := reflect.TypeOf((*io.Reader)(nil)).Elem()",
      "return encoding2.EncodeCompilerFunc[any, Value](func#1)",
      "func#1(typ reflect.Type) (encoding2.Encoder[any, Value], error)",
      "  if typ == nil",
      "    return nil, errors.WithStack(encoding2.ErrUnsupportedType)",
      "  else",
      "    if typ.ConvertibleTo(typeReader)",
      "      return encoding2.EncodeFunc(func#2), nil",
      "      func#2(source any) (Value, error)",
      "        s := source.(io.Reader)",
      "        return NewBuffer(s), nil",
      "  return nil, errors.WithStack(encoding2.ErrUnsupportedType)"
    ] := by
  decide

