/-
C15 – regenerated tie over Generated/MapFuncs.lean (extract/funcs.go): for every source file the models of this
property were transcribed from, the outline of EVERY function of that file – regenerated from /repo on every run –
equals the transcript frozen here (bin/freeze_outlines.py, repo 7f54b88, 2026-10-01). A theorem that stops checking
names the file whose code is no longer the code that was modelled; bin/check then searches for a failing input.
-/
import Uniflow.Generated.MapFuncs

set_option maxRecDepth 16384 in
/-- pkg/types/map.go as modelled (part 1 of 4): its declarations (in source order) and the outline of each -/
theorem C15.src_types_map_as_modelled_1 :
    Uniflow.Generated.MapFuncs.o_types_map_fn_NewMap = [
      "m := NewMapWithSize(len(pairs) / 2)",
      "for i := 0; i < len(pairs)/2; i++",
      "  k, v := pairs[i*2], pairs[i*2+1]",
      "  m.Set(k, v)",
      "return m.Immutable()"
    ] ∧
    Uniflow.Generated.MapFuncs.o_types_map_fn_NewMapWithSize = [
      "return &mutableMap{value: make(map[uint64][][2]Value, size)}"
    ] ∧
    Uniflow.Generated.MapFuncs.o_types_map_immutableMap_Has = [
      "if bucket, ok := m.value[HashOf(key)]; ok",
      "  low, high := 0, len(bucket)-1",
      "  for low <= high",
      "    mid := low + (high-low)/2",
      "    diff := Compare(bucket[mid][0], key)",
      "    if diff == 0",
      "      return true",
      "    else",
      "      if diff < 0",
      "        low = mid + 1",
      "      else",
      "        high = mid - 1",
      "return false"
    ] ∧
    Uniflow.Generated.MapFuncs.o_types_map_immutableMap_Get = [
      "if bucket, ok := m.value[HashOf(key)]; ok",
      "  low, high := 0, len(bucket)-1",
      "  for low <= high",
      "    mid := low + (high-low)/2",
      "    diff := Compare(bucket[mid][0], key)",
      "    if diff == 0",
      "      return bucket[mid][1]",
      "    else",
      "      if diff < 0",
      "        low = mid + 1",
      "      else",
      "        high = mid - 1",
      "return nil"
    ] ∧
    Uniflow.Generated.MapFuncs.o_types_map_immutableMap_Set = [
      "if m.Has(key) && Equal(m.Get(key), val)",
      "  return m",
      "return m.mutable().Set(key, val).Immutable()"
    ] ∧
    Uniflow.Generated.MapFuncs.o_types_map_immutableMap_Delete = [
      "if !m.Has(key)",
      "  return m",
      "return m.mutable().Delete(key).Immutable()"
    ] ∧
    Uniflow.Generated.MapFuncs.o_types_map_immutableMap_Clear = [
      "return &immutableMap{value: make(map[uint64][][2]Value)}"
    ] ∧
    Uniflow.Generated.MapFuncs.o_types_map_immutableMap_Keys = [
      "keys := make([]Value, 0, len(m.value))",
      "for _, bucket := range m.value",
      "  for _, pair := range bucket",
      "    keys = append(keys, pair[0])",
      "return keys"
    ] ∧
    Uniflow.Generated.MapFuncs.o_types_map_immutableMap_Values = [
      "values := make([]Value, 0, len(m.value))",
      "for _, bucket := range m.value",
      "  for _, pair := range bucket",
      "    values = append(values, pair[1])",
      "return values"
    ] ∧
    Uniflow.Generated.MapFuncs.o_types_map_immutableMap_Pairs = [
      "pairs := make([]Value, 0, len(m.value)*2)",
      "for _, bucket := range m.value",
      "  for _, pair := range bucket",
      "    pairs = append(pairs, pair[0], pair[1])",
      "return pairs"
    ] ∧
    Uniflow.Generated.MapFuncs.o_types_map_immutableMap_Len = [
      "length := 0",
      "for _, bucket := range m.value",
      "  length += len(bucket)",
      "return length"
    ] ∧
    Uniflow.Generated.MapFuncs.o_types_map_immutableMap_Range = [
      "return func#1",
      "func#1(yield func(key Value, value Value) bool)",
      "  keys := make([]uint64, 0, len(m.value))",
      "  for key := range m.value",
      "    keys = append(keys, key)",
      "  slices.Sort(keys)",
      "  for _, key := range keys",
      "    for _, pair := range m.value[key]",
      "      k, v := pair[0], pair[1]",
      "      if !yield(k, v)",
      "        return"
    ] ∧
    Uniflow.Generated.MapFuncs.o_types_map_immutableMap_Immutable = [
      "return m"
    ] ∧
    Uniflow.Generated.MapFuncs.o_types_map_immutableMap_Mutable = [
      "return m.mutable()"
    ] := by
  decide

set_option maxRecDepth 16384 in
/-- pkg/types/map.go as modelled (part 2 of 4): its declarations (in source order) and the outline of each -/
theorem C15.src_types_map_as_modelled_2 :
    Uniflow.Generated.MapFuncs.o_types_map_immutableMap_Map = [
      "if len(m.value) == 0",
      "  return nil",
      "values := make(map[any]any, len(m.value))",
      "for _, bucket := range m.value",
      "  for _, pair := range bucket",
      "    k, v := pair[0], pair[1]",
      "    values[InterfaceOf(k)] = InterfaceOf(v)",
      "return values"
    ] ∧
    Uniflow.Generated.MapFuncs.o_types_map_immutableMap_Kind = [
      "return KindMap"
    ] ∧
    Uniflow.Generated.MapFuncs.o_types_map_immutableMap_Hash = [
      "m.mu.Lock()",
      "defer m.mu.Unlock()",
      "if m.hash == 0",
      "  keys := make([]uint64, 0, len(m.value))",
      "  for key := range m.value",
      "    keys = append(keys, key)",
      "  slices.Sort(keys)",
      "  h := fnv.New64a()",
      "  var buf [8]byte",
      "  for _, key := range keys",
      "    for _, pair := range m.value[key]",
      "      k, v := pair[0], pair[1]",
      "      binary.BigEndian.PutUint64(buf[:], HashOf(k))",
      "      _, _ = h.Write(buf[:])",
      "      binary.BigEndian.PutUint64(buf[:], HashOf(v))",
      "      _, _ = h.Write(buf[:])",
      "  m.hash = h.Sum64()",
      "return m.hash"
    ] ∧
    Uniflow.Generated.MapFuncs.o_types_map_immutableMap_Interface = [
      "if len(m.value) == 0",
      "  return map[string]any{}",
      "var keyType reflect.Type",
      "var valueType reflect.Type",
      "for _, bucket := range m.value",
      "  for _, pair := range bucket",
      "    keyType = unionType(keyType, TypeOf(KindOf(pair[0])))",
      "    valueType = unionType(valueType, TypeOf(KindOf(pair[1])))",
      "if keyType == nil",
      "  keyType = types[KindUnknown]",
      "if valueType == nil",
      "  valueType = types[KindUnknown]",
      "if keyType.Kind() == reflect.Interface || keyType.Kind() == reflect.Map || keyType.Kind() == reflect.Slice",
      "  t := make([][2]any, 0, len(m.value))",
      "  for _, bucket := range m.value",
      "    for _, pair := range bucket",
      "      t = append(t, [2]any{InterfaceOf(pair[0]), InterfaceOf(pair[1])})",
      "  return t",
      "t := reflect.MakeMapWithSize(reflect.MapOf(keyType, valueType), len(m.value))",
      "for _, bucket := range m.value",
      "  for _, pair := range bucket",
      "    if v := InterfaceOf(pair[1]); v != nil",
      "      t.SetMapIndex(reflect.ValueOf(InterfaceOf(pair[0])), reflect.ValueOf(v))",
      "    else",
      "      t.SetMapIndex(reflect.ValueOf(InterfaceOf(pair[0])), reflect.Zero(valueType))",
      "return t.Interface()"
    ] ∧
    Uniflow.Generated.MapFuncs.o_types_map_immutableMap_Equal = [
      "if o, ok := other.(Map); ok",
      "  if m.Hash() != o.Hash()",
      "    return false",
      "  pairs1, pairs2 := sortedPairs(m), sortedPairs(o)",
      "  if len(pairs1) != len(pairs2)",
      "    return false",
      "  for i := 0; i < len(pairs1); i++",
      "    if !Equal(pairs1[i][0], pairs2[i][0]) || !Equal(pairs1[i][1], pairs2[i][1])",
      "      return false",
      "  return true",
      "return false"
    ] ∧
    Uniflow.Generated.MapFuncs.o_types_map_immutableMap_Compare = [
      "if o, ok := other.(Map); ok",
      "  pairs1, pairs2 := sortedPairs(m), sortedPairs(o)",
      "  for i := 0; i < min(len(pairs1), len(pairs2)); i++",
      "    if c := compare(HashOf(pairs1[i][0]), HashOf(pairs2[i][0])); c != 0",
      "      return c",
      "    if c := Compare(pairs1[i][0], pairs2[i][0]); c != 0",
      "      return c",
      "    if c := Compare(pairs1[i][1], pairs2[i][1]); c != 0",
      "      return c",
      "  return compare(len(pairs1), len(pairs2))",
      "return compare(m.Kind(), KindOf(other))"
    ] ∧
    Uniflow.Generated.MapFuncs.o_types_map_fn_sortedPairs = [
      "pairs := make([][2]Value, 0, m.Len())",
      "for k, v := range m.Range()",
      "  pairs = append(pairs, [2]Value{k, v})",
      "return pairs"
    ] ∧
    Uniflow.Generated.MapFuncs.o_types_map_immutableMap_mutable = [
      "value := make(map[uint64][][2]Value, len(m.value))",
      "for hash, bucket := range m.value",
      "  value[hash] = bucket",
      "return &mutableMap{value: value}"
    ] := by
  decide

set_option maxRecDepth 16384 in
/-- pkg/types/map.go as modelled (part 3 of 4): its declarations (in source order) and the outline of each -/
theorem C15.src_types_map_as_modelled_3 :
    Uniflow.Generated.MapFuncs.o_types_map_mutableMap_Has = [
      "return m.Immutable().Has(key)"
    ] ∧
    Uniflow.Generated.MapFuncs.o_types_map_mutableMap_Get = [
      "return m.Immutable().Get(key)"
    ] ∧
    Uniflow.Generated.MapFuncs.o_types_map_mutableMap_Set = [
      "hash := HashOf(key)",
      "bucket := m.value[hash]",
      "diff := -1",
      "low, high := 0, len(bucket)-1",
      "for low <= high",
      "  mid := low + (high-low)/2",
      "  if diff = Compare(bucket[mid][0], key); diff == 0",
      "    modify := make([][2]Value, len(bucket))",
      "    copy(modify, bucket)",
      "    modify[mid][1] = val",
      "    m.value[hash] = modify",
      "    break",
      "  else",
      "    if diff < 0",
      "      low = mid + 1",
      "    else",
      "      high = mid - 1",
      "if diff != 0",
      "  modify := make([][2]Value, len(bucket)+1)",
      "  copy(modify[:low], bucket[:low])",
      "  copy(modify[low+1:], bucket[low:])",
      "  modify[low] = [2]Value{key, val}",
      "  m.value[hash] = modify",
      "return m"
    ] ∧
    Uniflow.Generated.MapFuncs.o_types_map_mutableMap_Delete = [
      "hash := HashOf(key)",
      "if bucket, ok := m.value[hash]; ok",
      "  low, high := 0, len(bucket)-1",
      "  for low <= high",
      "    mid := low + (high-low)/2",
      "    diff := Compare(bucket[mid][0], key)",
      "    if diff == 0",
      "      modify := make([][2]Value, len(bucket)-1)",
      "      copy(modify[:mid], bucket[:mid])",
      "      copy(modify[mid:], bucket[mid+1:])",
      "      if len(modify) > 0",
      "        m.value[hash] = modify",
      "      else",
      "        delete(m.value, hash)",
      "      break",
      "    else",
      "      if diff < 0",
      "        low = mid + 1",
      "      else",
      "        high = mid - 1",
      "return m"
    ] ∧
    Uniflow.Generated.MapFuncs.o_types_map_mutableMap_Clear = [
      "m.value = make(map[uint64][][2]Value)",
      "return m"
    ] ∧
    Uniflow.Generated.MapFuncs.o_types_map_mutableMap_Keys = [
      "return m.immutable().Keys()"
    ] ∧
    Uniflow.Generated.MapFuncs.o_types_map_mutableMap_Values = [
      "return m.immutable().Values()"
    ] ∧
    Uniflow.Generated.MapFuncs.o_types_map_mutableMap_Pairs = [
      "return m.immutable().Pairs()"
    ] ∧
    Uniflow.Generated.MapFuncs.o_types_map_mutableMap_Len = [
      "return m.immutable().Len()"
    ] ∧
    Uniflow.Generated.MapFuncs.o_types_map_mutableMap_Range = [
      "return m.immutable().Range()"
    ] ∧
    Uniflow.Generated.MapFuncs.o_types_map_mutableMap_Immutable = [
      "return m.immutable()"
    ] ∧
    Uniflow.Generated.MapFuncs.o_types_map_mutableMap_Mutable = [
      "return m"
    ] ∧
    Uniflow.Generated.MapFuncs.o_types_map_mutableMap_Map = [
      "return m.immutable().Map()"
    ] ∧
    Uniflow.Generated.MapFuncs.o_types_map_mutableMap_Kind = [
      "return KindMap"
    ] ∧
    Uniflow.Generated.MapFuncs.o_types_map_mutableMap_Hash = [
      "return m.immutable().Hash()"
    ] ∧
    Uniflow.Generated.MapFuncs.o_types_map_mutableMap_Interface = [
      "return m.immutable().Interface()"
    ] ∧
    Uniflow.Generated.MapFuncs.o_types_map_mutableMap_Equal = [
      "return m.immutable().Equal(other)"
    ] ∧
    Uniflow.Generated.MapFuncs.o_types_map_mutableMap_Compare = [
      "return m.immutable().Compare(other)"
    ] := by
  decide

set_option maxRecDepth 16384 in
/-- pkg/types/map.go as modelled (part 4 of 4): its declarations (in source order) and the outline of each -/
theorem C15.src_types_map_as_modelled_4 :
    Uniflow.Generated.MapFuncs.o_types_map_mutableMap_immutable = [
      "return &immutableMap{value: m.value}"
    ] ∧
    Uniflow.Generated.MapFuncs.names_types_map = ["fn.NewMap", "fn.NewMapWithSize", "immutableMap.Has", "immutableMap.Get", "immutableMap.Set", "immutableMap.Delete", "immutableMap.Clear", "immutableMap.Keys", "immutableMap.Values", "immutableMap.Pairs", "immutableMap.Len", "immutableMap.Range", "immutableMap.Immutable", "immutableMap.Mutable", "immutableMap.Map", "immutableMap.Kind", "immutableMap.Hash", "immutableMap.Interface", "immutableMap.Equal", "immutableMap.Compare", "fn.sortedPairs", "immutableMap.mutable", "mutableMap.Has", "mutableMap.Get", "mutableMap.Set", "mutableMap.Delete", "mutableMap.Clear", "mutableMap.Keys", "mutableMap.Values", "mutableMap.Pairs", "mutableMap.Len", "mutableMap.Range", "mutableMap.Immutable", "mutableMap.Mutable", "mutableMap.Map", "mutableMap.Kind", "mutableMap.Hash", "mutableMap.Interface", "mutableMap.Equal", "mutableMap.Compare", "mutableMap.immutable"] := by
  decide

