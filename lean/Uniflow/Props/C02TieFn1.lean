/-
C02 – regenerated tie over Generated/FlowFuncs.lean (extract/funcs.go): the outline of EVERY function of the source
files named below – regenerated from /repo on every run – equals the transcript frozen here (bin/freeze_all.py, repo 7f54b88,
2026-10-01). A theorem that stops checking names the file whose code is no longer the code that was modelled; bin/check then
searches for a failing input.
-/
import Uniflow.Generated.FlowFuncs

set_option maxRecDepth 16384 in
/-- pkg/node/manytoone.go as modelled: its declarations (in source order) and the outline of each -/
theorem C02.src_node_manytoone_as_modelled :
    Uniflow.Generated.FlowFuncs.o_node_manytoone_fn_NewManyToOneNode = [
      "n := &ManyToOneNode{ action: action, readGroups: process.NewLocal[*packet.ReadGroup](), tracer: packet.NewTracer(), outPort: port.NewOut(), errPort: port.NewOut(), }",
      "if n.action != nil",
      "  n.outPort.AddListener(port.ListenFunc(n.backward))",
      "  n.errPort.AddListener(port.ListenFunc(n.catch))",
      "return n"
    ] ∧
    Uniflow.Generated.FlowFuncs.o_node_manytoone_ManyToOneNode_In = [
      "n.mu.Lock()",
      "defer n.mu.Unlock()",
      "if NameOfPort(name) == PortIn",
      "  index, _ := IndexOfPort(name)",
      "  for i := 0; i <= index; i++",
      "    if len(n.inPorts) <= i",
      "      inPort := port.NewIn()",
      "      n.inPorts = append(n.inPorts, inPort)",
      "      if n.action != nil",
      "        inPort.AddListener(n.forward(i))",
      "  return n.inPorts[index]",
      "return nil"
    ] ∧
    Uniflow.Generated.FlowFuncs.o_node_manytoone_ManyToOneNode_Out = [
      "n.mu.RLock()",
      "defer n.mu.RUnlock()",
      "switch name",
      "  case PortOut",
      "    return n.outPort",
      "  case PortError",
      "    return n.errPort",
      "  default",
      "    return nil"
    ] ∧
    Uniflow.Generated.FlowFuncs.o_node_manytoone_ManyToOneNode_Close = [
      "n.mu.RLock()",
      "defer n.mu.RUnlock()",
      "for _, inPort := range n.inPorts",
      "  inPort.Close()",
      "n.outPort.Close()",
      "n.errPort.Close()",
      "n.readGroups.Close()",
      "n.tracer.Close()",
      "return nil"
    ] ∧
    Uniflow.Generated.FlowFuncs.o_node_manytoone_ManyToOneNode_forward = [
      "inPort := n.inPorts[index]",
      "return port.ListenFunc(func#1)",
      "func#1(proc *process.Process)",
      "  inReader := inPort.Open(proc)",
      "  var outWriter *packet.Writer",
      "  var errWriter *packet.Writer",
      "  readGroup, _ := n.readGroups.LoadOrStore(proc, func#2)",
      "  func#2() (*packet.ReadGroup, error)",
      "    n.mu.RLock()",
      "    defer n.mu.RUnlock()",
      "    inReaders := make([]*packet.Reader, len(n.inPorts))",
      "    for i, inPort := range n.inPorts",
      "      inReaders[i] = inPort.Open(proc)",
      "    return packet.NewReadGroup(inReaders), nil",
      "  for inPck := range inReader.Read()",
      "    n.tracer.Read(inReader, inPck)",
      "    if inPcks := readGroup.Read(inReader, inPck); len(inPcks) < len(n.inPorts)",
      "      n.tracer.Write(nil, inPck)",
      "    else",
      "      if outPck, errPck := n.action(proc, inPcks); errPck != nil",
      "        if errWriter == nil",
      "          errWriter = n.errPort.Open(proc)",
      "        errPck = derive(errPck, inPcks...)",
      "        n.tracer.Link(inPck, errPck)",
      "        n.tracer.Write(errWriter, errPck)",
      "      else",
      "        if outPck != nil",
      "          if outWriter == nil",
      "            outWriter = n.outPort.Open(proc)",
      "          outPck = derive(outPck, inPcks...)",
      "          n.tracer.Link(inPck, outPck)",
      "          n.tracer.Write(outWriter, outPck)",
      "        else",
      "          n.tracer.Write(nil, inPck)",
      "  if proc.Status() == process.StatusTerminated",
      "    n.tracer.Drop(outWriter)",
      "    n.tracer.Drop(errWriter)"
    ] ∧
    Uniflow.Generated.FlowFuncs.o_node_manytoone_ManyToOneNode_backward = [
      "outWriter := n.outPort.Open(proc)",
      "for backPck := range outWriter.Receive()",
      "  n.tracer.Receive(outWriter, backPck)",
      "n.tracer.Drop(outWriter)"
    ] ∧
    Uniflow.Generated.FlowFuncs.o_node_manytoone_ManyToOneNode_catch = [
      "errWriter := n.errPort.Open(proc)",
      "for backPck := range errWriter.Receive()",
      "  n.tracer.Receive(errWriter, backPck)",
      "n.tracer.Drop(errWriter)"
    ] ∧
    Uniflow.Generated.FlowFuncs.names_node_manytoone = ["fn.NewManyToOneNode", "ManyToOneNode.In", "ManyToOneNode.Out", "ManyToOneNode.Close", "ManyToOneNode.forward", "ManyToOneNode.backward", "ManyToOneNode.catch"] := by
  decide

set_option maxRecDepth 16384 in
/-- pkg/node/onetoone.go as modelled: its declarations (in source order) and the outline of each -/
theorem C02.src_node_onetoone_as_modelled :
    Uniflow.Generated.FlowFuncs.o_node_onetoone_fn_NewOneToOneNode = [
      "n := &OneToOneNode{ action: action, tracer: packet.NewTracer(), inPort: port.NewIn(), outPort: port.NewOut(), errPort: port.NewOut(), }",
      "if n.action != nil",
      "  n.inPort.AddListener(port.ListenFunc(n.forward))",
      "  n.outPort.AddListener(port.ListenFunc(n.backward))",
      "  n.errPort.AddListener(port.ListenFunc(n.catch))",
      "return n"
    ] ∧
    Uniflow.Generated.FlowFuncs.o_node_onetoone_OneToOneNode_In = [
      "switch name",
      "  case PortIn",
      "    return n.inPort",
      "  default",
      "    return nil"
    ] ∧
    Uniflow.Generated.FlowFuncs.o_node_onetoone_OneToOneNode_Out = [
      "switch name",
      "  case PortOut",
      "    return n.outPort",
      "  case PortError",
      "    return n.errPort",
      "  default",
      "    return nil"
    ] ∧
    Uniflow.Generated.FlowFuncs.o_node_onetoone_OneToOneNode_Close = [
      "n.inPort.Close()",
      "n.outPort.Close()",
      "n.errPort.Close()",
      "n.tracer.Close()",
      "return nil"
    ] ∧
    Uniflow.Generated.FlowFuncs.o_node_onetoone_OneToOneNode_forward = [
      "inReader := n.inPort.Open(proc)",
      "var outWriter *packet.Writer",
      "var errWriter *packet.Writer",
      "for inPck := range inReader.Read()",
      "  n.tracer.Read(inReader, inPck)",
      "  if outPck, errPck := n.action(proc, inPck); errPck != nil",
      "    if errWriter == nil",
      "      errWriter = n.errPort.Open(proc)",
      "    errPck = derive(errPck, inPck)",
      "    n.tracer.Link(inPck, errPck)",
      "    n.tracer.Write(errWriter, errPck)",
      "  else",
      "    if outPck != nil",
      "      if outWriter == nil",
      "        outWriter = n.outPort.Open(proc)",
      "      outPck = derive(outPck, inPck)",
      "      n.tracer.Link(inPck, outPck)",
      "      n.tracer.Write(outWriter, outPck)",
      "    else",
      "      n.tracer.Write(nil, inPck)",
      "n.tracer.Drop(outWriter)",
      "n.tracer.Drop(errWriter)"
    ] ∧
    Uniflow.Generated.FlowFuncs.o_node_onetoone_OneToOneNode_backward = [
      "outWriter := n.outPort.Open(proc)",
      "for backPck := range outWriter.Receive()",
      "  n.tracer.Receive(outWriter, backPck)",
      "n.tracer.Drop(outWriter)"
    ] ∧
    Uniflow.Generated.FlowFuncs.o_node_onetoone_OneToOneNode_catch = [
      "errWriter := n.errPort.Open(proc)",
      "for backPck := range errWriter.Receive()",
      "  n.tracer.Receive(errWriter, backPck)",
      "n.tracer.Drop(errWriter)"
    ] ∧
    Uniflow.Generated.FlowFuncs.names_node_onetoone = ["fn.NewOneToOneNode", "OneToOneNode.In", "OneToOneNode.Out", "OneToOneNode.Close", "OneToOneNode.forward", "OneToOneNode.backward", "OneToOneNode.catch"] := by
  decide

set_option maxRecDepth 16384 in
/-- pkg/packet/tracer.go as modelled (part 3 of 3): its declarations (in source order) and the outline of each -/
theorem C02.src_packet_tracer_as_modelled_3 :
    Uniflow.Generated.FlowFuncs.o_packet_tracer_Tracer_resolve = [
      "receives := t.receives[pck.ID()]",
      "if slices.Contains(receives, nil)",
      "  return",
      "if hooks := t.hooks[pck.ID()]; len(hooks) > 0",
      "  join := Join(receives...)",
      "  delete(t.hooks, pck.ID())",
      "  delete(t.receives, pck.ID())",
      "  t.mu.Unlock()",
      "  hooks.Handle(join)",
      "  t.mu.Lock()",
      "receives = t.receives[pck.ID()]",
      "if slices.Contains(receives, nil)",
      "  return",
      "if sources, ok := t.sources[pck.ID()]; ok",
      "  delete(t.sources, pck.ID())",
      "  join := Join(receives...)",
      "  for _, source := range sources",
      "    targets := t.targets[source.ID()]",
      "    receives := t.receives[source.ID()]",
      "    offset := 0",
      "    for i := 0; i < len(targets); i++",
      "      if receives[i+offset] != nil",
      "        i--",
      "        offset++",
      "        continue",
      "      if targets[i].ID() == pck.ID()",
      "        receives[i+offset] = join",
      "        targets = append(targets[:i], targets[i+1:]...)",
      "        break",
      "    if len(targets) > 0",
      "      t.targets[source.ID()] = targets",
      "    else",
      "      delete(t.targets, source.ID())",
      "    t.resolve(source)",
      "if reader, ok := t.reader[pck.ID()]; ok",
      "  reads := t.reads[reader]",
      "  for len(reads) > 0",
      "    read := reads[0]",
      "    receives, ok := t.receives[read.ID()]",
      "    if !ok || slices.Contains(receives, nil)",
      "      break",
      "    join := Join(receives...)",
      "    reader.Receive(join)",
      "    delete(t.reader, read.ID())",
      "    delete(t.receives, read.ID())",
      "    reads = reads[1:]",
      "  if len(reads) > 0",
      "    t.reads[reader] = reads",
      "  else",
      "    delete(t.reads, reader)",
      "else",
      "  delete(t.receives, pck.ID())"
    ] ∧
    Uniflow.Generated.FlowFuncs.names_packet_tracer = ["fn.NewTracer", "Tracer.Dispatch", "Tracer.Links", "Tracer.Link", "Tracer.Reads", "Tracer.Read", "Tracer.Writes", "Tracer.Write", "Tracer.Receives", "Tracer.Receive", "Tracer.Drop", "Tracer.Close", "Tracer.receive", "Tracer.discard", "Tracer.resolve"] := by
  decide

set_option maxRecDepth 16384 in
/-- pkg/packet/readgroup.go as modelled: its declarations (in source order) and the outline of each -/
theorem C02.src_packet_readgroup_as_modelled :
    Uniflow.Generated.FlowFuncs.o_packet_readgroup_fn_NewReadGroup = [
      "return &ReadGroup{ readers: readers, }"
    ] ∧
    Uniflow.Generated.FlowFuncs.o_packet_readgroup_ReadGroup_Read = [
      "r.mu.Lock()",
      "defer r.mu.Unlock()",
      "index := -1",
      "for i, r := range r.readers",
      "  if r == reader",
      "    index = i",
      "    break",
      "if index < 0",
      "  return nil",
      "head := -1",
      "for i, reads := range r.reads",
      "  if reads[index] == nil",
      "    head = i",
      "    break",
      "if head < 0",
      "  r.reads = append(r.reads, make([]*Packet, len(r.readers)))",
      "  head = len(r.reads) - 1",
      "r.reads[head][index] = pck",
      "if head == 0 && !slices.Contains(r.reads[head], nil)",
      "  read := r.reads[0]",
      "  r.reads = r.reads[1:]",
      "  return read",
      "return nil"
    ] ∧
    Uniflow.Generated.FlowFuncs.o_packet_readgroup_ReadGroup_Close = [
      "r.mu.Lock()",
      "defer r.mu.Unlock()",
      "r.readers = nil",
      "r.reads = nil"
    ] ∧
    Uniflow.Generated.FlowFuncs.names_packet_readgroup = ["fn.NewReadGroup", "ReadGroup.Read", "ReadGroup.Close"] := by
  decide

