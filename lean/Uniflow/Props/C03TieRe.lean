/-
C03 – re-statements of the function-outline ties of the files this property is anchored in and that are filed under another
property (bin/freeze_all.py): a source change there is reported for C03 as well.
-/
import Uniflow.Props.C01TieFn1
import Uniflow.Props.C01TieFn2
import Uniflow.Props.C02TieFn1
import Uniflow.Props.C02TieFn2
import Uniflow.Props.C04TieFn1
import Uniflow.Props.C05TieFn1
import Uniflow.Props.C05TieFn2
import Uniflow.Props.C06TieFn1
import Uniflow.Props.C06TieFn2

theorem C03.src_packet_reader_as_modelled : type_of% C01.src_packet_reader_as_modelled := C01.src_packet_reader_as_modelled
theorem C03.src_packet_writer_as_modelled_1 : type_of% C01.src_packet_writer_as_modelled_1 := C01.src_packet_writer_as_modelled_1
theorem C03.src_packet_writer_as_modelled_2 : type_of% C01.src_packet_writer_as_modelled_2 := C01.src_packet_writer_as_modelled_2
theorem C03.src_packet_tracer_as_modelled_1 : type_of% C02.src_packet_tracer_as_modelled_1 := C02.src_packet_tracer_as_modelled_1
theorem C03.src_packet_tracer_as_modelled_2 : type_of% C02.src_packet_tracer_as_modelled_2 := C02.src_packet_tracer_as_modelled_2
theorem C03.src_packet_tracer_as_modelled_3 : type_of% C02.src_packet_tracer_as_modelled_3 := C02.src_packet_tracer_as_modelled_3
theorem C03.src_node_onetoone_as_modelled : type_of% C02.src_node_onetoone_as_modelled := C02.src_node_onetoone_as_modelled
theorem C03.src_port_inport_as_modelled_1 : type_of% C05.src_port_inport_as_modelled_1 := C05.src_port_inport_as_modelled_1
theorem C03.src_port_inport_as_modelled_2 : type_of% C05.src_port_inport_as_modelled_2 := C05.src_port_inport_as_modelled_2
theorem C03.src_port_outport_as_modelled_1 : type_of% C05.src_port_outport_as_modelled_1 := C05.src_port_outport_as_modelled_1
theorem C03.src_port_outport_as_modelled_2 : type_of% C05.src_port_outport_as_modelled_2 := C05.src_port_outport_as_modelled_2
theorem C03.src_process_process_as_modelled_1 : type_of% C04.src_process_process_as_modelled_1 := C04.src_process_process_as_modelled_1
theorem C03.src_process_process_as_modelled_2 : type_of% C04.src_process_process_as_modelled_2 := C04.src_process_process_as_modelled_2
theorem C03.src_symbol_table_as_modelled_1 : type_of% C06.src_symbol_table_as_modelled_1 := C06.src_symbol_table_as_modelled_1
theorem C03.src_symbol_table_as_modelled_2 : type_of% C06.src_symbol_table_as_modelled_2 := C06.src_symbol_table_as_modelled_2
theorem C03.src_symbol_table_as_modelled_3 : type_of% C06.src_symbol_table_as_modelled_3 := C06.src_symbol_table_as_modelled_3
theorem C03.src_symbol_table_as_modelled_4 : type_of% C06.src_symbol_table_as_modelled_4 := C06.src_symbol_table_as_modelled_4
