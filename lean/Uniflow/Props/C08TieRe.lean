/-
C08 – re-statements of the function-outline ties of the files this property is anchored in and that are filed under another
property (bin/freeze_all.py): a source change there is reported for C08 as well.
-/
import Uniflow.Props.C06TieFn1
import Uniflow.Props.C06TieFn2

theorem C08.src_symbol_table_as_modelled_1 : type_of% C06.src_symbol_table_as_modelled_1 := C06.src_symbol_table_as_modelled_1
theorem C08.src_symbol_table_as_modelled_2 : type_of% C06.src_symbol_table_as_modelled_2 := C06.src_symbol_table_as_modelled_2
theorem C08.src_symbol_table_as_modelled_3 : type_of% C06.src_symbol_table_as_modelled_3 := C06.src_symbol_table_as_modelled_3
theorem C08.src_symbol_table_as_modelled_4 : type_of% C06.src_symbol_table_as_modelled_4 := C06.src_symbol_table_as_modelled_4
