/-
C20 — shared engine objects are safe under concurrent use: the lock discipline.

Part 1 (generic, once): in the trace semantics of `Model/LockSem.lean`, two conflicting accesses
by different threads that are each made under a common mutex (the writer exclusively) are
separated by a release of that mutex by the first thread – they cannot overlap, and the
release/acquire pair orders them.

Part 2 (re-checked on every run against the table regenerated from /repo's source by
/verif/extract): every field of every mutex-owning struct of the anchor files is accessed under
one common mutex of its object, or is never written after construction, or is a channel /
sync / atomic object, or is on the reviewed exemption list below; no mutex is re-acquired while
held; the lock-order graph between the modelled objects is acyclic; user code (hooks, codecs,
callbacks) runs under a lock exactly at the reviewed sites; a slice whose backing array leaves a
critical section through a local alias is never written in place.

Part 3 (same regeneration): what a lock-set rule cannot see, each as a table equal to a reviewed
list – writes through element pointers whose struct type leaves the object (`*Frame`), call-outs
under a read-held mutex of an object that has a writer (reader re-entrancy), and the operations on
`sync.Cond` / `sync.WaitGroup` fields with the locks held around them.
-/
import Uniflow.Model.LockSem
import Uniflow.Model.Lockset
import Uniflow.Generated.MapBuckets

open Uniflow.LockSem

/-! ## Part 1: meaning of the discipline -/

namespace Uniflow.LockSem

theorem excl_step (s s' : LS) (e : Ev) (h : Excl s) (hs : step s e = some s') : Excl s' := by
  intro m t hw
  cases e with
  | acqW t' m' =>
    simp only [step] at hs
    split at hs
    · rename_i hc
      injection hs with hs; subst hs
      simp only [upd] at hw ⊢
      by_cases hm : m = m'
      · subst hm; exact hc.2
      · simp only [hm, if_false] at hw; exact h m t hw
    · cases hs
  | acqR t' m' =>
    simp only [step] at hs
    split at hs
    · rename_i hc
      injection hs with hs; subst hs
      simp only [upd] at hw ⊢
      by_cases hm : m = m'
      · subst hm; rw [hc] at hw; cases hw
      · simp only [hm, if_false]; exact h m t hw
    · cases hs
  | relW t' m' =>
    simp only [step] at hs
    split at hs
    · injection hs with hs; subst hs
      simp only [upd] at hw ⊢
      by_cases hm : m = m'
      · subst hm; simp at hw
      · simp only [hm, if_false] at hw; exact h m t hw
    · cases hs
  | relR t' m' =>
    simp only [step] at hs
    split at hs
    · injection hs with hs; subst hs
      simp only [upd] at hw ⊢
      by_cases hm : m = m'
      · subst hm; simp only [if_true]; rw [h m t hw]; rfl
      · simp only [hm, if_false]; exact h m t hw
    · cases hs
  | acc _ _ _ =>
    simp only [step] at hs; injection hs with hs; subst hs; exact h m t hw

theorem excl_run (s s' : LS) (es : List Ev) (h : Excl s) (hr : run s es = some s') : Excl s' := by
  induction es generalizing s with
  | nil => simp only [run] at hr; injection hr with hr; subst hr; exact h
  | cons e es ih =>
    simp only [run] at hr
    cases hs : step s e with
    | none => simp [hs] at hr
    | some s1 => simp only [hs] at hr; exact ih s1 (excl_step s s1 e h hs) hr

theorem excl_init : Excl LS.init := by intro m t h; simp [LS.init] at h

/-- An exclusive hold persists until its holder releases it. -/
theorem holdsW_persists (s s' : LS) (es : List Ev) (t : Tid) (m : Mu)
    (hw : holdsW s t m) (hr : run s es = some s') (hno : Ev.relW t m ∉ es) : holdsW s' t m := by
  induction es generalizing s with
  | nil => simp only [run] at hr; injection hr with hr; subst hr; exact hw
  | cons e es ih =>
    simp only [run] at hr
    cases hs : step s e with
    | none => simp [hs] at hr
    | some s1 =>
      simp only [hs] at hr
      have hno' : Ev.relW t m ∉ es := fun h => hno (List.mem_cons_of_mem _ h)
      have hne : e ≠ Ev.relW t m := fun h => hno (by simp [h])
      refine ih s1 ?_ hr hno'
      unfold holdsW at hw ⊢
      cases e with
      | acqW t' m' =>
        simp only [step] at hs
        split at hs
        · rename_i hc
          injection hs with hs; subst hs
          simp only [upd]
          by_cases hm : m = m'
          · subst hm; rw [hw] at hc; cases hc.1
          · simp [hm, hw]
        · cases hs
      | acqR t' m' =>
        simp only [step] at hs
        split at hs
        · injection hs with hs; subst hs; exact hw
        · cases hs
      | relW t' m' =>
        simp only [step] at hs
        split at hs
        · rename_i hc
          injection hs with hs; subst hs
          simp only [upd]
          by_cases hm : m = m'
          · subst hm
            rw [hw] at hc
            have : t = t' := Option.some.inj hc
            subst this
            exact absurd rfl hne
          · simp [hm, hw]
        · cases hs
      | relR t' m' =>
        simp only [step] at hs
        split at hs
        · injection hs with hs; subst hs; exact hw
        · cases hs
      | acc _ _ _ =>
        simp only [step] at hs; injection hs with hs; subst hs; exact hw

/-- A shared hold persists until its holder releases it. -/
theorem holdsR_persists (s s' : LS) (es : List Ev) (t : Tid) (m : Mu)
    (hw : holdsR s t m) (hr : run s es = some s') (hno : Ev.relR t m ∉ es) : holdsR s' t m := by
  induction es generalizing s with
  | nil => simp only [run] at hr; injection hr with hr; subst hr; exact hw
  | cons e es ih =>
    simp only [run] at hr
    cases hs : step s e with
    | none => simp [hs] at hr
    | some s1 =>
      simp only [hs] at hr
      have hno' : Ev.relR t m ∉ es := fun h => hno (List.mem_cons_of_mem _ h)
      have hne : e ≠ Ev.relR t m := fun h => hno (by simp [h])
      refine ih s1 ?_ hr hno'
      unfold holdsR at hw ⊢
      cases e with
      | acqW t' m' =>
        simp only [step] at hs
        split at hs
        · injection hs with hs; subst hs; exact hw
        · cases hs
      | acqR t' m' =>
        simp only [step] at hs
        split at hs
        · injection hs with hs; subst hs
          simp only [upd]
          by_cases hm : m = m'
          · subst hm; simp [hw]
          · simp [hm, hw]
        · cases hs
      | relW t' m' =>
        simp only [step] at hs
        split at hs
        · injection hs with hs; subst hs; exact hw
        · cases hs
      | relR t' m' =>
        simp only [step] at hs
        split at hs
        · injection hs with hs; subst hs
          simp only [upd]
          by_cases hm : m = m'
          · subst hm
            simp only [if_true]
            have htt : t ≠ t' := by
              intro h; subst h; exact hne rfl
            exact (List.mem_erase_of_ne htt).mpr hw
          · simp [hm, hw]
        · cases hs
      | acc _ _ _ =>
        simp only [step] at hs; injection hs with hs; subst hs; exact hw

end Uniflow.LockSem

/-- **Lock-set soundness.** In a feasible trace `pre ++ mid`, let thread `t₁` perform an access
right after `pre` and thread `t₂ ≠ t₁` an access right after `mid`, at least one of them a write,
each holding the common mutex `m` in the mode its access needs. Then `t₁` released `m`
somewhere in `mid`: the two accesses do not overlap and are ordered by that release. -/
theorem C20.lockset_sound (pre mid : List Ev) (s₁ s₂ : LS) (t₁ t₂ : Tid) (m : Mu) (w₁ w₂ : Bool)
    (hpre : run LS.init pre = some s₁) (hmid : run s₁ mid = some s₂)
    (hne : t₁ ≠ t₂) (hconf : w₁ = true ∨ w₂ = true)
    (hg₁ : guards s₁ t₁ m w₁) (hg₂ : guards s₂ t₂ m w₂) :
    Ev.relW t₁ m ∈ mid ∨ Ev.relR t₁ m ∈ mid := by
  have hex₂ : Excl s₂ := excl_run _ _ _ (excl_run _ _ _ excl_init hpre) hmid
  -- t₁ holds m exclusively at s₁, or shared
  have h1 : holdsW s₁ t₁ m ∨ holdsR s₁ t₁ m := by
    unfold guards at hg₁; split at hg₁
    · exact Or.inl hg₁
    · exact hg₁
  rcases h1 with hW | hR
  · -- exclusive hold by t₁: if never released, t₂ cannot hold m at s₂ in any mode
    by_cases hrel : Ev.relW t₁ m ∈ mid
    · exact Or.inl hrel
    · exfalso
      have hW₂ := holdsW_persists s₁ s₂ mid t₁ m hW hmid hrel
      have hnoR : s₂.readers m = [] := hex₂ m t₁ hW₂
      unfold guards at hg₂
      split at hg₂
      · unfold holdsW at hg₂ hW₂; rw [hW₂] at hg₂; exact hne (Option.some.inj hg₂)
      · rcases hg₂ with h | h
        · unfold holdsW at h hW₂; rw [hW₂] at h; exact hne (Option.some.inj h)
        · unfold holdsR at h; rw [hnoR] at h; cases h
  · by_cases hrel : Ev.relR t₁ m ∈ mid
    · exact Or.inr hrel
    · exfalso
      have hR₂ := holdsR_persists s₁ s₂ mid t₁ m hR hmid hrel
      -- t₁ still reads-holds m at s₂, so nobody holds it exclusively; hence both accesses are reads
      have hnoW : ∀ t, s₂.writer m ≠ some t := by
        intro t hw
        have := hex₂ m t hw
        unfold holdsR at hR₂; rw [this] at hR₂; cases hR₂
      -- t₂'s access
      unfold guards at hg₂
      split at hg₂
      · exact hnoW t₂ hg₂
      · rename_i hw2
        -- w₂ = false, so w₁ = true, but then t₁ must hold exclusively at s₁ …
        rcases hconf with h | h
        · subst h
          unfold guards at hg₁
          simp only [if_true] at hg₁
          -- t₁ holds W and R at s₁: contradicts exclusion at s₁
          have hex₁ : Excl s₁ := excl_run _ _ _ excl_init hpre
          have := hex₁ m t₁ hg₁
          unfold holdsR at hR; rw [this] at hR; cases hR
        · exact hw2 h

/-- Non-vacuity: a feasible two-thread trace that meets the hypotheses (writer then reader). -/
theorem C20.lockset_sound_nonvacuous :
    ∃ s₁ s₂, run LS.init [Ev.acqW 1 0] = some s₁ ∧
      run s₁ [Ev.acc 1 7 true, Ev.relW 1 0, Ev.acqR 2 0] = some s₂ ∧
      guards s₁ 1 0 true ∧ guards s₂ 2 0 false := by
  refine ⟨_, _, rfl, rfl, ?_, ?_⟩ <;> simp [guards, holdsW, holdsR, upd, LS.init]

/-! ## Part 2: the discipline holds of the current source (regenerated table) -/

open Uniflow.Lockset Uniflow.Generated.Locks

/-- Fields reviewed and exempted from the one-common-mutex rule, with the reason. -/
def C20.exemptFields : List (String × String) :=
  [ -- `segment` is private to one `store`; every segment method runs under `store.mu`
    -- (exclusively for the mutators) – checked by `C20.segment_under_store_lock` below.
    ("store.segment", "indexes"),
    -- cursor state of a stream: `Next`/`Decode` belong to the single consumer that owns the
    -- stream (as with database/sql.Rows); not shared between goroutines by contract.
    ("store.stream", "doc"),
    -- written only by `UnmarshalJSON`, which populates a fresh map before it is published;
    -- an immutable map is read lock-free by design.
    ("types.immutableMap", "value") ]

theorem C20.all_guarded : unguardedFields.all (fun f => C20.exemptFields.contains f) = true := by decide

theorem C20.segment_under_store_lock :
    (calls.filter fun c => c.calleeTyp == "store.segment" || c.callee == "dyn:store.scanner.Scan" || c.callee == "dyn:store.scanner.Range").all
      (fun c => (c.typ == "store.segment" || c.typ == "store.section") ||
        (c.typ == "store.store" && c.held.contains "store.store.mu" &&
          (!(["store.segment.Index", "store.segment.Unindex", "store.segment.Store", "store.segment.Swap", "store.segment.Delete"].contains c.callee)
            || c.heldExcl.contains "store.store.mu"))) = true := by decide

theorem C20.no_self_acquire : selfAcquires = [] := by decide

theorem C20.lock_order_acyclic : cyclicLocks = [] := by decide

/-- User code (packet hooks, load/unload hooks, codecs, iteration callbacks) runs while a mutex
is held exactly at these reviewed sites; any new call-out under a lock breaks this theorem. -/
def C20.reviewedCallouts : List (String × String × String) :=
  [-- (the assemblers' `Compile` no longer appears here: compilers re-enter `Compile`, and a nested
   -- RLock deadlocks with a waiting `Add` – found by the stress program, repaired in a2a0f86;
   -- holding `mu` across the compilers again breaks `C20.callouts_as_reviewed`)
   ("encoding.DecoderGroup.Decode", "dyn:encoding.Decoder.Decode", "encoding.DecoderGroup.mu"),
   ("encoding.EncoderGroup.Encode", "dyn:encoding.Encoder.Encode", "encoding.EncoderGroup.mu"),
   ("packet.Reader.Close", "packet.Hooks.Handle", "packet.Reader.mu"),
   ("packet.Reader.Receive", "packet.Hooks.Handle", "packet.Reader.mu"),
   ("packet.Reader.write", "packet.Hooks.Handle", "packet.Reader.mu"),
   ("packet.Writer.Close", "packet.Hooks.Handle", "packet.Writer.mu"),
   ("packet.Writer.Unlink", "packet.Hooks.Handle", "packet.Writer.mu"),
   ("packet.Writer.Write", "packet.Hooks.Handle", "packet.Writer.mu"),
   ("packet.Writer.receive", "packet.Hooks.Handle", "packet.Writer.mu"),
   ("store.segment.Range", "dyn:func.yield", "store.segment.mu"),
   ("store.store.find", "dyn:store.scanner.Range", "store.store.mu"),
   ("store.store.find", "dyn:store.scanner.Scan", "store.store.mu"),
   ("symbol.Table.load", "symbol.LoadHooks.Load", "symbol.Table.mu"),
   ("symbol.Table.unload", "symbol.UnloadHooks.Unload", "symbol.Table.mu")]

theorem C20.callouts_as_reviewed : callouts.all (fun c => C20.reviewedCallouts.contains c) = true := by decide

/-- Every nested acquisition between modelled objects is one of the reviewed edges (a new
edge breaks this theorem even when it closes no cycle). -/
def C20.reviewedEdges : List (String × String) :=
    [("packet.Tracer.mu", "packet.Reader.mu"),
     ("packet.Tracer.mu", "packet.Writer.mu"),
     ("packet.Writer.mu", "packet.Reader.mu"),
     ("port.OutPort.mu", "port.InPort.mu"),
     ("runtime.Agent.mu", "port.InPort.mu"),
     ("runtime.Agent.mu", "port.OutPort.mu"),
     ("store.store.mu", "store.segment.mu"),
     ("store.store.mu", "store.stream.mu"),
     ("symbol.Table.mu", "packet.Reader.mu"),
     ("symbol.Table.mu", "packet.Writer.mu"),
     ("symbol.Table.mu", "port.InPort.mu"),
     ("symbol.Table.mu", "port.OutPort.mu"),
     ("symbol.Table.mu", "process.Process.mu")]

theorem C20.lock_order_reviewed : orderEdges.all (fun e => C20.reviewedEdges.contains e) = true := by decide

/-- Slice fields whose snapshot is taken by the very critical section that also clears the field
(`closeHooks := p.closeHooks; p.closeHooks = nil` in `Close`; `hooks := l.storeHooks[proc];
delete(l.storeHooks, proc)` in `Store`/`LoadOrStore`): a later in-place removal works on a
different (new or nil) slice and cannot reach the snapshot's array. Reviewed. -/
def C20.clearedOnSnapshot : List (String × String) :=
  [("port.InPort", "closeHooks"), ("port.OutPort", "closeHooks"), ("process.Local", "storeHooks")]

/-- A slice whose backing array leaves a critical section through a local alias (hook lists
iterated after the unlock, `OutPort.ins`, the agent's watchers, the assemblers' compiler lists)
is never written in place anywhere: removal allocates. Found missing by the race detector
(`RemoveOpenHook`/`Unlink`/`Unwatch` shifted the array a concurrent `Open`/hook was walking). -/
theorem C20.snapshots_not_written_in_place :
    snapshotsSafe C20.clearedOnSnapshot sliceSnapshots sliceInPlaceWrites = true := by decide

/-- Non-vacuity: the snapshots exist, and the in-place removals that were in the source before
the repair (one example per repaired object) would each break the theorem. -/
theorem C20.snapshots_not_written_in_place_nonvacuous :
    sliceSnapshots.contains ("port.OutPort", "Open", "ins") = true ∧
    sliceSnapshots.contains ("runtime.Agent", "hooks", "watchers") = true ∧
    snapshotsSafe C20.clearedOnSnapshot sliceSnapshots (("port.OutPort", "Unlink", "ins") :: sliceInPlaceWrites) = false ∧
    snapshotsSafe C20.clearedOnSnapshot sliceSnapshots (("port.InPort", "RemoveOpenHook", "openHooks") :: sliceInPlaceWrites) = false ∧
    snapshotsSafe C20.clearedOnSnapshot sliceSnapshots (("runtime.Agent", "Unwatch", "watchers") :: sliceInPlaceWrites) = false := by decide

/-- The tables are not empty (the theorems above are not vacuous): e.g. the writer's rows are
written under its exclusive lock, and some field would fail the rule without its lock. -/
theorem C20.tables_nonvacuous :
    (accessesOf "packet.Writer" "receives").any (fun a => a.write && a.heldExcl.contains "mu") = true ∧
    guardedBy "mu" (accessesOf "packet.Writer" "receives") = true ∧
    guardedBy "nosuchlock" (accessesOf "packet.Writer" "receives") = false ∧
    orderEdges.contains ("symbol.Table.mu", "process.Process.mu") = true := by decide

/-- Methods that take a mutex of their object at more than one site (several critical sections
in one method, or a closure that locks later): exactly the reviewed ones. A method whose single
critical section is split in two (check under one lock acquisition, act under another) breaks this
theorem – that is an atomicity change no lock-set rule can see. -/
def C20.reviewedMultiSection : List (String × String × String × Nat) :=
  [ ("port.InPort", "Open", "mu", 3),          -- RLock fast path; Lock with re-check; exit-hook closure
    ("port.OutPort", "Open", "mu", 4),         -- same shape + the listener goroutine's closure compares and deletes the `listening` entry under one acquisition (fix e4ca10a)
    ("process.Local", "LoadOrStore", "mu", 3), -- RLock fast path; Lock with re-check; Lock to publish (modelled step by step in C05)
    ("process.Process", "Fork", "mu", 2),      -- children++ ; the child's wait-done hook closure (children--)
    ("runtime.Agent", "accept", "mu", 3),
    ("runtime.Agent", "hooks", "mu", 2),
    ("store.store", "Watch", "mu", 2) ]        -- Watch itself; the reaper goroutine's closure

theorem C20.sections_reviewed :
    (acquireSites.filter (fun a => a.2.2.2 != 1)).all (fun a => C20.reviewedMultiSection.contains a) = true := by
  decide

/-! ## Part 3: what the lock-set rule cannot see (added after the stress program's findings) -/

/-- Writes through element pointers of a container field whose struct type also leaves the object
(returned by an exported method, passed to watchers/hooks): each one needs a review. None is left
since 1477bf7 (agent frames are replaced by an updated copy instead of being completed in place). -/
def C20.reviewedPublishedWrites : List (String × String × String × String × String) := []

theorem C20.published_elements_not_written :
    publishedElemWrites.all (fun w => C20.reviewedPublishedWrites.contains w) = true := by decide

/-- Non-vacuity: the frames of the agent *are* published both ways, and the in-place completion
of a frame that the source had before the repair is exactly what the table would flag. -/
theorem C20.published_elements_not_written_nonvacuous :
    publishedElems.contains ("runtime.Agent", "runtime.Frame", "returned by Frames") = true ∧
    publishedElems.contains ("runtime.Agent", "runtime.Frame", "passed to runtime.Watchers.OnFrame") = true ∧
    publishedWritesOf (("runtime.Agent", "hooks", "frames", "runtime.Frame", "OutPck") :: elemWrites) publishedElems
      = [("runtime.Agent", "hooks", "frames", "runtime.Frame", "OutPck")] ∧
    publishedWritesOf [("runtime.Agent", "hooks", "frames", "runtime.Unpublished", "X")] publishedElems = [] := by decide

/-- Code outside the modelled objects that runs while a mutex is only read-held, in an object
that has a writer: a callee that re-enters a read-locking method of the same object deadlocks as
soon as a writer waits in between (Go's RWMutex is not re-entrant for readers). Reviewed sites:
* `DecoderGroup.Decode` / `EncoderGroup.Encode` run their codecs under the group's RLock; the
  writer is `Add`. The groups the assemblers build are filled before they are published and never
  added to afterwards; their codecs recurse into the codecs of *other* types (other groups).
  A user-built group that is added to while its own decoders re-enter it would be exposed.
* `segment.Range` yields to `store.find`'s loop body under the segment's RLock, and `store.find`
  calls the (internal) scanners under the store's lock (read-held when called from `Find`): neither
  calls back into the segment/store; every segment writer runs under the store's exclusive lock
  (`C20.segment_under_store_lock`), so no writer can be waiting while `find` is running.
The assemblers' `Compile` is *not* on this list any more (d77bf02). -/
def C20.reviewedReadLockCallouts : List (String × String × String) :=
  [("encoding.DecoderGroup.Decode", "dyn:encoding.Decoder.Decode", "encoding.DecoderGroup.mu"),
   ("encoding.EncoderGroup.Encode", "dyn:encoding.Encoder.Encode", "encoding.EncoderGroup.mu"),
   ("store.segment.Range", "dyn:func.yield", "store.segment.mu"),
   ("store.store.find", "dyn:store.scanner.Range", "store.store.mu"),
   ("store.store.find", "dyn:store.scanner.Scan", "store.store.mu")]

theorem C20.read_lock_callouts_reviewed :
    readLockCallouts.all (fun c => C20.reviewedReadLockCallouts.contains c) = true := by decide

/-- Non-vacuity: the rule is about read-held locks of objects with a writer – the groups have
one (`Add`), and a call-out under an exclusive lock (the writer's hooks) is not on this list. -/
theorem C20.read_lock_callouts_nonvacuous :
    readLockCallouts.contains ("encoding.DecoderGroup.Decode", "dyn:encoding.Decoder.Decode", "encoding.DecoderGroup.mu") = true ∧
    hasWriter "encoding.DecoderGroup.mu" = true ∧
    callouts.contains ("packet.Writer.Write", "packet.Hooks.Handle", "packet.Writer.mu") = true ∧
    readLockCallouts.contains ("packet.Writer.Write", "packet.Hooks.Handle", "packet.Writer.mu") = false := by decide

/-- Condition variables held in fields: every `Wait`, `Signal` and `Broadcast` is made while a
mutex of the object is held exclusively (the counter a `Wait` re-checks and the `Broadcast` that
follows its change are then in one critical section each – no lost wake-up). -/
theorem C20.cond_ops_under_lock : condOps.all (fun o => !o.heldExcl.isEmpty) = true := by decide

/-- Every wake-up of a condition variable that can have several waiters (its `Wait` sits in an
exported method – `Process.Join`) is a `Broadcast`. A `Signal` wakes one waiter only; that one
finds the condition true and returns without passing the wake-up on, the others stay parked for
ever (a lost wake-up: no data race, no panic – seeded change c20e). Reviewed `Signal` sites
(single-waiter protocols) would be listed here; there is none. -/
def C20.reviewedCondSignals : List (String × String × String) := []

theorem C20.cond_wakeups_broadcast :
    condSignals.all (fun s => C20.reviewedCondSignals.contains s) = true := by decide

/-- Non-vacuity: the process's join condition is such a variable, its wake-up site exists and is
a `Broadcast`, and the same site written with `Signal` is exactly what the theorem rejects. -/
theorem C20.cond_wakeups_broadcast_nonvacuous :
    multiWaiterConds.contains ("process.Process", "join") = true ∧
    condOps.any (fun o => o.typ == "process.Process" && o.meth == "Fork" && o.field == "join" && o.op == "Broadcast") = true ∧
    condSignalsOf (⟨"process.Process", "Fork", "join", "sync.Cond", "Signal", ["mu"], ["mu"]⟩ :: syncOps)
      = [("process.Process", "Fork", "join")] := by decide

/-- `sync.WaitGroup` fields (Add must be ordered before Wait; a field shared between goroutines
cannot promise that – `Process.wait` was one, see 37f33b8): exactly the reviewed sites, none. -/
def C20.reviewedWaitGroupOps : List (String × String × String × String) := []

theorem C20.waitgroup_ops_reviewed :
    waitGroupOps.all (fun o => C20.reviewedWaitGroupOps.contains (o.typ, o.meth, o.field, o.op)) = true := by decide

/-- Non-vacuity: the table sees the sync objects (the process's join condition, the lazy cell's
atomic flag, the codec caches). -/
theorem C20.sync_ops_nonvacuous :
    condOps.any (fun o => o.typ == "process.Process" && o.meth == "Join" && o.op == "Wait") = true ∧
    condOps.any (fun o => o.typ == "process.Process" && o.meth == "Fork" && (o.op == "Broadcast" || o.op == "Signal")) = true ∧
    syncOps.any (fun o => o.kind == "sync.Map" && o.op == "Store") = true ∧
    syncOps.any (fun o => o.kind == "atomic.Uint32") = true := by decide

/-! ## Part 4: structural sharing of map buckets -/

open Uniflow.Generated.MapBuckets in
/-- **Map buckets are copied on write.** A map derived from an immutable map shares the backing
arrays of its buckets with it (`immutableMap.mutable()` copies only the outer Go map), and the
immutable map is read by any number of goroutines without a lock. So no method of the map types
may write into a bucket: every `m.value[hash] = …` stores a freshly allocated slice (`make`,
a composite literal, or `append(x[:i:i], …)`), and there is no `b[i] = v`, `copy(b, …)`,
`append(b, …)` or `slices.Insert/Delete/…(b, …)` on a bucket `b`. (`slices.Insert(bucket, …)`
re-allocates only when len+1 > cap – seeded change c20f; `bucket[mid][1] = val` was defect #1.) -/
theorem C20.map_buckets_copied_on_write :
    bucketAssigns.all (fun a => a.2.2.2 == "fresh") = true ∧ bucketInPlace = [] := by decide

open Uniflow.Generated.MapBuckets in
/-- Non-vacuity: the table sees both map types and the three bucket stores of `Set` and `Delete`. -/
theorem C20.map_buckets_copied_on_write_nonvacuous :
    mapTypesWithBuckets = 2 ∧
    bucketAssigns.any (fun a => a.1 == "types.mutableMap" && a.2.1 == "Set") = true ∧
    bucketAssigns.any (fun a => a.1 == "types.mutableMap" && a.2.1 == "Delete") = true := by decide
