/-
C02 — nodes answer each request once, in order, after all derived packets: the END-TO-END statement WITHOUT a class
hypothesis.

`C02.flow_answers_eq_ref_all`: for EVERY well-formed workflow of the three node kinds (`C02.WorkflowWF`) and EVERY
schedule of the Flow machine – every interleaving of requests sent by the source, actions returning, sinks
answering; every result an action can return: one new packet, the in packet itself, an error packet (whether or not
the error port is linked: an error nobody accepts is the answer itself, through the tracer, in arrival order), new
packets / the in packet on any subset of the out ports, nothing –
 (safety, every prefix) the i-th response the source has received is the reference answer of its i-th request
   (the join over the request's derivation tree down to the sinks – so it exists only when every derived packet
   has been answered), and
 (quiescence) when nothing is left in flight every request has exactly one response, in request order, equal to the
   executable reference `refAnswers`.
It has neither the freshness hypothesis `e.fresh` of `C02.flow_answers_eq_ref_full` (since the fix `node.derive` a
node never hands its tracer a packet object it already follows) nor a hypothesis on the schedule. The classes
T1 … T7 (Props/C02Flow.lean) are corollaries (`C02.classT7_wf`).

What `C02.WorkflowWF` demands of the workflow – and so what the theorem leaves out of "all acyclic workflows":
 * acyclic: links go forward (`fwd`); the source is linked (`src`: a request written to an unlinked source has no
   answer and no reference answer);
 * a link leads to an in-port that EXISTS (`tnode`: `port < nIn kind` – `Node.In(name)` of a real node creates the
   port or returns nil, so this is no restriction on real workflows; in the model a delivery to a missing in-port
   sets `bad`), an out port is linked to an in-port at most once (`nodupT`: `OutPort.Link` refuses a second link to
   the same in-port), links are stored under writer keys of existing nodes (`keys`);
 * ENCODING BOUNDS of `Uniflow.Flow` (keys are naturals `node * 64 + port`): at most 1000 nodes (`small`; the source
   writer is key `1000*64+1`, sink `k` is reader `(2000+k)*64`), a one-to-many node has at most 62 out ports
   (`KindOK`: writers `0..63` per node; was 6 while the pump `Flow.maxW` was 8 – now 64), a many-to-one node at
   most 63 in-ports (reader keys `n*64+port`, `n*64+63` is the tag of the packets made by node `n`'s action).
   They are artefacts of the association-list keys of the model, not of the property or of the proof idea; removing
   them means replacing `wkey` / `rkeyOf` / `qTag` / `srcKey` by a pairing parametrised by the workflow (or by
   structured keys) throughout `Model/Flow.lean`, the driver and the arithmetic (`omega`) of
   Proofs/FlowInv*, FlowG*, FlowM*, FlowN* – not done.
`C02.flow_answers_eq_ref_bounds` states the theorem with the bounds as a hypothesis of their own – `C02.EncodingBounds
kinds`, decidable, on the node kinds alone – next to the bound-free well-formedness `C02.LinksWF`
(`C02.workflowWF_iff`).
Not a restriction: schedules. What the model's `Rel` can express beyond the Go signatures (a one-to-one or
many-to-one action "returning several packets") is covered too – `Node.program` treats every list that is not `[q]`
as an empty result.
-/
import Uniflow.Props.C02Flow

open Uniflow.Tracer Uniflow.Node Uniflow.NodeSpec

/-- a well-formed workflow: `FlowN.GraphWF5` – links forward into existing in-ports, no in-port twice on one out
port, the source linked, and the encoding bounds of `Uniflow.Flow` (≤ 1000 nodes, ≤ 62 out ports, ≤ 63 in-ports) -/
def C02.WorkflowWF (kinds : List Kind) (links : List (Nat × List Uniflow.Flow.Tgt)) : Prop :=
  Uniflow.FlowN.GraphWF5 kinds links

open Uniflow.Flow in
/-- the invariant `FlowN.HI` holds in every reachable state of every well-formed workflow under every schedule -/
theorem C02.flow_invariant_all (kinds : List Kind) (links : List (Nat × List Tgt)) (es : List Ext)
    (hwf : C02.WorkflowWF kinds links) :
    ∃ aa, Uniflow.FlowN.HI kinds links aa Uniflow.FlowInv.D0 (runExt (initG kinds links) es) :=
  Uniflow.FlowN.HIe_runExt kinds links hwf es _ (Uniflow.FlowN.HIe_init kinds links hwf)

open Uniflow.Flow in
/-- **The end-to-end statement for every well-formed workflow and every schedule** – no class hypothesis, no
freshness hypothesis. -/
theorem C02.flow_answers_eq_ref_all :
    ∀ (kinds : List Kind) (links : List (Nat × List Tgt)) (es : List Ext),
    C02.WorkflowWF kinds links →
    let g := runExt (initG kinds links) es
    (∀ (i : Nat) (a : Ans), g.resp[i]? = some a → ∃ p, g.roots[i]? = some p ∧ ∃ f, refAns g.log f p = some a) ∧
    (quiescent g = true → refAnswers g = some g.resp) := by
  intro kinds links es hwf
  have hI := Uniflow.FlowN.HIe_runExt kinds links hwf es _ (Uniflow.FlowN.HIe_init kinds links hwf)
  exact ⟨Uniflow.FlowN.HIe_safety kinds links _ hI,
    fun hq => Uniflow.FlowN.HIe_quiescent_ref_eq kinds links hwf _ hI hq⟩

/-- every class T1 … T7 consists of well-formed workflows (here for the largest, `C02.ClassT7`; the others by the
inclusions `C02.classT<k>_sub_T<k+1>`): their end-to-end theorems are corollaries of `C02.flow_answers_eq_ref_all` -/
theorem C02.classT7_wf (kinds : List Kind) (links : List (Nat × List Uniflow.Flow.Tgt)) (es : List Uniflow.Flow.Ext)
    (h : C02.ClassT7 kinds links es) : C02.WorkflowWF kinds links := h.1

open Uniflow.Flow in
/-- two pipelined requests on the fork workflow; the fork's action FAILS on the second one while the first is still
below it; the fork's error port is not linked -/
def C02.unlinkedErrSched : List Ext :=
  [.send (.atom 5), .send (.atom 6), .release 0 (.many [some (.atom 7)]), .release 0 (.err (.err [9])),
   .release 1 (.out (.atom 8)), .release 3 (.out (.atom 10)), .sinkAnswer 0 (some (.pay (.atom 11)))]

open Uniflow.Flow in
/-- **an error nobody handles is the answer – through the tracer, in arrival order** (the shape seeded change c02j
breaks: there the node answers a failing request with an unlinked error port directly through
`inReader.Receive(errPck)`, past the tracer, and the error is delivered as the answer to the OLDER pending request).
In the model `Write(errWriter, errPck)` is refused (no reader), the error packet is its own answer (`logEcho`), the
request's answer is the join over its one derived packet = the error, and it leaves the in-port only after the older
request's answer: after 4 steps – the second request has already failed – the source has NO response; at the end
the responses are `11` (the sink's answer to the first request) and the error `9`, in request order, = `refAnswers`. -/
theorem C02.flow_unlinked_error_instance :
    C02.WorkflowWF Uniflow.FlowH.forkKinds Uniflow.FlowH.forkLinks ∧
    Uniflow.Tracer.getL Uniflow.FlowH.forkLinks (wkey 0 0) = [] ∧
    (runExt (initG Uniflow.FlowH.forkKinds Uniflow.FlowH.forkLinks) (C02.unlinkedErrSched.take 4)).resp = [] ∧
    quiescent (runExt (initG Uniflow.FlowH.forkKinds Uniflow.FlowH.forkLinks) C02.unlinkedErrSched) = true ∧
    anyPanic (runExt (initG Uniflow.FlowH.forkKinds Uniflow.FlowH.forkLinks) C02.unlinkedErrSched) = false ∧
    (match refAnswers (runExt (initG Uniflow.FlowH.forkKinds Uniflow.FlowH.forkLinks) C02.unlinkedErrSched),
           (runExt (initG Uniflow.FlowH.forkKinds Uniflow.FlowH.forkLinks) C02.unlinkedErrSched).resp with
     | some [.pay (.atom 11), .pay (.err [9])], [.pay (.atom 11), .pay (.err [9])] => true
     | _, _ => false) = true :=
  ⟨Uniflow.FlowN.graphWF5_of_graphWF3 _ _ Uniflow.FlowH.fork_wf, rfl, rfl, rfl, rfl, rfl⟩

open Uniflow.Flow in
/-- result shapes outside the Go signatures, covered all the same: on the join workflow the one-to-one node 1
"returns two packets" and the join node 3 "returns two packets" – `Node.program` treats both as an empty result
(the request is answered with itself) -/
def C02.oddShapesSched : List Ext :=
  [.send (.atom 1), .release 0 (.many [some (.atom 11), some (.atom 12)]),
   .release 1 (.many [some (.atom 21), some (.atom 22)]), .release 2 (.out (.atom 31)),
   .release 3 (.many [some (.atom 41), some (.atom 42)])]

open Uniflow.Flow in
/-- non-vacuity of `C02.flow_answers_eq_ref_all` beyond class T7: the schedule above is in no class T1 … T7
(`many` on a one-to-one and on a many-to-one node), the run ends quiescent without panic and the response `[11, 31]`
(node 1's and the join's requests answered with themselves) equals `refAnswers` -/
theorem C02.flow_all_instance :
    C02.WorkflowWF C02.joinKinds C02.diamondLinks ∧ ¬ C02.ClassT7 C02.joinKinds C02.diamondLinks C02.oddShapesSched ∧
    quiescent (runExt (initG C02.joinKinds C02.diamondLinks) C02.oddShapesSched) = true ∧
    anyPanic (runExt (initG C02.joinKinds C02.diamondLinks) C02.oddShapesSched) = false ∧
    (match refAnswers (runExt (initG C02.joinKinds C02.diamondLinks) C02.oddShapesSched),
           (runExt (initG C02.joinKinds C02.diamondLinks) C02.oddShapesSched).resp with
     | some [.pay (.slice [.atom 11, .atom 31])], [.pay (.slice [.atom 11, .atom 31])] => true
     | _, _ => false) = true := by
  refine ⟨Uniflow.FlowN.join_wf, ?_, rfl, rfl, rfl⟩
  intro h
  have := h.2 (.release 1 (.many [some (.atom 21), some (.atom 22)])) (by simp [C02.oddShapesSched])
  simp only [Uniflow.FlowN.ExtT7, Uniflow.FlowN.ExtT6, Uniflow.FlowN.ExtT5] at this
  rcases this with e | ⟨k, e⟩
  · simp [C02.joinKinds] at e
  · simp [C02.joinKinds] at e

/-! ### the encoding bounds as a separate, decidable hypothesis -/

instance C02.decKindOK (k : Kind) : Decidable (Uniflow.FlowN.KindOK k) := by
  cases k with
  | oneToOne => exact isTrue trivial
  | oneToMany n => exact inferInstanceAs (Decidable (n + 1 < Uniflow.Flow.maxW))
  | manyToOne n => exact inferInstanceAs (Decidable (n ≤ 63))

/-- **the encoding bounds of `Uniflow.Flow`**, as a decidable hypothesis on the node kinds alone: at most 1000 nodes,
at most 62 out ports per one-to-many node, at most 63 in-ports per many-to-one node -/
def C02.EncodingBounds (kinds : List Kind) : Prop :=
  kinds.length ≤ 1000 ∧ ∀ k ∈ kinds, Uniflow.FlowN.KindOK k

instance C02.decEncodingBounds (kinds : List Kind) : Decidable (C02.EncodingBounds kinds) :=
  inferInstanceAs (Decidable (_ ∧ _))

/-- the well-formedness every real workflow has, free of numeric bounds: links go forward into existing in-ports,
no in-port twice on one out port, the source linked, links stored under writer keys of existing nodes -/
structure C02.LinksWF (kinds : List Kind) (links : List (Nat × List Uniflow.Flow.Tgt)) : Prop where
  nodupT : ∀ key, ((Uniflow.Tracer.getL links key).map Uniflow.Flow.rkeyOf).Nodup
  tnode : ∀ key m port, Uniflow.Flow.Tgt.node m port ∈ Uniflow.Tracer.getL links key →
    ∃ k, kinds[m]? = some k ∧ port < nIn k
  src : Uniflow.Tracer.getL links Uniflow.Flow.srcKey ≠ []
  keys : ∀ key, Uniflow.Tracer.getL links key ≠ [] → key = Uniflow.Flow.srcKey ∨
    ∃ n w, n < kinds.length ∧ w < Uniflow.Flow.maxW ∧ key = Uniflow.Flow.wkey n w
  fwd : ∀ n w m port, n < kinds.length → w < Uniflow.Flow.maxW →
    Uniflow.Flow.Tgt.node m port ∈ Uniflow.Tracer.getL links (Uniflow.Flow.wkey n w) → n < m

theorem C02.workflowWF_iff (kinds : List Kind) (links : List (Nat × List Uniflow.Flow.Tgt)) :
    C02.WorkflowWF kinds links ↔ C02.EncodingBounds kinds ∧ C02.LinksWF kinds links :=
  ⟨fun h => ⟨⟨h.small, h.kindsOK⟩, ⟨h.nodupT, h.tnode, h.src, h.keys, h.fwd⟩⟩,
   fun h => ⟨h.1.1, h.1.2, h.2.nodupT, h.2.tnode, h.2.src, h.2.keys, h.2.fwd⟩⟩

open Uniflow.Flow in
/-- **`C02.flow_answers_eq_ref_all` with the encoding bounds as a separate, decidable hypothesis** -/
theorem C02.flow_answers_eq_ref_bounds :
    ∀ (kinds : List Kind) (links : List (Nat × List Tgt)) (es : List Ext),
    C02.EncodingBounds kinds → C02.LinksWF kinds links →
    let g := runExt (initG kinds links) es
    (∀ (i : Nat) (a : Ans), g.resp[i]? = some a → ∃ p, g.roots[i]? = some p ∧ ∃ f, refAns g.log f p = some a) ∧
    (quiescent g = true → refAnswers g = some g.resp) :=
  fun kinds links es hb hl => C02.flow_answers_eq_ref_all kinds links es ((C02.workflowWF_iff kinds links).mpr ⟨hb, hl⟩)

/-- the workflows of the instances meet the bounds – by evaluation -/
theorem C02.encoding_bounds_instances :
    C02.EncodingBounds C02.joinKinds ∧ C02.EncodingBounds Uniflow.FlowH.forkKinds ∧
    C02.EncodingBounds [.oneToMany 62, .manyToOne 63] ∧ ¬ C02.EncodingBounds [.oneToMany 63] ∧
    ¬ C02.EncodingBounds [.manyToOne 64] := by
  refine ⟨by decide, by decide, by decide, by decide, by decide⟩
