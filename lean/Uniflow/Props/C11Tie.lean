/-
C11Tie – re-statement, under this property's name, of regenerated-source tie theorems proved in
C12Tie (the property's model rests on the same source facts; `bin/check` builds and audits only
Props/<this property>*.lean, so without this file a source change that breaks these ties would be
reported for the other property only). Each theorem below has the SAME statement (type_of%) as the
theorem it cites and is proved by it.
-/
import Uniflow.Props.C12Tie

theorem C11.segment_phases_as_modelled : type_of% C12.segment_phases_as_modelled := C12.segment_phases_as_modelled
theorem C11.swap_as_modelled : type_of% C12.swap_as_modelled := C12.swap_as_modelled
theorem C11.store_as_modelled : type_of% C12.store_as_modelled := C12.store_as_modelled
theorem C11.range_scan_facts : type_of% C12.range_scan_facts := C12.range_scan_facts
theorem C11.range_dedups_as_modelled : type_of% C12.range_dedups_as_modelled := C12.range_dedups_as_modelled
