/-
C05 – re-statements of the function-outline ties of the files this property is anchored in and that are filed under another
property (bin/freeze_all.py): a source change there is reported for C05 as well.
-/
import Uniflow.Props.C01TieFn1
import Uniflow.Props.C01TieFn2
import Uniflow.Props.C02TieFn1
import Uniflow.Props.C02TieFn2
import Uniflow.Props.C19TieFn1
import Uniflow.Props.C19TieFn2

theorem C05.src_packet_reader_as_modelled : type_of% C01.src_packet_reader_as_modelled := C01.src_packet_reader_as_modelled
theorem C05.src_packet_writer_as_modelled_1 : type_of% C01.src_packet_writer_as_modelled_1 := C01.src_packet_writer_as_modelled_1
theorem C05.src_packet_writer_as_modelled_2 : type_of% C01.src_packet_writer_as_modelled_2 := C01.src_packet_writer_as_modelled_2
theorem C05.src_packet_tracer_as_modelled_1 : type_of% C02.src_packet_tracer_as_modelled_1 := C02.src_packet_tracer_as_modelled_1
theorem C05.src_packet_tracer_as_modelled_2 : type_of% C02.src_packet_tracer_as_modelled_2 := C02.src_packet_tracer_as_modelled_2
theorem C05.src_packet_tracer_as_modelled_3 : type_of% C02.src_packet_tracer_as_modelled_3 := C02.src_packet_tracer_as_modelled_3
theorem C05.src_runtime_agent_as_modelled_1 : type_of% C19.src_runtime_agent_as_modelled_1 := C19.src_runtime_agent_as_modelled_1
theorem C05.src_runtime_agent_as_modelled_2 : type_of% C19.src_runtime_agent_as_modelled_2 := C19.src_runtime_agent_as_modelled_2
