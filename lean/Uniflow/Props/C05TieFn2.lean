/-
C05 – regenerated tie over Generated/PortFuncs.lean, Generated/ProcessFuncs.lean (extract/funcs.go): the outline of EVERY function of the source
files named below – regenerated from /repo on every run – equals the transcript frozen here (bin/freeze_all.py, repo 7f54b88,
2026-10-01). A theorem that stops checking names the file whose code is no longer the code that was modelled; bin/check then
searches for a failing input.
-/
import Uniflow.Generated.PortFuncs
import Uniflow.Generated.ProcessFuncs

set_option maxRecDepth 16384 in
/-- pkg/process/local.go as modelled (part 1 of 2): its declarations (in source order) and the outline of each -/
theorem C05.src_process_local_as_modelled_1 :
    Uniflow.Generated.ProcessFuncs.o_process_local_fn_NewLocal = [
      "return &Local[T]{ eager: make(map[*Process]T), lazy: make(map[*Process]*lazy[T]), storeHooks: make(map[*Process]StoreHooks[T]), }"
    ] ∧
    Uniflow.Generated.ProcessFuncs.o_process_local_Local_AddStoreHook = [
      "l.mu.Lock()",
      "defer l.mu.Unlock()",
      "if val, ok := l.eager[proc]; ok",
      "  l.mu.Unlock()",
      "  defer l.mu.Lock()",
      "  hook.Store(val)",
      "  return true",
      "for _, h := range l.storeHooks[proc]",
      "  if h == hook",
      "    return false",
      "l.storeHooks[proc] = append(l.storeHooks[proc], hook)",
      "return true"
    ] ∧
    Uniflow.Generated.ProcessFuncs.o_process_local_Local_RemoveStoreHook = [
      "l.mu.Lock()",
      "defer l.mu.Unlock()",
      "hooks, ok := l.storeHooks[proc]",
      "if !ok",
      "  return false",
      "for i, h := range hooks",
      "  if h == hook",
      "    l.storeHooks[proc] = append(hooks[:i], hooks[i+1:]...)",
      "    return true",
      "return false"
    ] ∧
    Uniflow.Generated.ProcessFuncs.o_process_local_Local_Keys = [
      "l.mu.RLock()",
      "defer l.mu.RUnlock()",
      "keys := make([]*Process, 0, len(l.eager))",
      "for proc := range l.eager",
      "  keys = append(keys, proc)",
      "return keys"
    ] ∧
    Uniflow.Generated.ProcessFuncs.o_process_local_Local_Load = [
      "l.mu.RLock()",
      "defer l.mu.RUnlock()",
      "val, ok := l.eager[proc]",
      "return val, ok"
    ] ∧
    Uniflow.Generated.ProcessFuncs.o_process_local_Local_Store = [
      "l.mu.Lock()",
      "_, ok := l.eager[proc]",
      "l.eager[proc] = val",
      "storeHooks := l.storeHooks[proc]",
      "delete(l.storeHooks, proc)",
      "l.mu.Unlock()",
      "if !ok",
      "  verifYield(1, nil)",
      "  proc.AddExitHook(ExitFunc(func#1))",
      "  func#1(err error)",
      "    l.Delete(proc)",
      "storeHooks.Store(val)"
    ] ∧
    Uniflow.Generated.ProcessFuncs.o_process_local_Local_Delete = [
      "l.mu.Lock()",
      "defer l.mu.Unlock()",
      "_, ok := l.eager[proc]",
      "delete(l.eager, proc)",
      "delete(l.storeHooks, proc)",
      "return ok"
    ] ∧
    Uniflow.Generated.ProcessFuncs.o_process_local_Local_LoadOrStore = [
      "l.mu.RLock()",
      "v, ok := l.eager[proc]",
      "l.mu.RUnlock()",
      "if ok",
      "  return v, nil",
      "verifYield(2, nil)",
      "l.mu.Lock()",
      "if v, ok := l.eager[proc]; ok",
      "  l.mu.Unlock()",
      "  return v, nil",
      "fn, ok := l.lazy[proc]",
      "if !ok",
      "  fn = &lazy[T]{fn: val}",
      "  l.lazy[proc] = fn",
      "l.mu.Unlock()",
      "verifYield(3, fn)",
      "v, err := fn.Do()",
      "if err != nil",
      "  return v, err",
      "verifYield(4, fn)",
      "l.mu.Lock()",
      "l.eager[proc] = v",
      "delete(l.lazy, proc)",
      "storeHooks := l.storeHooks[proc]",
      "delete(l.storeHooks, proc)",
      "l.mu.Unlock()",
      "verifYield(5, nil)",
      "proc.AddExitHook(ExitFunc(func#1))",
      "func#1(err error)",
      "  l.Delete(proc)",
      "storeHooks.Store(v)",
      "return v, nil"
    ] := by
  decide

set_option maxRecDepth 16384 in
/-- pkg/port/outport.go as modelled (part 1 of 2): its declarations (in source order) and the outline of each -/
theorem C05.src_port_outport_as_modelled_1 :
    Uniflow.Generated.PortFuncs.o_port_outport_fn_NewOut = [
      "return &OutPort{ writers: make(map[*process.Process]*packet.Writer), listening: make(map[*process.Process]*packet.Writer), }"
    ] ∧
    Uniflow.Generated.PortFuncs.o_port_outport_OutPort_AddOpenHook = [
      "p.mu.Lock()",
      "defer p.mu.Unlock()",
      "for _, h := range p.openHooks",
      "  if h == hook",
      "    return false",
      "p.openHooks = append(p.openHooks, hook)",
      "return true"
    ] ∧
    Uniflow.Generated.PortFuncs.o_port_outport_OutPort_RemoveOpenHook = [
      "p.mu.Lock()",
      "defer p.mu.Unlock()",
      "for i, h := range p.openHooks",
      "  if h == hook",
      "    p.openHooks = append(p.openHooks[:i:i], p.openHooks[i+1:]...)",
      "    return true",
      "return false"
    ] ∧
    Uniflow.Generated.PortFuncs.o_port_outport_OutPort_AddCloseHook = [
      "p.mu.Lock()",
      "defer p.mu.Unlock()",
      "for _, h := range p.closeHooks",
      "  if h == hook",
      "    return false",
      "p.closeHooks = append(p.closeHooks, hook)",
      "return true"
    ] ∧
    Uniflow.Generated.PortFuncs.o_port_outport_OutPort_RemoveCloseHook = [
      "p.mu.Lock()",
      "defer p.mu.Unlock()",
      "for i, h := range p.closeHooks",
      "  if h == hook",
      "    p.closeHooks = append(p.closeHooks[:i], p.closeHooks[i+1:]...)",
      "    return true",
      "return false"
    ] ∧
    Uniflow.Generated.PortFuncs.o_port_outport_OutPort_AddListener = [
      "p.mu.Lock()",
      "defer p.mu.Unlock()",
      "for _, l := range p.listeners",
      "  if l == listener",
      "    return false",
      "p.listeners = append(p.listeners, listener)",
      "return true"
    ] ∧
    Uniflow.Generated.PortFuncs.o_port_outport_OutPort_Links = [
      "p.mu.RLock()",
      "defer p.mu.RUnlock()",
      "return append([]*InPort(nil), p.ins...)"
    ] ∧
    Uniflow.Generated.PortFuncs.o_port_outport_OutPort_Link = [
      "p.mu.Lock()",
      "defer p.mu.Unlock()",
      "for _, e := range p.ins",
      "  if e == in",
      "    return false",
      "p.ins = append(p.ins, in)",
      "in.AddCloseHook(CloseHookFunc(func#1))",
      "func#1()",
      "  p.Unlink(in)",
      "return true"
    ] ∧
    Uniflow.Generated.PortFuncs.o_port_outport_OutPort_Unlink = [
      "p.mu.Lock()",
      "defer p.mu.Unlock()",
      "for i, e := range p.ins",
      "  if e == in",
      "    p.ins = append(p.ins[:i:i], p.ins[i+1:]...)",
      "    return true",
      "return false"
    ] := by
  decide

set_option maxRecDepth 16384 in
/-- pkg/port/inport.go as modelled (part 2 of 2): its declarations (in source order) and the outline of each -/
theorem C05.src_port_inport_as_modelled_2 :
    Uniflow.Generated.PortFuncs.names_port_inport = ["fn.NewIn", "InPort.AddOpenHook", "InPort.RemoveOpenHook", "InPort.AddCloseHook", "InPort.RemoveCloseHook", "InPort.AddListener", "InPort.Open", "InPort.Close"] := by
  decide

