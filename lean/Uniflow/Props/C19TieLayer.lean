/-
C19 – regenerated tie over Generated/C19LayerFuncs.lean (extract/funcs.go): for every source file the models of this
property were transcribed from, the outline of EVERY function of that file – regenerated from /repo on every run –
equals the transcript frozen here (bin/freeze_outlines.py, repo 68af5b4, 2026-10-01). A theorem that stops checking
names the file whose code is no longer the code that was modelled; bin/check then searches for a failing input.
-/
import Uniflow.Generated.C19LayerFuncs

set_option maxRecDepth 16384 in
/-- pkg/runtime/watcher.go as modelled: its declarations (in source order) and the outline of each -/
theorem C19.src_runtime_watcher_as_modelled :
    Uniflow.Generated.C19LayerFuncs.o_runtime_watcher_fn_NewFrameWatcher = [
      "return &watcher{onFrame: handle}"
    ] ∧
    Uniflow.Generated.C19LayerFuncs.o_runtime_watcher_fn_NewProcessWatcher = [
      "return &watcher{onProcess: handle}"
    ] ∧
    Uniflow.Generated.C19LayerFuncs.o_runtime_watcher_Watchers_OnFrame = [
      "for _, watcher := range w",
      "  watcher.OnFrame(frame)"
    ] ∧
    Uniflow.Generated.C19LayerFuncs.o_runtime_watcher_Watchers_OnProcess = [
      "for _, watcher := range w",
      "  watcher.OnProcess(proc)"
    ] ∧
    Uniflow.Generated.C19LayerFuncs.o_runtime_watcher_watcher_OnFrame = [
      "if w.onFrame != nil",
      "  w.onFrame(frame)"
    ] ∧
    Uniflow.Generated.C19LayerFuncs.o_runtime_watcher_watcher_OnProcess = [
      "if w.onProcess != nil",
      "  w.onProcess(proc)"
    ] ∧
    Uniflow.Generated.C19LayerFuncs.names_runtime_watcher = ["fn.NewFrameWatcher", "fn.NewProcessWatcher", "Watchers.OnFrame", "Watchers.OnProcess", "watcher.OnFrame", "watcher.OnProcess"] := by
  decide

