/-
C10 – theorems that tie the model's operator dispatch to a fact table regenerated from
pkg/store/helper.go on every run (extract/ops.go → Generated/Ops.lean): every
`switch key.String()` of matchField / validate / patch / extract, one row per case clause with the
operator literals and the structural shape of the clause.

`C10.ops_rows_as_modelled` pins the table (which operators each function knows, how each comparison
clause decides, what the default clause returns). `C10.match_clauses_as_modelled` then derives, for
every comparison row of the table, that the model's `cmpOp` decides exactly as that clause does.
A source change that adds, removes or re-wires an operator – or flips a comparison – changes the
regenerated table and breaks the first theorem (the correspondence harness then looks for a failing
input).
-/
import Uniflow.Generated.Ops
import Uniflow.Model.Store
import Uniflow.Props.C12Tie

open Uniflow.Value Uniflow.Store Uniflow.Generated.Ops

/-- the table as the model reads it -/
def C10.expectedRows : List Row := [
  { fn := "matchField", ops := [opExists], shape := "fail-if:exists != (value != nil && !reflect.ValueOf(value).IsZero())" },
  { fn := "matchField", ops := [opEq], shape := "fail-unless-equal" },
  { fn := "matchField", ops := [opNe], shape := "fail-if-equal" },
  { fn := "matchField", ops := [opGt], shape := "fail-if-compare-le-0" },
  { fn := "matchField", ops := [opLt], shape := "fail-if-compare-ge-0" },
  { fn := "matchField", ops := [opGte], shape := "fail-if-compare-lt-0" },
  { fn := "matchField", ops := [opLte], shape := "fail-if-compare-gt-0" },
  { fn := "matchField", ops := [opAnd], shape := "assert:types.Slice" },
  { fn := "matchField", ops := [opOr], shape := "assert:types.Slice" },
  { fn := "validate", ops := [opExists, opEq, opNe, opGt, opLt, opGte, opLte], shape := "empty" },
  { fn := "validate", ops := [opAnd, opOr], shape := "assert:types.Slice" },
  { fn := "patch", ops := [opSet], shape := "assert:types.Map" },
  { fn := "patch", ops := [opUnset], shape := "assert:types.Map" },
  { fn := "extract", ops := [opEq], shape := "return:value,nil" },
  { fn := "extract", ops := [opAnd, opOr], shape := "assert:types.Slice" }
]

/-- The regenerated table is the one the model was transcribed from. -/
theorem C10.ops_rows_as_modelled :
    rows = C10.expectedRows ∧
    defaults = [
      ("matchField", "return:false,errors.WithMessagef(ErrUnsupportedOperation, \"operation: %v\", key.String())"),
      ("validate", "return:errors.WithMessagef(ErrUnsupportedOperation, \"operation: %v\", key.String())"),
      ("patch", "return:nil,errors.WithMessagef(ErrUnsupportedOperation, \"operation: %v\", key.String())"),
      ("extract", "return:nil,nil")] := by
  decide

/-- How a comparison clause `if <cond> { return false, nil }` decides, given `types.Equal(doc, value)`
and `types.Compare(doc, value)`: `some fails`, or `none` for a shape that is not a comparison clause. -/
def C10.clauseFails (shape : String) (eq : Bool) (c : Int) : Option Bool :=
  if shape = "fail-unless-equal" then some (!eq)
  else if shape = "fail-if-equal" then some eq
  else if shape = "fail-if-compare-le-0" then some (decide (c ≤ 0))
  else if shape = "fail-if-compare-ge-0" then some (decide (c ≥ 0))
  else if shape = "fail-if-compare-lt-0" then some (decide (c < 0))
  else if shape = "fail-if-compare-gt-0" then some (decide (c > 0))
  else none

/-- For every comparison clause of the regenerated table (a row of `matchField` whose shape is a
comparison), every operator literal of that row, every document value and operand: the model's
`cmpOp` holds exactly when the clause does not fail. -/
theorem C10.match_clauses_as_modelled (r : Row) (hr : r ∈ rows) (hf : r.fn = "matchField")
    (op : Bytes) (hop : op ∈ r.ops) (doc v : Val) (fails : Bool)
    (hs : C10.clauseFails r.shape (equal doc v) (cmp doc v) = some fails) :
    cmpOp op doc v = some (!fails) := by
  rw [C10.ops_rows_as_modelled.1] at hr
  simp only [C10.expectedRows, List.mem_cons, List.mem_nil_iff, or_false] at hr
  rcases hr with rfl | rfl | rfl | rfl | rfl | rfl | rfl | rfl | rfl | rfl | rfl | rfl | rfl | rfl | rfl <;>
    simp only [List.mem_cons, List.mem_nil_iff, or_false] at hop <;>
    first
    | (exfalso; revert hf; decide; done)
    | (exfalso; revert hs; simp [C10.clauseFails]; done)
    | (subst hop
       simp only [C10.clauseFails] at hs
       simp (config := { decide := true }) only [if_true, if_false, Option.some.injEq] at hs
       subst hs
       simp [cmpOp, opEq, opNe, opGt, opLt, opGte, opLte]
       done)
    | (subst hop
       simp only [C10.clauseFails] at hs
       simp (config := { decide := true }) only [if_true, if_false, Option.some.injEq] at hs
       subst hs
       simp [cmpOp, opEq, opNe, opGt, opLt, opGte, opLte]
       omega)
    | (subst hop
       simp only [C10.clauseFails] at hs
       simp (config := { decide := true }) only [if_true, if_false, Option.some.injEq] at hs
       subst hs
       simp [cmpOp, opEq, opNe, opGt, opLt, opGte, opLte]
       rw [Bool.eq_iff_iff]
       simp)

/-- …and no other key is a comparison operator of the model: a key outside the table's `matchField`
rows is unknown to `cmpOp` (the `default:` clause, `ErrUnsupportedOperation`). -/
theorem C10.cmpOp_only_table_ops (key : Bytes) (doc v : Val)
    (h : key ∉ [opEq, opNe, opGt, opLt, opGte, opLte]) : cmpOp key doc v = none := by
  simp only [List.mem_cons, List.mem_nil_iff, or_false, not_or] at h
  simp [cmpOp, h]

/-- non-vacuity: `$gte` on 3 vs 3 – the clause does not fail and the model's `cmpOp` holds -/
theorem C10.match_clauses_nonvacuous :
    (⟨"matchField", [opGte], "fail-if-compare-lt-0"⟩ : Row) ∈ rows ∧
    C10.clauseFails "fail-if-compare-lt-0" (equal (.int .w64 3) (.int .w64 3)) (cmp (.int .w64 3) (.int .w64 3)) = some false := by
  decide

/-! ## `Find`'s window and `patch` (facts of Generated/StoreFacts, proved in Props/C12Tie.lean) -/
theorem C10.find_facts : type_of% C12.find_facts := C12.find_facts
theorem C10.find_window_as_modelled : type_of% C12.find_window_as_modelled := C12.find_window_as_modelled
/-- the window arithmetic pinned before the repair (`limit = skip + limit` in machine integers) panics on
`Skip = 1, Limit = math.MaxInt` over three documents, where the model's `window` and the present statements return two -/
theorem C10.pinned_window_overflows : type_of% C12.pinned_window_overflows := C12.pinned_window_overflows
theorem C10.patch_freezes_result : type_of% C12.patch_freezes_result := C12.patch_freezes_result
