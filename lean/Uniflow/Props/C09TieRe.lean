/-
C09 – re-statements of the function-outline ties of the files this property is anchored in and that are filed under another
property (bin/freeze_all.py): a source change there is reported for C09 as well.
-/
import Uniflow.Props.C13TieFn1
import Uniflow.Props.C18Tie

theorem C09.src_store_stream_as_modelled : type_of% C13.src_store_stream_as_modelled := C13.src_store_stream_as_modelled
theorem C09.src_spec_spec_as_modelled : type_of% C18.src_spec_spec_as_modelled := C18.src_spec_spec_as_modelled
theorem C09.src_spec_unstructured_as_modelled : type_of% C18.src_spec_unstructured_as_modelled := C18.src_spec_unstructured_as_modelled
