/-
C14 – re-statements of the function-outline ties of the UNMARSHALERS that re-write a value in place
(Binary.UnmarshalText / UnmarshalBinary, Slice.UnmarshalJSON, Error.UnmarshalText / UnmarshalBinary, the two
maps' UnmarshalJSON). They are filed under C16 with the rest of the codec half of pkg/types, but a value that
has been hashed and is then re-written must still obey C14's laws (harness/c14 `rewrittenInPlace`, seeded
change c14j), so a source change there is reported for C14 as well. Written by hand (not by bin/freeze_all.py).
-/
import Uniflow.Props.C16Tie1
import Uniflow.Props.C16Tie2
import Uniflow.Props.C16Tie3
import Uniflow.Props.C16Tie4
import Uniflow.Props.C16Tie5
import Uniflow.Props.C16Tie6

theorem C14.src_types_binary_codec_as_modelled_1 : type_of% C16.src_types_binary_as_modelled_1 := C16.src_types_binary_as_modelled_1
theorem C14.src_types_binary_codec_as_modelled_2 : type_of% C16.src_types_binary_as_modelled_2 := C16.src_types_binary_as_modelled_2
theorem C14.src_types_slice_codec_as_modelled : type_of% C16.src_types_slice_as_modelled := C16.src_types_slice_as_modelled
theorem C14.src_types_error_codec_as_modelled : type_of% C16.src_types_error_as_modelled := C16.src_types_error_as_modelled
theorem C14.src_types_map_codec_as_modelled_1 : type_of% C16.src_types_map_as_modelled_1 := C16.src_types_map_as_modelled_1
theorem C14.src_types_map_codec_as_modelled_2 : type_of% C16.src_types_map_as_modelled_2 := C16.src_types_map_as_modelled_2
theorem C14.src_types_map_codec_as_modelled_3 : type_of% C16.src_types_map_as_modelled_3 := C16.src_types_map_as_modelled_3
theorem C14.src_types_map_codec_as_modelled_4 : type_of% C16.src_types_map_as_modelled_4 := C16.src_types_map_as_modelled_4
