/-
C06 — symbol table contents and port wiring always equal the spec graph.

Theorems about `Uniflow.Table` (model of `pkg/symbol/table.go`).
-/
import Uniflow.Proofs.Table
import Uniflow.Proofs.TablePass

namespace Uniflow.Table

/-! ### what each function does to `symbols` -/

theorem links_symbols (o : Ord) (st : State) (sb : Sym) :
    (links o st sb).symbols = st.symbols ∧ (links o st sb).namespaces = st.namespaces ∧
    (links o st sb).log = st.log := ⟨rfl, rfl, rfl⟩

theorem unlinks_symbols (o : Ord) (st : State) (sb : Sym) :
    (unlinks o st sb).symbols = st.symbols ∧ (unlinks o st sb).namespaces = st.namespaces ∧
    (unlinks o st sb).log = st.log := ⟨rfl, rfl, rfl⟩

theorem closeSym_symbols (st : State) (sb : Sym) :
    (closeSym st sb).symbols = st.symbols ∧ (closeSym st sb).namespaces = st.namespaces := by
  unfold closeSym; split <;> exact ⟨rfl, rfl⟩

theorem insert_symbols (o : Ord) (st : State) (sb : Sym) :
    (insert o st sb).1.symbols = aset sb.id sb st.symbols := by
  unfold insert
  rw [load_table]
  simp only [(links_symbols _ _ _).1]
  split <;> rfl

/-- The part of `free` after a successful unload. -/
def freeRest (o : Ord) (st1 : State) (sb : Sym) (id : Nat) : State :=
  let st2 := closeSym (unlinks o st1 sb) sb
  let st3 := if sb.name ≠ 0 then { st2 with namespaces := adel (sb.ns, sb.name) st2.namespaces } else st2
  { st3 with symbols := adel id st3.symbols }

theorem free_eq (o : Ord) (st : State) (id : Nat) :
    free o st id =
      match aget id st.symbols with
      | none => (st, .ok, false)
      | some sb =>
        if (unload o st sb).2 = .ok then (freeRest o (unload o st sb).1 sb id, .ok, true)
        else ((unload o st sb).1, (unload o st sb).2, false) := by
  unfold free
  cases aget id st.symbols with
  | none => rfl
  | some sb =>
    simp only
    cases unload o st sb with
    | mk st1 r => cases r <;> simp [freeRest]

theorem freeRest_symbols (o : Ord) (st1 : State) (sb : Sym) (id : Nat) :
    (freeRest o st1 sb id).symbols = adel id st1.symbols := by
  unfold freeRest
  simp only
  split <;> simp [(closeSym_symbols _ _).1, (unlinks_symbols _ _ _).1]

theorem free_symbols (o : Ord) (st : State) (id : Nat) (k : Nat) :
    aget k (free o st id).1.symbols =
      if (free o st id).2.1 = .ok ∧ k = id then none else aget k st.symbols := by
  rw [free_eq]
  cases hs : aget id st.symbols with
  | none =>
    simp only
    split
    · rename_i h; rw [h.2, hs]
    · rfl
  | some sb =>
    simp only
    have ht := unload_table o st sb
    split
    · simp only [true_and, freeRest_symbols, aget_adel]
      rw [ht]
    · rename_i hne
      simp only [hne, false_and, if_false]
      rw [ht]

/-- Symbols are stored under their own id. -/
def KeyId (st : State) : Prop := ∀ k s, aget k st.symbols = some s → s.id = k

theorem keyId_free (o : Ord) (st : State) (id : Nat) (h : KeyId st) : KeyId (free o st id).1 := by
  intro k s hk
  rw [free_symbols] at hk
  split at hk
  · cases hk
  · exact h k s hk

theorem keyId_insert (o : Ord) (st : State) (sb : Sym) (h : KeyId st) : KeyId (insert o st sb).1 := by
  intro k s hk
  rw [insert_symbols, aget_aset] at hk
  split at hk
  · rename_i e; cases hk; exact e.symm
  · exact h k s hk

theorem freeAll_symbols (o : Ord) (st : State) (l : List Sym) (hok : (freeAll o st l).2 = .ok) (k : Nat) :
    aget k (freeAll o st l).1.symbols = if k ∈ l.map (·.id) then none else aget k st.symbols := by
  induction l generalizing st with
  | nil => simp [freeAll]
  | cons x xs ih =>
    unfold freeAll at hok ⊢
    cases hf : free o st x.id with
    | mk st1 rb =>
      obtain ⟨r, b⟩ := rb
      rw [hf] at hok
      cases r with
      | ok =>
        simp only at hok ⊢
        rw [ih st1 hok]
        have := free_symbols o st x.id k
        rw [hf] at this
        simp only [true_and] at this
        by_cases h1 : k ∈ xs.map (·.id)
        · simp only [h1, if_true, List.map_cons, List.mem_cons, or_true]
        · rw [this]
          by_cases h2 : k = x.id
          · simp [h2]
          · simp only [h1, h2, if_false, List.map_cons, List.mem_cons, or_self]
      | err es => simp at hok
      | panic => simp at hok

theorem keyId_freeAll (o : Ord) (st : State) (l : List Sym) (h : KeyId st) : KeyId (freeAll o st l).1 := by
  induction l generalizing st with
  | nil => exact h
  | cons x xs ih =>
    unfold freeAll
    have h1 := keyId_free o st x.id h
    cases hf : free o st x.id with
    | mk st1 rb =>
      obtain ⟨r, b⟩ := rb
      rw [hf] at h1
      cases r with
      | ok => exact ih st1 h1
      | err es => exact h1
      | panic => exact h1

theorem step_insert_eq (o : Ord) (st : State) (sb : Sym) :
    step o st (.insert sb) =
      if (free o st sb.id).2.1 = .ok then
        ((insert o (free o st sb.id).1 sb).1, (insert o (free o st sb.id).1 sb).2, false)
      else ((free o st sb.id).1, (free o st sb.id).2.1, false) := by
  simp only [step]
  cases free o st sb.id with
  | mk st1 rb =>
    obtain ⟨r, b⟩ := rb
    cases r <;> simp

theorem step_close_eq (o : Ord) (st : State) :
    step o st .close =
      match closeOrder o st with
      | none => (st, .panic, false)
      | some l => ((freeAll o st l).1, (freeAll o st l).2, false) := by
  simp only [step]
  rfl

theorem keyId_step (o : Ord) (st : State) (op : Op) (h : KeyId st) : KeyId (step o st op).1 := by
  cases op with
  | insert sb =>
    rw [step_insert_eq]
    have h1 := keyId_free o st sb.id h
    split
    · exact keyId_insert o _ sb h1
    · exact h1
  | free id => exact keyId_free o st id h
  | close =>
    rw [step_close_eq]
    cases closeOrder o st with
    | none => exact h
    | some l => exact keyId_freeAll o st l h

/-! ### `Close` frees every symbol -/

theorem closeOrder_cover (o : Ord) (ho : o.Valid) (st : State) (l : List Sym)
    (h : closeOrder o st = some l) :
    ∀ k s, (k, s) ∈ st.symbols → s.id ∈ l.map (·.id) := by
  unfold closeOrder at h
  -- the initial degree map
  generalize hd : (o.syms 2 st.symbols).foldl (fun (d : Deg) p =>
    aset p.2.id (p.2, (((o.ports 4 (match aget p.1 st.references with | none => [] | some m => m)).map
      (fun q => (q.2.length : Int))).sum)) d) [] = deg0 at h
  have hfold : ∀ (ps : List (Nat × Sym)) (d : Deg), (∀ p ∈ d, p.2.1.id = p.1) →
      (∀ p ∈ ps.foldl (fun (d : Deg) p =>
        aset p.2.id (p.2, (((o.ports 4 (match aget p.1 st.references with | none => [] | some m => m)).map
          (fun q => (q.2.length : Int))).sum)) d) d, p.2.1.id = p.1) ∧
      (∀ p ∈ ps, p.2.id ∈ keys (ps.foldl (fun (d : Deg) p =>
        aset p.2.id (p.2, (((o.ports 4 (match aget p.1 st.references with | none => [] | some m => m)).map
          (fun q => (q.2.length : Int))).sum)) d) d)) ∧
      (∀ x ∈ keys d, x ∈ keys (ps.foldl (fun (d : Deg) p =>
        aset p.2.id (p.2, (((o.ports 4 (match aget p.1 st.references with | none => [] | some m => m)).map
          (fun q => (q.2.length : Int))).sum)) d) d)) := by
    intro ps
    induction ps with
    | nil => intro d hd; exact ⟨hd, by simp, fun _ h => h⟩
    | cons p ps ih =>
      intro d hd
      have hd' : ∀ q ∈ aset p.2.id (p.2, (((o.ports 4 (match aget p.1 st.references with | none => [] | some m => m)).map
          (fun q => (q.2.length : Int))).sum)) d, q.2.1.id = q.1 := by
        intro q hq
        rcases mem_aset hq with e | hq
        · rw [e]
        · exact hd q hq
      obtain ⟨i1, i2, i3⟩ := ih _ hd'
      refine ⟨i1, ?_, fun x hx => i3 x (keys_subset_aset _ _ _ x hx)⟩
      intro q hq
      rcases List.mem_cons.mp hq with e | hq
      · subst e
        exact i3 _ ((mem_keys_aset _ _ _ _).mpr (Or.inl rfl))
      · exact i2 q hq
  obtain ⟨f1, f2, _⟩ := hfold (o.syms 2 st.symbols) [] (by simp)
  rw [hd] at f1 f2
  simp only at h
  cases hk : kahn (targetsOf o st) (kahnFuel (((o.deg 2 deg0).filter (fun p => p.2.2 = 0)).map (·.2.1)) deg0)
      (((o.deg 2 deg0).filter (fun p => p.2.2 = 0)).map (·.2.1)) [] deg0 with
  | none => rw [hk] at h; cases h
  | some res =>
    rw [hk] at h
    obtain ⟨out, deg'⟩ := res
    simp only [Option.some.injEq] at h
    have hinv : KInv deg0 [] (((o.deg 2 deg0).filter (fun p => p.2.2 = 0)).map (·.2.1)) := by
      refine ⟨?_, f1⟩
      intro p hp h0
      right
      refine ⟨p.2.1, ?_, f1 p hp⟩
      refine List.mem_map.mpr ⟨p, ?_, rfl⟩
      exact List.mem_filter.mpr ⟨(ho.2.2 2 deg0).mem_iff.mpr hp, by simp [h0]⟩
    obtain ⟨r1, r2, _⟩ := kahn_cover _ _ _ _ _ _ hk hinv
    intro k s hks
    have hk0 : s.id ∈ keys deg0 := f2 (k, s) ((ho.1 2 st.symbols).mem_iff.mpr hks)
    have hk1 : s.id ∈ keys deg' := r2 _ hk0
    obtain ⟨p, hp, e⟩ := List.mem_map.mp hk1
    subst h
    by_cases hc : p.2.2 = 0
    · rcases r1.cover p hp hc with ⟨s', hs', e'⟩ | ⟨s', hs', _⟩
      · refine List.mem_map.mpr ⟨s', List.mem_append_left _ hs', ?_⟩
        rw [e', e]
      · cases hs'
    · refine List.mem_map.mpr ⟨p.2.1, List.mem_append_right _ ?_, ?_⟩
      · refine List.mem_map.mpr ⟨p, List.mem_filter.mpr ⟨(ho.2.2 3 deg').mem_iff.mpr hp, by simp [hc]⟩, rfl⟩
      · rw [r1.ids p hp, e]

/-! ### specification: the latest inserted, not yet removed symbol -/

/-- The table the history asks for: `Insert` binds the id, `Free` unbinds it, `Close` unbinds all. -/
def specStep (m : Nat → Option Sym) : Op → Nat → Option Sym
  | .insert sb => fun k => if k = sb.id then some sb else m k
  | .free id => fun k => if k = id then none else m k
  | .close => fun _ => none

def specRun (m : Nat → Option Sym) : List Op → Nat → Option Sym
  | [] => m
  | op :: ops => specRun (specStep m op) ops

/-- Every operation of the history returned a nil error. -/
def OkRun (o : Ord) (st : State) : List Op → Prop
  | [] => True
  | op :: ops => (step o st op).2.1 = .ok ∧ OkRun o (step o st op).1 ops

theorem step_symbols (o : Ord) (ho : o.Valid) (st : State) (op : Op) (hk : KeyId st)
    (hok : (step o st op).2.1 = .ok) (m : Nat → Option Sym) (hm : ∀ k, aget k st.symbols = m k) :
    ∀ k, aget k (step o st op).1.symbols = specStep m op k := by
  intro k
  cases op with
  | insert sb =>
    rw [step_insert_eq] at hok ⊢
    have hf := free_symbols o st sb.id k
    split at hok
    · rename_i hfo
      simp only [hfo, if_true, true_and] at hf ⊢
      simp only [specStep, insert_symbols, aget_aset]
      split
      · rfl
      · rename_i hne; simp only [hne, if_false] at hf; rw [hf, hm]
    · rename_i hfo; exact absurd hok hfo
  | free id =>
    simp only [step] at hok ⊢
    rw [free_symbols, hok]; simp only [true_and, specStep, hm]
  | close =>
    rw [step_close_eq] at hok ⊢
    cases hc : closeOrder o st with
    | none => rw [hc] at hok; simp at hok
    | some l =>
      rw [hc] at hok
      simp only at hok ⊢
      rw [freeAll_symbols o st l hok]
      simp only [specStep]
      split
      · rfl
      · rename_i hnot
        cases hs : aget k st.symbols with
        | none => rfl
        | some s =>
          exfalso; apply hnot
          have := closeOrder_cover o ho st l hc k s (mem_of_aget hs)
          rwa [hk k s hs] at this



/-- Generic: membership in a projection of a fold whose step only adds elements described by `Q`. -/
theorem foldl_mem_iff {A X E : Type} (π : A → List E) (g : A → X → A) (Q : X → E → Prop)
    (hg : ∀ a x e, e ∈ π (g a x) ↔ e ∈ π a ∨ Q x e) (xs : List X) (a : A) (e : E) :
    e ∈ π (xs.foldl g a) ↔ e ∈ π a ∨ ∃ x ∈ xs, Q x e := by
  induction xs generalizing a with
  | nil => simp
  | cons x xs ih =>
    simp only [List.foldl_cons, ih, hg, List.mem_cons, exists_eq_or_imp]
    constructor
    · rintro ((h | h) | h)
      · exact Or.inl h
      · exact Or.inr (Or.inl h)
      · exact Or.inr (Or.inr h)
    · rintro (h | h | h)
      · exact Or.inl (Or.inl h)
      · exact Or.inl (Or.inr h)
      · exact Or.inr h

theorem mem_addLink (ls : List Link) (l e : Link) : e ∈ addLink ls l ↔ e ∈ ls ∨ e = l := by
  unfold addLink; split
  · rename_i h; constructor
    · exact Or.inl
    · rintro (h' | h'); exact h'; exact h' ▸ h
  · simp

/-- The link the first loop of `links` adds for `port` of out-port `name`. -/
def OutQ (st : State) (sb : Sym) (name : Nat) (port : Ref) (e : Link) : Prop :=
  ∃ ref, aget (resolve st sb.ns port) st.symbols = some ref ∧ ref.ns = sb.ns ∧
    sb.outOK name = true ∧ ref.inOK port.port = true ∧ e = ⟨sb.id, name, ref.id, port.port⟩

theorem linkOut_mem (st : State) (sb : Sym) (name : Nat) (acc : List (Nat × PortMap) × List Link)
    (port : Ref) (e : Link) :
    e ∈ (linkOut st sb name acc port).2 ↔ e ∈ acc.2 ∨ OutQ st sb name port e := by
  unfold linkOut OutQ
  cases h : aget (resolve st sb.ns port) st.symbols with
  | none => simp
  | some ref =>
    simp only [Option.some.injEq, exists_eq_left']
    by_cases hns : ref.ns = sb.ns
    · simp only [hns, if_true, true_and]
      by_cases hp : (sb.outOK name && ref.inOK port.port) = true
      · simp only [hp, if_true, mem_addLink]
        simp only [Bool.and_eq_true] at hp
        simp [hp.1, hp.2]
      · simp only [hp, if_false]
        simp only [Bool.and_eq_true, not_and] at hp
        constructor
        · exact Or.inl
        · rintro (h' | ⟨h1, h2, _⟩)
          · exact h'
          · exact absurd h2 (hp h1)
    · simp [hns]

/-- The link the second loop of `links` adds for `port` of out-port `name` of `ref`. -/
def InQ (sb ref : Sym) (name : Nat) (port : Ref) (e : Link) : Prop :=
  (port.id = sb.id ∨ (port.name ≠ 0 ∧ port.name = sb.name)) ∧
    ref.outOK name = true ∧ sb.inOK port.port = true ∧ e = ⟨ref.id, name, sb.id, port.port⟩

theorem linkIn_mem (sb ref : Sym) (name : Nat) (acc : List (Nat × PortMap) × List Link)
    (port : Ref) (e : Link) :
    e ∈ (linkIn sb ref name acc port).2 ↔ e ∈ acc.2 ∨ InQ sb ref name port e := by
  unfold linkIn InQ
  by_cases hc : port.id = sb.id ∨ (port.name ≠ 0 ∧ port.name = sb.name)
  · simp only [hc, if_true, true_and]
    by_cases hp : (ref.outOK name && sb.inOK port.port) = true
    · simp only [hp, if_true, mem_addLink]
      simp only [Bool.and_eq_true] at hp
      simp [hp.1, hp.2]
    · simp only [hp, if_false]
      simp only [Bool.and_eq_true, not_and] at hp
      constructor
      · exact Or.inl
      · rintro (h' | ⟨h1, h2, _⟩)
        · exact h'
        · exact absurd h2 (hp h1)
  · simp [hc]

abbrev Acc := List (Nat × PortMap) × List Link

theorem linkOut_fold2 (st : State) (sb : Sym) (nps : List (Nat × List Ref)) (a : Acc) (e : Link) :
    e ∈ (nps.foldl (fun (acc : Acc) np => np.2.foldl (linkOut st sb np.1) acc) a).2 ↔
      e ∈ a.2 ∨ ∃ np ∈ nps, ∃ port ∈ np.2, OutQ st sb np.1 port e :=
  foldl_mem_iff (A := Acc) (fun a => a.2) (fun (acc : Acc) np => np.2.foldl (linkOut st sb np.1) acc)
    (fun np e => ∃ port ∈ np.2, OutQ st sb np.1 port e)
    (fun a np e => foldl_mem_iff (A := Acc) (fun a => a.2) (linkOut st sb np.1)
      (fun port e => OutQ st sb np.1 port e) (fun a x e => linkOut_mem st sb np.1 a x e) np.2 a e)
    nps a e

theorem linkIn_fold2 (sb ref : Sym) (nps : List (Nat × List Ref)) (a : Acc) (e : Link) :
    e ∈ (nps.foldl (fun (acc : Acc) np => np.2.foldl (linkIn sb ref np.1) acc) a).2 ↔
      e ∈ a.2 ∨ ∃ np ∈ nps, ∃ port ∈ np.2, InQ sb ref np.1 port e :=
  foldl_mem_iff (A := Acc) (fun a => a.2) (fun (acc : Acc) np => np.2.foldl (linkIn sb ref np.1) acc)
    (fun np e => ∃ port ∈ np.2, InQ sb ref np.1 port e)
    (fun a np e => foldl_mem_iff (A := Acc) (fun a => a.2) (linkIn sb ref np.1)
      (fun port e => InQ sb ref np.1 port e) (fun a x e => linkIn_mem sb ref np.1 a x e) np.2 a e)
    nps a e

theorem linkInSym_mem (o : Ord) (ho : o.Valid) (sb : Sym) (a : Acc) (p : Nat × Sym) (e : Link) :
    e ∈ (linkInSym o sb a p).2 ↔
      e ∈ a.2 ∨ (p.2.ns = sb.ns ∧ ∃ np ∈ p.2.ports, ∃ port ∈ np.2, InQ sb p.2 np.1 port e) := by
  unfold linkInSym
  by_cases hns : p.2.ns = sb.ns
  · simp only [hns, ne_eq, not_true_eq_false, if_false, true_and]
    rw [linkIn_fold2]
    simp only [(ho.2.1 2 p.2.ports).mem_iff]
  · simp only [ne_eq, hns, not_false_eq_true, if_true, false_and, or_false]

theorem links_mem (o : Ord) (ho : o.Valid) (st : State) (sb : Sym) (e : Link) :
    e ∈ (links o st sb).links ↔
      e ∈ st.links ∨
      (∃ np ∈ sb.ports, ∃ port ∈ np.2, OutQ st sb np.1 port e) ∨
      (∃ p ∈ st.symbols, p.2.ns = sb.ns ∧ ∃ np ∈ p.2.ports, ∃ port ∈ np.2, InQ sb p.2 np.1 port e) := by
  unfold links
  simp only
  have h1 := foldl_mem_iff (A := Acc) (fun a => a.2) (linkInSym o sb)
    (fun p e => p.2.ns = sb.ns ∧ ∃ np ∈ p.2.ports, ∃ port ∈ np.2, InQ sb p.2 np.1 port e)
    (fun a p e => linkInSym_mem o ho sb a p e) (o.syms 1 st.symbols)
    ((o.ports 1 sb.ports).foldl (fun (acc : Acc) np => np.2.foldl (linkOut st sb np.1) acc)
      (st.references, st.links)) e
  refine h1.trans ?_
  rw [linkOut_fold2]
  simp only [(ho.2.1 1 sb.ports).mem_iff, (ho.1 1 st.symbols).mem_iff, or_assoc]


/-! ### `unlinks` + `Symbol.Close` on the links -/

theorem foldl_inv {A X : Type} (P : A → Prop) (g : A → X → A) (xs : List X)
    (h : ∀ a x, x ∈ xs → P a → P (g a x)) (a : A) (ha : P a) : P (xs.foldl g a) := by
  induction xs generalizing a with
  | nil => exact ha
  | cons x xs ih =>
    exact ih (fun a y hy => h a y (List.mem_cons_of_mem _ hy)) _ (h a x (by simp) ha)

theorem unlinks_links_sub (o : Ord) (st : State) (sb : Sym) (e : Link) :
    e ∈ (unlinks o st sb).links → e ∈ st.links := by
  unfold unlinks
  simp only
  refine foldl_inv (A := Acc) (fun a => e ∈ a.2 → e ∈ st.links) _ _ ?_ _ (fun h => h)
  intro a np _ ha
  refine foldl_inv (A := Acc) (fun a => e ∈ a.2 → e ∈ st.links) _ _ ?_ _ ha
  intro a port _ ha
  unfold unlinkOut
  cases aget (resolve st sb.ns port) st.symbols with
  | none => exact ha
  | some ref =>
    simp only
    split
    · intro h; exact ha (List.mem_of_mem_erase h)
    · exact ha

theorem unlinks_links_keep (o : Ord) (st : State) (sb : Sym) (e : Link) (hne : e.src ≠ sb.id) :
    e ∈ st.links → e ∈ (unlinks o st sb).links := by
  unfold unlinks
  simp only
  refine foldl_inv (A := Acc) (fun a => e ∈ st.links → e ∈ a.2) _ _ ?_ _ (fun h => h)
  intro a np _ ha
  refine foldl_inv (A := Acc) (fun a => e ∈ st.links → e ∈ a.2) _ _ ?_ _ ha
  intro a port _ ha
  unfold unlinkOut
  cases aget (resolve st sb.ns port) st.symbols with
  | none => exact ha
  | some ref =>
    simp only
    split
    · intro h
      refine (List.mem_erase_of_ne ?_).mpr (ha h)
      intro e'; apply hne; rw [e']
    · exact ha

theorem unlinks_links_noNode (o : Ord) (st : State) (sb : Sym) (hn : sb.hasNode = false) :
    (unlinks o st sb).links = st.links := by
  unfold unlinks
  simp only
  refine foldl_inv (A := Acc) (fun a => a.2 = st.links) _ _ ?_ _ rfl
  intro a np _ ha
  refine foldl_inv (A := Acc) (fun a => a.2 = st.links) _ _ ?_ _ ha
  intro a port _ ha
  unfold unlinkOut
  cases aget (resolve st sb.ns port) st.symbols with
  | none => exact ha
  | some ref => simp [Sym.outOK, hn, ha]

theorem freeRest_links (o : Ord) (st1 : State) (sb : Sym) (id : Nat) (e : Link) :
    e ∈ (freeRest o st1 sb id).links ↔
      if sb.hasNode then e ∈ st1.links ∧ e.src ≠ sb.id ∧ e.dst ≠ sb.id else e ∈ st1.links := by
  have h0 : (freeRest o st1 sb id).links = (closeSym (unlinks o st1 sb) sb).links := by
    unfold freeRest; simp only; split <;> rfl
  rw [h0]
  unfold closeSym
  cases hn : sb.hasNode with
  | false => simp [unlinks_links_noNode o st1 sb hn]
  | true =>
    simp only [if_true, List.mem_filter, Bool.and_eq_true, bne_iff_ne, ne_eq, decide_eq_true_eq]
    constructor
    · rintro ⟨h1, h2, h3⟩; exact ⟨unlinks_links_sub o st1 sb e h1, h2, h3⟩
    · rintro ⟨h1, h2, h3⟩; exact ⟨unlinks_links_keep o st1 sb e h2 h1, h2, h3⟩


/-! ### the wiring the specs ask for -/

/-- Reference `r`, used in namespace `ns`, names the symbol stored under `t`: by id, or by name
(the present symbol of that namespace with that name). -/
def Names (st : State) (ns : Nat) (r : Ref) (t : Nat) : Prop :=
  (r.id ≠ 0 ∧ r.id = t) ∨
  (r.id = 0 ∧ r.name ≠ 0 ∧ ∃ s, aget t st.symbols = some s ∧ s.ns = ns ∧ s.name = r.name)

/-- The link `e` is asked for by the specs of the present symbols. -/
def Wired (st : State) (e : Link) : Prop :=
  ∃ S T, aget e.src st.symbols = some S ∧ aget e.dst st.symbols = some T ∧ T.ns = S.ns ∧
    S.outOK e.out = true ∧ T.inOK e.inp = true ∧
    ∃ np ∈ S.ports, np.1 = e.out ∧ ∃ r ∈ np.2, Names st S.ns r e.dst ∧ r.port = e.inp

def Ref.wf (r : Ref) : Prop := (r.id ≠ 0 ∧ r.name = 0) ∨ (r.id = 0 ∧ r.name ≠ 0)
def Sym.wf (s : Sym) : Prop := s.id ≠ 0 ∧ ∀ np ∈ s.ports, ∀ r ∈ np.2, r.wf

/-- Inserting `sb` keeps names unique per namespace among the present symbols. -/
def NameFree (st : State) (sb : Sym) : Prop :=
  sb.name ≠ 0 → ∀ k t, aget k st.symbols = some t → t.ns = sb.ns → t.name = sb.name → k = sb.id

structure TBase (st : State) : Prop where
  keyId : KeyId st
  nodup : (keys st.symbols).Nodup
  wf : ∀ k s, aget k st.symbols = some s → s.wf
  names : ∀ ns nm id, aget (ns, nm) st.namespaces = some id ↔
    (nm ≠ 0 ∧ ∃ s, aget id st.symbols = some s ∧ s.ns = ns ∧ s.name = nm)

structure TInv (st : State) : Prop extends TBase st where
  links : ∀ e, e ∈ st.links ↔ Wired st e

theorem resolve_iff {st : State} (h : TBase st) (ns : Nat) (r : Ref) (t : Nat) (T : Sym)
    (ht : aget t st.symbols = some T) : resolve st ns r = t ↔ Names st ns r t := by
  have t0 : t ≠ 0 := by
    have := (h.wf t T ht).1; rw [h.keyId t T ht] at this; exact this
  unfold resolve Names
  by_cases hid : r.id ≠ 0
  · simp [hid]
  · have hid' : r.id = 0 := by simpa using hid
    simp only [hid', ne_eq, not_true_eq_false, if_false, false_and, true_and, false_or]
    unfold lookupName
    cases hl : aget (ns, r.name) st.namespaces with
    | none =>
      simp only
      constructor
      · intro e; exact absurd e.symm t0
      · intro hn
        have := (h.names ns r.name t).mpr hn
        rw [hl] at this; cases this
    | some i =>
      simp only
      constructor
      · intro e; subst e; exact (h.names ns r.name i).mp hl
      · intro hn
        have := (h.names ns r.name t).mpr hn
        rw [hl] at this; exact Option.some.inj this

/-- Removing the symbol stored under `id`: the wiring asked for loses exactly the links from / into it. -/
theorem wired_adel (st st' : State) (id : Nat) (hs : st'.symbols = adel id st.symbols) (e : Link) :
    Wired st' e ↔ Wired st e ∧ e.src ≠ id ∧ e.dst ≠ id := by
  unfold Wired Names
  simp only [hs, aget_adel]
  constructor
  · rintro ⟨S, T, h1, h2, h3, h4, h5, np, hnp, hn, r, hr, hN, hp⟩
    split at h1
    · cases h1
    · rename_i hsrc
      split at h2
      · cases h2
      · rename_i hdst
        refine ⟨⟨S, T, h1, h2, h3, h4, h5, np, hnp, hn, r, hr, ?_, hp⟩, hsrc, hdst⟩
        rcases hN with h | ⟨a, b, s, hs', c⟩
        · exact Or.inl h
        · simp only [hdst, if_false] at hs'
          exact Or.inr ⟨a, b, s, hs', c⟩
  · rintro ⟨⟨S, T, h1, h2, h3, h4, h5, np, hnp, hn, r, hr, hN, hp⟩, hsrc, hdst⟩
    refine ⟨S, T, by simp [hsrc, h1], by simp [hdst, h2], h3, h4, h5, np, hnp, hn, r, hr, ?_, hp⟩
    rcases hN with h | ⟨a, b, s, hs', c⟩
    · exact Or.inl h
    · exact Or.inr ⟨a, b, s, by simp [hdst, hs'], c⟩

/-- Adding `sb` under a fresh key: links between the other symbols are asked for as before. -/
theorem wired_aset (st st' : State) (sb : Sym) (hs : st'.symbols = aset sb.id sb st.symbols)
    (hfresh : aget sb.id st.symbols = none) (e : Link) :
    Wired st e ↔ Wired st' e ∧ e.src ≠ sb.id ∧ e.dst ≠ sb.id := by
  unfold Wired Names
  simp only [hs, aget_aset]
  constructor
  · rintro ⟨S, T, h1, h2, h3, h4, h5, np, hnp, hn, r, hr, hN, hp⟩
    have hsrc : e.src ≠ sb.id := by intro e'; rw [e', hfresh] at h1; cases h1
    have hdst : e.dst ≠ sb.id := by intro e'; rw [e', hfresh] at h2; cases h2
    refine ⟨⟨S, T, by simp [hsrc, h1], by simp [hdst, h2], h3, h4, h5, np, hnp, hn, r, hr, ?_, hp⟩, hsrc, hdst⟩
    rcases hN with h | ⟨a, b, s, hs', c⟩
    · exact Or.inl h
    · exact Or.inr ⟨a, b, s, by simp [hdst, hs'], c⟩
  · rintro ⟨⟨S, T, h1, h2, h3, h4, h5, np, hnp, hn, r, hr, hN, hp⟩, hsrc, hdst⟩
    simp only [hsrc, if_false] at h1
    simp only [hdst, if_false] at h2
    refine ⟨S, T, h1, h2, h3, h4, h5, np, hnp, hn, r, hr, ?_, hp⟩
    rcases hN with h | ⟨a, b, s, hs', c⟩
    · exact Or.inl h
    · simp only [hdst, if_false] at hs'
      exact Or.inr ⟨a, b, s, hs', c⟩


theorem wired_congr {st st' : State} (hs : st'.symbols = st.symbols) (e : Link) : Wired st' e ↔ Wired st e := by
  unfold Wired Names; rw [hs]

theorem tinv_congr {st st' : State} (h : TInv st) (hs : st'.symbols = st.symbols)
    (hn : st'.namespaces = st.namespaces) (hl : st'.links = st.links) : TInv st' := by
  refine ⟨⟨?_, ?_, ?_, ?_⟩, ?_⟩
  · intro k s hk; rw [hs] at hk; exact h.keyId k s hk
  · rw [hs]; exact h.nodup
  · intro k s hk; rw [hs] at hk; exact h.wf k s hk
  · intro ns nm id; rw [hn, hs]; exact h.names ns nm id
  · intro e; rw [hl, wired_congr hs]; exact h.links e

theorem freeRest_namespaces (o : Ord) (st1 : State) (sb : Sym) (id : Nat) :
    (freeRest o st1 sb id).namespaces =
      if sb.name ≠ 0 then adel (sb.ns, sb.name) st1.namespaces else st1.namespaces := by
  unfold freeRest
  simp only
  split <;> simp [(closeSym_symbols _ _).2, (unlinks_symbols _ _ _).2.1]

theorem tinv_freeRest (o : Ord) (st : State) (sb : Sym) (id : Nat) (h : TInv st)
    (hsb : aget id st.symbols = some sb) : TInv (freeRest o st sb id) := by
  have hid : sb.id = id := h.keyId id sb hsb
  have hsym := freeRest_symbols o st sb id
  refine ⟨⟨?_, ?_, ?_, ?_⟩, ?_⟩
  · intro k s hk; rw [hsym, aget_adel] at hk
    split at hk
    · cases hk
    · exact h.keyId k s hk
  · rw [hsym]; exact nodup_keys_adel _ h.nodup
  · intro k s hk; rw [hsym, aget_adel] at hk
    split at hk
    · cases hk
    · exact h.wf k s hk
  · intro ns nm i
    rw [freeRest_namespaces, hsym]
    simp only [aget_adel]
    have hold := h.names ns nm i
    by_cases hname : sb.name ≠ 0
    · rw [if_pos hname]; simp only [aget_adel]
      by_cases hkey : (ns, nm) = (sb.ns, sb.name)
      · simp only [hkey, if_true]
        constructor
        · intro h'; cases h'
        · rintro ⟨_, s, hs, h1, h2⟩
          split at hs
          · cases hs
          · rename_i hne
            have hi := (h.names ns nm i).mpr ⟨by cases hkey; exact hname, s, hs, h1, h2⟩
            have hi' := (h.names sb.ns sb.name id).mpr ⟨hname, sb, hsb, rfl, rfl⟩
            cases hkey
            rw [hi] at hi'; exact absurd (Option.some.inj hi') hne
      · simp only [hkey, if_false]
        rw [hold]
        constructor
        · rintro ⟨h0, s, hs, h1, h2⟩
          refine ⟨h0, s, ?_, h1, h2⟩
          have : i ≠ id := by
            intro e; subst e; rw [hsb] at hs; cases hs
            apply hkey; rw [← h1, ← h2]
          simp [this, hs]
        · rintro ⟨h0, s, hs, h1, h2⟩
          split at hs
          · cases hs
          · exact ⟨h0, s, hs, h1, h2⟩
    · have hname' : sb.name = 0 := by simpa using hname
      rw [if_neg hname, hold]
      constructor
      · rintro ⟨h0, s, hs, h1, h2⟩
        refine ⟨h0, s, ?_, h1, h2⟩
        have : i ≠ id := by
          intro e; subst e; rw [hsb] at hs; cases hs
          exact h0 (h2 ▸ hname')
        simp [this, hs]
      · rintro ⟨h0, s, hs, h1, h2⟩
        split at hs
        · cases hs
        · exact ⟨h0, s, hs, h1, h2⟩
  · intro e
    rw [freeRest_links, wired_adel st _ id hsym, ← h.links e, hid]
    cases hn : sb.hasNode with
    | true => simp
    | false =>
      simp only [Bool.false_eq_true, if_false]
      constructor
      · intro he
        refine ⟨he, ?_, ?_⟩
        · intro e'
          obtain ⟨S, T, h1, _, _, h4, _⟩ := (h.links e).mp he
          rw [e', hsb] at h1; cases h1
          simp [Sym.outOK, hn] at h4
        · intro e'
          obtain ⟨S, T, _, h2, _, _, h5, _⟩ := (h.links e).mp he
          rw [e', hsb] at h2; cases h2
          simp [Sym.inOK, hn] at h5
      · exact fun h => h.1

theorem tinv_free (o : Ord) (st : State) (id : Nat) (h : TInv st) : TInv (free o st id).1 := by
  rw [free_eq]
  cases hs : aget id st.symbols with
  | none => exact h
  | some sb =>
    simp only
    have ht := unload_table o st sb
    have h1 : TInv (unload o st sb).1 := by
      rw [ht]; exact tinv_congr h rfl rfl rfl
    split
    · exact tinv_freeRest o _ sb id h1 (by rw [ht]; exact hs)
    · exact h1


/-- The state `insert` hands to `links`: the symbol stored, its name indexed. -/
def stored (st : State) (sb : Sym) : State :=
  let st1 := { st with symbols := aset sb.id sb st.symbols }
  if sb.name ≠ 0 then { st1 with namespaces := aset (sb.ns, sb.name) sb.id st1.namespaces } else st1

theorem stored_fields (st : State) (sb : Sym) :
    (stored st sb).symbols = aset sb.id sb st.symbols ∧ (stored st sb).links = st.links ∧
    (stored st sb).namespaces =
      if sb.name ≠ 0 then aset (sb.ns, sb.name) sb.id st.namespaces else st.namespaces := by
  unfold stored; simp only; split <;> simp_all

theorem insert_eq (o : Ord) (st : State) (sb : Sym) :
    insert o st sb = load o (links o (stored st sb) sb) sb := rfl

theorem tbase_stored (st : State) (sb : Sym) (h : TBase st) (hfresh : aget sb.id st.symbols = none)
    (hwf : sb.wf) (hnf : NameFree st sb) : TBase (stored st sb) := by
  obtain ⟨hsym, _, hns⟩ := stored_fields st sb
  refine ⟨?_, ?_, ?_, ?_⟩
  · intro k s hk; rw [hsym, aget_aset] at hk
    split at hk
    · rename_i e; cases hk; exact e.symm
    · exact h.keyId k s hk
  · rw [hsym]; exact nodup_keys_aset _ _ h.nodup
  · intro k s hk; rw [hsym, aget_aset] at hk
    split at hk
    · cases hk; exact hwf
    · exact h.wf k s hk
  · intro ns nm i
    rw [hns, hsym]
    have hold := h.names ns nm i
    by_cases hname : sb.name ≠ 0
    · rw [if_pos hname]
      simp only [aget_aset]
      by_cases hkey : (ns, nm) = (sb.ns, sb.name)
      · simp only [hkey, if_true, Option.some.injEq]
        cases hkey
        constructor
        · intro e; subst e; exact ⟨hname, sb, by simp, rfl, rfl⟩
        · rintro ⟨_, s, hs, h1, h2⟩
          split at hs
          · rename_i e; exact e.symm
          · exact absurd (hnf hname i s hs h1 h2) (by assumption)
      · simp only [hkey, if_false]
        rw [hold]
        constructor
        · rintro ⟨h0, s, hs, h1, h2⟩
          have : i ≠ sb.id := by intro e; rw [e, hfresh] at hs; cases hs
          exact ⟨h0, s, by simp [this, hs], h1, h2⟩
        · rintro ⟨h0, s, hs, h1, h2⟩
          split at hs
          · cases hs; exact absurd (by rw [h1, h2]) hkey
          · exact ⟨h0, s, hs, h1, h2⟩
    · have hname' : sb.name = 0 := by simpa using hname
      rw [if_neg hname, hold]
      simp only [aget_aset]
      constructor
      · rintro ⟨h0, s, hs, h1, h2⟩
        have : i ≠ sb.id := by intro e; rw [e, hfresh] at hs; cases hs
        exact ⟨h0, s, by simp [this, hs], h1, h2⟩
      · rintro ⟨h0, s, hs, h1, h2⟩
        split at hs
        · cases hs; exact absurd (h2 ▸ hname') h0
        · exact ⟨h0, s, hs, h1, h2⟩

theorem tinv_insert (o : Ord) (ho : o.Valid) (st : State) (sb : Sym) (h : TInv st)
    (hfresh : aget sb.id st.symbols = none) (hwf : sb.wf) (hnf : NameFree st sb) :
    TInv (insert o st sb).1 := by
  rw [insert_eq, load_table]
  obtain ⟨hsym, hlnk, _⟩ := stored_fields st sb
  have hb : TBase (stored st sb) := tbase_stored st sb h.toTBase hfresh hwf hnf
  have hself : aget sb.id (stored st sb).symbols = some sb := by rw [hsym]; simp [aget_aset]
  have hlinks : ∀ e, e ∈ (links o (stored st sb) sb).links ↔ Wired (stored st sb) e := by
    intro e
    rw [links_mem o ho, hlnk, h.links e, wired_aset st (stored st sb) sb hsym hfresh e]
    constructor
    · rintro (⟨h1, _, _⟩ | ⟨np, hnp, port, hport, ref, hr, hns, ho1, ho2, he⟩ |
        ⟨p, hp, hns, np, hnp, port, hport, hc, ho1, ho2, he⟩)
      · exact h1
      · -- a link of the first loop
        subst he
        have hid : ref.id = resolve (stored st sb) sb.ns port := hb.keyId _ _ hr
        refine ⟨sb, ref, hself, by simp only; rw [hid]; exact hr, hns, ho1, ho2, np, hnp, rfl, port, hport, ?_, rfl⟩
        simp only; rw [hid]
        exact (resolve_iff hb sb.ns port _ ref hr).mp rfl
      · -- a link of the second loop
        subst he
        obtain ⟨k, ref⟩ := p
        have hk : aget k (stored st sb).symbols = some ref := aget_of_mem hb.nodup hp
        have hid : ref.id = k := hb.keyId _ _ hk
        simp only at hns hnp hport hc ho1 ho2 ⊢
        refine ⟨ref, sb, by simp only; rw [hid]; exact hk, hself, hns.symm, ho1, ho2, np, hnp, rfl, port, hport, ?_, rfl⟩
        have hpw : port.wf := (hb.wf k ref hk).2 np hnp port hport
        rcases hc with hc | ⟨hc1, hc2⟩
        · exact Or.inl ⟨by rw [hc]; exact hwf.1, hc⟩
        · rcases hpw with ⟨_, h2⟩ | ⟨h1, h2⟩
          · exact absurd h2 hc1
          · exact Or.inr ⟨h1, h2, sb, hself, hns.symm, hc2.symm⟩
    · rintro ⟨S, T, h1, h2, h3, h4, h5, np, hnp, hn, r, hr, hN, hp⟩
      by_cases hsrc : e.src = sb.id
      · right; left
        rw [hsrc, hself] at h1; cases h1
        have hres : resolve (stored st sb) sb.ns r = e.dst := (resolve_iff hb sb.ns r e.dst T h2).mpr hN
        refine ⟨np, hnp, r, hr, T, by rw [hres]; exact h2, h3, by rw [hn]; exact h4, by rw [hp]; exact h5, ?_⟩
        have := hb.keyId _ _ h2
        cases e; simp_all
      · by_cases hdst : e.dst = sb.id
        · right; right
          rw [hdst, hself] at h2; cases h2
          refine ⟨(e.src, S), mem_of_aget h1, h3.symm, np, hnp, r, hr, ?_, by rw [hn]; exact h4,
            by rw [hp]; exact h5, ?_⟩
          · rcases hN with ⟨_, h⟩ | ⟨_, h0, s, hs, _, h2'⟩
            · exact Or.inl (h.trans hdst)
            · rw [hdst, hself] at hs; cases hs
              exact Or.inr ⟨h0, h2'.symm⟩
          · have := hb.keyId _ _ h1
            cases e; simp_all
        · left
          exact ⟨⟨S, T, h1, h2, h3, h4, h5, np, hnp, hn, r, hr, hN, hp⟩, hsrc, hdst⟩
  refine ⟨⟨?_, ?_, ?_, ?_⟩, ?_⟩
  · exact hb.keyId
  · exact hb.nodup
  · exact hb.wf
  · exact hb.names
  · intro e
    exact (hlinks e).trans (wired_congr rfl e).symm


theorem tinv_freeAll (o : Ord) (st : State) (l : List Sym) (h : TInv st) : TInv (freeAll o st l).1 := by
  induction l generalizing st with
  | nil => exact h
  | cons x xs ih =>
    unfold freeAll
    have h1 := tinv_free o st x.id h
    cases hf : free o st x.id with
    | mk st1 rb =>
      obtain ⟨r, b⟩ := rb
      rw [hf] at h1
      cases r with
      | ok => exact ih st1 h1
      | err es => exact h1
      | panic => exact h1

/-- Well-formed operation in state `st`: an inserted symbol has a non-nil id, each of its port
references has exactly one of id / name, and its name is not held by another present symbol of
its namespace. All three conditions are decidable. -/
def WfOp (st : State) : Op → Prop
  | .insert sb => sb.wf ∧ NameFree st sb
  | _ => True

def WfRun (o : Ord) (st : State) : List Op → Prop
  | [] => True
  | op :: ops => WfOp st op ∧ WfRun o (step o st op).1 ops

theorem tinv_step (o : Ord) (ho : o.Valid) (st : State) (op : Op) (h : TInv st) (hw : WfOp st op) :
    TInv (step o st op).1 := by
  cases op with
  | insert sb =>
    rw [step_insert_eq]
    have h1 := tinv_free o st sb.id h
    split
    · rename_i hok
      have hfs := fun k => free_symbols o st sb.id k
      simp only [hok, true_and] at hfs
      refine tinv_insert o ho _ sb h1 (by rw [hfs]; simp) hw.1 ?_
      intro hn k t hk h2 h3
      rw [hfs] at hk
      split at hk
      · cases hk
      · exact hw.2 hn k t hk h2 h3
    · exact h1
  | free id => exact tinv_free o st id h
  | close =>
    rw [step_close_eq]
    cases closeOrder o st with
    | none => exact h
    | some l => exact tinv_freeAll o st l h

theorem tinv_run (o : Ord) (ho : o.Valid) (h : List Op) (st : State) (hi : TInv st) (hw : WfRun o st h) :
    TInv (run o st h) := by
  induction h generalizing st with
  | nil => exact hi
  | cons op ops ih => exact ih _ (tinv_step o ho st op hi hw.1) hw.2

theorem tinv_init : TInv {} := by
  refine ⟨⟨?_, ?_, ?_, ?_⟩, ?_⟩
  · intro k s h; cases h
  · simp [keys]
  · intro k s h; cases h
  · intro ns nm id
    constructor
    · intro h; cases h
    · rintro ⟨_, s, h, _⟩; cases h
  · intro e
    constructor
    · intro h; cases h
    · rintro ⟨S, T, h, _⟩; cases h

end Uniflow.Table

open Uniflow.Table

/-- **The table yields exactly the latest inserted, not yet removed symbol for each id.**
For every history of Insert / Free / Close (any symbols, any iteration order of Go's maps) in
which every operation returned nil, `Lookup(k)` after the history is the symbol of the last
`Insert` with id `k` that is not followed by a `Free(k)` or a `Close`, and nil otherwise
(operations that return an error are covered by `C08.error_aborts_*`). -/
theorem C06.lookup_latest (o : Ord) (ho : o.Valid) (h : List Op) (hok : OkRun o {} h) (k : Nat) :
    aget k (run o {} h).symbols = specRun (fun _ => none) h k := by
  have gen : ∀ (h : List Op) (st : State) (m : Nat → Option Sym), KeyId st →
      (∀ k, aget k st.symbols = m k) → OkRun o st h →
      ∀ k, aget k (run o st h).symbols = specRun m h k := by
    intro h
    induction h with
    | nil => intro st m _ hm _ k; exact hm k
    | cons op ops ih =>
      intro st m hk hm hok k
      exact ih (step o st op).1 (specStep m op) (keyId_step o st op hk)
        (step_symbols o ho st op hk hok.1 m hm) hok.2 k
  exact gen h {} _ (by intro k s h; cases h) (by intro k; rfl) hok k

/-- **An output port is linked to an input port exactly when the owning symbol's spec names that
target and the target is present in the same namespace.** After every well-formed history of
Insert (new, replace, rename) / Free / Close – whatever the operations returned, for every
iteration order of Go's maps – the port layer holds the link `(s, o) → (t, i)` iff `s` and `t`
are present symbols of the same namespace, `o` is an out-port of `s`'s node, `i` an in-port of
`t`'s node, and the spec of `s` lists under `o` a reference with port `i` that names `t` by id,
or by name (`t` is the present symbol of that namespace with that name). In particular no port
stays linked to a removed or replaced symbol and symbols of different namespaces are never
linked (`C06.wiring_no_stale`, `C06.wiring_same_namespace`). -/
theorem C06.wiring_exact (o : Ord) (ho : o.Valid) (h : List Op) (hw : WfRun o {} h) (e : Link) :
    e ∈ (run o {} h).links ↔ Wired (run o {} h) e :=
  (tinv_run o ho h {} tinv_init hw).links e

/-- The name index agrees with the table: `lookup(ns, name)` finds `id` iff the present symbol
stored under `id` has that namespace and (non-empty) name. -/
theorem C06.names_exact (o : Ord) (ho : o.Valid) (h : List Op) (hw : WfRun o {} h) (ns nm id : Nat) :
    aget (ns, nm) (run o {} h).namespaces = some id ↔
      (nm ≠ 0 ∧ ∃ s, aget id (run o {} h).symbols = some s ∧ s.ns = ns ∧ s.name = nm) :=
  (tinv_run o ho h {} tinv_init hw).names ns nm id

/-- No port stays linked to a removed or replaced symbol: both ends of every link are present. -/
theorem C06.wiring_no_stale (o : Ord) (ho : o.Valid) (h : List Op) (hw : WfRun o {} h) (e : Link)
    (he : e ∈ (run o {} h).links) :
    (∃ S, aget e.src (run o {} h).symbols = some S) ∧ (∃ T, aget e.dst (run o {} h).symbols = some T) := by
  obtain ⟨S, T, h1, h2, _⟩ := (C06.wiring_exact o ho h hw e).mp he
  exact ⟨⟨S, h1⟩, ⟨T, h2⟩⟩

/-- Symbols of different namespaces are never linked to each other. -/
theorem C06.wiring_same_namespace (o : Ord) (ho : o.Valid) (h : List Op) (hw : WfRun o {} h) (e : Link)
    (he : e ∈ (run o {} h).links) (S T : Sym) (hS : aget e.src (run o {} h).symbols = some S)
    (hT : aget e.dst (run o {} h).symbols = some T) : S.ns = T.ns := by
  obtain ⟨S', T', h1, h2, h3, _⟩ := (C06.wiring_exact o ho h hw e).mp he
  rw [hS] at h1; rw [hT] at h2; cases h1; cases h2; exact h3.symm

/-! ### decidable well-formedness and a witness -/

namespace Uniflow.Table

def Ref.wfB (r : Ref) : Bool := (r.id != 0 && r.name == 0) || (r.id == 0 && r.name != 0)
def Sym.wfB (s : Sym) : Bool := s.id != 0 && s.ports.all (fun np => np.2.all Ref.wfB)
def nameFreeB (st : State) (sb : Sym) : Bool :=
  sb.name == 0 || st.symbols.all (fun p => !(p.2.ns == sb.ns && p.2.name == sb.name) || p.1 == sb.id)

def wfOpB (st : State) : Op → Bool
  | .insert sb => sb.wfB && nameFreeB st sb
  | _ => true

def wfRunB (o : Ord) (st : State) : List Op → Bool
  | [] => true
  | op :: ops => wfOpB st op && wfRunB o (step o st op).1 ops

theorem wfOpB_sound (st : State) (op : Op) (h : wfOpB st op = true) : WfOp st op := by
  cases op with
  | insert sb =>
    simp only [wfOpB, Bool.and_eq_true] at h
    refine ⟨⟨?_, ?_⟩, ?_⟩
    · have := h.1; simp only [Sym.wfB, Bool.and_eq_true, bne_iff_ne] at this; exact this.1
    · intro np hnp r hr
      have := h.1; simp only [Sym.wfB, Bool.and_eq_true, List.all_eq_true] at this
      have := this.2 np hnp r hr
      simp only [Ref.wfB, Bool.or_eq_true, Bool.and_eq_true, bne_iff_ne, beq_iff_eq] at this
      exact this
    · intro hn k t hk h1 h2
      have := h.2
      simp only [nameFreeB, Bool.or_eq_true, beq_iff_eq, List.all_eq_true] at this
      rcases this with h0 | hall
      · exact absurd h0 hn
      · have := hall (k, t) (mem_of_aget hk)
        simp only [Bool.or_eq_true, Bool.not_eq_true', Bool.and_eq_false_iff, beq_eq_false_iff_ne,
          beq_iff_eq] at this
        rcases this with (h' | h') | h'
        · exact absurd h1 h'
        · exact absurd h2 h'
        · exact h'
  | free id => trivial
  | close => trivial

theorem wfRunB_sound (o : Ord) (st : State) (h : List Op) (hb : wfRunB o st h = true) : WfRun o st h := by
  induction h generalizing st with
  | nil => trivial
  | cons op ops ih =>
    simp only [wfRunB, Bool.and_eq_true] at hb
    exact ⟨wfOpB_sound st op hb.1, ih _ hb.2⟩

namespace C06Ex
/-- 1 (named 7) ← 2 by name and ← 3 by id; 3 lives in another namespace; then 1 is renamed to 8,
re-inserted under 7 again, 2 is freed, the table is closed and 2 re-inserted. -/
def t7 : Sym := Sym.mk 1 0 7 true [5] [6, 9] none []
def t8 : Sym := Sym.mk 1 0 8 true [5] [6, 9] none []
def r2 : Sym := Sym.mk 2 0 0 true [5] [6, 9] none [(6, [Ref.mk 0 7 5, Ref.mk 2 0 5])]
def r3 : Sym := Sym.mk 3 1 0 true [5] [6, 9] none [(6, [Ref.mk 1 0 5])]
def hist : List Op := [.insert r2, .insert r3, .insert t7]
def hist2 : List Op := hist ++ [.insert t8, .insert t7, .free 2, .close, .insert r2]
end C06Ex

end Uniflow.Table

open Uniflow.Table.C06Ex in
/-- Non-vacuity: a well-formed history (target inserted after its referrers, by-name reference,
self-reference, cross-namespace reference, rename, replace, free, close) on which every
operation returns nil; after its first three operations exactly the by-name link and the
self-link exist (the cross-namespace reference of 3 is not linked), after the rename the by-name
link is gone. -/
theorem C06.wiring_exact_nonvacuous :
    wfRunB Ord.id {} hist2 = true ∧
    (run Ord.id {} hist).links = [⟨2, 6, 2, 5⟩, ⟨2, 6, 1, 5⟩] ∧
    (run Ord.id {} (hist ++ [.insert t8])).links = [⟨2, 6, 2, 5⟩] ∧
    (run Ord.id {} hist2).links = [⟨2, 6, 2, 5⟩] ∧
    (run Ord.id {} hist2).symbols.map (·.1) = [2] := by
  decide +kernel

open Uniflow.Table.C06Ex in
theorem C06.lookup_latest_nonvacuous : OkRun Ord.id {} hist2 ∧ Ord.id.Valid := by
  refine ⟨?_, ⟨fun _ _ => List.Perm.refl _, fun _ _ => List.Perm.refl _, fun _ _ => List.Perm.refl _⟩⟩
  simp only [hist2, hist, List.cons_append, List.nil_append, OkRun, and_true]
  decide +kernel
