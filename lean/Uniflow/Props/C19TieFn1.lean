/-
C19 – regenerated tie over Generated/AgentFuncs.lean (extract/funcs.go): the outline of EVERY function of the source
files named below – regenerated from /repo on every run – equals the transcript frozen here (bin/freeze_all.py, repo 7f54b88,
2026-10-01). A theorem that stops checking names the file whose code is no longer the code that was modelled; bin/check then
searches for a failing input.
-/
import Uniflow.Generated.AgentFuncs

set_option maxRecDepth 16384 in
/-- pkg/runtime/breakpoint.go as modelled: its declarations (in source order) and the outline of each -/
theorem C19.src_runtime_breakpoint_as_modelled :
    Uniflow.Generated.AgentFuncs.o_runtime_breakpoint_fn_BreakWithProcess = [
      "return func#1",
      "func#1(b *Breakpoint)",
      "  b.process = proc"
    ] ∧
    Uniflow.Generated.AgentFuncs.o_runtime_breakpoint_fn_BreakWithSymbol = [
      "return func#1",
      "func#1(b *Breakpoint)",
      "  b.symbol = sb"
    ] ∧
    Uniflow.Generated.AgentFuncs.o_runtime_breakpoint_fn_BreakWithInPort = [
      "return func#1",
      "func#1(b *Breakpoint)",
      "  b.inPort = port"
    ] ∧
    Uniflow.Generated.AgentFuncs.o_runtime_breakpoint_fn_BreakWithOutPort = [
      "return func#1",
      "func#1(b *Breakpoint)",
      "  b.outPort = port"
    ] ∧
    Uniflow.Generated.AgentFuncs.o_runtime_breakpoint_fn_NewBreakpoint = [
      "b := &Breakpoint{ id: uuid.Must(uuid.NewV7()), in: make(chan *Frame), out: make(chan *Frame), done: make(chan struct{}), }",
      "for _, opt := range options",
      "  opt(b)",
      "return b"
    ] ∧
    Uniflow.Generated.AgentFuncs.o_runtime_breakpoint_Breakpoint_ID = [
      "return b.id"
    ] ∧
    Uniflow.Generated.AgentFuncs.o_runtime_breakpoint_Breakpoint_Next = [
      "b.Done()",
      "b.rmu.Lock()",
      "defer b.rmu.Unlock()",
      "if b.current != nil",
      "  return false",
      "select",
      "  case b.current = <-b.in",
      "    return true",
      "  case <-b.done",
      "    return false"
    ] ∧
    Uniflow.Generated.AgentFuncs.o_runtime_breakpoint_Breakpoint_Done = [
      "b.rmu.Lock()",
      "defer b.rmu.Unlock()",
      "if b.current == nil",
      "  return true",
      "select",
      "  case b.out <- b.current",
      "    b.current = nil",
      "    return true",
      "  case <-b.done",
      "    return false"
    ] ∧
    Uniflow.Generated.AgentFuncs.o_runtime_breakpoint_Breakpoint_Frame = [
      "if b.rmu.TryRLock()",
      "  defer b.rmu.RUnlock()",
      "  return b.current",
      "return nil"
    ] ∧
    Uniflow.Generated.AgentFuncs.o_runtime_breakpoint_Breakpoint_Process = [
      "return b.process"
    ] ∧
    Uniflow.Generated.AgentFuncs.o_runtime_breakpoint_Breakpoint_Symbol = [
      "return b.symbol"
    ] ∧
    Uniflow.Generated.AgentFuncs.o_runtime_breakpoint_Breakpoint_InPort = [
      "return b.inPort"
    ] ∧
    Uniflow.Generated.AgentFuncs.o_runtime_breakpoint_Breakpoint_OutPort = [
      "return b.outPort"
    ] ∧
    Uniflow.Generated.AgentFuncs.o_runtime_breakpoint_Breakpoint_OnFrame = [
      "if b.matches(frame)",
      "  select",
      "    case b.in <- frame",
      "    case <-b.done",
      "  select",
      "    case <-b.out",
      "    case <-b.done"
    ] ∧
    Uniflow.Generated.AgentFuncs.o_runtime_breakpoint_Breakpoint_OnProcess = [] ∧
    Uniflow.Generated.AgentFuncs.o_runtime_breakpoint_Breakpoint_Close = [
      "b.wmu.Lock()",
      "defer b.wmu.Unlock()",
      "select",
      "  case <-b.done",
      "    return",
      "  default",
      "close(b.done)",
      "b.rmu.Lock()",
      "defer b.rmu.Unlock()",
      "b.current = nil"
    ] ∧
    Uniflow.Generated.AgentFuncs.o_runtime_breakpoint_Breakpoint_matches = [
      "return (b.process == nil || b.process == frame.Process) && (b.symbol == nil || b.symbol == frame.Symbol) && (b.inPort == nil || b.inPort == frame.InPort) && (b.outPort == nil || b.outPort == frame.OutPort)"
    ] ∧
    Uniflow.Generated.AgentFuncs.names_runtime_breakpoint = ["fn.BreakWithProcess", "fn.BreakWithSymbol", "fn.BreakWithInPort", "fn.BreakWithOutPort", "fn.NewBreakpoint", "Breakpoint.ID", "Breakpoint.Next", "Breakpoint.Done", "Breakpoint.Frame", "Breakpoint.Process", "Breakpoint.Symbol", "Breakpoint.InPort", "Breakpoint.OutPort", "Breakpoint.OnFrame", "Breakpoint.OnProcess", "Breakpoint.Close", "Breakpoint.matches"] := by
  decide

set_option maxRecDepth 16384 in
/-- pkg/runtime/agent.go as modelled (part 2 of 2): its declarations (in source order) and the outline of each -/
theorem C19.src_runtime_agent_as_modelled_2 :
    Uniflow.Generated.AgentFuncs.o_runtime_agent_Agent_Close = [
      "a.mu.Lock()",
      "defer a.mu.Unlock()",
      "a.symbols = make(map[uuid.UUID]*symbol.Symbol)",
      "a.processes = make(map[uuid.UUID]*process.Process)",
      "a.frames = make(map[uuid.UUID][]*Frame)",
      "a.watchers = nil"
    ] ∧
    Uniflow.Generated.AgentFuncs.o_runtime_agent_Agent_accept = [
      "a.mu.RLock()",
      "if _, ok := a.processes[proc.ID()]; ok",
      "  a.mu.RUnlock()",
      "  return",
      "a.mu.RUnlock()",
      "a.mu.Lock()",
      "if _, ok := a.processes[proc.ID()]; ok",
      "  a.mu.Unlock()",
      "  return",
      "a.processes[proc.ID()] = proc",
      "if _, ok := a.frames[proc.ID()]; !ok",
      "  a.frames[proc.ID()] = nil",
      "watchers := a.watchers",
      "a.mu.Unlock()",
      "proc.AddExitHook(process.ExitFunc(func#1))",
      "func#1(err error)",
      "  a.mu.Lock()",
      "  defer a.mu.Unlock()",
      "  delete(a.processes, proc.ID())",
      "  delete(a.frames, proc.ID())",
      "watchers.OnProcess(proc)"
    ] ∧
    Uniflow.Generated.AgentFuncs.o_runtime_agent_Agent_hooks = [
      "inboundHook := packet.HookFunc(func#1)",
      "func#1(pck *packet.Packet)",
      "  a.mu.Lock()",
      "  if _, ok := a.processes[proc.ID()]; !ok",
      "    a.mu.Unlock()",
      "    return",
      "  // Frames are handed to watchers and to callers of Frames, which read them outside the // lock: a published frame is never modified, it is replaced by an updated copy. var frame *Frame",
      "  for i, f := range a.frames[proc.ID()]",
      "    if f.Symbol == sym && (f.InPort == in && f.OutPort == out) && f.InPck == nil",
      "      frame = &Frame{}",
      "      *frame = *f",
      "      frame.InPck = pck",
      "      frame.InTime = time.Now()",
      "      a.frames[proc.ID()][i] = frame",
      "      break",
      "  if frame == nil",
      "    if out != nil",
      "      a.mu.Unlock()",
      "      return",
      "    frame = &Frame{ Process: proc, Symbol: sym, InPort: in, OutPort: out, InPck: pck, InTime: time.Now(), }",
      "    a.frames[proc.ID()] = append(a.frames[proc.ID()], frame)",
      "  watchers := a.watchers",
      "  a.mu.Unlock()",
      "  watchers.OnFrame(frame)",
      "outboundHook := packet.HookFunc(func#2)",
      "func#2(pck *packet.Packet)",
      "  a.mu.Lock()",
      "  if _, ok := a.processes[proc.ID()]; !ok",
      "    a.mu.Unlock()",
      "    return",
      "  var frame *Frame",
      "  for i, f := range a.frames[proc.ID()]",
      "    if f.Symbol == sym && (f.InPort == in && f.OutPort == out) && f.OutPck == nil",
      "      frame = &Frame{}",
      "      *frame = *f",
      "      frame.OutPck = pck",
      "      frame.OutTime = time.Now()",
      "      a.frames[proc.ID()][i] = frame",
      "      break",
      "  if frame == nil",
      "    if in != nil",
      "      a.mu.Unlock()",
      "      return",
      "    frame = &Frame{ Process: proc, Symbol: sym, InPort: in, OutPort: out, OutPck: pck, OutTime: time.Now(), }",
      "    a.frames[proc.ID()] = append(a.frames[proc.ID()], frame)",
      "  watchers := a.watchers",
      "  a.mu.Unlock()",
      "  watchers.OnFrame(frame)",
      "return inboundHook, outboundHook"
    ] ∧
    Uniflow.Generated.AgentFuncs.names_runtime_agent = ["fn.NewAgent", "Agent.Watch", "Agent.Unwatch", "Agent.Symbols", "Agent.Symbol", "Agent.Processes", "Agent.Process", "Agent.Frames", "Agent.Load", "Agent.Unload", "Agent.Close", "Agent.accept", "Agent.hooks"] := by
  decide

set_option maxRecDepth 16384 in
/-- pkg/runtime/debugger.go as modelled (part 2 of 2): its declarations (in source order) and the outline of each -/
theorem C19.src_runtime_debugger_as_modelled_2 :
    Uniflow.Generated.AgentFuncs.o_runtime_debugger_Debugger_Close = [
      "d.wmu.Lock()",
      "defer d.wmu.Unlock()",
      "select",
      "  case <-d.done",
      "    return",
      "  default",
      "close(d.done)",
      "for _, bp := range d.breakpoints",
      "  bp.Close()",
      "d.breakpoints = nil",
      "d.rmu.Lock()",
      "defer d.rmu.Unlock()",
      "d.current = nil"
    ] ∧
    Uniflow.Generated.AgentFuncs.o_runtime_debugger_Debugger_next = [
      "if bp.Next()",
      "  select",
      "    case d.in <- bp",
      "    case <-d.done"
    ] ∧
    Uniflow.Generated.AgentFuncs.names_runtime_debugger = ["fn.NewDebugger", "Debugger.AddBreakpoint", "Debugger.RemoveBreakpoint", "Debugger.Breakpoints", "Debugger.Pause", "Debugger.Step", "Debugger.Breakpoint", "Debugger.Frame", "Debugger.Process", "Debugger.Symbol", "Debugger.Close", "Debugger.next"] := by
  decide

