/-
C11 – indexes never change the result of a query, only its cost.

Statement (properties.jsonl): creating or dropping any combination of secondary indexes – single or compound, unique or
not, partial or not – at any point in a history never changes the result of any find, update or delete.

Model: `Uniflow.Plan` (executionplan.go, `explain`), `Uniflow.Index` (segment.go `Scan`/`Range`/index maintenance,
store.go `find`) – transcriptions of the code **after** these repairs (reproduced on the pinned tree first; witnesses in
corpus/C11):
  * `executionPlan.union` treated a nil bound as the smallest value, so `{$or: [{a ≥ 7}, {a ≤ 2}]}` was scanned as
    `a ≤ 2` (DESIGN §7 row 15; the repair is the one shared with C09: the branches are united among themselves with
    nil = unbounded and intersected with the plan of the sibling conditions);
  * a partial index was chosen by evaluating its filter on a document synthesised from the query, which any index filter
    satisfied by an *absent* field passes (row 16) – now only the top-level fields the query pins to one value are used
    (`pinned`) and only when the index filter examines nothing else (`fields`).
On the pinned tree `plan_sound` is false of the faithful model (`$or` of a lower- and an upper-bounded branch).

What is proved
  * `C11.plan_sound` – full strength: for **every** list of field-name keys, **every** filter (any nesting, well-formed or
    not) and **every** document, a document the reference evaluation lets through lies within the bounds of every level
    of the plan. Uses only that `cmp` is a total preorder consistent with `equal` (C14). The hypothesis that index keys do
    not start with `$` is necessary: `f.Get("$or")` would read the operator entry as an equality on a field named `$or`
    (observation: the store accepts such index keys; they are outside the property's "indexes over the document fields").
  * `C11.union_covers`, `C11.intersect_within` – the lattice facts of the planner in isolation.
  * `C11.index_inv_sound` – full strength, every history: every leaf of every index names a stored document and carries
    that document's key tuple (no stale, dangling or misplaced leaf – so `section.Range` never meets an id that is not
    stored, and a scan returns only stored documents, which the residual `match` then filters). This is the soundness
    half of `index_inv`; the completeness half (every admitted document has its leaf) is in `C11.index_inv_full`.
  * `C11.index_inv` – every history: each index holds exactly the stored documents its filter admits, under their key
    tuples (soundness and completeness);
  * `C11.partial_applicable_sound` – the applicability rule of `explain` (commit 70b5313) is sound: an applicable partial
    index contains every document matching the query;
  * `C11.find_scan_exact` – after every history (`GoodOps`) `find` returns exactly the documents `refMatch` lets through,
    in id order, whatever indexes exist;
  * `C11.find_index_independent` – two histories with the same data operations and any non-unique `Index`/`Unindex`
    operations interleaved anywhere (or none) answer every data operation alike and store the same documents.
  * `C11.find_index_independent_unique` – the same with unique indexes in the histories: the operations that may be
    interleaved freely are the *inert* ones (non-unique `Index` / `Unindex` over keys no unique index of the history is
    declared over); everything else – data operations and unique `Index` operations – answers alike, and documents and
    declared unique constraints coincide.
Hypotheses that remain, and why: index keys are field names and index filters well-formed (`GoodOp`; a key starting with
`$` is unsound in the code itself); the interleaved indexes are non-unique (a unique index is meant to change the outcome
of the calls it rejects – C12 covers those).
-/
import Uniflow.Proofs.Plan
import Uniflow.Proofs.Indep
import Uniflow.Proofs.IndepU

open Uniflow.Value Uniflow.Store Uniflow.Query Uniflow.Plan Uniflow.Index Uniflow.RefStoreU

/-- Every key list, every filter, every document: a document the reference evaluation lets through lies within the
bounds of every level of `newExecutionPlan(keys, filter)`, provided the keys are field names (do not start with `$`). -/
theorem C11.plan_sound (ks : List Val) (f : Val) (d : PList) (hks : ∀ k ∈ ks, FieldKey k)
    (h : refMatch (some (.map d)) f = true) : within (plan ks f) d = true :=
  plan_within ks f d hks h

/-- `{$or: [{a: {$gte: 7}}, {a: {$lte: 2}}]}` over the key `a`: both branches are bounded on one side only, the cover is
unbounded, no plan – and with a sibling condition `a > 1` the plan keeps exactly that lower bound. The document
`{id: 1, a: 9}` matches and lies within. -/
theorem C11.plan_sound_nonvacuous :
    ∃ f d, refMatch (some (.map d)) f = true ∧ (plan [.str [97]] f).length = 1 ∧ within (plan [.str [97]] f) d = true :=
  ⟨.map (.cons (.str opOr) (.slice (.cons (.map (.cons (.str [97]) (.map (.cons (.str opGte) (.int .native 7) .nil)) .nil))
      (.cons (.map (.cons (.str [97]) (.map (.cons (.str opLte) (.int .native 2) .nil)) .nil)) .nil)))
      (.cons (.str [97]) (.map (.cons (.str opGt) (.int .native 1) .nil)) .nil)),
   .cons (.str [105, 100]) (.int .native 1) (.cons (.str [97]) (.int .native 9) .nil),
   by decide, by decide, by decide⟩

/-- `union` covers both operands: a value within either one lies within their union. -/
theorem C11.union_covers (e o u : Bounds) (x : Val) (h : union (some e) (some o) = some u) :
    (inb e x = true → inb u x = true) ∧ (inb o x = true → inb u x = true) := by
  simp only [inb_iff]
  exact ⟨Snd_union_left h, Snd_union_right h⟩

/-- `intersect` keeps every value that lies within both operands. -/
theorem C11.intersect_within (e o : Bounds) (x : Val) (he : inb e x = true) (ho : inb o x = true) :
    inb (intersect e (some o)) x = true := by
  rw [inb_iff] at *
  exact Snd_intersect he ho

/-- After every history: each leaf `(tuple, id)` of each index belongs to the stored document with that id, and `tuple`
is that document's key tuple for the index. -/
theorem C11.index_inv_sound (ops : List Op) :
    let s := run Uniflow.Index.init ops
    ∀ idx ∈ s.indexes, ∀ e ∈ idx.entries, ∃ d, getDoc s.docs e.2 = some d ∧ tupCmp e.1 (idx.tuple d) = 0 :=
  (Cons_run ops Cons_init).exact

/-- a partial index is chosen only if every document matching the query satisfies the index filter (statement only) -/
def C11.partial_applicable_sound_full : Prop :=
  ∀ (φ f : Val) (d : PList), wf φ = true → implied φ (pinned f) = true →
    refMatch (some (.map d)) f = true → refMatch (some (.map d)) φ = true

/-- after any history every index holds exactly the stored documents its filter admits, under their key tuples
(statement only) -/
def C11.index_inv_full : Prop :=
  ∀ (ops : List Op), let s := run Uniflow.Index.init ops
    ∀ idx ∈ s.indexes, idx.keys ≠ [] →
      (∀ e ∈ idx.entries, ∃ d, getDoc s.docs e.2 = some d ∧ idx.admits d = true ∧ tupCmp e.1 (idx.tuple d) = 0) ∧
      (∀ p ∈ s.docs, idx.admits p.2 = true → ∃ e ∈ idx.entries, cmp e.2 p.1 = 0 ∧ tupCmp e.1 (idx.tuple p.2) = 0)

/-- the result of `find` is the reference filter over all stored documents, whatever indexes exist – after every history
whose `Index` operations are over field names with well-formed filters (`GoodOps`, necessary: see `plan_sound`) -/
def C11.find_scan_exact_full : Prop :=
  ∀ (ops : List Op) (f : Val), GoodOps ops → let s := run Uniflow.Index.init ops
    wf f = true → find s (some f) = .ok ((s.docs.map (·.2)).filter fun d => refMatch (some (.map d)) f)

/-- **find_index_independent**: two histories that perform the same Insert / Update / Delete / Find operations in the same
order and differ only in the non-unique `Index` / `Unindex` operations interleaved with them – any number, at any
points, single or compound, partial or not, or none at all – answer every one of those operations alike and end with the
same stored documents. (`outs` = the answers of the data operations in order; a unique index is *meant* to change the
outcome of the calls it rejects – that such a rejection leaves no trace is C12.) -/
def C11.find_index_independent_full : Prop :=
  ∀ (ops1 ops2 : List Op), (∀ op ∈ ops1, GoodOp op ∧ NonUniqueOp op) → (∀ op ∈ ops2, GoodOp op ∧ NonUniqueOp op) →
    dataOps ops1 = dataOps ops2 →
      outs Uniflow.Index.init ops1 = outs Uniflow.Index.init ops2 ∧
      (run Uniflow.Index.init ops1).docs = (run Uniflow.Index.init ops2).docs

/-- **index_inv**: after every history each index (with at least one key) holds exactly the stored documents its filter
admits, under their key tuples: every leaf names a stored, admitted document and carries its tuple; every stored,
admitted document has its leaf. -/
theorem C11.index_inv : C11.index_inv_full := by
  intro ops s idx hi _
  have hf : Full s := Full_run ops Full_init
  refine ⟨fun e he => ?_, fun p hp hadm => hf.complete idx hi ‹_› p hp hadm⟩
  obtain ⟨d, hd, ht⟩ := hf.cons.exact idx hi e he
  exact ⟨d, hd, hf.admitted idx hi e he d hd, ht⟩

/-- **partial_applicable_sound**: the applicability rule of `explain` (repository commit 70b5313) is sound – when a
partial index with the well-formed filter `φ` is deemed applicable to the query `f`, every document matching `f`
satisfies `φ`, i.e. is in the index. -/
theorem C11.partial_applicable_sound : C11.partial_applicable_sound_full :=
  fun _ _ _ hw hi hm => implied_sound hw hi hm

/-- the planned scan followed by the residual `match` returns exactly the matching documents, in id order -/
theorem C11.find_scan_exact : C11.find_scan_exact_full := by
  intro ops f hg s hw
  exact find_ref (Full_run ops Full_init) (GoodState_run ops GoodState_init hg) hw

/-- **find_index_independent** -/
theorem C11.find_index_independent : C11.find_index_independent_full := by
  intro ops1 ops2 h1 h2 hd
  have r1 := run_strip ops1 Inv2_init Inv2_init rfl h1
  have r2 := run_strip ops2 Inv2_init Inv2_init rfl h2
  rw [r1.1, r1.2, r2.1, r2.2, hd]
  exact ⟨rfl, rfl⟩

/-- the statement is about real differences: a history with a compound partial index created before the data and dropped
later, and the same data operations without any index -/
theorem C11.find_index_independent_nonvacuous :
    ∃ ops1 ops2, ops1 ≠ ops2 ∧ (∀ op ∈ ops1, GoodOp op ∧ NonUniqueOp op) ∧ (∀ op ∈ ops2, GoodOp op ∧ NonUniqueOp op) ∧
      dataOps ops1 = dataOps ops2 ∧ (dataOps ops1).length = 2 := by
  refine ⟨[.index [.str [97], .str [98]] false (some (.map (.cons (.str [98]) (.map (.cons (.str opGt) (.int .native 1) .nil)) .nil))),
      .insert [.cons (.str [105, 100]) (.int .native 1) (.cons (.str [97]) (.int .native 7) .nil)],
      .unindex [.str [97], .str [98]],
      .find (some (.map (.cons (.str [97]) (.int .native 7) .nil))) none 0 0],
    [.insert [.cons (.str [105, 100]) (.int .native 1) (.cons (.str [97]) (.int .native 7) .nil)],
      .find (some (.map (.cons (.str [97]) (.int .native 7) .nil))) none 0 0], by simp, ?_, ?_, rfl, rfl⟩
  · intro op hop
    simp only [List.mem_cons, List.mem_nil_iff, or_false] at hop
    rcases hop with rfl | rfl | rfl | rfl
    · refine ⟨⟨fun k hk => ?_, fun φ h => ?_⟩, rfl⟩
      · simp only [List.mem_cons, List.mem_nil_iff, or_false] at hk
        rcases hk with rfl | rfl
        · exact ⟨[97], rfl, by decide⟩
        · exact ⟨[98], rfl, by decide⟩
      · simp only [Option.some.injEq] at h; subst h; decide
    all_goals exact ⟨trivial, trivial⟩
  · intro op hop
    simp only [List.mem_cons, List.mem_nil_iff, or_false] at hop
    rcases hop with rfl | rfl <;> exact ⟨trivial, trivial⟩

/-! ### with unique indexes -/

/-- **find_index_independent_unique** (full statement): histories may contain unique indexes. Call an `Index`/`Unindex`
operation of a history *inert* when it is a non-unique `Index` or an `Unindex` over keys that no unique `Index` of that
history, nor the built-in index on `id`, is declared over (`inert`; an operation over the keys of a unique index
replaces or drops that index – a constraint – and is not inert). Two histories (`GoodOpU`: index keys are field names,
index filters well-formed, unique indexes over at least one key) that are equal after deleting their inert operations
(`effOps` – the inert ones may be any number, anywhere, or absent) answer every remaining operation alike – data operations
*and* the unique `Index` operations – and end with the same stored documents and the same declared unique constraints. -/
def C11.find_index_independent_unique_full : Prop :=
  ∀ (ops1 ops2 : List Op), (∀ op ∈ ops1, GoodOpU op) → (∀ op ∈ ops2, GoodOpU op) → effOps ops1 = effOps ops2 →
    outsSkip (inert ops1) Uniflow.Index.init ops1 = outsSkip (inert ops2) Uniflow.Index.init ops2 ∧
    (run Uniflow.Index.init ops1).docs = (run Uniflow.Index.init ops2).docs ∧
    uniqOf (run Uniflow.Index.init ops1) = uniqOf (run Uniflow.Index.init ops2)

/-- **find_index_independent_unique** -/
theorem C11.find_index_independent_unique : C11.find_index_independent_unique_full := by
  intro ops1 ops2 h1 h2 he
  have r1 := run_eff ops1 h1
  have r2 := run_eff ops2 h2
  rw [he] at r1
  have habs : absOf (run Uniflow.Index.init ops1) = absOf (run Uniflow.Index.init ops2) := by rw [r1.2, r2.2]
  refine ⟨by rw [r1.1, r2.1], ?_, ?_⟩
  · exact congrArg RState.docs habs
  · exact congrArg RState.uniq habs

/-- a unique index on `a`, data, and an inert compound index in one history only -/
theorem C11.find_index_independent_unique_nonvacuous :
    ∃ ops1 ops2, ops1 ≠ ops2 ∧ effOps ops1 = effOps ops2 ∧ (effOps ops1).length = 3 ∧ ops1.length = 5 :=
  ⟨[.index [.str [97]] true none,
    .index [.str [98], .str [97]] false none,
    .insert [.cons (.str [105, 100]) (.int .native 1) (.cons (.str [97]) (.int .native 7) .nil)],
    .unindex [.str [98], .str [97]],
    .insert [.cons (.str [105, 100]) (.int .native 2) (.cons (.str [97]) (.int .native 7) .nil)]],
   [.index [.str [97]] true none,
    .insert [.cons (.str [105, 100]) (.int .native 1) (.cons (.str [97]) (.int .native 7) .nil)],
    .insert [.cons (.str [105, 100]) (.int .native 2) (.cons (.str [97]) (.int .native 7) .nil)]],
   by simp, rfl, rfl, rfl⟩
