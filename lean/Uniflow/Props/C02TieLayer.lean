/-
C02 – regenerated tie over Generated/C02LayerFuncs.lean (extract/funcs.go): for every source file the models of this
property were transcribed from, the outline of EVERY function of that file – regenerated from /repo on every run –
equals the transcript frozen here (bin/freeze_outlines.py, repo 68af5b4, 2026-10-01). A theorem that stops checking
names the file whose code is no longer the code that was modelled; bin/check then searches for a failing input.
-/
import Uniflow.Generated.C02LayerFuncs

set_option maxRecDepth 16384 in
/-- pkg/node/port.go as modelled: its declarations (in source order) and the outline of each -/
theorem C02.src_node_port_as_modelled :
    Uniflow.Generated.C02LayerFuncs.o_node_port_fn_PortWithIndex = [
      "return fmt.Sprintf(\"%s[%d]\", name, index)"
    ] ∧
    Uniflow.Generated.C02LayerFuncs.o_node_port_fn_NameOfPort = [
      "if groups := subscript.FindStringSubmatch(key); groups != nil",
      "  return groups[1]",
      "return key"
    ] ∧
    Uniflow.Generated.C02LayerFuncs.o_node_port_fn_IndexOfPort = [
      "if groups := subscript.FindStringSubmatch(key); len(groups) == 3",
      "  if index, err := strconv.Atoi(groups[2]); err == nil",
      "    return index, true",
      "return 0, false"
    ] ∧
    Uniflow.Generated.C02LayerFuncs.names_node_port = ["fn.PortWithIndex", "fn.NameOfPort", "fn.IndexOfPort"] := by
  decide

set_option maxRecDepth 16384 in
/-- pkg/node/node.go as modelled: its declarations (in source order) and the outline of each -/
theorem C02.src_node_node_as_modelled :
    Uniflow.Generated.C02LayerFuncs.o_node_node_fn_derive = [
      "if pck != nil && slices.Contains(followed, pck)",
      "  return packet.New(pck.Payload())",
      "return pck"
    ] ∧
    Uniflow.Generated.C02LayerFuncs.names_node_node = ["fn.derive"] := by
  decide

