/-
C18 — environment binding substitutes exactly what is referenced and nothing else.

Property theorems about `Uniflow.Template.run` (model of `template.Execute`: `parse` + `execute`)
and `Uniflow.Bind.{select, bindEntry, bind, build}` (models of `(*Meta).Bind`,
`(*Unstructured).Build`).  `text/template` is the parameter `T : TextTemplate`; the enumeration
order of Go maps is the parameter `ord` (any permutation, `OrdPerm ord`) resp. the order of the
lists quantified over.  Vocabulary (`AllStr`, `mapStr`, `KeysDistinct`, `WF`, `PlainDoc`, `Same`)
and the helper lemmas on the insertion loop are in `Proofs/Template.lean`; the first section
below holds the walk lemmas, the `theorem C18.*` statements follow.
-/
import Uniflow.Model.Template
import Uniflow.Model.Bind
import Uniflow.Proofs.Template

set_option linter.unusedSectionVars false

namespace Uniflow.Template

/-- What the substitution theorems assume of one string `s` of the document: text/template
parses it and renders it, on the data `dot`, as `f s`. -/
def Renders (T : TextTemplate) (dot : Doc) (f : String → String) (s : String) : Prop :=
  T.parse s = true ∧ T.exec s dot = some (f s)

/-- The only assumption on text/template used for action-free data: a string without `{{`
parses and renders as itself on every data value. -/
def PlainId (T : TextTemplate) : Prop :=
  ∀ s, plain s → T.parse s = true ∧ ∀ dot, T.exec s dot = some s

section walk
variable (T : TextTemplate) (ord : List (Doc × Doc) → List (Doc × Doc)) (hord : OrdPerm ord)
  (dot : Doc) (f : String → String)
include hord

mutual
theorem walk_doc : ∀ d, AllStr (Renders T dot f) d → KeysDistinct f d →
    ∃ n r, parse T d = .ok n ∧ execute T ord dot n = .ok r ∧ Same (mapStr f d) r
  | .null, _, _ => ⟨.value .null, .null, by simp [parse], by simp [execute], by simp [mapStr, Same]⟩
  | .bool b, _, _ =>
    ⟨.value (.bool b), .bool b, by simp [parse], by simp [execute], by simp [mapStr, Same]⟩
  | .num n, _, _ =>
    ⟨.value (.num n), .num n, by simp [parse], by simp [execute], by simp [mapStr, Same]⟩
  | .str s, h, _ => by
    simp only [AllStr, Renders] at h
    refine ⟨.tmpl s, .str (f s), ?_, ?_, ?_⟩
    · simp [parse, parseStr, h.1]
    · simp [execute, h.2]
    · simp [mapStr, Same]
  | .list xs, h, hk => by
    simp only [AllStr] at h; simp only [KeysDistinct] at hk
    obtain ⟨cs, ds, hp, he, hs⟩ := walk_list xs h hk
    refine ⟨.slice cs, .list ds, ?_, ?_, ?_⟩
    · simp [parse, hp]
    · simp [execute, he]
    · simp only [mapStr, Same]; exact ⟨ds, rfl, hs⟩
  | .map kvs, h, hk => by
    simp only [AllStr] at h; simp only [KeysDistinct] at hk
    obtain ⟨cs, l, hp, he, hs⟩ := walk_map kvs h hk.2
    have hkeys : l.map (·.1) = kvs.map fun p => f p.1 := by
      rw [SameMap_keys _ _ hs, mapStrMap_keys]
    obtain ⟨out, hins, hperm⟩ := insertAll_ord ord hord l (by rw [hkeys]; exact hk.1)
    refine ⟨.map cs, .map out, ?_, ?_, ?_⟩
    · simp [parse, hp]
    · simp [execute, he, hins]
    · simp only [mapStr, Same]; exact ⟨l, out, rfl, hs, hperm⟩
theorem walk_list : ∀ xs, AllStrList (Renders T dot f) xs → KeysDistinctList f xs →
    ∃ cs ds, parseList T xs = .ok cs ∧ executeList T ord dot cs = .ok ds ∧
      SameList (mapStrList f xs) ds
  | [], _, _ => ⟨[], [], by simp [parseList], by simp [executeList], by simp [mapStrList, SameList]⟩
  | x :: xs, h, hk => by
    simp only [AllStrList] at h; simp only [KeysDistinctList] at hk
    obtain ⟨n, r, hp, he, hs⟩ := walk_doc x h.1 hk.1
    obtain ⟨cs, ds, hps, hes, hss⟩ := walk_list xs h.2 hk.2
    refine ⟨n :: cs, r :: ds, ?_, ?_, ?_⟩
    · simp [parseList, hp, hps]
    · simp [executeList, he, hes]
    · simp only [mapStrList, SameList]; exact ⟨r, ds, rfl, hs, hss⟩
theorem walk_map : ∀ kvs, AllStrMap (Renders T dot f) kvs → KeysDistinctMap f kvs →
    ∃ cs l, parseMap T kvs = .ok cs ∧ executeMap T ord dot cs = .ok (strPairs l) ∧
      SameMap (mapStrMap f kvs) l
  | [], _, _ =>
    ⟨[], [], by simp [parseMap], by simp [executeMap, strPairs], by simp [mapStrMap, SameMap]⟩
  | (k, v) :: r, h, hk => by
    simp only [AllStrMap, Renders] at h; simp only [KeysDistinctMap] at hk
    obtain ⟨n, rv, hp, he, hs⟩ := walk_doc v h.2.1 hk.1
    obtain ⟨cs, l, hps, hes, hss⟩ := walk_map r h.2.2 hk.2
    refine ⟨(.tmpl k, n) :: cs, (f k, rv) :: l, ?_, ?_, ?_⟩
    · simp [parseMap, parseStr, h.1.1, hp, hps]
    · simp [executeMap, execute, h.1.2, he, hes, strPairs]
    · simp only [mapStrMap, SameMap]; exact ⟨rv, l, rfl, hs, hss⟩
end

end walk

/-! ### the same walk with the children enumerated in stored order: literal equality -/

theorem insertAll_strPairs (l : List (String × Doc)) (hnd : (l.map (·.1)).Nodup) :
    insertAll (strPairs l) [] = .ok l := by
  have hstr : ∀ p ∈ strPairs l, ∃ k, p.1 = .str k := by
    intro p hp
    simp only [strPairs, List.mem_map] at hp
    obtain ⟨a, _, rfl⟩ := hp
    exact ⟨a.1, rfl⟩
  have := insertAll_fresh (strPairs l) [] hstr (by rw [unstr_strPairs]; exact hnd) (by simp)
  simpa [unstr_strPairs] using this

section exact
variable (T : TextTemplate) (dot : Doc) (f : String → String)

mutual
theorem exact_doc : ∀ d, AllStr (Renders T dot f) d → KeysDistinct f d →
    ∃ n, parse T d = .ok n ∧ execute T id dot n = .ok (mapStr f d)
  | .null, _, _ => ⟨.value .null, by simp [parse], by simp [execute, mapStr]⟩
  | .bool b, _, _ => ⟨.value (.bool b), by simp [parse], by simp [execute, mapStr]⟩
  | .num n, _, _ => ⟨.value (.num n), by simp [parse], by simp [execute, mapStr]⟩
  | .str s, h, _ => by
    simp only [AllStr, Renders] at h
    exact ⟨.tmpl s, by simp [parse, parseStr, h.1], by simp [execute, h.2, mapStr]⟩
  | .list xs, h, hk => by
    simp only [AllStr] at h; simp only [KeysDistinct] at hk
    obtain ⟨cs, hp, he⟩ := exact_list xs h hk
    exact ⟨.slice cs, by simp [parse, hp], by simp [execute, he, mapStr]⟩
  | .map kvs, h, hk => by
    simp only [AllStr] at h; simp only [KeysDistinct] at hk
    obtain ⟨cs, hp, he⟩ := exact_map kvs h hk.2
    have hins := insertAll_strPairs (mapStrMap f kvs) (by rw [mapStrMap_keys]; exact hk.1)
    exact ⟨.map cs, by simp [parse, hp], by simp [execute, he, hins, mapStr]⟩
theorem exact_list : ∀ xs, AllStrList (Renders T dot f) xs → KeysDistinctList f xs →
    ∃ cs, parseList T xs = .ok cs ∧ executeList T id dot cs = .ok (mapStrList f xs)
  | [], _, _ => ⟨[], by simp [parseList], by simp [executeList, mapStrList]⟩
  | x :: xs, h, hk => by
    simp only [AllStrList] at h; simp only [KeysDistinctList] at hk
    obtain ⟨n, hp, he⟩ := exact_doc x h.1 hk.1
    obtain ⟨cs, hps, hes⟩ := exact_list xs h.2 hk.2
    exact ⟨n :: cs, by simp [parseList, hp, hps], by simp [executeList, he, hes, mapStrList]⟩
theorem exact_map : ∀ kvs, AllStrMap (Renders T dot f) kvs → KeysDistinctMap f kvs →
    ∃ cs, parseMap T kvs = .ok cs ∧ executeMap T id dot cs = .ok (strPairs (mapStrMap f kvs))
  | [], _, _ => ⟨[], by simp [parseMap], by simp [executeMap, strPairs, mapStrMap]⟩
  | (k, v) :: r, h, hk => by
    simp only [AllStrMap, Renders] at h; simp only [KeysDistinctMap] at hk
    obtain ⟨n, hp, he⟩ := exact_doc v h.2.1 hk.1
    obtain ⟨cs, hps, hes⟩ := exact_map r h.2.2 hk.2
    exact ⟨(.tmpl k, n) :: cs, by simp [parseMap, parseStr, h.1.1, hp, hps],
      by simp [executeMap, execute, h.1.2, he, hes, strPairs, mapStrMap]⟩
end

end exact

/-! ### no panic: `parse` builds map nodes whose keys are template nodes, and on such trees
`execute` never reaches the `SetMapIndex` panic. -/

mutual
def KeysTmpl : Node → Prop
  | .value _ => True
  | .tmpl _ => True
  | .slice cs => KeysTmplList cs
  | .map cs => KeysTmplMap cs
def KeysTmplList : List Node → Prop
  | [] => True
  | c :: cs => KeysTmpl c ∧ KeysTmplList cs
def KeysTmplMap : List (Node × Node) → Prop
  | [] => True
  | (k, v) :: r => (∃ s, k = .tmpl s) ∧ KeysTmpl v ∧ KeysTmplMap r
end

theorem parseStr_cases (T : TextTemplate) (s : String) :
    parseStr T s = .ok (.tmpl s) ∨ parseStr T s = .err .template := by
  unfold parseStr; split <;> simp

mutual
theorem parse_keys (T : TextTemplate) : ∀ d,
    (∀ p, parse T d ≠ .panic p) ∧ ∀ n, parse T d = .ok n → KeysTmpl n
  | .null => by simp [parse, KeysTmpl]
  | .bool _ => by simp [parse, KeysTmpl]
  | .num _ => by simp [parse, KeysTmpl]
  | .str s => by
    simp only [parse]
    rcases parseStr_cases T s with h | h <;> simp [h, KeysTmpl]
  | .list xs => by
    have ih := parseList_keys T xs
    simp only [parse]
    cases h : parseList T xs with
    | ok cs => simp [KeysTmpl, ih.2 cs h]
    | err e => simp
    | panic p => exact absurd h (ih.1 p)
  | .map kvs => by
    have ih := parseMap_keys T kvs
    simp only [parse]
    cases h : parseMap T kvs with
    | ok cs => simp [KeysTmpl, ih.2 cs h]
    | err e => simp
    | panic p => exact absurd h (ih.1 p)
theorem parseList_keys (T : TextTemplate) : ∀ xs,
    (∀ p, parseList T xs ≠ .panic p) ∧ ∀ cs, parseList T xs = .ok cs → KeysTmplList cs
  | [] => by simp [parseList, KeysTmplList]
  | x :: xs => by
    have ih1 := parse_keys T x
    have ih2 := parseList_keys T xs
    simp only [parseList]
    cases h1 : parse T x with
    | err e => simp
    | panic p => exact absurd h1 (ih1.1 p)
    | ok c =>
      cases h2 : parseList T xs with
      | err e => simp
      | panic p => exact absurd h2 (ih2.1 p)
      | ok cs => simp [KeysTmplList, ih1.2 c h1, ih2.2 cs h2]
theorem parseMap_keys (T : TextTemplate) : ∀ kvs,
    (∀ p, parseMap T kvs ≠ .panic p) ∧ ∀ cs, parseMap T kvs = .ok cs → KeysTmplMap cs
  | [] => by simp [parseMap, KeysTmplMap]
  | (k, v) :: r => by
    have ih1 := parse_keys T v
    have ih2 := parseMap_keys T r
    simp only [parseMap]
    rcases parseStr_cases T k with hk | hk
    · simp only [hk]
      cases h1 : parse T v with
      | err e => simp
      | panic p => exact absurd h1 (ih1.1 p)
      | ok c =>
        cases h2 : parseMap T r with
        | err e => simp
        | panic p => exact absurd h2 (ih2.1 p)
        | ok cs => simp [KeysTmplMap, ih1.2 c h1, ih2.2 cs h2]
    · simp [hk]
end

theorem insertAll_np : ∀ (q : List (Doc × Doc)) (acc : List (String × Doc)),
    (∀ p ∈ q, ∃ k, p.1 = .str k) → ∃ kvs, insertAll q acc = .ok kvs
  | [], acc, _ => ⟨acc, by simp [insertAll]⟩
  | (kd, v) :: r, acc, h => by
    obtain ⟨k, hk⟩ := h (kd, v) (by simp)
    simp only at hk; subst hk
    simp only [insertAll]
    exact insertAll_np r _ (fun p hp => h p (by simp [hp]))

section np
variable (T : TextTemplate) (ord : List (Doc × Doc) → List (Doc × Doc)) (hord : OrdPerm ord)
  (dot : Doc)
include hord

mutual
theorem execute_np : ∀ n, KeysTmpl n → ∀ p, execute T ord dot n ≠ .panic p
  | .value _, _, _ => by simp [execute]
  | .tmpl s, _, _ => by simp only [execute]; split <;> simp
  | .slice cs, h, p => by
    simp only [KeysTmpl] at h
    have ih := executeList_np cs h
    simp only [execute]
    cases h1 : executeList T ord dot cs with
    | ok ds => simp
    | err e => simp
    | panic q => exact absurd h1 (ih q)
  | .map cs, h, p => by
    simp only [KeysTmpl] at h
    have ih := executeMap_np cs h
    simp only [execute]
    cases h1 : executeMap T ord dot cs with
    | err e => simp
    | panic q => exact absurd h1 (ih.1 q)
    | ok ps =>
      have hstr : ∀ q ∈ ord ps, ∃ k, q.1 = .str k :=
        fun q hq => ih.2 ps h1 q ((hord ps).mem_iff.mp hq)
      obtain ⟨kvs, hk⟩ := insertAll_np (ord ps) [] hstr
      simp [hk]
theorem executeList_np : ∀ cs, KeysTmplList cs → ∀ p, executeList T ord dot cs ≠ .panic p
  | [], _, _ => by simp [executeList]
  | c :: cs, h, p => by
    simp only [KeysTmplList] at h
    have ih1 := execute_np c h.1
    have ih2 := executeList_np cs h.2
    simp only [executeList]
    cases h1 : execute T ord dot c with
    | err e => simp
    | panic q => exact absurd h1 (ih1 q)
    | ok d =>
      cases h2 : executeList T ord dot cs with
      | err e => simp
      | panic q => exact absurd h2 (ih2 q)
      | ok ds => simp
theorem executeMap_np : ∀ cs, KeysTmplMap cs →
    (∀ p, executeMap T ord dot cs ≠ .panic p) ∧
    ∀ ps, executeMap T ord dot cs = .ok ps → ∀ q ∈ ps, ∃ k, q.1 = .str k
  | [], _ => by simp [executeMap]
  | (kn, vn) :: r, h => by
    simp only [KeysTmplMap] at h
    obtain ⟨⟨s, rfl⟩, hv, hr⟩ := h
    have ih1 := execute_np vn hv
    have ih2 := executeMap_np r hr
    simp only [executeMap, execute]
    cases hs : T.exec s dot with
    | none => simp
    | some t =>
      simp only
      cases h1 : execute T ord dot vn with
      | err e => simp
      | panic q => exact absurd h1 (ih1 q)
      | ok vd =>
        cases h2 : executeMap T ord dot r with
        | err e => simp
        | panic q => exact absurd h2 (ih2.1 q)
        | ok ps =>
          simp only [ne_eq, reduceCtorEq, not_false_eq_true, implies_true, Res.ok.injEq, true_and]
          intro ps' hps' q hq
          subst hps'
          rcases List.mem_cons.mp hq with rfl | hq
          · exact ⟨t, rfl⟩
          · exact ih2.2 ps h2 q hq
end

theorem run_np (d : Doc) (p : String) : run T ord d dot ≠ .panic p := by
  unfold run
  cases h : parse T d with
  | err e => simp
  | panic q => exact absurd h ((parse_keys T d).1 q)
  | ok n => simpa using execute_np T ord hord dot n ((parse_keys T d).2 n h) p

end np

end Uniflow.Template

namespace Uniflow.Bind
open Uniflow.Template

/-- "`v` is the variable the entry names": every non-zero one of id, name, (spec) namespace agrees. -/
def Names (ns : String) (e : Entry) (v : Val) : Prop :=
  (e.id ≠ 0 → v.id = e.id) ∧ (e.name ≠ "" → v.name = e.name) ∧ (ns ≠ "" → v.ns = ns)

theorem matchEntry_identified (ns : String) (e : Entry) (v : Val) (he : e.isIdentified = true) :
    matchEntry ns e v = true ↔ Names ns e v := by
  unfold matchEntry Names Val.is
  simp only [he, Bool.not_true, Bool.false_and, Bool.true_and, Bool.false_or, Bool.and_eq_true,
    Bool.or_eq_true, beq_iff_eq]
  constructor
  · rintro ⟨⟨h1, h2⟩, h3⟩
    refine ⟨fun h => ?_, fun h => ?_, fun h => ?_⟩
    · rcases h1 with h1 | h1
      · exact absurd h1 h
      · exact h1.symm
    · rcases h3 with h3 | h3
      · exact absurd h3 h
      · exact h3.symm
    · rcases h2 with h2 | h2
      · exact absurd h2 h
      · exact h2.symm
  · rintro ⟨h1, h2, h3⟩
    refine ⟨⟨?_, ?_⟩, ?_⟩
    · by_cases h : e.id = 0
      · exact Or.inl h
      · exact Or.inr (h1 h).symm
    · by_cases h : ns = ""
      · exact Or.inl h
      · exact Or.inr (h3 h).symm
    · by_cases h : e.name = ""
      · exact Or.inl h
      · exact Or.inr (h2 h).symm

theorem matchEntry_anonymous (ns : String) (e : Entry) (v : Val) (he : e.isIdentified = false) :
    matchEntry ns e v = true ↔ v.isIdentified = false := by
  unfold matchEntry
  simp [he]

theorem bindEntry_np (T : TextTemplate) (ord : Ord) (hord : OrdPerm ord) (ns : String)
    (vals : List Val) (e : Entry) (p : String) : bindEntry T ord ns vals e ≠ .panic p := by
  unfold bindEntry
  split
  · rename_i v _
    cases h : run T ord e.data v.data with
    | ok d => simp
    | err er => simp
    | panic q => exact absurd h (run_np T ord hord v.data e.data q)
  · split <;> simp

theorem bindEnv_np (T : TextTemplate) (ord : Ord) (hord : OrdPerm ord) (ns : String)
    (vals : List Val) : ∀ env p, bindEnv T ord ns vals env ≠ .panic p
  | [], p => by simp [bindEnv]
  | (k, e) :: r, p => by
    simp only [bindEnv]
    cases h1 : bindEntry T ord ns vals e with
    | err er => simp
    | panic q => exact absurd h1 (bindEntry_np T ord hord ns vals e q)
    | ok e' =>
      cases h2 : bindEnv T ord ns vals r with
      | err er => simp
      | panic q => exact absurd h2 (bindEnv_np T ord hord ns vals r q)
      | ok r' => simp

/-- One failing entry makes the whole loop fail (whatever the iteration order). -/
theorem bindEnv_err (T : TextTemplate) (ord : Ord) (hord : OrdPerm ord) (ns : String)
    (vals : List Val) : ∀ env k e x, (k, e) ∈ env → bindEntry T ord ns vals e = .err x →
      ∃ er, bindEnv T ord ns vals env = .err er
  | [], _, _, _, h, _ => by simp at h
  | (k', e') :: r, k, e, x, hmem, herr => by
    simp only [bindEnv]
    cases h1 : bindEntry T ord ns vals e' with
    | err er => exact ⟨er, rfl⟩
    | panic q => exact absurd h1 (bindEntry_np T ord hord ns vals e' q)
    | ok e'' =>
      rcases List.mem_cons.mp hmem with heq | hin
      · have : e = e' := (Prod.mk.inj heq).2
        subst this; rw [herr] at h1; cases h1
      · obtain ⟨er, her⟩ := bindEnv_err T ord hord ns vals r k e x hin herr
        exact ⟨er, by simp [her]⟩

/-- entry by entry: same key, and the new entry is `bindEntry` of the old one -/
def EntriesBound (T : TextTemplate) (ord : Ord) (ns : String) (vals : List Val) :
    List (String × Entry) → List (String × Entry) → Prop
  | [], [] => True
  | a :: as, b :: bs =>
    a.1 = b.1 ∧ bindEntry T ord ns vals a.2 = .ok b.2 ∧ EntriesBound T ord ns vals as bs
  | _, _ => False

theorem bindEnv_ok (T : TextTemplate) (ord : Ord) (ns : String) (vals : List Val) :
    ∀ env env', bindEnv T ord ns vals env = .ok env' → EntriesBound T ord ns vals env env'
  | [], env', h => by simp [bindEnv] at h; subst h; simp [EntriesBound]
  | (k, e) :: r, env', h => by
    simp only [bindEnv] at h
    cases h1 : bindEntry T ord ns vals e with
    | err er => simp [h1] at h
    | panic q => simp [h1] at h
    | ok e' =>
      cases h2 : bindEnv T ord ns vals r with
      | err er => simp [h1, h2] at h
      | panic q => simp [h1, h2] at h
      | ok r' =>
        simp [h1, h2] at h; subst h
        exact ⟨rfl, h1, bindEnv_ok T ord ns vals r r' h2⟩

end Uniflow.Bind

open Uniflow.Template Uniflow.Bind

/-! ## Property theorems -/

/-- **substitutes (the walk).** If text/template parses every string of `d` (leaves and keys) and
renders it on `dot` as `f s`, and the rendered keys of each map stay pairwise different, then
`template.Execute(d, dot)` succeeds and returns `d` with every string replaced by `f` of it and
nothing else changed (`mapStr f d`, as a JSON value: `Same`), for every enumeration order. -/
theorem C18.substitutes (T : TextTemplate) (ord : Ord) (hord : OrdPerm ord) (dot : Doc)
    (f : String → String) (d : Doc)
    (hren : AllStr (Renders T dot f) d) (hkeys : KeysDistinct f d) :
    ∃ r, run T ord d dot = .ok r ∧ Same (mapStr f d) r := by
  obtain ⟨n, r, hp, he, hs⟩ := walk_doc T ord hord dot f d hren hkeys
  exact ⟨r, by simp [run, hp, he], hs⟩

/-- **plain_identity (the walk).** A well-formed document without template action comes back as
the same JSON value, for every nesting (nulls, empty containers, scalars included), every data
value and every enumeration order – assuming of text/template only `PlainId`. -/
theorem C18.plain_identity_walk (T : TextTemplate) (hT : PlainId T) (ord : Ord) (hord : OrdPerm ord)
    (dot d : Doc) (hplain : PlainDoc d) (hwf : WF d) :
    ∃ r, run T ord d dot = .ok r ∧ Same d r := by
  have hren : AllStr (Renders T dot id) d :=
    AllStr_mono (fun s hs => ⟨(hT s hs).1, by simpa using (hT s hs).2 dot⟩) d hplain
  obtain ⟨r, hr, hs⟩ := C18.substitutes T ord hord dot id d hren hwf
  have hid : mapStr id d = d := mapStr_id id d (AllStr_mono (fun _ _ => rfl) d hplain)
  rw [hid] at hs
  exact ⟨r, hr, hs⟩

/-- With the children enumerated in stored order the results are literally `mapStr f d`, resp.
literally the input. -/
theorem C18.substitutes_exact (T : TextTemplate) (dot : Doc) (f : String → String) (d : Doc)
    (hren : AllStr (Renders T dot f) d) (hkeys : KeysDistinct f d) :
    run T id d dot = .ok (mapStr f d) := by
  obtain ⟨n, hp, he⟩ := exact_doc T dot f d hren hkeys
  simp [run, hp, he]

theorem C18.plain_identity_exact (T : TextTemplate) (hT : PlainId T) (dot d : Doc)
    (hplain : PlainDoc d) (hwf : WF d) : run T id d dot = .ok d := by
  have hren : AllStr (Renders T dot id) d :=
    AllStr_mono (fun s hs => ⟨(hT s hs).1, by simpa using (hT s hs).2 dot⟩) d hplain
  have := C18.substitutes_exact T dot id d hren hwf
  rwa [mapStr_id id d (AllStr_mono (fun _ _ => rfl) d hplain)] at this

/-- **no_panic (the walk).** `template.Execute` never panics: for every text/template behaviour,
every document (nulls anywhere), every data value and every enumeration order. -/
theorem C18.no_panic_walk (T : TextTemplate) (ord : Ord) (hord : OrdPerm ord) (d dot : Doc)
    (site : String) : run T ord d dot ≠ .panic site :=
  run_np T ord hord dot d site

/-- **bind_selects, identified entry.** An entry naming an id and/or a name is given exactly the
first value, in the order handed to `Bind`, that has that id / that name and lies in the spec's
namespace (no namespace constraint when the spec's namespace is empty). -/
theorem C18.bind_selects_identified (ns : String) (e : Entry) (vals : List Val) (v : Val)
    (he : e.isIdentified = true) :
    select ns e vals = some v ↔
      Names ns e v ∧ ∃ pre post, vals = pre ++ v :: post ∧ ∀ x ∈ pre, ¬ Names ns e x := by
  unfold select
  rw [List.find?_eq_some_iff_append, matchEntry_identified ns e v he]
  constructor
  · rintro ⟨h, pre, post, hv, hpre⟩
    refine ⟨h, pre, post, hv, fun x hx hn => ?_⟩
    have := hpre x hx
    rw [(matchEntry_identified ns e x he).mpr hn] at this
    simp at this
  · rintro ⟨h, pre, post, hv, hpre⟩
    refine ⟨h, pre, post, hv, fun x hx => ?_⟩
    cases hm : matchEntry ns e x with
    | false => rfl
    | true => exact absurd ((matchEntry_identified ns e x he).mp hm) (hpre x hx)

/-- **bind_selects, anonymous entry.** An entry with neither id nor name is given exactly the
first *anonymous* value (never an identified one, whatever its namespace). -/
theorem C18.bind_selects_anonymous (ns : String) (e : Entry) (vals : List Val) (v : Val)
    (he : e.isIdentified = false) :
    select ns e vals = some v ↔
      v.isIdentified = false ∧
        ∃ pre post, vals = pre ++ v :: post ∧ ∀ x ∈ pre, x.isIdentified = true := by
  unfold select
  rw [List.find?_eq_some_iff_append, matchEntry_anonymous ns e v he]
  constructor
  · rintro ⟨h, pre, post, hv, hpre⟩
    refine ⟨h, pre, post, hv, fun x hx => ?_⟩
    have := hpre x hx
    cases hx' : x.isIdentified with
    | true => rfl
    | false =>
      rw [(matchEntry_anonymous ns e x he).mpr hx'] at this
      simp at this
  · rintro ⟨h, pre, post, hv, hpre⟩
    refine ⟨h, pre, post, hv, fun x hx => ?_⟩
    cases hm : matchEntry ns e x with
    | false => rfl
    | true =>
      have := (matchEntry_anonymous ns e x he).mp hm
      rw [hpre x hx] at this; cases this

/-- No value is selected exactly when no value qualifies. -/
theorem C18.bind_selects_none (ns : String) (e : Entry) (vals : List Val) :
    select ns e vals = none ↔ ∀ v ∈ vals, matchEntry ns e v = false := by
  unfold select
  simp [List.find?_eq_none]

/-- What `Bind` stores for an entry whose variable was found: the value's id and name, and the
entry's data rendered against the value's data. -/
theorem C18.bind_entry_bound (T : TextTemplate) (ord : Ord) (ns : String) (vals : List Val)
    (e : Entry) (v : Val) (d : Doc)
    (hsel : select ns e vals = some v) (hrun : run T ord e.data v.data = .ok d) :
    bindEntry T ord ns vals e = .ok { id := v.id, name := v.name, data := d } := by
  simp [bindEntry, hsel, hrun]

/-- An anonymous entry without anonymous value is left exactly as it is. -/
theorem C18.bind_entry_unbound (T : TextTemplate) (ord : Ord) (ns : String) (vals : List Val)
    (e : Entry) (he : e.isIdentified = false) (hsel : select ns e vals = none) :
    bindEntry T ord ns vals e = .ok e := by
  simp [bindEntry, hsel, he]

/-- `Bind` changes nothing but the environment, and every entry independently:
key kept, entry replaced by `bindEntry` of it. -/
theorem C18.bind_only_env (T : TextTemplate) (ord : Ord) (s s' : Spec) (vals : List Val)
    (h : bindSpec T ord s vals = .ok s') :
    s'.ns = s.ns ∧ s'.fields = s.fields ∧
      EntriesBound T ord s.ns vals s.env s'.env := by
  unfold bindSpec at h
  cases h1 : bindEnv T ord s.ns vals s.env with
  | err er => simp [h1] at h
  | panic q => simp [h1] at h
  | ok env =>
    simp [h1] at h; subst h
    exact ⟨rfl, rfl, bindEnv_ok T ord s.ns vals s.env env h1⟩

/-- **missing_rejected.** A spec one of whose entries names a variable (by id and/or name) that no
given value is, is rejected with an error – for every position of the entry in the iteration
order, whatever the other entries do. -/
theorem C18.missing_rejected (T : TextTemplate) (ord : Ord) (hord : OrdPerm ord) (s : Spec)
    (vals : List Val) (k : String) (e : Entry)
    (hmem : (k, e) ∈ s.env) (hid : e.isIdentified = true)
    (hmiss : ∀ v ∈ vals, ¬ Names s.ns e v) :
    ∃ er, bindSpec T ord s vals = .err er := by
  have hsel : select s.ns e vals = none := by
    rw [C18.bind_selects_none]
    intro v hv
    cases hm : matchEntry s.ns e v with
    | false => rfl
    | true => exact absurd ((matchEntry_identified s.ns e v hid).mp hm) (hmiss v hv)
  have herr : bindEntry T ord s.ns vals e = .err .unsupported := by
    simp [bindEntry, hsel, hid]
  obtain ⟨er, her⟩ := bindEnv_err T ord hord s.ns vals s.env k e _ hmem herr
  exact ⟨er, by simp [bindSpec, her]⟩

/-- If that entry is the only one in trouble the error is `ErrUnsupportedValue`. -/
theorem C18.missing_rejected_single (T : TextTemplate) (ord : Ord) (ns : String)
    (fields : Option (List (String × Doc))) (vals : List Val) (k : String) (e : Entry)
    (hid : e.isIdentified = true) (hmiss : ∀ v ∈ vals, ¬ Names ns e v) :
    ∃ p, bindSpec T ord { ns := ns, env := [(k, e)], fields := fields } vals = p ∧
      (match p with | .err .unsupported => True | _ => False) := by
  have hsel : select ns e vals = none := by
    rw [C18.bind_selects_none]
    intro v hv
    cases hm : matchEntry ns e v with
    | false => rfl
    | true => exact absurd ((matchEntry_identified ns e v hid).mp hm) (hmiss v hv)
  refine ⟨_, rfl, ?_⟩
  simp [bindSpec, bindEnv, bindEntry, hsel, hid]

/-- **substitutes (Build).** With a non-empty environment, if text/template renders every string of
the fields on the bound environment as `f s` (rendered keys staying distinct), `Build` replaces
the fields by the same fields with every string replaced by `f` of it – nothing else of the
fields and nothing else of the spec changes. A nil `Fields` map counts as the empty map. -/
theorem C18.substitutes_build (T : TextTemplate) (ord : Ord) (hord : OrdPerm ord) (s : Spec)
    (f : String → String) (hne : s.env ≠ [])
    (hren : AllStr (Renders T (envDoc s.env) f) (.map (s.fields.getD [])))
    (hkeys : KeysDistinct f (.map (s.fields.getD []))) :
    ∃ kvs, build T ord s = .ok { s with fields := some kvs } ∧
      Same (mapStr f (.map (s.fields.getD []))) (.map kvs) := by
  obtain ⟨r, hr, hs⟩ := C18.substitutes T ord hord (envDoc s.env) f _ hren hkeys
  have hpos : s.env.length > 0 := by
    cases h : s.env with
    | nil => exact absurd h hne
    | cons _ _ => simp
  simp only [mapStr, Same] at hs
  obtain ⟨l, kvs, rfl, hl, hperm⟩ := hs
  refine ⟨kvs, ?_, ?_⟩
  · simp [build, hpos, hr]
  · simp only [mapStr, Same]; exact ⟨l, kvs, rfl, hl, hperm⟩

/-- **plain_identity (Build).** Fields without template action come back as the same JSON value
for every nesting; the one canonicalisation is that a nil `Fields` map comes back as the empty
map (`getD []`) when the environment is non-empty. -/
theorem C18.plain_identity (T : TextTemplate) (hT : PlainId T) (ord : Ord) (hord : OrdPerm ord)
    (s : Spec) (hne : s.env ≠ [])
    (hplain : PlainDoc (.map (s.fields.getD []))) (hwf : WF (.map (s.fields.getD []))) :
    ∃ kvs, build T ord s = .ok { s with fields := some kvs } ∧
      Same (.map (s.fields.getD [])) (.map kvs) := by
  have hren : AllStr (Renders T (envDoc s.env) id) (.map (s.fields.getD [])) :=
    AllStr_mono (fun t ht => ⟨(hT t ht).1, by simpa using (hT t ht).2 (envDoc s.env)⟩) _ hplain
  obtain ⟨kvs, hb, hs⟩ := C18.substitutes_build T ord hord s id hne hren hwf
  have hid : mapStr id (.map (s.fields.getD [])) = .map (s.fields.getD []) :=
    mapStr_id id _ (AllStr_mono (fun _ _ => rfl) _ hplain)
  rw [hid] at hs
  exact ⟨kvs, hb, hs⟩

theorem Uniflow.Bind.EntriesBound_ne (T : TextTemplate) (ord : Ord) (ns : String) (vals : List Val) :
    ∀ a b, EntriesBound T ord ns vals a b → a ≠ [] → b ≠ []
  | [], _, _, h => absurd rfl h
  | _ :: _, [], hb, _ => by simp [EntriesBound] at hb
  | _ :: _, _ :: _, _, _ => by simp

/-- **Bind, then Build** (what the runtime does with every spec): after a successful `Bind`,
`Build` replaces every string of the *original* fields by its rendering on the bound environment
and changes nothing else – namespace and environment stay what `Bind` made them. -/
theorem C18.bind_then_build (T : TextTemplate) (ord : Ord) (hord : OrdPerm ord) (s s' : Spec)
    (vals : List Val) (f : String → String) (hne : s.env ≠ [])
    (hbind : bindSpec T ord s vals = .ok s')
    (hren : AllStr (Renders T (envDoc s'.env) f) (.map (s.fields.getD [])))
    (hkeys : KeysDistinct f (.map (s.fields.getD []))) :
    ∃ kvs, build T ord s' = .ok { ns := s.ns, env := s'.env, fields := some kvs } ∧
      Same (mapStr f (.map (s.fields.getD []))) (.map kvs) := by
  obtain ⟨hns, hf, henv⟩ := C18.bind_only_env T ord s s' vals hbind
  have hne' : s'.env ≠ [] := EntriesBound_ne T ord s.ns vals _ _ henv hne
  rw [← hf] at hren hkeys
  obtain ⟨kvs, hb, hs⟩ := C18.substitutes_build T ord hord s' f hne' hren hkeys
  rw [hf] at hs
  exact ⟨kvs, by rw [hb, hns], hs⟩

/-- Without environment `Build` does nothing at all (a nil `Fields` map stays nil). -/
theorem C18.build_without_env (T : TextTemplate) (ord : Ord) (s : Spec) (h : s.env = []) :
    build T ord s = .ok s := by
  simp [build, h]

/-- **no_panic.** Neither `Bind` nor `Build` panics, and `Build`'s type assertion never fails. -/
theorem C18.no_panic (T : TextTemplate) (ord : Ord) (hord : OrdPerm ord) (s : Spec)
    (vals : List Val) (site : String) :
    bindSpec T ord s vals ≠ .panic site ∧ build T ord s ≠ .panic site := by
  constructor
  · unfold bindSpec
    cases h : bindEnv T ord s.ns vals s.env with
    | ok env => simp
    | err e => simp
    | panic q => exact absurd h (bindEnv_np T ord hord s.ns vals s.env q)
  · unfold build
    split
    · cases h : run T ord (.map (s.fields.getD [])) (envDoc s.env) with
      | err e => simp
      | panic q => exact absurd h (run_np T ord hord _ _ q)
      | ok d => cases d <;> simp
    · simp

/-- `IsBound` sees every binding of an identified entry: the value `Bind` selects for it makes
`IsBound` true (so a change of that value reloads the spec). -/
theorem C18.isBound_of_selected (s : Spec) (vals : List Val) (k : String) (e : Entry) (v : Val)
    (hmem : (k, e) ∈ s.env) (hid : e.isIdentified = true)
    (hsel : select s.ns e vals = some v) : isBound s [v] = true := by
  have hn : Names s.ns e v := ((C18.bind_selects_identified s.ns e vals v hid).mp hsel).1
  obtain ⟨h1, h2, h3⟩ := hn
  unfold isBound
  rw [List.any_eq_true]
  refine ⟨(k, e), hmem, ?_⟩
  simp only [List.any_cons, List.any_nil, Bool.or_false, Val.is, Bool.or_eq_true,
    Bool.and_eq_true, bne_iff_ne, ne_eq, beq_iff_eq]
  simp only [Entry.isIdentified, Bool.or_eq_true, bne_iff_ne, ne_eq] at hid
  by_cases hi : e.id = 0
  · have hname : e.name ≠ "" := by
      rcases hid with h | h
      · exact absurd hi h
      · exact h
    right
    refine ⟨hname, ⟨Or.inl trivial, ?_⟩, Or.inr (h2 hname).symm⟩
    by_cases hns : s.ns = ""
    · exact Or.inl hns
    · exact Or.inr (h3 hns).symm
  · left
    exact ⟨hi, ⟨Or.inr (h1 hi).symm, Or.inl trivial⟩, Or.inl trivial⟩

/-! ### Non-vacuity, and the defects of the pinned tree -/

namespace Uniflow.Bind.Ex
open Uniflow.Template

/-- A text/template stand-in: `{{ .A }}` renders as "bound", `{{ .p }}` as "pv", a malformed
string fails to parse, every other string renders as itself. -/
def T : TextTemplate where
  parse s := s != "{{ .A"
  exec s _ := if s == "{{ .A }}" then some "bound" else if s == "{{ .p }}" then some "pv" else some s

def f (s : String) : String :=
  if s == "{{ .A }}" then "bound" else if s == "{{ .p }}" then "pv" else s

theorem T_plainId : PlainId T := by
  intro s hs
  have h1 : s ≠ "{{ .A" := by intro h; subst h; exact absurd hs (by decide)
  have h2 : s ≠ "{{ .A }}" := by intro h; subst h; exact absurd hs (by decide)
  have h3 : s ≠ "{{ .p }}" := by intro h; subst h; exact absurd hs (by decide)
  simp [T, h1, h2, h3]

/-- fields with a null, nested empty containers, scalars, a templated leaf and a templated key -/
def fields : List (String × Doc) :=
  [("a", .null), ("b", .list [.null, .list [], .map [], .num 3, .bool true]),
   ("c", .str "{{ .A }}"), ("k-{{ .A }}", .map [("d", .str "plain")])]

def plainFields : List (String × Doc) :=
  [("a", .null), ("b", .list [.null, .list [], .map [("x", .null)], .num 3, .bool true]), ("c", .str "{ {")]

def secret : Val := { id := 1, ns := "ns1", name := "secret", data := .map [("p", .str "stolen")] }
def anon : Val := { id := 0, ns := "", name := "", data := .map [("p", .str "pv")] }
def entry : Entry := { id := 0, name := "", data := .str "{{ .p }}" }
def spec : Spec := { ns := "ns1", env := [("A", entry)], fields := some fields }

end Uniflow.Bind.Ex

open Uniflow.Bind.Ex in
/-- The hypotheses of `substitutes_build` hold for a spec whose fields contain nulls, empty
containers, scalars, a templated leaf and a templated key. -/
theorem C18.substitutes_nonvacuous :
    spec.env ≠ [] ∧ AllStr (Renders T (envDoc spec.env) f) (.map (spec.fields.getD [])) ∧
      KeysDistinct f (.map (spec.fields.getD [])) ∧ OrdPerm List.reverse ∧
      (build T List.reverse spec).isOk = true := by
  refine ⟨by simp [spec], ?_, ?_, fun l => List.reverse_perm l, by decide⟩
  · simp [spec, fields, AllStr, AllStrMap, AllStrList, Renders, T, f]
  · simp [spec, fields, KeysDistinct, KeysDistinctMap, KeysDistinctList, f]

open Uniflow.Bind.Ex in
/-- The hypotheses of `plain_identity` hold for a non-trivial plain document. -/
theorem C18.plain_identity_nonvacuous :
    PlainId T ∧ PlainDoc (.map plainFields) ∧ WF (.map plainFields) := by
  refine ⟨T_plainId, ?_, ?_⟩
  · simp only [PlainDoc, plainFields, AllStr, AllStrMap, AllStrList]; decide
  · simp [WF, plainFields, KeysDistinct, KeysDistinctMap, KeysDistinctList]

open Uniflow.Bind.Ex in
/-- The hypotheses of `missing_rejected` hold: an entry naming id 7 among values with ids 1 and 0. -/
theorem C18.missing_rejected_nonvacuous :
    let e : Entry := { id := 7, name := "", data := .str "{{ .p }}" }
    e.isIdentified = true ∧ ∀ v ∈ [secret, anon], ¬ Names "ns1" e v := by
  refine ⟨by decide, ?_⟩
  intro v hv
  simp only [List.mem_cons, List.mem_nil_iff, or_false] at hv
  rcases hv with rfl | rfl <;> simp [Names, secret, anon]

open Uniflow.Bind.Ex in
/-- Fixed tree: the anonymous entry passes over the secret listed first and takes the anonymous
value. Pinned tree (defect 24): it took the secret. -/
theorem C18.pinned_anonymous_takes_identified :
    (select "ns1" entry [secret, anon]).map (·.id) = some 0 ∧
    (selectPinned "ns1" entry [secret, anon]).map (·.id) = some 1 := by
  decide

open Uniflow.Bind.Ex in
/-- Pinned tree (defect 23): a null anywhere in the fields of a spec with an environment
panicked in `template.parse`; the fixed walk returns normally on the same spec. -/
theorem C18.pinned_null_panics :
    (buildPinned T id spec).isPanic = true ∧ (build T id spec).isOk = true := by
  decide

open Uniflow.Bind.Ex in
/-- Why `substitutes` needs `KeysDistinct f`: when two keys of one map render to the same text
one entry overwrites the other, and which one survives depends on the enumeration order. -/
theorem C18.key_collision_order_dependent :
    let d : Doc := .map [("{{ .A }}", .num 1), ("bound", .num 2)]
    (match run T id d .null with | .ok (.map [(_, .num 2)]) => true | _ => false) = true ∧
    (match run T List.reverse d .null with | .ok (.map [(_, .num 1)]) => true | _ => false) = true := by
  decide
