/-
C18 – regenerated tie over Generated/BindFuncs.lean (extract/funcs.go): for every source file the models of this
property were transcribed from, the outline of EVERY function of that file – regenerated from /repo on every run –
equals the transcript frozen here (bin/freeze_outlines.py, repo 7f54b88, 2026-10-01; `sliceNode.execute` re-transcribed by hand at
repo a5eb801 "fix: template walk no longer panics on arrays": an array is rebuilt element by element, the model's list case covers it). A theorem that stops checking
names the file whose code is no longer the code that was modelled; bin/check then searches for a failing input.
-/
import Uniflow.Generated.BindFuncs

/-- pkg/template/template.go as modelled: its declarations (in source order) and the outline of each -/
theorem C18.src_template_template_as_modelled :
    Uniflow.Generated.BindFuncs.o_template_template_fn_Execute = [
      "tmpl, err := New(\"\").Parse(value)",
      "if err != nil",
      "  return nil, err",
      "return tmpl.Execute(data)"
    ] ∧
    Uniflow.Generated.BindFuncs.o_template_template_fn_New = [
      "return &Template{ name: name, }"
    ] ∧
    Uniflow.Generated.BindFuncs.o_template_template_Template_Parse = [
      "root, err := t.parse(reflect.ValueOf(value))",
      "if err != nil",
      "  return nil, err",
      "t.root = root",
      "return t, nil"
    ] ∧
    Uniflow.Generated.BindFuncs.o_template_template_Template_Execute = [
      "if t.root == nil",
      "  return data, nil",
      "return t.root.execute(data)"
    ] ∧
    Uniflow.Generated.BindFuncs.o_template_template_Template_parse = [
      "switch val.Kind()",
      "  case reflect.Invalid",
      "    return &valueNode{}, nil",
      "  case reflect.String",
      "    tmpl, err := template.New(t.name).Parse(val.String())",
      "    if err != nil",
      "      return nil, err",
      "    return &templateNode{typ: val.Type(), template: tmpl}, nil",
      "  case reflect.Slice, reflect.Array",
      "    children := make([]node, val.Len())",
      "    for i := 0; i < val.Len(); i++",
      "      child, err := t.parse(reflect.ValueOf(val.Index(i).Interface()))",
      "      if err != nil",
      "        return nil, err",
      "      children[i] = child",
      "    return &sliceNode{typ: val.Type(), children: children}, nil",
      "  case reflect.Map",
      "    children := make(map[node]node)",
      "    for _, key := range val.MapKeys()",
      "      k, err := t.parse(reflect.ValueOf(key.Interface()))",
      "      if err != nil",
      "        return nil, err",
      "      v, err := t.parse(reflect.ValueOf(val.MapIndex(key).Interface()))",
      "      if err != nil",
      "        return nil, err",
      "      children[k] = v",
      "    return &mapNode{typ: val.Type(), children: children}, nil",
      "  default",
      "    return &valueNode{value: val.Interface()}, nil"
    ] ∧
    Uniflow.Generated.BindFuncs.names_template_template = ["fn.Execute", "fn.New", "Template.Parse", "Template.Execute", "Template.parse"] := by
  decide

/-- pkg/template/node.go as modelled: its declarations (in source order) and the outline of each -/
theorem C18.src_template_node_as_modelled :
    Uniflow.Generated.BindFuncs.o_template_node_valueNode_execute = [
      "return v.value, nil"
    ] ∧
    Uniflow.Generated.BindFuncs.o_template_node_templateNode_execute = [
      "var buf bytes.Buffer",
      "if err := t.template.Execute(&buf, data); err != nil",
      "  return nil, err",
      "return reflect.ValueOf(buf.String()).Convert(t.typ).Interface(), nil"
    ] ∧
    Uniflow.Generated.BindFuncs.o_template_node_sliceNode_execute = [
      "if s.typ.Kind() == reflect.Array",
      "  values := reflect.New(s.typ).Elem()",
      "  for i, child := range s.children",
      "    value, err := child.execute(data)",
      "    if err != nil",
      "      return nil, err",
      "    values.Index(i).Set(valueOf(value, s.typ.Elem()))",
      "  return values.Interface(), nil",
      "values := reflect.MakeSlice(s.typ, 0, len(s.children))",
      "for _, child := range s.children",
      "  value, err := child.execute(data)",
      "  if err != nil",
      "    return nil, err",
      "  values = reflect.Append(values, valueOf(value, s.typ.Elem()))",
      "return values.Interface(), nil"
    ] ∧
    Uniflow.Generated.BindFuncs.o_template_node_mapNode_execute = [
      "values := reflect.MakeMap(m.typ)",
      "for key, child := range m.children",
      "  keyRes, err := key.execute(data)",
      "  if err != nil",
      "    return nil, err",
      "  value, err := child.execute(data)",
      "  if err != nil",
      "    return nil, err",
      "  values.SetMapIndex(valueOf(keyRes, m.typ.Key()), valueOf(value, m.typ.Elem()))",
      "return values.Interface(), nil"
    ] ∧
    Uniflow.Generated.BindFuncs.o_template_node_fn_valueOf = [
      "if val == nil",
      "  return reflect.Zero(typ)",
      "return reflect.ValueOf(val)"
    ] ∧
    Uniflow.Generated.BindFuncs.names_template_node = ["valueNode.execute", "templateNode.execute", "sliceNode.execute", "mapNode.execute", "fn.valueOf"] := by
  decide

/-- pkg/spec/spec.go as modelled: its declarations (in source order) and the outline of each -/
theorem C18.src_spec_spec_as_modelled :
    Uniflow.Generated.BindFuncs.o_spec_spec_fn_As = [
      "doc, err := types.Marshal(src)",
      "if err != nil",
      "  return err",
      "return types.Unmarshal(doc, dest)"
    ] ∧
    Uniflow.Generated.BindFuncs.o_spec_spec_fn_New = [
      "return &Meta{}"
    ] ∧
    Uniflow.Generated.BindFuncs.o_spec_spec_Meta_GetID = [
      "return m.ID"
    ] ∧
    Uniflow.Generated.BindFuncs.o_spec_spec_Meta_SetID = [
      "m.ID = val"
    ] ∧
    Uniflow.Generated.BindFuncs.o_spec_spec_Meta_GetKind = [
      "return m.Kind"
    ] ∧
    Uniflow.Generated.BindFuncs.o_spec_spec_Meta_SetKind = [
      "m.Kind = val"
    ] ∧
    Uniflow.Generated.BindFuncs.o_spec_spec_Meta_GetNamespace = [
      "return m.Namespace"
    ] ∧
    Uniflow.Generated.BindFuncs.o_spec_spec_Meta_SetNamespace = [
      "m.Namespace = val"
    ] ∧
    Uniflow.Generated.BindFuncs.o_spec_spec_Meta_GetName = [
      "return m.Name"
    ] ∧
    Uniflow.Generated.BindFuncs.o_spec_spec_Meta_SetName = [
      "m.Name = val"
    ] ∧
    Uniflow.Generated.BindFuncs.o_spec_spec_Meta_GetNamespacedName = [
      "if m.Name != \"\"",
      "  return fmt.Sprintf(\"%s/%s\", m.Namespace, m.Name)",
      "return fmt.Sprintf(\"%s/%s\", m.Namespace, m.ID)"
    ] ∧
    Uniflow.Generated.BindFuncs.o_spec_spec_Meta_GetAnnotations = [
      "return m.Annotations"
    ] ∧
    Uniflow.Generated.BindFuncs.o_spec_spec_Meta_SetAnnotations = [
      "m.Annotations = val"
    ] ∧
    Uniflow.Generated.BindFuncs.o_spec_spec_Meta_GetEnv = [
      "return m.Env"
    ] ∧
    Uniflow.Generated.BindFuncs.o_spec_spec_Meta_SetEnv = [
      "m.Env = val"
    ] ∧
    Uniflow.Generated.BindFuncs.o_spec_spec_Meta_GetPorts = [
      "return m.Ports"
    ] ∧
    Uniflow.Generated.BindFuncs.o_spec_spec_Meta_SetPorts = [
      "m.Ports = val"
    ] ∧
    Uniflow.Generated.BindFuncs.o_spec_spec_Meta_IsBound = [
      "for _, val := range m.Env",
      "  var examples []*value.Value",
      "  if val.ID != uuid.Nil",
      "    examples = append(examples, &value.Value{ID: val.ID})",
      "  if val.Name != \"\"",
      "    examples = append(examples, &value.Value{Namespace: m.Namespace, Name: val.Name})",
      "  for _, v := range values",
      "    for _, example := range examples",
      "      if v.Is(example)",
      "        return true",
      "return false"
    ] ∧
    Uniflow.Generated.BindFuncs.o_spec_spec_Meta_Bind = [
      "for key, val := range m.Env",
      "  example := &value.Value{ ID: val.ID, Namespace: m.Namespace, Name: val.Name, }",
      "  var value *value.Value",
      "  for _, v := range values",
      "    if (!val.IsIdentified() && !v.IsIdentified()) || (val.IsIdentified() && v.Is(example))",
      "      value = v",
      "      break",
      "  if value != nil",
      "    v, err := template.Execute(val.Data, value.Data)",
      "    if err != nil",
      "      return err",
      "    val.ID = value.GetID()",
      "    val.Name = value.GetName()",
      "    val.Data = v",
      "    m.Env[key] = val",
      "  else",
      "    if val.IsIdentified()",
      "      return errors.WithStack(encoding.ErrUnsupportedValue)",
      "return nil"
    ] ∧
    Uniflow.Generated.BindFuncs.o_spec_spec_Value_IsIdentified = [
      "return v.ID != uuid.Nil || v.Name != \"\""
    ] ∧
    Uniflow.Generated.BindFuncs.names_spec_spec = ["fn.As", "fn.New", "Meta.GetID", "Meta.SetID", "Meta.GetKind", "Meta.SetKind", "Meta.GetNamespace", "Meta.SetNamespace", "Meta.GetName", "Meta.SetName", "Meta.GetNamespacedName", "Meta.GetAnnotations", "Meta.SetAnnotations", "Meta.GetEnv", "Meta.SetEnv", "Meta.GetPorts", "Meta.SetPorts", "Meta.IsBound", "Meta.Bind", "Value.IsIdentified"] := by
  decide

/-- pkg/spec/unstructured.go as modelled: its declarations (in source order) and the outline of each -/
theorem C18.src_spec_unstructured_as_modelled :
    Uniflow.Generated.BindFuncs.o_spec_unstructured_Unstructured_Get = [
      "switch key",
      "  case KeyID",
      "    return u.ID, true",
      "  case KeyKind",
      "    return u.Kind, true",
      "  case KeyNamespace",
      "    return u.Namespace, true",
      "  case KeyName",
      "    return u.Name, true",
      "  case KeyAnnotations",
      "    return u.Annotations, true",
      "  case KeyEnv",
      "    return u.Env, true",
      "  case KeyPorts",
      "    return u.Ports, true",
      "  default",
      "    if u.Fields == nil",
      "      return nil, false",
      "    val, ok := u.Fields[key]",
      "    return val, ok"
    ] ∧
    Uniflow.Generated.BindFuncs.o_spec_unstructured_Unstructured_Set = [
      "switch key",
      "  case KeyID",
      "    if v, ok := val.(uuid.UUID); ok",
      "      u.ID = v",
      "  case KeyKind",
      "    if v, ok := val.(string); ok",
      "      u.Kind = v",
      "  case KeyNamespace",
      "    if v, ok := val.(string); ok",
      "      u.Namespace = v",
      "  case KeyName",
      "    if v, ok := val.(string); ok",
      "      u.Name = v",
      "  case KeyAnnotations",
      "    if v, ok := val.(map[string]string); ok",
      "      u.Annotations = v",
      "  case KeyEnv",
      "    if v, ok := val.(map[string]Value); ok",
      "      u.Env = v",
      "  case KeyPorts",
      "    if v, ok := val.(map[string][]Port); ok",
      "      u.Ports = v",
      "  default",
      "    if u.Fields == nil",
      "      u.Fields = make(map[string]any)",
      "    u.Fields[key] = val"
    ] ∧
    Uniflow.Generated.BindFuncs.o_spec_unstructured_Unstructured_Build = [
      "env := make(map[string]any)",
      "for key, val := range u.Env",
      "  env[key] = val.Data",
      "if len(env) > 0",
      "  fields, err := template.Execute(u.Fields, env)",
      "  if err != nil",
      "    return err",
      "  if fields, ok := fields.(map[string]any); ok",
      "    u.Fields = fields",
      "  else",
      "    return errors.WithStack(encoding.ErrUnsupportedValue)",
      "return nil"
    ] ∧
    Uniflow.Generated.BindFuncs.names_spec_unstructured = ["Unstructured.Get", "Unstructured.Set", "Unstructured.Build"] := by
  decide

/-- pkg/value/value.go as modelled: its declarations (in source order) and the outline of each -/
theorem C18.src_value_value_as_modelled :
    Uniflow.Generated.BindFuncs.o_value_value_fn_New = [
      "return &Value{}"
    ] ∧
    Uniflow.Generated.BindFuncs.o_value_value_Value_GetID = [
      "return v.ID"
    ] ∧
    Uniflow.Generated.BindFuncs.o_value_value_Value_SetID = [
      "v.ID = val"
    ] ∧
    Uniflow.Generated.BindFuncs.o_value_value_Value_GetNamespace = [
      "return v.Namespace"
    ] ∧
    Uniflow.Generated.BindFuncs.o_value_value_Value_SetNamespace = [
      "v.Namespace = val"
    ] ∧
    Uniflow.Generated.BindFuncs.o_value_value_Value_GetName = [
      "return v.Name"
    ] ∧
    Uniflow.Generated.BindFuncs.o_value_value_Value_SetName = [
      "v.Name = val"
    ] ∧
    Uniflow.Generated.BindFuncs.o_value_value_Value_GetAnnotations = [
      "return v.Annotations"
    ] ∧
    Uniflow.Generated.BindFuncs.o_value_value_Value_SetAnnotations = [
      "v.Annotations = val"
    ] ∧
    Uniflow.Generated.BindFuncs.o_value_value_Value_GetData = [
      "return v.Data"
    ] ∧
    Uniflow.Generated.BindFuncs.o_value_value_Value_SetData = [
      "v.Data = val"
    ] ∧
    Uniflow.Generated.BindFuncs.o_value_value_Value_IsIdentified = [
      "return v.ID != uuid.Nil || v.Name != \"\""
    ] ∧
    Uniflow.Generated.BindFuncs.o_value_value_Value_Is = [
      "if val.GetID() != uuid.Nil && val.GetID() != v.GetID()",
      "  return false",
      "if val.GetNamespace() != \"\" && val.GetNamespace() != v.GetNamespace()",
      "  return false",
      "if val.GetName() != \"\" && val.GetName() != v.GetName()",
      "  return false",
      "return true"
    ] ∧
    Uniflow.Generated.BindFuncs.names_value_value = ["fn.New", "Value.GetID", "Value.SetID", "Value.GetNamespace", "Value.SetNamespace", "Value.GetName", "Value.SetName", "Value.GetAnnotations", "Value.SetAnnotations", "Value.GetData", "Value.SetData", "Value.IsIdentified", "Value.Is"] := by
  decide

