/-
C07 – re-statements of the function-outline ties of source files this property DEPENDS on without being anchored in
them (bin/mk_dependency_ties.py; hand-run): a source change there is reported for C07 as well.
-/
import Uniflow.Props.C06TieFn2
import Uniflow.Props.C05TieFn1
import Uniflow.Props.C05TieFn2
import Uniflow.Props.C08TieLayer

theorem C07.dep_C06_symbol_symbol_as_modelled : type_of% C06.src_symbol_symbol_as_modelled := C06.src_symbol_symbol_as_modelled
theorem C07.dep_C05_port_inport_as_modelled_1 : type_of% C05.src_port_inport_as_modelled_1 := C05.src_port_inport_as_modelled_1
theorem C07.dep_C05_port_inport_as_modelled_2 : type_of% C05.src_port_inport_as_modelled_2 := C05.src_port_inport_as_modelled_2
theorem C07.dep_C05_port_outport_as_modelled_1 : type_of% C05.src_port_outport_as_modelled_1 := C05.src_port_outport_as_modelled_1
theorem C07.dep_C05_port_outport_as_modelled_2 : type_of% C05.src_port_outport_as_modelled_2 := C05.src_port_outport_as_modelled_2
theorem C07.dep_C08_node_proxy_as_modelled : type_of% C08.src_node_proxy_as_modelled := C08.src_node_proxy_as_modelled
theorem C07.dep_C08_symbol_cluster_as_modelled : type_of% C08.src_symbol_cluster_as_modelled := C08.src_symbol_cluster_as_modelled
