/-
C05 – regenerated tie over Generated/C05LayerFuncs.lean (extract/funcs.go): for every source file the models of this
property were transcribed from, the outline of EVERY function of that file – regenerated from /repo on every run –
equals the transcript frozen here (bin/freeze_outlines.py, repo 68af5b4, 2026-10-01). A theorem that stops checking
names the file whose code is no longer the code that was modelled; bin/check then searches for a failing input.
-/
import Uniflow.Generated.C05LayerFuncs

set_option maxRecDepth 16384 in
/-- pkg/port/listener.go as modelled: its declarations (in source order) and the outline of each -/
theorem C05.src_port_listener_as_modelled :
    Uniflow.Generated.C05LayerFuncs.o_port_listener_fn_ListenFunc = [
      "return &listener{accept: accept}"
    ] ∧
    Uniflow.Generated.C05LayerFuncs.o_port_listener_Listeners_Accept = [
      "wg := sync.WaitGroup{}",
      "for _, listener := range l",
      "  listener := listener",
      "  wg.Add(1)",
      "  go func#1()",
      "  func#1()",
      "    defer wg.Done()",
      "    listener.Accept(proc)",
      "wg.Wait()"
    ] ∧
    Uniflow.Generated.C05LayerFuncs.o_port_listener_listener_Accept = [
      "l.accept(proc)"
    ] ∧
    Uniflow.Generated.C05LayerFuncs.names_port_listener = ["fn.ListenFunc", "Listeners.Accept", "listener.Accept"] := by
  decide

set_option maxRecDepth 16384 in
/-- pkg/port/openhook.go as modelled: its declarations (in source order) and the outline of each -/
theorem C05.src_port_openhook_as_modelled :
    Uniflow.Generated.C05LayerFuncs.o_port_openhook_fn_OpenHookFunc = [
      "return &openHook{open: open}"
    ] ∧
    Uniflow.Generated.C05LayerFuncs.o_port_openhook_OpenHooks_Open = [
      "for i := len(h) - 1; i >= 0; i--",
      "  hook := h[i]",
      "  hook.Open(proc)"
    ] ∧
    Uniflow.Generated.C05LayerFuncs.o_port_openhook_openHook_Open = [
      "h.open(proc)"
    ] ∧
    Uniflow.Generated.C05LayerFuncs.names_port_openhook = ["fn.OpenHookFunc", "OpenHooks.Open", "openHook.Open"] := by
  decide

set_option maxRecDepth 16384 in
/-- pkg/port/closehook.go as modelled: its declarations (in source order) and the outline of each -/
theorem C05.src_port_closehook_as_modelled :
    Uniflow.Generated.C05LayerFuncs.o_port_closehook_fn_CloseHookFunc = [
      "return &closeHook{close: fn}"
    ] ∧
    Uniflow.Generated.C05LayerFuncs.o_port_closehook_CloseHooks_Close = [
      "for i := len(h) - 1; i >= 0; i--",
      "  hook := h[i]",
      "  hook.Close()"
    ] ∧
    Uniflow.Generated.C05LayerFuncs.o_port_closehook_closeHook_Close = [
      "h.close()"
    ] ∧
    Uniflow.Generated.C05LayerFuncs.names_port_closehook = ["fn.CloseHookFunc", "CloseHooks.Close", "closeHook.Close"] := by
  decide

set_option maxRecDepth 16384 in
/-- pkg/process/storehook.go as modelled: its declarations (in source order) and the outline of each -/
theorem C05.src_process_storehook_as_modelled :
    Uniflow.Generated.C05LayerFuncs.o_process_storehook_fn_StoreFunc = [
      "return &storeHook[T]{store: store}"
    ] ∧
    Uniflow.Generated.C05LayerFuncs.o_process_storehook_StoreHooks_Store = [
      "for _, hook := range h",
      "  hook.Store(val)"
    ] ∧
    Uniflow.Generated.C05LayerFuncs.o_process_storehook_storeHook_Store = [
      "h.store(val)"
    ] ∧
    Uniflow.Generated.C05LayerFuncs.names_process_storehook = ["fn.StoreFunc", "StoreHooks.Store", "storeHook.Store"] := by
  decide

