/-
C14 – value equality, ordering and hashing obey their algebraic laws.

Statement (properties.jsonl): over all values the engine can represent, equality is reflexive,
symmetric and transitive; comparison is a total preorder consistent with it (Compare(a,b) =
-Compare(b,a), transitive, zero whenever the values are equal); equal values have equal hashes; and
none of these results changes during a value's lifetime.

The theorems are about `Uniflow.Value.{equal, cmp, hash}` (Model/Value.lean), the transcription of
`types.Equal / Compare / HashOf` **after** the repairs

  f595884  floats follow cmp.Compare (NaN = NaN, NaN least, -0 = +0), hash over a canonical pattern
  092dcb9  map Equal/Compare compare the pairs in Range order and accept either map view

On the pinned tree the laws were false (corpus/C14/*.ops are the witnesses; the harness oracle finds
them when the fixes are reverted): `Equal(NaN,NaN) = false`, `Compare(NaN,x) = 0` for all x,
`Equal(+0,-0)` with different hashes, `Compare({"a":1},{"b":1}) = Compare({"b":1},{"a":1}) = +1`,
`Equal(mutable,immutable) ≠ Equal(immutable,mutable)`.

All theorems quantify over **every** `Val` – any nesting depth, any size, and also values that are not
well formed (`Val.wf`: integers outside their width, bytes ≥ 256, float patterns ≥ 2^32/2^64, maps whose
pair list is not in Range order); in particular they hold for every well-formed value, which are the
values Go can represent. No theorem needs `wf` as a hypothesis.

"None of these results changes during a value's lifetime" is immediate here (`equal`, `cmp`, `hash` are
functions of the value); on the Go side it is the stability part of the harness oracle
(re-evaluation on the same objects after deriving and mutating other values).
-/
import Uniflow.Proofs.Value

open Uniflow.Value

/-- `Compare(a,b) = -Compare(b,a)` for all values. -/
theorem C14.cmp_antisymm (a b : Val) : cmp a b = -cmp b a :=
  Uniflow.Value.cmp_antisymm a b

/-- `Compare` only ever answers -1, 0 or +1. -/
theorem C14.cmp_range (a b : Val) : cmp a b = -1 ∨ cmp a b = 0 ∨ cmp a b = 1 :=
  Uniflow.Value.cmp_range a b

/-- `Compare(a,a) = 0`. -/
theorem C14.cmp_refl (a : Val) : cmp a a = 0 := by
  have := Uniflow.Value.cmp_antisymm a a; omega

/-- Transitivity of `≤`: `Compare(a,b) ≤ 0` and `Compare(b,c) ≤ 0` give `Compare(a,c) ≤ 0`. -/
theorem C14.cmp_trans (a b c : Val) : cmp a b ≤ 0 → cmp b c ≤ 0 → cmp a c ≤ 0 :=
  (cmp_T3 a b c).1

/-- Strictness propagates: `a < b ≤ c` and `a ≤ b < c` both give `a < c`. -/
theorem C14.cmp_trans_strict (a b c : Val) :
    (cmp a b < 0 → cmp b c ≤ 0 → cmp a c < 0) ∧ (cmp a b ≤ 0 → cmp b c < 0 → cmp a c < 0) :=
  (cmp_T3 a b c).2

/-- The preorder is total. -/
theorem C14.cmp_total (a b : Val) : cmp a b ≤ 0 ∨ cmp b a ≤ 0 := by
  have := Uniflow.Value.cmp_antisymm a b; omega

/-- `Equal(a,b)` exactly when `Compare(a,b) = 0` (the statement asks for `→`; the converse holds too). -/
theorem C14.equal_iff_cmp_zero (a b : Val) : equal a b = true ↔ cmp a b = 0 :=
  (cmp_zero_iff_equal a b).symm

/-- `Equal(a,a)`. -/
theorem C14.equal_refl (a : Val) : equal a a = true :=
  (C14.equal_iff_cmp_zero a a).mpr (C14.cmp_refl a)

/-- `Equal(a,b) = Equal(b,a)`. -/
theorem C14.equal_symm (a b : Val) : equal a b = equal b a := by
  have h1 := C14.equal_iff_cmp_zero a b
  have h2 := C14.equal_iff_cmp_zero b a
  have := Uniflow.Value.cmp_antisymm a b
  cases hab : equal a b <;> cases hba : equal b a <;> simp_all <;> omega

/-- `Equal(a,b)` and `Equal(b,c)` give `Equal(a,c)`. -/
theorem C14.equal_trans (a b c : Val) : equal a b = true → equal b c = true → equal a c = true := by
  intro hab hbc
  rw [C14.equal_iff_cmp_zero] at *
  have t1 := C14.cmp_trans a b c
  have t2 := C14.cmp_trans c b a
  have := Uniflow.Value.cmp_antisymm a b
  have := Uniflow.Value.cmp_antisymm b c
  have := Uniflow.Value.cmp_antisymm a c
  omega

/-- Equal values have equal hashes. -/
theorem C14.equal_hash (a b : Val) : equal a b = true → hash a = hash b :=
  Uniflow.Value.equal_hash a b

/-- Values of different kinds are ordered by the Go `Kind` enumeration (Generated/Kinds.lean); nil is least. -/
theorem C14.cross_kind (a b : Val) (h : a.rank < b.rank) : cmp a b = -1 := by
  rw [cmp_cross (Nat.ne_of_lt h)]; exact cmpNat_lt h

/-! ### Non-vacuity: the hypotheses are met by non-trivial values -/

/-- three NaNs with different payloads and signs are pairwise Equal -/
theorem C14.equal_trans_nonvacuous :
    ∃ a b c : Val, equal a b = true ∧ equal b c = true ∧ a ≠ b ∧ b ≠ c ∧ a ≠ c :=
  ⟨.f64 9221120237041090561, .f64 18444492273895866368, .f64 9218868437227405313,
   by decide, by decide, by simp, by simp, by simp⟩

/-- NaN < -Inf < -0 inside one kind -/
theorem C14.cmp_trans_nonvacuous :
    ∃ a b c : Val, cmp a b < 0 ∧ cmp b c < 0 ∧ a.rank = b.rank ∧ b.rank = c.rank :=
  ⟨.f64 9221120237041090561, .f64 18442240474082181120, .f64 9223372036854775808, by decide, by decide, rfl, rfl⟩

/-- `+0` and `-0` (different bit patterns) are Equal, so `equal_hash` says something about them -/
theorem C14.equal_hash_nonvacuous :
    equal (.f64 0) (.f64 9223372036854775808) = true ∧ (Val.f64 0) ≠ .f64 9223372036854775808 :=
  ⟨by decide, by simp⟩
