/-
C14 – regenerated tie over Generated/ValueFuncs.lean (extract/funcs.go): for every source file the models of this
property were transcribed from, the outline of EVERY function of that file – regenerated from /repo on every run –
equals the transcript frozen here (bin/freeze_outlines.py, repo 7f54b88, 2026-10-01). A theorem that stops checking
names the file whose code is no longer the code that was modelled; bin/check then searches for a failing input.
-/
import Uniflow.Generated.ValueFuncs

set_option maxRecDepth 16384 in
/-- pkg/types/uinteger.go as modelled (part 1 of 2): its declarations (in source order) and the outline of each -/
theorem C14.src_types_uinteger_as_modelled_1 :
    Uniflow.Generated.ValueFuncs.o_types_uinteger_fn_NewUint = [
      "return Uint{value: value}"
    ] ∧
    Uniflow.Generated.ValueFuncs.o_types_uinteger_Uint_Uint = [
      "return uint64(u.value)"
    ] ∧
    Uniflow.Generated.ValueFuncs.o_types_uinteger_Uint_Kind = [
      "return KindUint"
    ] ∧
    Uniflow.Generated.ValueFuncs.o_types_uinteger_Uint_Hash = [
      "h := fnv.New64a()",
      "h.Write((*[unsafe.Sizeof(u.value)]byte)(unsafe.Pointer(&u.value))[:])",
      "return h.Sum64()"
    ] ∧
    Uniflow.Generated.ValueFuncs.o_types_uinteger_Uint_Interface = [
      "return u.value"
    ] ∧
    Uniflow.Generated.ValueFuncs.o_types_uinteger_Uint_Equal = [
      "if o, ok := other.(Uint); ok",
      "  return u.value == o.value",
      "return false"
    ] ∧
    Uniflow.Generated.ValueFuncs.o_types_uinteger_Uint_Compare = [
      "if o, ok := other.(Uint); ok",
      "  return compare(u.value, o.value)",
      "return compare(u.Kind(), KindOf(other))"
    ] ∧
    Uniflow.Generated.ValueFuncs.o_types_uinteger_fn_NewUint8 = [
      "return Uint8{value: value}"
    ] ∧
    Uniflow.Generated.ValueFuncs.o_types_uinteger_Uint8_Uint = [
      "return uint64(u.value)"
    ] ∧
    Uniflow.Generated.ValueFuncs.o_types_uinteger_Uint8_Kind = [
      "return KindUint8"
    ] ∧
    Uniflow.Generated.ValueFuncs.o_types_uinteger_Uint8_Hash = [
      "h := fnv.New64a()",
      "h.Write((*[1]byte)(unsafe.Pointer(&u.value))[:])",
      "return h.Sum64()"
    ] ∧
    Uniflow.Generated.ValueFuncs.o_types_uinteger_Uint8_Interface = [
      "return u.value"
    ] ∧
    Uniflow.Generated.ValueFuncs.o_types_uinteger_Uint8_Equal = [
      "if o, ok := other.(Uint8); ok",
      "  return u.value == o.value",
      "return false"
    ] ∧
    Uniflow.Generated.ValueFuncs.o_types_uinteger_Uint8_Compare = [
      "if o, ok := other.(Uint8); ok",
      "  return compare(u.value, o.value)",
      "return compare(u.Kind(), KindOf(other))"
    ] ∧
    Uniflow.Generated.ValueFuncs.o_types_uinteger_fn_NewUint16 = [
      "return Uint16{value: value}"
    ] ∧
    Uniflow.Generated.ValueFuncs.o_types_uinteger_Uint16_Uint = [
      "return uint64(u.value)"
    ] ∧
    Uniflow.Generated.ValueFuncs.o_types_uinteger_Uint16_Kind = [
      "return KindUint16"
    ] ∧
    Uniflow.Generated.ValueFuncs.o_types_uinteger_Uint16_Hash = [
      "h := fnv.New64a()",
      "h.Write((*[2]byte)(unsafe.Pointer(&u.value))[:])",
      "return h.Sum64()"
    ] ∧
    Uniflow.Generated.ValueFuncs.o_types_uinteger_Uint16_Interface = [
      "return u.value"
    ] ∧
    Uniflow.Generated.ValueFuncs.o_types_uinteger_Uint16_Equal = [
      "if o, ok := other.(Uint16); ok",
      "  return u.value == o.value",
      "return false"
    ] ∧
    Uniflow.Generated.ValueFuncs.o_types_uinteger_Uint16_Compare = [
      "if o, ok := other.(Uint16); ok",
      "  return compare(u.value, o.value)",
      "return compare(u.Kind(), KindOf(other))"
    ] ∧
    Uniflow.Generated.ValueFuncs.o_types_uinteger_fn_NewUint32 = [
      "return Uint32{value: value}"
    ] ∧
    Uniflow.Generated.ValueFuncs.o_types_uinteger_Uint32_Uint = [
      "return uint64(u.value)"
    ] ∧
    Uniflow.Generated.ValueFuncs.o_types_uinteger_Uint32_Kind = [
      "return KindUint32"
    ] ∧
    Uniflow.Generated.ValueFuncs.o_types_uinteger_Uint32_Hash = [
      "h := fnv.New64a()",
      "h.Write((*[4]byte)(unsafe.Pointer(&u.value))[:])",
      "return h.Sum64()"
    ] ∧
    Uniflow.Generated.ValueFuncs.o_types_uinteger_Uint32_Interface = [
      "return u.value"
    ] := by
  decide

set_option maxRecDepth 16384 in
/-- pkg/types/value.go as modelled: its declarations (in source order) and the outline of each -/
theorem C14.src_types_value_as_modelled :
    Uniflow.Generated.ValueFuncs.o_types_value_fn_Cast = [
      "var v T",
      "for _, err := range errs",
      "  if err != nil",
      "    return v, err",
      "return v, Unmarshal(val, &v)"
    ] ∧
    Uniflow.Generated.ValueFuncs.o_types_value_fn_Lookup = [
      "cur := val",
      "for _, path := range paths",
      "  switch v := cur.(type)",
      "    case Map",
      "      p, err := Marshal(path)",
      "      if err != nil",
      "        return nil",
      "      cur = v.Get(p)",
      "    case Slice",
      "      p, ok := path.(int)",
      "      if !ok",
      "        return nil",
      "      cur = v.Get(p)",
      "    default",
      "      return nil",
      "return cur"
    ] ∧
    Uniflow.Generated.ValueFuncs.o_types_value_fn_KindOf = [
      "if v == nil",
      "  return KindUnknown",
      "return v.Kind()"
    ] ∧
    Uniflow.Generated.ValueFuncs.o_types_value_fn_TypeOf = [
      "return types[kind]"
    ] ∧
    Uniflow.Generated.ValueFuncs.o_types_value_fn_HashOf = [
      "if v == nil",
      "  return 0",
      "return v.Hash()"
    ] ∧
    Uniflow.Generated.ValueFuncs.o_types_value_fn_InterfaceOf = [
      "if v == nil",
      "  return nil",
      "return v.Interface()"
    ] ∧
    Uniflow.Generated.ValueFuncs.o_types_value_fn_Equal = [
      "if x == nil && y == nil",
      "  return true",
      "if x == nil || y == nil",
      "  return false",
      "return x.Equal(y)"
    ] ∧
    Uniflow.Generated.ValueFuncs.o_types_value_fn_Compare = [
      "if x == nil && y == nil",
      "  return 0",
      "if x == nil",
      "  return -1",
      "if y == nil",
      "  return 1",
      "return x.Compare(y)"
    ] ∧
    Uniflow.Generated.ValueFuncs.o_types_value_fn_compare = [
      "return cmp.Compare(x, y)"
    ] ∧
    Uniflow.Generated.ValueFuncs.o_types_value_fn_unionType = [
      "if x == nil",
      "  return y",
      "else",
      "  if y == nil",
      "    return x",
      "  else",
      "    if x == y",
      "      return x",
      "return types[KindUnknown]"
    ] ∧
    Uniflow.Generated.ValueFuncs.names_types_value = ["fn.Cast", "fn.Lookup", "fn.KindOf", "fn.TypeOf", "fn.HashOf", "fn.InterfaceOf", "fn.Equal", "fn.Compare", "fn.compare", "fn.unionType"] := by
  decide

set_option maxRecDepth 16384 in
/-- pkg/types/float.go as modelled: its declarations (in source order) and the outline of each -/
theorem C14.src_types_float_as_modelled :
    Uniflow.Generated.ValueFuncs.o_types_float_fn_NewFloat32 = [
      "return Float32{value: value}"
    ] ∧
    Uniflow.Generated.ValueFuncs.o_types_float_Float32_Float = [
      "return float64(f.value)"
    ] ∧
    Uniflow.Generated.ValueFuncs.o_types_float_Float32_Kind = [
      "return KindFloat32"
    ] ∧
    Uniflow.Generated.ValueFuncs.o_types_float_Float32_Hash = [
      "value := f.value",
      "if value != value",
      "  value = math.Float32frombits(0x7FC00000)",
      "else",
      "  if value == 0",
      "    value = 0",
      "h := fnv.New64a()",
      "h.Write((*[4]byte)(unsafe.Pointer(&value))[:])",
      "return h.Sum64()"
    ] ∧
    Uniflow.Generated.ValueFuncs.o_types_float_Float32_Interface = [
      "return f.value"
    ] ∧
    Uniflow.Generated.ValueFuncs.o_types_float_Float32_Equal = [
      "if o, ok := other.(Float32); ok",
      "  return compare(f.value, o.value) == 0",
      "return false"
    ] ∧
    Uniflow.Generated.ValueFuncs.o_types_float_Float32_Compare = [
      "if o, ok := other.(Float32); ok",
      "  return compare(f.value, o.value)",
      "return compare(f.Kind(), KindOf(other))"
    ] ∧
    Uniflow.Generated.ValueFuncs.o_types_float_fn_NewFloat64 = [
      "return Float64{value: value}"
    ] ∧
    Uniflow.Generated.ValueFuncs.o_types_float_Float64_Float = [
      "return f.value"
    ] ∧
    Uniflow.Generated.ValueFuncs.o_types_float_Float64_Kind = [
      "return KindFloat64"
    ] ∧
    Uniflow.Generated.ValueFuncs.o_types_float_Float64_Hash = [
      "value := f.value",
      "if value != value",
      "  value = math.Float64frombits(0x7FF8000000000001)",
      "else",
      "  if value == 0",
      "    value = 0",
      "h := fnv.New64a()",
      "h.Write((*[8]byte)(unsafe.Pointer(&value))[:])",
      "return h.Sum64()"
    ] ∧
    Uniflow.Generated.ValueFuncs.o_types_float_Float64_Interface = [
      "return f.value"
    ] ∧
    Uniflow.Generated.ValueFuncs.o_types_float_Float64_Equal = [
      "if o, ok := other.(Float64); ok",
      "  return compare(f.value, o.value) == 0",
      "return false"
    ] ∧
    Uniflow.Generated.ValueFuncs.o_types_float_Float64_Compare = [
      "if o, ok := other.(Float64); ok",
      "  return compare(f.value, o.value)",
      "return compare(f.Kind(), KindOf(other))"
    ] ∧
    Uniflow.Generated.ValueFuncs.names_types_float = ["fn.NewFloat32", "Float32.Float", "Float32.Kind", "Float32.Hash", "Float32.Interface", "Float32.Equal", "Float32.Compare", "fn.NewFloat64", "Float64.Float", "Float64.Kind", "Float64.Hash", "Float64.Interface", "Float64.Equal", "Float64.Compare"] := by
  decide

set_option maxRecDepth 16384 in
/-- pkg/types/integer.go as modelled (part 2 of 2): its declarations (in source order) and the outline of each -/
theorem C14.src_types_integer_as_modelled_2 :
    Uniflow.Generated.ValueFuncs.o_types_integer_Int32_Equal = [
      "if o, ok := other.(Int32); ok",
      "  return i.value == o.value",
      "return false"
    ] ∧
    Uniflow.Generated.ValueFuncs.o_types_integer_Int32_Compare = [
      "if o, ok := other.(Int32); ok",
      "  return compare(i.value, o.value)",
      "return compare(i.Kind(), KindOf(other))"
    ] ∧
    Uniflow.Generated.ValueFuncs.o_types_integer_fn_NewInt64 = [
      "return Int64{value: value}"
    ] ∧
    Uniflow.Generated.ValueFuncs.o_types_integer_Int64_Int = [
      "return i.value"
    ] ∧
    Uniflow.Generated.ValueFuncs.o_types_integer_Int64_Kind = [
      "return KindInt64"
    ] ∧
    Uniflow.Generated.ValueFuncs.o_types_integer_Int64_Hash = [
      "h := fnv.New64a()",
      "h.Write((*[8]byte)(unsafe.Pointer(&i.value))[:])",
      "return h.Sum64()"
    ] ∧
    Uniflow.Generated.ValueFuncs.o_types_integer_Int64_Interface = [
      "return i.value"
    ] ∧
    Uniflow.Generated.ValueFuncs.o_types_integer_Int64_Equal = [
      "if o, ok := other.(Int64); ok",
      "  return i.value == o.value",
      "return false"
    ] ∧
    Uniflow.Generated.ValueFuncs.o_types_integer_Int64_Compare = [
      "if o, ok := other.(Int64); ok",
      "  return compare(i.value, o.value)",
      "return compare(i.Kind(), KindOf(other))"
    ] ∧
    Uniflow.Generated.ValueFuncs.names_types_integer = ["fn.NewInt", "Int.Int", "Int.Kind", "Int.Hash", "Int.Interface", "Int.Equal", "Int.Compare", "fn.NewInt8", "Int8.Int", "Int8.Kind", "Int8.Hash", "Int8.Interface", "Int8.Equal", "Int8.Compare", "fn.NewInt16", "Int16.Int", "Int16.Kind", "Int16.Hash", "Int16.Interface", "Int16.Equal", "Int16.Compare", "fn.NewInt32", "Int32.Int", "Int32.Kind", "Int32.Hash", "Int32.Interface", "Int32.Equal", "Int32.Compare", "fn.NewInt64", "Int64.Int", "Int64.Kind", "Int64.Hash", "Int64.Interface", "Int64.Equal", "Int64.Compare"] := by
  decide

set_option maxRecDepth 16384 in
/-- pkg/types/boolean.go as modelled: its declarations (in source order) and the outline of each -/
theorem C14.src_types_boolean_as_modelled :
    Uniflow.Generated.ValueFuncs.o_types_boolean_fn_NewBoolean = [
      "if value",
      "  return True",
      "return False"
    ] ∧
    Uniflow.Generated.ValueFuncs.o_types_boolean_Boolean_Bool = [
      "return b.value"
    ] ∧
    Uniflow.Generated.ValueFuncs.o_types_boolean_Boolean_Kind = [
      "return KindBoolean"
    ] ∧
    Uniflow.Generated.ValueFuncs.o_types_boolean_Boolean_Hash = [
      "h := fnv.New64a()",
      "var value byte",
      "if b.value",
      "  value = 1",
      "h.Write([]byte{value})",
      "return h.Sum64()"
    ] ∧
    Uniflow.Generated.ValueFuncs.o_types_boolean_Boolean_Interface = [
      "return b.value"
    ] ∧
    Uniflow.Generated.ValueFuncs.o_types_boolean_Boolean_Equal = [
      "if o, ok := other.(Boolean); ok",
      "  return b.value == o.value",
      "return false"
    ] ∧
    Uniflow.Generated.ValueFuncs.o_types_boolean_Boolean_Compare = [
      "if o, ok := other.(Boolean); ok",
      "  if b.value == o.value",
      "    return 0",
      "  if b.value",
      "    return 1",
      "  return -1",
      "return compare(b.Kind(), KindOf(other))"
    ] ∧
    Uniflow.Generated.ValueFuncs.names_types_boolean = ["fn.NewBoolean", "Boolean.Bool", "Boolean.Kind", "Boolean.Hash", "Boolean.Interface", "Boolean.Equal", "Boolean.Compare"] := by
  decide

set_option maxRecDepth 16384 in
/-- pkg/types/error.go as modelled: its declarations (in source order) and the outline of each -/
theorem C14.src_types_error_as_modelled :
    Uniflow.Generated.ValueFuncs.o_types_error_fn_NewError = [
      "return &_error{value: value}"
    ] ∧
    Uniflow.Generated.ValueFuncs.o_types_error_Error_Error = [
      "return e.value.Error()"
    ] ∧
    Uniflow.Generated.ValueFuncs.o_types_error_Error_Unwrap = [
      "return e.value"
    ] ∧
    Uniflow.Generated.ValueFuncs.o_types_error_Error_Kind = [
      "return KindError"
    ] ∧
    Uniflow.Generated.ValueFuncs.o_types_error_Error_Hash = [
      "h := fnv.New64a()",
      "_, _ = h.Write([]byte(e.value.Error()))",
      "return h.Sum64()"
    ] ∧
    Uniflow.Generated.ValueFuncs.o_types_error_Error_Interface = [
      "return e.value"
    ] ∧
    Uniflow.Generated.ValueFuncs.o_types_error_Error_Equal = [
      "if o, ok := other.(Error); ok",
      "  return e.value.Error() == o.value.Error()",
      "return false"
    ] ∧
    Uniflow.Generated.ValueFuncs.o_types_error_Error_Compare = [
      "if o, ok := other.(Error); ok",
      "  return compare(e.Error(), o.Error())",
      "return compare(e.Kind(), KindOf(other))"
    ] ∧
    Uniflow.Generated.ValueFuncs.names_types_error = ["fn.NewError", "Error.Error", "Error.Unwrap", "Error.Kind", "Error.Hash", "Error.Interface", "Error.Equal", "Error.Compare"] := by
  decide

set_option maxRecDepth 16384 in
/-- pkg/types/slice.go as modelled (part 2 of 2): its declarations (in source order) and the outline of each -/
theorem C14.src_types_slice_as_modelled_2 :
    Uniflow.Generated.ValueFuncs.o_types_slice_Slice_Equal = [
      "if o, ok := other.(Slice); ok",
      "  if s.Hash() != o.Hash()",
      "    return false",
      "  if len(s.value) == len(o.value)",
      "    for i := 0; i < len(s.value); i++",
      "      v1 := s.value[i]",
      "      v2 := o.value[i]",
      "      if !Equal(v1, v2)",
      "        return false",
      "    return true",
      "return false"
    ] ∧
    Uniflow.Generated.ValueFuncs.o_types_slice_Slice_Compare = [
      "if o, ok := other.(Slice); ok",
      "  length := min(len(s.value), len(o.value))",
      "  for i := 0; i < length; i++",
      "    v1 := s.value[i]",
      "    v2 := o.value[i]",
      "    if c := Compare(v1, v2); c != 0",
      "      return c",
      "  return compare(len(s.value), len(o.value))",
      "return compare(s.Kind(), KindOf(other))"
    ] ∧
    Uniflow.Generated.ValueFuncs.names_types_slice = ["fn.NewSlice", "Slice.Prepend", "Slice.Append", "Slice.Sub", "Slice.Get", "Slice.Set", "Slice.Values", "Slice.Range", "Slice.Len", "Slice.Slice", "Slice.Kind", "Slice.Hash", "Slice.Interface", "Slice.Equal", "Slice.Compare"] := by
  decide

