/-
C12 – regenerated tie over Generated/StoreFuncs.lean (extract/funcs.go): the outline of EVERY function of the source
files named below – regenerated from /repo on every run – equals the transcript frozen here (bin/freeze_all.py, repo 7f54b88,
2026-10-01). A theorem that stops checking names the file whose code is no longer the code that was modelled; bin/check then
searches for a failing input.
-/
import Uniflow.Generated.StoreFuncs

set_option maxRecDepth 16384 in
/-- pkg/store/segment.go as modelled (part 1 of 3): its declarations (in source order) and the outline of each -/
theorem C12.src_store_segment_as_modelled_1 :
    Uniflow.Generated.StoreFuncs.o_store_segment_entry_Less = [
      "return types.Compare(e.key, than.(*entry).key) < 0"
    ] ∧
    Uniflow.Generated.StoreFuncs.o_store_segment_node_Less = [
      "return types.Compare(n.key, than.(*node).key) < 0"
    ] ∧
    Uniflow.Generated.StoreFuncs.o_store_segment_fn_newSegment = [
      "s := &segment{ entries: btree.NewG[*entry](2, func#1), }",
      "func#1(x, y *entry) bool",
      "  return types.Compare(x.key, y.key) < 0",
      "_ = s.Index(&index{Keys: []types.String{types.NewString(\"id\")}, Unique: true})",
      "return s"
    ] ∧
    Uniflow.Generated.StoreFuncs.o_store_segment_segment_Index = [
      "s.mu.Lock()",
      "defer s.mu.Unlock()",
      "for i := 0; i < len(s.indexes); i++",
      "  if s.indexes[i] == idx",
      "    return nil",
      "idx.nodes = btree.NewG[*node](2, func#1)",
      "func#1(x, y *node) bool",
      "  return types.Compare(x.key, y.key) < 0",
      "s.indexes = append(s.indexes, idx)",
      "var err error",
      "s.entries.Ascend(func#2)",
      "func#2(e *entry) bool",
      "  err = s.index(idx, e.value)",
      "  return err == nil",
      "if err != nil",
      "  s.indexes = s.indexes[:len(s.indexes)-1]",
      "  idx.nodes = nil",
      "return err"
    ] ∧
    Uniflow.Generated.StoreFuncs.o_store_segment_segment_Unindex = [
      "s.mu.Lock()",
      "defer s.mu.Unlock()",
      "for i := 0; i < len(s.indexes); i++",
      "  if s.indexes[i] == idx",
      "    s.indexes = append(s.indexes[:i], s.indexes[i+1:]...)",
      "    return nil",
      "return nil"
    ] ∧
    Uniflow.Generated.StoreFuncs.o_store_segment_segment_Indexes = [
      "s.mu.RLock()",
      "defer s.mu.RUnlock()",
      "indexes := make([]*index, 0, len(s.indexes))",
      "for i := 0; i < len(s.indexes); i++",
      "  indexes = append(indexes, s.indexes[i])",
      "return indexes"
    ] ∧
    Uniflow.Generated.StoreFuncs.o_store_segment_segment_Store = [
      "s.mu.Lock()",
      "defer s.mu.Unlock()",
      "id := doc.Get(types.NewString(\"id\"))",
      "if id == nil",
      "  return errors.WithMessage(ErrKeyMissing, \"key: id\")",
      "if s.entries.Has(&entry{key: id})",
      "  return errors.WithMessagef(ErrKeyDuplicate, \"key: %v\", id.Interface())",
      "for _, idx := range s.indexes",
      "  if err := s.conflict(idx, doc); err != nil",
      "    return err",
      "s.entries.ReplaceOrInsert(&entry{key: id, value: doc})",
      "for _, idx := range s.indexes",
      "  if err := s.index(idx, doc); err != nil",
      "    return err",
      "return nil"
    ] ∧
    Uniflow.Generated.StoreFuncs.o_store_segment_segment_Swap = [
      "s.mu.Lock()",
      "defer s.mu.Unlock()",
      "id := doc.Get(types.NewString(\"id\"))",
      "if id == nil",
      "  return errors.WithMessage(ErrKeyMissing, \"key: id\")",
      "old, ok := s.entries.Get(&entry{key: id})",
      "if !ok",
      "  return errors.WithMessagef(ErrKeyNotFound, \"key: %v\", id.Interface())",
      "for _, idx := range s.indexes",
      "  if err := s.conflict(idx, doc); err != nil",
      "    return err",
      "s.entries.ReplaceOrInsert(&entry{key: id, value: doc})",
      "for _, idx := range s.indexes",
      "  if err := s.unindex(idx, old.value); err != nil",
      "    return err",
      "  if err := s.index(idx, doc); err != nil",
      "    return err",
      "return nil"
    ] ∧
    Uniflow.Generated.StoreFuncs.o_store_segment_segment_Delete = [
      "s.mu.Lock()",
      "defer s.mu.Unlock()",
      "l, ok := s.entries.Delete(&entry{key: id})",
      "if !ok",
      "  return errors.WithMessagef(ErrKeyNotFound, \"key: %v\", id.Interface())",
      "for _, idx := range s.indexes",
      "  if err := s.unindex(idx, l.value); err != nil",
      "    return err",
      "return nil"
    ] := by
  decide

set_option maxRecDepth 16384 in
/-- pkg/store/segment.go as modelled (part 2 of 3): its declarations (in source order) and the outline of each -/
theorem C12.src_store_segment_as_modelled_2 :
    Uniflow.Generated.StoreFuncs.o_store_segment_segment_Load = [
      "s.mu.RLock()",
      "defer s.mu.RUnlock()",
      "l, ok := s.entries.Get(&entry{key: id})",
      "if !ok",
      "  return nil, errors.WithMessagef(ErrKeyNotFound, \"key: %v\", id)",
      "return l.value, nil"
    ] ∧
    Uniflow.Generated.StoreFuncs.o_store_segment_segment_Scan = [
      "sctn := &section{ entries: s.entries, indexes: s.indexes, mu: &s.mu, }",
      "return sctn.Scan(key, min, max)"
    ] ∧
    Uniflow.Generated.StoreFuncs.o_store_segment_segment_Range = [
      "return func#1",
      "func#1(yield func(key types.Value, doc types.Map) bool)",
      "  s.mu.RLock()",
      "  defer s.mu.RUnlock()",
      "  s.entries.Ascend(func#2)",
      "  func#2(e *entry) bool",
      "    return yield(e.key, e.value)"
    ] ∧
    Uniflow.Generated.StoreFuncs.o_store_segment_segment_conflict = [
      "if !idx.Unique || (idx.Filter != nil && !idx.Filter(doc))",
      "  return nil",
      "id := doc.Get(types.NewString(\"id\"))",
      "var val types.Value",
      "curr := idx.nodes",
      "for _, key := range idx.Keys",
      "  val = doc.Get(key)",
      "  next, ok := curr.Get(&node{key: val})",
      "  if !ok",
      "    return nil",
      "  curr = next.value",
      "var err error",
      "curr.Ascend(func#1)",
      "func#1(n *node) bool",
      "  if types.Compare(n.key, id) != 0",
      "    err = errors.WithMessagef(ErrKeyDuplicate, \"key: %v\", types.InterfaceOf(val))",
      "  return err == nil",
      "return err"
    ] ∧
    Uniflow.Generated.StoreFuncs.o_store_segment_segment_index = [
      "id := doc.Get(types.NewString(\"id\"))",
      "if id == nil",
      "  return errors.WithMessage(ErrKeyMissing, \"key: id\")",
      "if idx.Filter != nil && !idx.Filter(doc)",
      "  return nil",
      "curr := idx.nodes",
      "for i, key := range idx.Keys",
      "  val := doc.Get(key)",
      "  next, ok := curr.Get(&node{key: val})",
      "  if !ok",
      "    next = &node{ key: val, value: btree.NewG[*node](2, func#1), }",
      "    func#1(x, y *node) bool",
      "      return types.Compare(x.key, y.key) < 0",
      "    curr.ReplaceOrInsert(next)",
      "  if i == len(idx.Keys)-1",
      "    if idx.Unique && next.value.Len() > 0",
      "      return errors.WithMessagef(ErrKeyDuplicate, \"key: %v\", types.InterfaceOf(val))",
      "    next.value.ReplaceOrInsert(&node{key: id})",
      "    continue",
      "  curr = next.value",
      "return nil"
    ] ∧
    Uniflow.Generated.StoreFuncs.o_store_segment_segment_unindex = [
      "id := doc.Get(types.NewString(\"id\"))",
      "if id == nil",
      "  return errors.WithMessage(ErrKeyMissing, \"key: id\")",
      "curr := idx.nodes",
      "nodes := []*node{{value: curr}}",
      "for i, key := range idx.Keys",
      "  val := doc.Get(key)",
      "  next, ok := curr.Get(&node{key: val})",
      "  if !ok",
      "    break",
      "  if i == len(idx.Keys)-1",
      "    next.value.Delete(&node{key: id})",
      "  curr = next.value",
      "  nodes = append(nodes, next)",
      "for i := len(nodes) - 1; i >= 1; i--",
      "  curr := nodes[i]",
      "  if curr.value.Len() == 0",
      "    parent := nodes[i-1]",
      "    parent.value.Delete(curr)",
      "return nil"
    ] := by
  decide

set_option maxRecDepth 16384 in
/-- pkg/store/segment.go as modelled (part 3 of 3): its declarations (in source order) and the outline of each -/
theorem C12.src_store_segment_as_modelled_3 :
    Uniflow.Generated.StoreFuncs.o_store_segment_section_Scan = [
      "s.mu.RLock()",
      "defer s.mu.RUnlock()",
      "var indexes []*index",
      "for _, idx := range s.indexes",
      "  if len(idx.Keys) == 0 || idx.Keys[0] != key",
      "    continue",
      "  if max != nil",
      "    idx.nodes.DescendLessOrEqual(&node{key: max}, func#1)",
      "    func#1(n *node) bool",
      "      if min != nil && types.Compare(n.key, min) < 0",
      "        return false",
      "      indexes = append(indexes, &index{ Keys: idx.Keys[1:], nodes: n.value, })",
      "      return true",
      "  else",
      "    idx.nodes.AscendGreaterOrEqual(&node{key: min}, func#2)",
      "    func#2(n *node) bool",
      "      if max != nil && types.Compare(n.key, max) > 0",
      "        return false",
      "      indexes = append(indexes, &index{ Keys: idx.Keys[1:], nodes: n.value, })",
      "      return true",
      "return &section{ entries: s.entries, indexes: indexes, mu: s.mu, }"
    ] ∧
    Uniflow.Generated.StoreFuncs.o_store_segment_section_Range = [
      "s.mu.RLock()",
      "defer s.mu.RUnlock()",
      "var indexes []*index",
      "curr := s.indexes",
      "for",
      "  var next []*index",
      "  for _, idx := range curr",
      "    if len(idx.Keys) == 0",
      "      indexes = append(indexes, idx)",
      "      continue",
      "    idx.nodes.Ascend(func#1)",
      "    func#1(n *node) bool",
      "      next = append(next, &index{ Keys: idx.Keys[1:], nodes: n.value, })",
      "      return true",
      "  if len(next) == 0",
      "    break",
      "  curr = next",
      "entries := btree.NewG[*entry](2, func#2)",
      "func#2(x, y *entry) bool",
      "  return types.Compare(x.key, y.key) < 0",
      "for _, idx := range indexes",
      "  idx.nodes.Ascend(func#3)",
      "  func#3(n *node) bool",
      "    e, _ := s.entries.Get(&entry{key: n.key})",
      "    entries.ReplaceOrInsert(e)",
      "    return true",
      "return func#4",
      "func#4(yield func(key types.Value, doc types.Map) bool)",
      "  entries.Ascend(func#5)",
      "  func#5(e *entry) bool",
      "    return yield(e.key, e.value)"
    ] ∧
    Uniflow.Generated.StoreFuncs.names_store_segment = ["entry.Less", "node.Less", "fn.newSegment", "segment.Index", "segment.Unindex", "segment.Indexes", "segment.Store", "segment.Swap", "segment.Delete", "segment.Load", "segment.Scan", "segment.Range", "segment.conflict", "segment.index", "segment.unindex", "section.Scan", "section.Range"] := by
  decide

