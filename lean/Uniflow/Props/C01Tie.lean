/-
C01 – theorems that tie the model's assumptions to fact tables regenerated from the
repository's source on every run (extract/main.go). Kept apart from C01.lean so that the
property theorems and these obligations can be maintained independently.
-/
import Uniflow.Generated.Locks

/-! ## Step granularity tied to the source

The writer/reader machine takes every public method of `packet.Writer` and `packet.Reader` as ONE
critical section. `Generated/Locks.lean` is regenerated from writer.go / reader.go on every run. -/
open Uniflow.Generated.Locks in
theorem C01.atomic_sections :
    (acquireSites.filter (fun a => a.1 == "packet.Writer" || a.1 == "packet.Reader")).all (fun a => a.2.2.2 == 1) = true ∧
    acquireSites.contains ("packet.Writer", "Write", "mu", 1) = true ∧
    acquireSites.contains ("packet.Writer", "receive", "mu", 1) = true ∧
    acquireSites.contains ("packet.Reader", "Receive", "mu", 1) = true ∧
    acquireSites.contains ("packet.Reader", "Close", "mu", 1) = true := by
  decide
