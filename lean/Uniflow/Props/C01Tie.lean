/-
C01 – theorems that tie the model's assumptions to fact tables regenerated from the
repository's source on every run (extract/main.go). Kept apart from C01.lean so that the
property theorems and these obligations can be maintained independently.

Three regenerated tables:
* Generated/Locks       – step granularity (`C01.atomic_sections`, `C01.reader_queue_writers`);
* Generated/JoinFacts   – the decision structure of `packet.Join` (extract/join.go). `C01.join_facts_as_modelled`
  pins it; `C01.join_as_modelled` *interprets* the rows (the if-chains as comparisons on lengths, the loop as the two
  filters) and proves that the interpretation is the model's `join` for every input;
* Generated/WriterFacts – writer.go / reader.go (extract/writer.go): outlines of the functions the model follows, and
  the loops / guards / pops it transcribes 1:1 as flat data. The `…_facts` theorems pin the data, the `…_as_modelled`
  theorems read the data (a `for` as a loop with fuel, `s[i]`/`s = s[lo:]` as `getElem?`/`drop`, a `range` without
  continue/break/return as "every element") and prove that the reading is the model's step.
-/
import Uniflow.Generated.Locks
import Uniflow.Generated.JoinFacts
import Uniflow.Generated.WriterFacts
import Uniflow.Model.Writer
import Uniflow.Model.Pump

/-! ## Step granularity tied to the source

The writer/reader machine takes every public method of `packet.Writer` and `packet.Reader` as ONE
critical section. `Generated/Locks.lean` is regenerated from writer.go / reader.go on every run. -/
open Uniflow.Generated.Locks in
theorem C01.atomic_sections :
    (acquireSites.filter (fun a => a.1 == "packet.Writer" || a.1 == "packet.Reader")).all (fun a => a.2.2.2 == 1) = true ∧
    acquireSites.contains ("packet.Writer", "Write", "mu", 1) = true ∧
    acquireSites.contains ("packet.Writer", "receive", "mu", 1) = true ∧
    acquireSites.contains ("packet.Reader", "Receive", "mu", 1) = true ∧
    acquireSites.contains ("packet.Reader", "Close", "mu", 1) = true := by
  decide

open Uniflow.Writer

/-! ## `packet.Join` -/

namespace C01
/-- `len(x) OP n` on a length -/
def cmpHolds (op : String) (len n : Nat) : Option Bool :=
  if op = "==" then some (len == n)
  else if op = "!=" then some (len != n)
  else if op = ">" then some (decide (len > n))
  else if op = ">=" then some (decide (len ≥ n))
  else if op = "<" then some (decide (len < n))
  else if op = "<=" then some (decide (len ≤ n))
  else none

/-- The expressions `Join` returns, as the model reads them. `errs` holds one entry per erroring packet: the
leaves of `payload.Unwrap()` (one for a plain error, several for a joined one); `errors.Join(errs...)` keeps every
member, so the response's error – read as a flat list of leaves, which is its message line by line – is their
concatenation. -/
def joinResult (expr : String) (pcks : List Ans) (errs : List (List Nat)) (vals : List Nat) : Option Resp :=
  if expr = "None" then some .none
  else if expr = "pcks[0]" then pcks.head?.map Resp.ofAns
  else if expr = "New(types.NewError(errors.Join(errs...)))" then some (.err errs.flatten)
  else if expr = "New(payloads[0])" then vals.head?.map .val
  else if expr = "New(types.NewSlice(payloads...))" then some (.vals vals)
  else none

def joinLen (operand : String) (pcks : List Ans) (errs : List (List Nat)) (vals : List Nat) : Option Nat :=
  if operand = "pcks" then some pcks.length
  else if operand = "errs" then some errs.length
  else if operand = "payloads" then some vals.length
  else none

inductive Chain where
  | ret (r : Resp)   -- a branch was taken
  | fall             -- no branch taken
  | bad              -- a row the interpretation does not understand
  deriving DecidableEq, Repr

def joinChain (pcks : List Ans) (errs : List (List Nat)) (vals : List Nat) : List (String × String × Nat × String) → Chain
  | [] => .fall
  | (operand, op, n, expr) :: rest =>
    if op = "" then (match joinResult expr pcks errs vals with | some r => .ret r | none => .bad)
    else match joinLen operand pcks errs vals with
      | none => .bad
      | some len =>
        match cmpHolds op len n with
        | none => .bad
        | some true => (match joinResult expr pcks errs vals with | some r => .ret r | none => .bad)
        | some false => joinChain pcks errs vals rest

/-- What the loop of `Join` collects -/
def joinCollect (skipCond skipAction tag : String) (cases : List (String × String)) (pcks : List Ans) :
    Option (List (List Nat) × List Nat) :=
  if skipCond = "pck == nil || pck == None" ∧ skipAction = "continue" ∧ tag = "payload := pck.Payload().(type)" ∧
     cases = [("types.Error", "errs = append(errs, payload.Unwrap())"), ("default", "payloads = append(payloads, payload)")]
  then some (pcks.filterMap errOf, pcks.filterMap valOf) else none

open Uniflow.Generated.JoinFacts in
def joinByFacts (pcks : List Ans) : Option Resp :=
  match joinChain pcks [] [] pre with
  | .ret r => some r
  | .bad => none
  | .fall =>
    if loops ≠ 1 ∨ loopRange ≠ "pcks" ∨ loopVars ≠ "_,pck" ∨ afterLoop ≠ [] then none else
    match joinCollect skipCond skipAction switchTag switchCases pcks with
    | none => none
    | some (errs, vals) =>
      match joinChain pcks errs vals post with
      | .ret r => some r
      | _ => none
end C01

open Uniflow.Generated.JoinFacts in
theorem C01.join_facts_as_modelled :
    pre = [("pcks", "==", 0, "None"), ("pcks", "==", 1, "pcks[0]")] ∧
    beforeLoop = ["var errs []error", "var payloads []types.Value"] ∧
    loops = 1 ∧ loopRange = "pcks" ∧ loopVars = "_,pck" ∧
    skipCond = "pck == nil || pck == None" ∧ skipAction = "continue" ∧
    switchTag = "payload := pck.Payload().(type)" ∧
    switchCases = [("types.Error", "errs = append(errs, payload.Unwrap())"), ("default", "payloads = append(payloads, payload)")] ∧
    afterLoop = [] ∧
    post = [("errs", ">", 0, "New(types.NewError(errors.Join(errs...)))"), ("payloads", "==", 0, "None"),
            ("payloads", "==", 1, "New(payloads[0])"), ("", "", 0, "New(types.NewSlice(payloads...))")] := by
  decide

theorem C01.join_as_modelled (pcks : List Ans) : C01.joinByFacts pcks = some (join pcks) := by
  obtain ⟨h1, _, h3, h4, h5, h6, h7, h8, h9, h10, h11⟩ := C01.join_facts_as_modelled
  unfold C01.joinByFacts
  rw [h1, h3, h4, h5, h6, h7, h8, h9, h10, h11]
  match pcks with
  | [] => simp [C01.joinChain, C01.joinLen, C01.cmpHolds, C01.joinResult, join]
  | [a] => simp [C01.joinChain, C01.joinLen, C01.cmpHolds, C01.joinResult, join]
  | a :: b :: rest =>
    have hj : join (a :: b :: rest) =
        (if (a :: b :: rest).filterMap errOf ≠ [] then Resp.err ((a :: b :: rest).filterMap errOf).flatten
         else match (a :: b :: rest).filterMap valOf with
           | [] => .none
           | [v] => .val v
           | vs => .vals vs) := rfl
    rw [hj]
    have hc : ∀ l : List Ans, C01.joinCollect "pck == nil || pck == None" "continue" "payload := pck.Payload().(type)"
        [("types.Error", "errs = append(errs, payload.Unwrap())"), ("default", "payloads = append(payloads, payload)")] l =
        some (l.filterMap errOf, l.filterMap valOf) := by
      intro l; simp [C01.joinCollect]
    rw [hc]
    have hg : ((1 : Nat) ≠ 1 ∨ "pcks" ≠ "pcks" ∨ "_,pck" ≠ "_,pck" ∨ ([] : List String) ≠ []) = False := by simp
    simp only [hg, if_false]
    generalize (a :: b :: rest).filterMap errOf = es
    generalize (a :: b :: rest).filterMap valOf = vs
    have hp : C01.joinChain (a :: b :: rest) [] [] [("pcks", "==", 0, "None"), ("pcks", "==", 1, "pcks[0]")] = .fall := by
      simp [C01.joinChain, C01.joinLen, C01.cmpHolds]
    rw [hp]
    match es, vs with
    | e :: es', _ => simp [C01.joinChain, C01.joinLen, C01.cmpHolds, C01.joinResult]
    | [], [] => simp [C01.joinChain, C01.joinLen, C01.cmpHolds, C01.joinResult]
    | [], [v] => simp [C01.joinChain, C01.joinLen, C01.cmpHolds, C01.joinResult]
    | [], v :: v' :: vs' => simp [C01.joinChain, C01.joinLen, C01.cmpHolds, C01.joinResult]

theorem C01.join_by_facts_nonvacuous :
    C01.joinByFacts [.val 1, .none, .val 2] = some (.vals [1, 2]) ∧
    C01.joinByFacts [.val 1, .err 7, .none, .err 0] = some (.err [7, 0]) ∧
    C01.joinByFacts [.err 0, .val 1, .errs [5, 6], .err 9] = some (.err [0, 5, 6, 9]) ∧
    C01.joinByFacts [.none, .none] = some .none := by
  decide

/-! ## generic reading of a pinned loop -/
namespace C01
/-- A Go `for cond { body }` (kind "for") – or, were the statement an `if cond { body }`, one conditional
execution (kind "if") – run with fuel; `none`: out of fuel or an unknown kind. -/
def runLoop {σ : Type} (kind : String) (cond : σ → Bool) (body : σ → σ) : Nat → σ → Option σ
  | 0, s => if cond s then none else some s
  | n + 1, s =>
    if !cond s then some s
    else if kind = "for" then runLoop kind cond body n (body s)
    else if kind = "if" then some (body s)
    else none

/-- `len(w.receives) > 0 && !slices.Contains(w.receives[i], nil)` with `i` the extracted index -/
def flushCond (i : Nat) (s : List Row × List Resp) : Bool :=
  decide (s.1.length > 0) && (match s.1[i]? with | some row => !hasNil row | none => false)

/-- `pck := joinAccepted(w.receives[i]); w.receives = w.receives[lo:]; …; w.in <- pck`
(`joinAccepted` itself is read from its own facts below: `C01.join_accepted_as_modelled`) -/
def flushBody (i lo : Nat) (s : List Row × List Resp) : List Row × List Resp :=
  match s.1[i]? with
  | some row => (s.1.drop lo, s.2 ++ [respOf row])
  | none => s

theorem runLoop_flush (rows : List Row) : ∀ (n : Nat) (acc : List Resp), rows.length ≤ n →
    runLoop "for" (flushCond 0) (flushBody 0 1) n (rows, acc) =
      some ((flush rows).1, acc ++ (flush rows).2) := by
  induction rows with
  | nil => intro n acc _; cases n <;> simp [runLoop, flushCond, flush]
  | cons row rest ih =>
    intro n acc hn
    cases n with
    | zero => simp at hn
    | succ n =>
      by_cases h : hasNil row
      · simp [runLoop, flushCond, flush, h]
      · simp [runLoop, flushCond, flush, h, flushBody]
        rw [ih n _ (by simpa using hn)]
        simp
end C01

open Uniflow.Generated.WriterFacts

/-! ## `joinAccepted`: the response to a complete row -/

/-- `joinAccepted` as its extracted facts read: the range loop keeps a cell exactly under the extracted condition
(`pck != refused`: the `refused` marker of a reader that did not accept the write is dropped, every answer is
kept), the early exit answers with `New(ErrDroppedPacket)` when nothing was kept, otherwise the kept packets are
`Join`ed. `none`: a shape this reading does not understand. -/
def C01.joinAcceptedByFacts (cells : List Fill) : Option Resp :=
  if joinAcceptedLoop.kind = "range" ∧ joinAcceptedLoop.header = "receives" ∧ joinAcceptedLoop.vars = "_,pck" ∧
     joinAcceptedLoop.hasContinue = false ∧ joinAcceptedLoop.hasBreak = false ∧ joinAcceptedLoop.hasReturn = false then
    let kept : Option (List Ans) :=
      if joinAcceptedLoop.body = ["if pck != refused", "  pcks = append(pcks, pck)"] then some (cells.filterMap id)
      else if joinAcceptedLoop.body = ["pcks = append(pcks, pck)"] then some (cells.map fun c => c.getD Ans.none)
      else none
    match kept with
    | none => none
    | some pcks =>
      if joinAcceptedGuards = [("len(pcks) == 0", "return New(ErrDroppedPacket)")] ∧
         joinAcceptedHeads.getLast? = some "return Join(pcks...)" then
        some (if pcks.length = 0 then Resp.dropped else join pcks)
      else if joinAcceptedGuards = [] ∧ joinAcceptedHeads.getLast? = some "return Join(pcks...)" then some (join pcks)
      else none
  else none

theorem C01.join_accepted_facts :
    outline_joinAccepted = [
      "pcks := make([]*Packet, 0, len(receives))",
      "for _, pck := range receives",
      "  if pck != refused",
      "    pcks = append(pcks, pck)",
      "if len(pcks) == 0",
      "  return New(ErrDroppedPacket)",
      "return Join(pcks...)"] ∧
    joinAcceptedHeads = ["pcks := make([]*Packet, 0, len(receives))", "for _, pck := range receives",
      "if len(pcks) == 0", "return Join(pcks...)"] ∧
    joinAcceptedLoop = ⟨"range", "receives", "_,pck", false, false, false,
      ["if pck != refused", "  pcks = append(pcks, pck)"]⟩ ∧
    joinAcceptedGuards = [("len(pcks) == 0", "return New(ErrDroppedPacket)")] := by
  decide

/-- `joinAccepted` applied to a complete row (no nil cell) is the model's `respOf`: `refused` cells are filtered
out, nothing left ⇒ `dropped`, otherwise `Join` of the answers. -/
theorem C01.join_accepted_as_modelled (row : Row) :
    C01.joinAcceptedByFacts (row.filterMap id) = some (respOf row) := by
  have h1 : joinAcceptedLoop = ⟨"range", "receives", "_,pck", false, false, false,
      ["if pck != refused", "  pcks = append(pcks, pck)"]⟩ := by decide
  have h2 : joinAcceptedGuards = [("len(pcks) == 0", "return New(ErrDroppedPacket)")] := by decide
  have h3 : joinAcceptedHeads.getLast? = some "return Join(pcks...)" := by decide
  simp only [C01.joinAcceptedByFacts, h1, h2, h3, and_self, if_true, respOf, accepted]
  have key : ∀ x : List Ans, (if x.length = 0 then Resp.dropped else join x) =
      (if x.isEmpty = true then Resp.dropped else join x) := by
    intro x; cases x <;> simp
  exact congrArg some (key _)

/-- non-vacuity: a row whose remaining cells are all `refused` is answered `dropped`, a `None` answer is not. -/
theorem C01.join_accepted_nonvacuous :
    C01.joinAcceptedByFacts [none] = some Resp.dropped ∧ C01.joinAcceptedByFacts [some Ans.none] = some Resp.none ∧
    C01.joinAcceptedByFacts [none, some (.val 3)] = some (Resp.val 3) := by
  decide

/-- `receive` flushes in a LOOP -/
theorem C01.receive_flush_facts :
    receiveFlushGuard = "head == 0" ∧
    receiveFlushLoop = ⟨"for", "len(w.receives) > 0 && !slices.Contains(w.receives[0], nil)", "", false, false, false,
      ["pck := joinAccepted(w.receives[0])", "w.receives = w.receives[1:]", "w.writes = w.writes[1:]",
       "w.inbounds.Handle(pck)", "w.in <- pck"]⟩ ∧
    receiveFlushPop = ⟨0, 1, false, []⟩ := by
  decide

theorem C01.receive_flush_as_modelled (rows : List Row) :
    C01.runLoop receiveFlushLoop.kind (C01.flushCond receiveFlushPop.index)
      (C01.flushBody receiveFlushPop.index receiveFlushPop.low) rows.length (rows, []) = some (flush rows) := by
  have hk : receiveFlushLoop.kind = "for" := by decide
  have hi : receiveFlushPop.index = 0 := by decide
  have hl : receiveFlushPop.low = 1 := by decide
  rw [hk, hi, hl]
  simpa using C01.runLoop_flush rows rows.length [] (Nat.le_refl _)

/-! ## Write -/

/-- The cell `Write` leaves for a reader: `receives` is `make`d all nil; the else-branch of `if r.write(…)` runs for
a reader that refused: the marker `refused` (or, as the code once did, the `None` packet – which the flush cannot
tell from an accepting reader's `None` answer). `none`: a branch this reading does not understand. -/
def C01.writeCell (elseB : List String) (refused : Bool) : Option Cell :=
  if !refused then some none
  else if elseB = ["receives[i] = refused"] then some (some none)
  else if elseB = ["receives[i] = None"] then some (some (some Ans.none))
  else if elseB = [] then some none
  else none

theorem C01.write_facts :
    -- third guard (fix 6f38a18): no linked reader is open ⇒ return 0 before the outbound hooks; for the
    -- model this is the write with no accepting reader: no row, count 0 – `write_row_as_modelled` below
    writeGuards = [("w.done", "return 0"), ("len(w.readers) == 0", "return 0"), ("!w.accepting()", "return 0")] ∧
    writeLoop = ⟨"range", "w.readers", "i,r", false, false, false,
      ["if r.write(New(pck.Payload()), w, w.links[i], w.written)", "  count++", "else", "  receives[i] = refused"]⟩ ∧
    writeAccepted = "r.write(New(pck.Payload()), w, w.links[i], w.written)" ∧
    writeThen = ["count++"] ∧ writeElse = ["receives[i] = refused"] ∧
    writeAppendGuard = ("count", ">", 0) ∧
    writeAppendBody = ["w.receives = append(w.receives, receives)", "w.writes = append(w.writes, w.written)", "w.written++"] := by
  decide

/-- `Write` as the facts read: every refused reader's cell is what the else-branch assigns, the row is appended
exactly when the extracted guard holds of the number of accepting readers (`count`), and that number is returned –
this is the model's `write` step. -/
theorem C01.write_row_as_modelled (m : W) (v : Nat) (hd : m.done = false) (hr : m.readers.isEmpty = false)
    (hl : ¬ m.links.length < m.readers.length) :
    (m.readers.map fun r => C01.writeCell writeElse (m.closed r)) = (newRow m.closed m.readers).map some ∧
    (step m (.write v)).1.rows =
      (if C01.cmpHolds writeAppendGuard.2.1 (accepting m.closed m.readers).length writeAppendGuard.2.2 = some true
       then m.rows ++ [newRow m.closed m.readers] else m.rows) ∧
    (step m (.write v)).2.ret = .cnt (accepting m.closed m.readers).length := by
  have h5 : writeElse = ["receives[i] = refused"] := by decide
  have h6 : writeAppendGuard = ("count", ">", 0) := by decide
  rw [h5, h6]
  refine ⟨?_, ?_, ?_⟩
  · simp only [newRow, List.map_map]
    apply List.map_congr_left
    intro r _
    cases h : m.closed r <;> simp [C01.writeCell, h]
  · simp only [step, stepWith, hd, hr, hl]
    by_cases h : (accepting m.closed m.readers).length > 0 <;> simp [C01.cmpHolds, h]
  · simp only [step, stepWith, hd, hr, hl]
    by_cases h : (accepting m.closed m.readers).length > 0
    · simp [h]
    · simp [h]; omega

/-! ## ranges that visit every element -/

/-- The elements for which the whole body of a `for … range xs` runs: all of them, in order, when the loop has no
`continue`, `break` or `return`. -/
def C01.rangeVisits {α : Type} (l : Loop) (xs : List α) : Option (List α) :=
  if l.kind = "range" ∧ l.hasContinue = false ∧ l.hasBreak = false ∧ l.hasReturn = false then some xs else none

theorem C01.close_facts :
    closeHeads = ["w.mu.Lock()", "defer w.mu.Unlock()", "if w.done", "pck := New(ErrDroppedPacket)", "for range w.receives",
      "close(w.in)", "w.done = true", "w.readers = nil", "w.links = nil", "w.receives = nil", "w.writes = nil", "w.inbounds = nil", "w.outbounds = nil"] ∧
    closeLoop = ⟨"range", "w.receives", "", false, false, false, ["w.inbounds.Handle(pck)", "w.in <- pck"]⟩ ∧
    readerCloseHeads = ["r.mu.Lock()", "defer r.mu.Unlock()", "if r.done", "pck := New(ErrDroppedPacket)",
      "for _, req := range r.writers", "close(r.in)", "r.done = true", "r.writers = nil", "r.inbounds = nil", "r.outbounds = nil"] ∧
    readerCloseLoop = ⟨"range", "r.writers", "_,req", false, false, false,
      ["r.outbounds.Handle(pck)", "go req.writer.receive(pck, r, req.link, req.write)"]⟩ := by
  decide

/-- `(*Writer).Close` pushes one dropped packet per pending row, `(*Reader).Close` spawns one
`go req.writer.receive(dropped, r, req.link)` per queued request – ALL of them, in queue order: the loops as extracted
visit every element, which is what the model's `closeW` / `closeR` steps do. -/
theorem C01.close_loops_as_modelled (m : W) :
    (m.done = false →
      (C01.rangeVisits closeLoop m.rows).map (·.map fun _ => Resp.dropped) = some (step m .closeW).2.emits) ∧
    (∀ r, m.closed r = false →
      C01.rangeVisits readerCloseLoop (m.pend r) = some ((step m (.closeR r)).1.drops r) ∧
      (step m (.closeR r)).2.ret = .cnt (m.pend r).length ∧ (step m (.closeR r)).1.pend r = []) := by
  have h2 : C01.rangeVisits closeLoop m.rows = some m.rows := by
    have : closeLoop.kind = "range" ∧ closeLoop.hasContinue = false ∧ closeLoop.hasBreak = false ∧ closeLoop.hasReturn = false := by decide
    simp [C01.rangeVisits, this]
  have h4 : ∀ r, C01.rangeVisits readerCloseLoop (m.pend r) = some (m.pend r) := by
    have : readerCloseLoop.kind = "range" ∧ readerCloseLoop.hasContinue = false ∧ readerCloseLoop.hasBreak = false ∧
        readerCloseLoop.hasReturn = false := by decide
    simp [C01.rangeVisits, this]
  rw [h2]
  refine ⟨fun hd => ?_, fun r hr => ?_⟩
  · simp [step, stepWith, hd]
  · rw [h4]; simp [step, stepWith, hr]

/-! ## FIFO queues: the pump's buffer and the reader's request queue -/

/-- Go's `x := s[i]` followed by `s = s[lo:]` on a list -/
def C01.popAt {α : Type} (i lo : Nat) (s : List α) : Option (α × List α) := (s[i]?).map fun a => (a, s.drop lo)

theorem C01.pump_facts :
    writerPumpHeads = ["defer close(w.out)", "buffer := make([]*Packet, 0, 2)", "for pck := range w.in"] ∧
    writerPumpSelects = [["w.out <- pck", "default"], ["pck, ok := <-w.in", "w.out <- buffer[0]"]] ∧
    writerPumpSend = "w.out <- buffer[0]" ∧ writerPumpAfterSend = ["buffer = buffer[1:]"] ∧
    writerPumpPop = ⟨0, 1, false, ["buffer := make([]*Packet, 0, 2)", "buffer = append(buffer, pck)", "buffer = append(buffer, pck)"]⟩ ∧
    readerPumpHeads = ["defer close(r.out)", "buffer := make([]*Packet, 0, 2)", "for pck := range r.in"] ∧
    readerPumpSelects = [["r.out <- pck", "default"], ["pck, ok := <-r.in", "r.out <- buffer[0]"]] ∧
    readerPumpSend = "r.out <- buffer[0]" ∧ readerPumpAfterSend = ["buffer = buffer[1:]"] ∧
    readerPumpPop = ⟨0, 1, false, ["buffer := make([]*Packet, 0, 2)", "buffer = append(buffer, pck)", "buffer = append(buffer, pck)"]⟩ := by
  decide

/-- The pump hands over `buffer[i]` and keeps `buffer[lo:]` with the extracted `i`, `lo`: that is the model's `deq`
(oldest first), for the writer's and for the reader's pump. -/
theorem C01.pump_fifo_as_modelled {α : Type} (p : Uniflow.Pump.P α) (a : α) (rest : List α) :
    (C01.popAt writerPumpPop.index writerPumpPop.low p.buf = some (a, rest) →
      Uniflow.Pump.step p .deq = { p with buf := rest, delivered := p.delivered ++ [a] }) ∧
    (C01.popAt readerPumpPop.index readerPumpPop.low p.buf = some (a, rest) →
      Uniflow.Pump.step p .deq = { p with buf := rest, delivered := p.delivered ++ [a] }) := by
  have h5 : writerPumpPop.index = 0 ∧ writerPumpPop.low = 1 := by decide
  have h10 : readerPumpPop.index = 0 ∧ readerPumpPop.low = 1 := by decide
  rw [h5.1, h5.2, h10.1, h10.2]
  have : C01.popAt 0 1 p.buf = some (a, rest) →
      Uniflow.Pump.step p .deq = { p with buf := rest, delivered := p.delivered ++ [a] } := by
    intro h
    cases hb : p.buf with
    | nil => simp [C01.popAt, hb] at h
    | cons x xs =>
      simp [C01.popAt, hb] at h
      simp [Uniflow.Pump.step, Uniflow.Pump.stepR, hb, h.1, h.2]
  exact ⟨this, this⟩

theorem C01.reader_queue_facts :
    readerWriteGuards = [("r.done", "return false")] ∧
    readerWriteHeads = ["r.mu.Lock()", "defer r.mu.Unlock()", "if r.done",
      "r.writers = append(r.writers, request{writer: writer, link: link, write: write})", "r.inbounds.Handle(pck)", "r.in <- pck", "return true"] ∧
    readerReceiveGuards = [("len(r.writers) == 0", "r.mu.Unlock(); return false")] ∧
    readerReceiveHeads = ["r.mu.Lock()", "if len(r.writers) == 0", "r.outbounds.Handle(pck)", "req := r.writers[0]",
      "r.writers = r.writers[1:]", "r.mu.Unlock()", "return req.writer.receive(pck, r, req.link, req.write)"] ∧
    readerReceivePop = ⟨0, 1, false, []⟩ := by
  decide

/-- `Reader.Receive` answers the request `r.writers[i]` and keeps `r.writers[lo:]` with the extracted `i`, `lo`:
the model's `answer` step (oldest request first, its link generation passed to `receive`). -/
theorem C01.reader_queue_as_modelled (m : W) (r : RId) (a : Ans) (g : Nat × Nat) (rest : List (Nat × Nat))
    (h : C01.popAt readerReceivePop.index readerReceivePop.low (m.pend r) = some (g, rest)) :
    step m (.answer r a) = receive { m with pend := fun x => if x = r then rest else m.pend x } a r g.1 g.2 ∧
    (step m (.pop r a)).1 = { m with pend := fun x => if x = r then rest else m.pend x,
                                     flight := fun x => if x = r then m.flight r ++ [(a, g.1, g.2)] else m.flight x } := by
  have hi : readerReceivePop.index = 0 ∧ readerReceivePop.low = 1 := by decide
  rw [hi.1, hi.2] at h
  cases hp : m.pend r with
  | nil => simp [C01.popAt, hp] at h
  | cons x xs =>
    simp [C01.popAt, hp] at h
    simp [step, stepWith, hp, h.1, h.2, receive]

/-- The window: `Reader.Receive` releases `r.mu` BEFORE it calls `(*Writer).receive` – between the two the reader's
other methods (in particular `Close`) can run, which is why the model has the answer as two steps (`pop`,
`deliver`) besides the atomic `answer`; the response carries the link generation and the number of its write. -/
theorem C01.reader_receive_window :
    readerReceiveHeads.idxOf "r.mu.Unlock()" < readerReceiveHeads.idxOf "return req.writer.receive(pck, r, req.link, req.write)" ∧
    readerReceiveHeads.idxOf "r.writers = r.writers[1:]" < readerReceiveHeads.idxOf "r.mu.Unlock()" ∧
    readerReceiveHeads.contains "return req.writer.receive(pck, r, req.link, req.write)" = true := by
  decide

/-- Only `write` (append), `Receive` (pop) and `Close` (hand over to the spawned goroutines, then nil) assign
`Reader.writers` – the three steps of the model that change `pend`. (From Generated/Locks.) -/
theorem C01.reader_queue_writers :
    ((Uniflow.Generated.Locks.accesses_packet_Reader.filter fun a => a.field == "writers" && a.write).map (·.meth))
      = ["Close", "Receive", "write"] := by
  decide

theorem C01.packet_methods_as_modelled :
    -- `accepting` (reads `readers`, asks each `Reader.closed`) and `closed` (reads `done`) are read-only helpers
    writerMethods = ["AddInboundHook", "AddOutboundHook", "Links", "Link", "Unlink", "Write", "Receive", "Close", "receive",
      "accepting", "indexOfReader", "indexOfHead"] ∧
    readerMethods = ["AddInboundHook", "AddOutboundHook", "Read", "Receive", "Close", "closed", "write"] := by
  decide

/-! ## `receive` / `Unlink` / `Link` and the helpers, by outline -/

theorem C01.receive_guards_as_modelled :
    receiveGuards = [("w.done", "return false"), ("index < 0 || w.links[index] != link", "return false"),
      ("head < 0", "return false")] ∧
    receiveHeads = ["defer verifReceive(w, reader, pck, link, write)()", "w.mu.Lock()", "defer w.mu.Unlock()", "if w.done",
      "index := w.indexOfReader(reader)", "if index < 0 || w.links[index] != link", "head := w.indexOfHead(index, write)",
      "if head < 0", "receives := w.receives[head]", "receives[index] = pck", "if head == 0", "return true"] := by
  decide

theorem C01.unlink_flush_facts :
    unlinkFlushGuard = "r == reader" ∧
    unlinkFlushLoop = ⟨"for", "len(w.receives) > 0 && !slices.Contains(w.receives[0], nil)", "", false, false, false,
      ["pck := joinAccepted(w.receives[0])", "w.receives = w.receives[1:]", "w.writes = w.writes[1:]",
       "w.inbounds.Handle(pck)", "w.in <- pck"]⟩ ∧
    unlinkFlushPop = ⟨0, 1, false, []⟩ := by
  decide

/-- `Unlink`'s flush is the same loop with the same body (`joinAccepted` answers a row that has no column – or no
accepting reader's column – left with `New(ErrDroppedPacket)`). -/
theorem C01.unlink_flush_as_modelled (rows : List Row) :
    C01.runLoop unlinkFlushLoop.kind (C01.flushCond unlinkFlushPop.index)
      (C01.flushBody unlinkFlushPop.index unlinkFlushPop.low) rows.length (rows, []) = some (flush rows) := by
  have hk : unlinkFlushLoop.kind = "for" := by decide
  have hi : unlinkFlushPop.index = 0 := by decide
  have hl : unlinkFlushPop.low = 1 := by decide
  rw [hk, hi, hl]
  simpa using C01.runLoop_flush rows rows.length [] (Nat.le_refl _)

instance : DecidableEq (List Row × List Resp) := inferInstance

/-- non-vacuity of the loop reading: three rows, the first two complete – the loop emits two responses and stops at
the row that still owes an answer; read as an `if` (the seeded change c01a) it would emit only one. -/
theorem C01.flush_loop_nonvacuous :
    C01.runLoop "for" (C01.flushCond 0) (C01.flushBody 0 1) 3
      (([[some (some (.val 1))], [some (some (.val 2))], [none]] : List Row), ([] : List Resp)) =
        some (([[none]] : List Row), [.val 1, .val 2]) ∧
    C01.runLoop "if" (C01.flushCond 0) (C01.flushBody 0 1) 3
      (([[some (some (.val 1))], [some (some (.val 2))], [none]] : List Row), ([] : List Resp)) =
        some (([[some (some (.val 2))], [none]] : List Row), [.val 1]) := by
  decide

/-- The functions the model follows statement by statement (`receiveWith`, `indexOf`, `indexOfHead`, the `link` and
`unlink` steps): their outlines are the ones transcribed. -/
theorem C01.receive_outline_as_modelled :
    outline_Writer_receive = [
      "defer verifReceive(w, reader, pck, link, write)()",
      "w.mu.Lock()",
      "defer w.mu.Unlock()",
      "if w.done",
      "  return false",
      "index := w.indexOfReader(reader)",
      "if index < 0 || w.links[index] != link",
      "  return false",
      "head := w.indexOfHead(index, write)",
      "if head < 0",
      "  return false",
      "receives := w.receives[head]",
      "receives[index] = pck",
      "if head == 0",
      "  for len(w.receives) > 0 && !slices.Contains(w.receives[0], nil)",
      "    pck := joinAccepted(w.receives[0])",
      "    w.receives = w.receives[1:]",
      "    w.writes = w.writes[1:]",
      "    w.inbounds.Handle(pck)",
      "    w.in <- pck",
      "return true"] ∧
    outline_Writer_indexOfReader = [
      "for i, r := range w.readers",
      "  if r == reader",
      "    return i",
      "return -1"] ∧
    outline_Writer_indexOfHead = [
      "for i, receives := range w.receives",
      "  if w.writes[i] != write || len(receives) <= index",
      "    continue",
      "  if receives[index] == nil",
      "    return i",
      "return -1"] := by
  decide

theorem C01.link_unlink_outline_as_modelled :
    outline_Writer_Link = [
      "w.mu.Lock()",
      "defer w.mu.Unlock()",
      "if w.done",
      "  return false",
      "for _, r := range w.readers",
      "  if r == reader",
      "    return false",
      "w.linked++",
      "w.readers = append(w.readers, reader)",
      "w.links = append(w.links, w.linked)",
      "return true"] ∧
    outline_Writer_Unlink = [
      "w.mu.Lock()",
      "defer w.mu.Unlock()",
      "if w.done",
      "  return false",
      "for i, r := range w.readers",
      "  if r == reader",
      "    w.readers = append(w.readers[:i], w.readers[i+1:]...)",
      "    w.links = append(w.links[:i], w.links[i+1:]...)",
      "    for j := range w.receives",
      "      if i < len(w.receives[j])",
      "        w.receives[j] = append(w.receives[j][:i], w.receives[j][i+1:]...)",
      "    for len(w.receives) > 0 && !slices.Contains(w.receives[0], nil)",
      "      pck := joinAccepted(w.receives[0])",
      "      w.receives = w.receives[1:]",
      "      w.writes = w.writes[1:]",
      "      w.inbounds.Handle(pck)",
      "      w.in <- pck",
      "    return true",
      "return false"] := by
  decide

/-- The pump goroutines: `range` over `in`, a non-blocking first hand-over, then the buffer loop whose receive clause
returns – discarding the buffer – when `in` is closed (Model/Pump rule `discard`), and `close(out)` deferred. -/
theorem C01.pump_outline_as_modelled :
    outline_NewWriter = [
      "w := &Writer{ in: make(chan *Packet), out: make(chan *Packet), }",
      "go func#1()",
      "func#1()",
      "  defer close(w.out)",
      "  buffer := make([]*Packet, 0, 2)",
      "  for pck := range w.in",
      "    select",
      "      case w.out <- pck",
      "      default",
      "        buffer = append(buffer, pck)",
      "        for len(buffer) > 0",
      "          select",
      "            case pck, ok := <-w.in",
      "              if !ok",
      "                return",
      "              buffer = append(buffer, pck)",
      "            case w.out <- buffer[0]",
      "              buffer = buffer[1:]",
      "return w"] ∧
    outline_NewReader = [
      "r := &Reader{ in: make(chan *Packet), out: make(chan *Packet), }",
      "go func#1()",
      "func#1()",
      "  defer close(r.out)",
      "  buffer := make([]*Packet, 0, 2)",
      "  for pck := range r.in",
      "    select",
      "      case r.out <- pck",
      "      default",
      "        buffer = append(buffer, pck)",
      "        for len(buffer) > 0",
      "          select",
      "            case pck, ok := <-r.in",
      "              if !ok",
      "                return",
      "              buffer = append(buffer, pck)",
      "            case r.out <- buffer[0]",
      "              buffer = buffer[1:]",
      "return r"] := by
  decide
