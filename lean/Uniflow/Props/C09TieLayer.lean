/-
C09 – regenerated tie over Generated/C09LayerFuncs.lean (extract/funcs.go): for every source file the models of this
property were transcribed from, the outline of EVERY function of that file – regenerated from /repo on every run –
equals the transcript frozen here (bin/freeze_outlines.py, repo 68af5b4, 2026-10-01). A theorem that stops checking
names the file whose code is no longer the code that was modelled; bin/check then searches for a failing input.
-/
import Uniflow.Generated.C09LayerFuncs

set_option maxRecDepth 16384 in
/-- pkg/scheme/builder.go as modelled: its declarations (in source order) and the outline of each -/
theorem C09.src_scheme_builder_as_modelled :
    Uniflow.Generated.C09LayerFuncs.o_scheme_builder_fn_NewBuilder = [
      "return registers"
    ] ∧
    Uniflow.Generated.C09LayerFuncs.o_scheme_builder_Builder_AddToScheme = [
      "for _, f := range *b",
      "  if err := f.AddToScheme(s); err != nil",
      "    return err",
      "return nil"
    ] ∧
    Uniflow.Generated.C09LayerFuncs.o_scheme_builder_Builder_Register = [
      "*b = append(*b, registers...)"
    ] ∧
    Uniflow.Generated.C09LayerFuncs.o_scheme_builder_Builder_Build = [
      "s := New()",
      "if err := b.AddToScheme(s); err != nil",
      "  return nil, err",
      "return s, nil"
    ] ∧
    Uniflow.Generated.C09LayerFuncs.names_scheme_builder = ["fn.NewBuilder", "Builder.AddToScheme", "Builder.Register", "Builder.Build"] := by
  decide

set_option maxRecDepth 16384 in
/-- pkg/store/source.go as modelled: its declarations (in source order) and the outline of each -/
theorem C09.src_store_source_as_modelled :
    Uniflow.Generated.C09LayerFuncs.o_store_source_fn_NewSource = [
      "return &source{stores: make(map[string]Store)}"
    ] ∧
    Uniflow.Generated.C09LayerFuncs.o_store_source_source_Open = [
      "s.mu.Lock()",
      "defer s.mu.Unlock()",
      "v, ok := s.stores[name]",
      "if !ok",
      "  v = New()",
      "  s.stores[name] = v",
      "return v, nil"
    ] ∧
    Uniflow.Generated.C09LayerFuncs.o_store_source_source_Close = [
      "s.mu.Lock()",
      "defer s.mu.Unlock()",
      "s.stores = make(map[string]Store)",
      "return nil"
    ] ∧
    Uniflow.Generated.C09LayerFuncs.names_store_source = ["fn.NewSource", "source.Open", "source.Close"] := by
  decide

set_option maxRecDepth 16384 in
/-- pkg/scheme/codec.go as modelled: its declarations (in source order) and the outline of each -/
theorem C09.src_scheme_codec_as_modelled :
    Uniflow.Generated.C09LayerFuncs.o_scheme_codec_fn_CodecFunc = [
      "return &codec{compile: compile}"
    ] ∧
    Uniflow.Generated.C09LayerFuncs.o_scheme_codec_fn_CodecWithType = [
      "return CodecFunc(func#1)",
      "func#1(spec spec.Spec) (node.Node, error)",
      "  if converted, ok := spec.(T); ok",
      "    return compile(converted)",
      "  return nil, errors.WithStack(encoding.ErrUnsupportedType)"
    ] ∧
    Uniflow.Generated.C09LayerFuncs.o_scheme_codec_codec_Compile = [
      "return c.compile(sp)"
    ] ∧
    Uniflow.Generated.C09LayerFuncs.names_scheme_codec = ["fn.CodecFunc", "fn.CodecWithType", "codec.Compile"] := by
  decide

set_option maxRecDepth 16384 in
/-- pkg/scheme/register.go as modelled: its declarations (in source order) and the outline of each -/
theorem C09.src_scheme_register_as_modelled :
    Uniflow.Generated.C09LayerFuncs.o_scheme_register_fn_RegisterFunc = [
      "return &register{addToScheme: addToScheme}"
    ] ∧
    Uniflow.Generated.C09LayerFuncs.o_scheme_register_register_AddToScheme = [
      "return r.addToScheme(s)"
    ] ∧
    Uniflow.Generated.C09LayerFuncs.names_scheme_register = ["fn.RegisterFunc", "register.AddToScheme"] := by
  decide

