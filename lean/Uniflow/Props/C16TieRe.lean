/-
C16 – re-statements of the function-outline ties of the files this property is anchored in and that are filed under another
property (bin/freeze_all.py): a source change there is reported for C16 as well.
-/
import Uniflow.Props.C09TieFn1

theorem C16.src_scheme_scheme_as_modelled : type_of% C09.src_scheme_scheme_as_modelled := C09.src_scheme_scheme_as_modelled
