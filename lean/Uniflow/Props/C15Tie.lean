/-
C15 – theorems that tie the model's assumptions to fact tables regenerated from the repository's
source on every run. Model/MapHeap.lean gives every derived map its own buckets ("copy on write");
in the Go code a derived map SHARES the bucket arrays with the map it was derived from, and the
model is faithful only as long as no method writes into a bucket. That fact is read off
pkg/types/map.go by /verif/extract (Generated/MapBuckets.lean) and decided in Props/C20.lean; it is
re-stated here because a violation changes the *sequential* behaviour C15 speaks about (the
snapshot follows later writes) as much as it is a data race (C20).
-/
import Uniflow.Props.C20

/-- Every bucket store of the map types stores a freshly allocated slice, and no bucket is written in place. -/
theorem C15.map_buckets_copied_on_write : type_of% C20.map_buckets_copied_on_write :=
  C20.map_buckets_copied_on_write

theorem C15.map_buckets_copied_on_write_nonvacuous : type_of% C20.map_buckets_copied_on_write_nonvacuous :=
  C20.map_buckets_copied_on_write_nonvacuous
