/-
C19 — observing a workflow with the debug agent never changes its answers; each recorded frame
pairs a packet that entered a symbol's port with the packet that answered it on that same port;
removing a breakpoint or closing the debugger resumes every packet it had paused.

Theorems about `Uniflow.Agent` (pkg/runtime/agent.go, repaired matching) and
`Uniflow.Breakpoint` (pkg/runtime/breakpoint.go, debugger.go).
-/
import Uniflow.Model.Agent
import Uniflow.Model.Breakpoint
import Uniflow.Proofs.Agent
import Uniflow.Proofs.Breakpoint

open Uniflow

/-! ## frames -/

namespace Uniflow.Agent

theorem upd_same (a : St) (p : Nat) (fs : List Frame) : upd a p fs p = fs := by simp [upd]
theorem upd_other (a : St) (p q : Nat) (fs : List Frame) (h : q ≠ p) : upd a p fs q = a q := by
  simp [upd, h]

/-- The column of every port is the padded zip of what its two hooks saw – from any state whose
column already is one. -/
theorem col_run (es : List Ev) (a : St) (p : Nat) (k : Key) (ins outs : List Nat)
    (h : col k (a p) = zipPad ins outs) :
    col k (run .fixed a es p) = zipPad (inbs p k es ins) (outbs p k es outs) := by
  induction es generalizing a ins outs with
  | nil => simpa [run, inbs, outbs] using h
  | cons e es ih =>
    cases e with
    | inb p' k' pck =>
      simp only [run, step, inbs, outbs]
      apply ih
      by_cases hp : p' = p
      · subst hp
        rw [upd_same]
        by_cases hk : k' = k
        · subst hk
          simp only [and_self, if_true]
          rw [col_inbound_same, h, fillIn_zipPad]
        · have : ¬ (p' = p' ∧ k' = k) := fun x => hk x.2
          rw [if_neg this, col_inbound_other k' k (fun e => hk e.symm), h]
      · have : ¬ (p' = p ∧ k' = k) := fun x => hp x.1
        rw [if_neg this, upd_other _ _ _ _ (fun e => hp e.symm), h]
    | outb p' k' pck =>
      simp only [run, step, inbs, outbs]
      apply ih
      by_cases hp : p' = p
      · subst hp
        rw [upd_same]
        by_cases hk : k' = k
        · subst hk
          simp only [and_self, if_true]
          rw [col_outbound_same, h, fillOut_zipPad]
        · have : ¬ (p' = p' ∧ k' = k) := fun x => hk x.2
          rw [if_neg this, col_outbound_other k' k (fun e => hk e.symm), h]
      · have : ¬ (p' = p ∧ k' = k) := fun x => hp x.1
        rw [if_neg this, upd_other _ _ _ _ (fun e => hp e.symm), h]
    | exit p' =>
      simp only [run, step, inbs, outbs]
      apply ih
      by_cases hp : p' = p
      · subst hp; simp [upd_same, col, zipPad, padOut]
      · rw [if_neg hp, if_neg hp, upd_other _ _ _ _ (fun e => hp e.symm), h]

theorem padOut_getElem? (outs : List Nat) (i : Nat) (x y : Option Nat)
    (h : (padOut outs)[i]? = some (x, y)) : x = none ∧ y = outs[i]? := by
  induction outs generalizing i with
  | nil => simp [padOut] at h
  | cons b bs ih =>
    cases i with
    | zero => simp [padOut] at h; simp [h.1.symm, h.2.symm]
    | succ i => simp only [padOut, List.getElem?_cons_succ] at h; simpa using ih i h

theorem zipPad_getElem? (ins outs : List Nat) (i : Nat) (x y : Option Nat)
    (h : (zipPad ins outs)[i]? = some (x, y)) : x = ins[i]? ∧ y = outs[i]? := by
  induction ins generalizing outs i with
  | nil => simpa [zipPad] using padOut_getElem? outs i x y (by simpa [zipPad] using h)
  | cons a as ih =>
    cases outs with
    | nil =>
      cases i with
      | zero => simp [zipPad] at h; simp [h.1.symm, h.2.symm]
      | succ i => simp only [zipPad, List.getElem?_cons_succ] at h; simpa using ih [] i h
    | cons b bs =>
      cases i with
      | zero => simp [zipPad] at h; simp [h.1.symm, h.2.symm]
      | succ i => simp only [zipPad, List.getElem?_cons_succ] at h; simpa using ih bs i h

theorem mem_col (k : Key) (f : Frame) (fs : List Frame) (hf : f ∈ fs) (hk : f.key = k) :
    (f.inPck, f.outPck) ∈ col k fs := by
  unfold col
  apply List.mem_map.mpr
  exact ⟨f, List.mem_filter.mpr ⟨hf, by simp [hk]⟩, rfl⟩

/-- The request / answer reading of a port's two hooks: on an in-port the request is what the
inbound hook saw (`Reader.write`) and the answer what the outbound hook saw (`Reader.Receive`);
on an out-port the request leaves through the outbound hook (`Writer.Write`) and the answer
returns through the inbound hook (`Writer.receive`). -/
def requests (p : Nat) (k : Key) (es : List Ev) : List Nat :=
  if k.inPort.isSome then inbs p k es [] else outbs p k es []

def answers (p : Nat) (k : Key) (es : List Ev) : List Nat :=
  if k.inPort.isSome then outbs p k es [] else inbs p k es []

def Frame.request (f : Frame) : Option Nat := if f.inPort.isSome then f.inPck else f.outPck
def Frame.answer (f : Frame) : Option Nat := if f.inPort.isSome then f.outPck else f.inPck

end Uniflow.Agent

open Uniflow.Agent in
/-- **Frames, exact form.** After any history of hook calls and process exits, the frames of any
port `k` of any process `p`, in list order, are exactly: the i-th packet the port's inbound hook
saw paired with the i-th packet the port's outbound hook saw (since the process last exited),
padded with nil where one side is still missing. No packet of another port, symbol or process
ever appears in them. -/
theorem C19.frame_columns (es : List Ev) (p : Nat) (k : Key) :
    col k (run .fixed St.init es p) = zipPad (inbs p k es []) (outbs p k es []) :=
  col_run es St.init p k [] [] (by simp [St.init, col, zipPad, padOut])

open Uniflow.Agent in
/-- **Frames pair request i with answer i of the same port.** Every frame recorded for process `p`
that holds both packets holds the i-th request and the i-th answer, for the same `i`, of the
frame's own port. -/
theorem C19.frame_pairs_index (es : List Ev) (p : Nat) (f : Frame) (x y : Nat)
    (hf : f ∈ run .fixed St.init es p) (hx : f.request = some x) (hy : f.answer = some y) :
    ∃ i : Nat, (requests p f.key es)[i]? = some x ∧ (answers p f.key es)[i]? = some y := by
  have hm := mem_col f.key f _ hf rfl
  rw [C19.frame_columns] at hm
  obtain ⟨i, hi⟩ := List.getElem?_of_mem hm
  obtain ⟨h1, h2⟩ := zipPad_getElem? _ _ i _ _ hi
  refine ⟨i, ?_⟩
  unfold requests answers
  unfold Frame.request at hx
  unfold Frame.answer at hy
  have hkey : f.key.inPort = f.inPort := rfl
  rw [hkey]
  cases hin : f.inPort.isSome
  · simp only [hin, Bool.false_eq_true, if_false] at hx hy ⊢
    exact ⟨by rw [← h2, hx], by rw [← h1, hy]⟩
  · simp only [hin, if_true] at hx hy ⊢
    exact ⟨by rw [← h1, hx], by rw [← h2, hy]⟩

open Uniflow.Agent in
/-- **C19, frames.** Take C01's contract as the hypothesis on the history: on every port the i-th
answer is the answer to the i-th request (`Answers` is that relation between packets). Then
every completed frame pairs a packet that entered one of the symbol's ports with the packet that
answered it on that same port. -/
theorem C19.frame_pairs (Answers : Key → Nat → Nat → Prop) (es : List Ev) (p : Nat)
    (fifo : ∀ (k : Key) (i x y : Nat), (requests p k es)[i]? = some x → (answers p k es)[i]? = some y → Answers k x y)
    (f : Frame) (x y : Nat) (hf : f ∈ run .fixed St.init es p)
    (hx : f.request = some x) (hy : f.answer = some y) :
    Answers f.key x y ∧ x ∈ requests p f.key es ∧ y ∈ answers p f.key es := by
  obtain ⟨i, h1, h2⟩ := C19.frame_pairs_index es p f x y hf hx hy
  exact ⟨fifo f.key i x y h1 h2, List.mem_of_getElem? h1, List.mem_of_getElem? h2⟩

namespace Uniflow.Agent
/-- A symbol (5) with two out-ports (0 = out, 1 = error) carrying interleaved traffic in process 1:
request 10 leaves on out, request 11 on error, the answer 21 to 11 comes back on error, then the
answer 20 to 10 on out. -/
def witness : List Ev :=
  [ .outb 1 ⟨5, none, some 0⟩ 10, .outb 1 ⟨5, none, some 1⟩ 11,
    .inb 1 ⟨5, none, some 1⟩ 21, .inb 1 ⟨5, none, some 0⟩ 20 ]
end Uniflow.Agent

open Uniflow.Agent in
/-- Non-vacuity of `C19.frame_pairs`: the witness history satisfies the FIFO hypothesis for
"answer = request + 10" and has completed frames on two ports. -/
theorem C19.frame_pairs_nonvacuous :
    (∀ (k : Key) (i x y : Nat), (requests 1 k witness)[i]? = some x → (answers 1 k witness)[i]? = some y →
        (fun (_ : Key) a b => b = a + 10) k x y) ∧
    run .fixed St.init witness 1 =
      [⟨5, none, some 0, some 20, some 10⟩, ⟨5, none, some 1, some 21, some 11⟩] := by
  refine ⟨?_, by decide⟩
  intro k i x y h1 h2
  simp only [requests, answers, witness, inbs, outbs] at h1 h2
  by_cases h0 : k = ⟨5, none, some 0⟩
  · subst h0
    simp at h1 h2
    cases i with
    | zero => simp at h1 h2; omega
    | succ i => simp at h1
  · by_cases hk1 : k = ⟨5, none, some 1⟩
    · subst hk1
      simp at h1 h2
      cases i with
      | zero => simp at h1 h2; omega
      | succ i => simp at h1
    · have e0 : ¬ (⟨5, none, some 0⟩ : Key) = k := fun e => h0 e.symm
      have e1 : ¬ (⟨5, none, some 1⟩ : Key) = k := fun e => hk1 e.symm
      simp [e0, e1] at h1 h2

open Uniflow.Agent in
/-- **The pinned tree violated the statement** (DESIGN §7 row 25): with
`f.InPort == in || f.OutPort == out` the same history pairs request 10 of port `out` with the
answer 21 that arrived on port `error` (and 11 with 20). -/
theorem C19.pinned_cross_pairs :
    run .pinned St.init witness 1 =
      [⟨5, none, some 0, some 21, some 10⟩, ⟨5, none, some 1, some 20, some 11⟩] ∧
    ¬ (∀ (es : List Ev) (p : Nat) (k : Key),
        col k (run .pinned St.init es p) = zipPad (inbs p k es []) (outbs p k es [])) := by
  refine ⟨by decide, ?_⟩
  intro h
  have := h witness 1 ⟨5, none, some 0⟩
  revert this
  decide

/-! ## frames, repaired hooks (fix 5a92fce)

`Mode.fixed` above is the agent before the repair: it recorded an answer that found no open frame
as an orphan frame. The code now (`stepR` / `runR`, what the driver runs) skips such an answer.
The two agree on every history in which no answer is skipped; a skipped answer changes nothing;
and a history that begins with answers whose requests the hooks never saw (the open-hook window)
is, for the frames, the history without them. -/

namespace Uniflow.Agent

theorem upd_self (a : St) (p : Nat) : upd a p (a p) = a := by
  funext q; by_cases h : q = p <;> simp [upd, h]

/-- A skipped answer leaves the agent as it was. -/
theorem stepR_orphan (a : St) (e : Ev) (h : orphan a e = true) : stepR a e = a := by
  cases e with
  | inb p k pck =>
    simp only [orphan, Bool.and_eq_true, Option.isNone_iff_eq_none] at h
    simp only [stepR, inboundR, h.2, h.1, if_true]
    exact upd_self a p
  | outb p k pck =>
    simp only [orphan, Bool.and_eq_true, Option.isNone_iff_eq_none] at h
    simp only [stepR, outboundR, h.2, h.1, if_true]
    exact upd_self a p
  | exit p => simp [orphan] at h

/-- Where no answer is skipped the repaired hooks do what the hooks did before. -/
theorem stepR_admitted (a : St) (e : Ev) (h : orphan a e = false) : stepR a e = step .fixed a e := by
  cases e with
  | inb p k pck =>
    simp only [orphan, Bool.and_eq_false_iff] at h
    simp only [stepR, step, inboundR, inbound]
    cases hf : fillFirst (matchIn .fixed k) (fun f => { f with inPck := some pck }) (a p) with
    | some fs' => rfl
    | none =>
      rcases h with h | h
      · simp [h]
      · simp [hf] at h
  | outb p k pck =>
    simp only [orphan, Bool.and_eq_false_iff] at h
    simp only [stepR, step, outboundR, outbound]
    cases hf : fillFirst (matchOut .fixed k) (fun f => { f with outPck := some pck }) (a p) with
    | some fs' => rfl
    | none =>
      rcases h with h | h
      · simp [h]
      · simp [hf] at h
  | exit p => rfl

theorem runR_admitted (es : List Ev) (a : St) (h : admitted a es = true) : runR a es = run .fixed a es := by
  induction es generalizing a with
  | nil => rfl
  | cons e es ih =>
    simp only [admitted, Bool.and_eq_true, Bool.not_eq_true'] at h
    simp only [runR, run]
    rw [← stepR_admitted a e h.1]
    exact ih _ h.2

theorem runR_append (xs ys : List Ev) (a : St) : runR a (xs ++ ys) = runR (runR a xs) ys := by
  induction xs generalizing a with
  | nil => rfl
  | cons x xs ih => simp only [List.cons_append, runR]; exact ih _

/-- Answers arriving at an agent that holds no frames are all skipped. -/
theorem runR_window (pre : List Ev) (h : ∀ e ∈ pre, e.isAnswer = true) : runR St.init pre = St.init := by
  induction pre with
  | nil => rfl
  | cons e pre ih =>
    simp only [runR]
    have he := h e (List.mem_cons_self ..)
    have : orphan St.init e = true := by
      cases e with
      | inb p k pck => simpa [orphan, St.init, fillFirst, Ev.isAnswer] using he
      | outb p k pck => simpa [orphan, St.init, fillFirst, Ev.isAnswer] using he
      | exit p => simp [Ev.isAnswer] at he
    rw [stepR_orphan _ _ this]
    exact ih (fun e' h' => h e' (List.mem_cons_of_mem _ h'))

/-- Every frame holds its request. -/
def AllReq (fs : List Frame) : Prop := ∀ f ∈ fs, f.request.isSome = true

theorem fillFirst_allReq (c : Frame → Bool) (u : Frame → Frame) (fs fs' : List Frame)
    (hu : ∀ f, f.request.isSome = true → (u f).request.isSome = true)
    (h : fillFirst c u fs = some fs') (ha : AllReq fs) : AllReq fs' := by
  induction fs generalizing fs' with
  | nil => simp [fillFirst] at h
  | cons f fs ih =>
    simp only [fillFirst] at h
    by_cases hc : c f = true
    · simp only [hc, if_true, Option.some.injEq] at h
      subst h
      intro g hg
      rcases List.mem_cons.mp hg with rfl | hg
      · exact hu f (ha f (List.mem_cons_self ..))
      · exact ha g (List.mem_cons_of_mem _ hg)
    · simp only [hc, Bool.false_eq_true, if_false, Option.map_eq_some_iff] at h
      obtain ⟨t, ht, rfl⟩ := h
      intro g hg
      rcases List.mem_cons.mp hg with rfl | hg
      · exact ha g (List.mem_cons_self ..)
      · exact ih t ht (fun x hx => ha x (List.mem_cons_of_mem _ hx)) g hg

theorem inboundR_allReq (k : Key) (pck : Nat) (fs : List Frame) (hk : (k.inPort.isSome != k.outPort.isSome) = true)
    (ha : AllReq fs) : AllReq (inboundR k pck fs) := by
  unfold inboundR
  cases hf : fillFirst (matchIn .fixed k) (fun f => { f with inPck := some pck }) fs with
  | some fs' =>
    refine fillFirst_allReq _ _ fs fs' ?_ hf ha
    intro f h
    simp only [Frame.request] at h ⊢
    split <;> simp_all
  | none =>
    simp only []
    split
    · exact ha
    · rename_i ho
      intro g hg
      rcases List.mem_append.mp hg with hg | hg
      · exact ha g hg
      · simp only [List.mem_singleton] at hg
        subst hg
        cases hi : k.inPort <;> cases hO : k.outPort <;> simp_all [Frame.request]

theorem outboundR_allReq (k : Key) (pck : Nat) (fs : List Frame) (ha : AllReq fs) :
    AllReq (outboundR k pck fs) := by
  unfold outboundR
  cases hf : fillFirst (matchOut .fixed k) (fun f => { f with outPck := some pck }) fs with
  | some fs' =>
    refine fillFirst_allReq _ _ fs fs' ?_ hf ha
    intro f h
    simp only [Frame.request] at h ⊢
    split <;> simp_all
  | none =>
    simp only []
    split
    · exact ha
    · rename_i hi
      intro g hg
      rcases List.mem_append.mp hg with hg | hg
      · exact ha g hg
      · simp only [List.mem_singleton] at hg
        subst hg
        simp_all [Frame.request]

end Uniflow.Agent

open Uniflow.Agent in
/-- **Every recorded frame holds its request** (repaired hooks): after any history of hook calls of
ports installed by `Agent.Load` (exactly one of in / out) and process exits, no frame of any
process holds only an answer – whatever hook calls were missed, and wherever. -/
theorem C19.frames_have_requests (es : List Ev) (hw : ∀ e ∈ es, e.wf = true) (p : Nat) :
    ∀ f ∈ runR St.init es p, f.request.isSome = true := by
  suffices h : ∀ (a : St), (∀ q, AllReq (a q)) → ∀ q, AllReq (runR a es q) from
    h St.init (fun q f hf => by simp [St.init] at hf) p
  induction es with
  | nil => intro a ha; exact ha
  | cons e es ih =>
    intro a ha
    simp only [runR]
    apply ih (fun e' h' => hw e' (List.mem_cons_of_mem _ h'))
    intro q
    have hwe := hw e (List.mem_cons_self ..)
    cases e with
    | inb p' k pck =>
      simp only [stepR, upd]
      split
      · exact inboundR_allReq k pck _ (by simpa [Ev.wf] using hwe) (ha p')
      · exact ha q
    | outb p' k pck =>
      simp only [stepR, upd]
      split
      · exact outboundR_allReq k pck _ (ha p')
      · exact ha q
    | exit p' =>
      simp only [stepR, upd]
      split
      · intro f hf; simp at hf
      · exact ha q

open Uniflow.Agent in
/-- **The repaired agent after an open-hook window.** A history that begins with answers whose
requests the hooks never saw (`pre`: the packets passed before the hooks were attached) and goes on
with hook calls among which no answer is skipped, leaves exactly the frames of the history `rest`
under the old bookkeeping – to which `C19.frame_columns`, `C19.frame_pairs_index` and
`C19.frame_pairs` apply: every recorded frame pairs request i with answer i of its port. -/
theorem C19.frames_after_window (pre rest : List Ev) (hpre : ∀ e ∈ pre, e.isAnswer = true)
    (hrest : admitted St.init rest = true) :
    runR St.init (pre ++ rest) = run .fixed St.init rest := by
  rw [runR_append, runR_window pre hpre, runR_admitted rest St.init hrest]

open Uniflow.Agent in
/-- The frames of every port, exactly (repaired hooks, after a window). -/
theorem C19.frame_columns_repaired (pre rest : List Ev) (hpre : ∀ e ∈ pre, e.isAnswer = true)
    (hrest : admitted St.init rest = true) (p : Nat) (k : Key) :
    col k (runR St.init (pre ++ rest) p) = zipPad (inbs p k rest []) (outbs p k rest []) := by
  rw [C19.frames_after_window pre rest hpre hrest]
  exact C19.frame_columns rest p k

open Uniflow.Agent in
/-- **C19, frames, repaired hooks.** With C01's FIFO contract on the recorded part of the history,
every completed frame pairs a packet that entered a port with the packet that answered it there –
also when the first requests of the port passed before the hooks were attached. -/
theorem C19.frame_pairs_repaired (Answers : Key → Nat → Nat → Prop) (pre rest : List Ev) (p : Nat)
    (hpre : ∀ e ∈ pre, e.isAnswer = true) (hrest : admitted St.init rest = true)
    (fifo : ∀ (k : Key) (i x y : Nat), (requests p k rest)[i]? = some x → (answers p k rest)[i]? = some y → Answers k x y)
    (f : Frame) (x y : Nat) (hf : f ∈ runR St.init (pre ++ rest) p)
    (hx : f.request = some x) (hy : f.answer = some y) :
    Answers f.key x y ∧ x ∈ requests p f.key rest ∧ y ∈ answers p f.key rest := by
  rw [C19.frames_after_window pre rest hpre hrest] at hf
  exact C19.frame_pairs Answers rest p fifo f x y hf hx hy

namespace Uniflow.Agent
/-- The open-hook window on the in-port 0 of symbol 5, process 1: request 11 passed unseen, its
answer 21 reaches the hooks, then requests 12, 13 with answers 22, 23. -/
def windowPre : List Ev := [.outb 1 ⟨5, some 0, none⟩ 21]
def windowRest : List Ev :=
  [ .inb 1 ⟨5, some 0, none⟩ 12, .outb 1 ⟨5, some 0, none⟩ 22, .inb 1 ⟨5, some 0, none⟩ 13, .outb 1 ⟨5, some 0, none⟩ 23 ]
end Uniflow.Agent

open Uniflow.Agent in
/-- Non-vacuity, and the defect this repairs: the window history meets the hypotheses; the repaired
agent holds (12,22) (13,23); the agent before the repair held (12,21) (13,22) (-,23). -/
theorem C19.frames_after_window_nonvacuous :
    (∀ e ∈ windowPre, e.isAnswer = true) ∧ admitted St.init windowRest = true ∧
    runR St.init (windowPre ++ windowRest) 1 =
      [⟨5, some 0, none, some 12, some 22⟩, ⟨5, some 0, none, some 13, some 23⟩] ∧
    run .fixed St.init (windowPre ++ windowRest) 1 =
      [⟨5, some 0, none, some 12, some 21⟩, ⟨5, some 0, none, some 13, some 22⟩, ⟨5, some 0, none, none, some 23⟩] := by
  refine ⟨by decide, by decide, by decide, by decide⟩

/-! ## transparency -/

open Uniflow.Agent in
/-- **C19, transparency.** For every packet machine, every observer whose hooks are functions
`flow state → hook call → observer state → observer state` (in particular the agent), every
initial observer state and every schedule: the machine with the observer attached goes through
the same flow states and produces the same observations (responses, in the same order) as the
machine run without it. Erasing the hooks is a bisimulation whose relation ignores the observer
component. -/
theorem C19.hooks_transparent {σ ε ω α : Type} (F : Flow σ ε ω) (hook : σ → Ev → α → α)
    (s : σ) (a : α) (sched : List ε) :
    ((F.runWith hook (s, a) sched).1.1, (F.runWith hook (s, a) sched).2) = F.run s sched := by
  induction sched generalizing s a with
  | nil => rfl
  | cons e es ih =>
    simp only [Flow.runWith, Flow.run, Flow.stepWith]
    have := ih (F.step s e).1 ((F.fires s e).foldl (fun a c => hook s c a) a)
    rw [Prod.ext_iff] at this ⊢
    simp only at this ⊢
    exact ⟨this.1, by rw [this.2]⟩

open Uniflow.Agent in
/-- The agent is such an observer, and what it records is exactly the frame bookkeeping of the
hook calls the machine fired (so the frame theorems apply to the combined run). -/
theorem C19.hooks_transparent_agent {σ ε ω : Type} (F : Flow σ ε ω) (s : σ) (a : St) (e : ε) :
    (F.stepWith agentHook (s, a) e).1.1 = (F.step s e).1 ∧
    (F.stepWith agentHook (s, a) e).2 = (F.step s e).2 ∧
    (F.stepWith agentHook (s, a) e).1.2 = runR a (F.fires s e) := by
  refine ⟨rfl, rfl, ?_⟩
  simp only [Flow.stepWith, agentHook]
  generalize F.fires s e = cs
  induction cs generalizing a with
  | nil => rfl
  | cons c cs ih => simp only [List.foldl_cons, runR]; exact ih _

/-! ## release on remove / close

`Uniflow.Breakpoint` is a small-step machine over one debugger with *any* number `nb` of
breakpoints, any number of hook threads (goroutines inside `Breakpoint.OnFrame` of some
breakpoint) and of debugger-side threads (`Next`, `Done`, `Breakpoint.Close` on some breakpoint,
the `d.next` goroutines, `Pause`, `Step`, `RemoveBreakpoint`, `Debugger.Close`), each at an
arbitrary program counter: the theorems below quantify over every such state, hence over every
ordering of pause / step / remove / close and every schedule that led there. `s.done b` says
`done` of breakpoint `b` has been closed – the first thing `Breakpoint.Close` does once it owns
`b.wmu`, i.e. what `RemoveBreakpoint(b)` does to `b` and `Debugger.Close` to every registered
breakpoint, in list order; `s.ddone` says `d.done` has been closed (first effect of
`Debugger.Close`). -/

open Uniflow.Breakpoint in
/-- **Every enabled step strictly decreases a natural-number measure** (the sum over all threads
of the distance of their program counter from `returned`; a `Step` that may still spawn a `d.next`
goroutine is charged for it in advance, a `Debugger.Close` for every breakpoint its loop has not
reached yet) – in every state, in particular after close. -/
theorem C19.release_measure (s s' : St) (a : Act) (h : step s a = some s') :
    Breakpoint.measure s' < Breakpoint.measure s :=
  step_measure s s' a h

open Uniflow.Breakpoint in
/-- Hence every schedule of enabled actions is finite, bounded by the measure: under *any*
scheduling policy (fair or not) the machine reaches a state with no enabled action. -/
theorem C19.release_terminates (s s' : St) (sched : List Act) (h : run s sched = some s') :
    sched.length + Breakpoint.measure s' ≤ Breakpoint.measure s := by
  induction sched generalizing s with
  | nil => simp [run] at h; subst h; simp
  | cons a as ih =>
    simp only [run] at h
    cases hs : step s a with
    | none => simp [hs] at h
    | some s1 =>
      rw [hs] at h
      have := ih s1 h
      have := step_measure s s1 a hs
      simp only [List.length_cons]
      omega

open Uniflow.Breakpoint in
/-- `done` of every breakpoint and `d.done`, once closed, stay closed. -/
theorem C19.done_stable (s s' : St) (a : Act) (h : step s a = some s') :
    (∀ b, s.done b = true → s'.done b = true) ∧ (s.ddone = true → s'.ddone = true) :=
  step_flags s s' a h

open Uniflow.Breakpoint in
/-- Well-formedness (every thread is at a program counter of its own program; every breakpoint
index in use is one of the debugger's `nb`) holds initially, is kept by new packets / new API
calls on existing breakpoints and by every step – so it holds in every state reachable under
every ordering of calls and every schedule. -/
theorem C19.wf_invariant :
    (∀ nb, WF (St.init nb)) ∧ (∀ s b, b < s.nb → WF s → WF (s.addHook b)) ∧
    (∀ s p b, b < s.nb → WF s → WF (s.addThread p b)) ∧
    (∀ s s' a, WF s → step s a = some s' → WF s') :=
  ⟨wf_init, wf_addHook, wf_addThread, step_wf⟩

open Uniflow.Breakpoint in
/-- **After `RemoveBreakpoint(b)` (or `b.Close()`): no state is stuck with a packet paused on `b`.**
In any well-formed state in which `done` of breakpoint `b` is closed and no action is enabled:
every goroutine that was inside `OnFrame` of `b` has returned (every packet paused on `b` is
resumed), every `Next`, `Done` and `Breakpoint.Close` call on `b` has returned, no
`RemoveBreakpoint` / `Debugger.Close` is still inside `b`'s `Close`, and a `d.next` goroutine of `b`
is finished or parked on `d.in <- bp` (from where only a `Pause` / `Step` or `Debugger.Close` takes
it – `RemoveBreakpoint` alone does not end those, nor a `Pause` / `Step` waiting for the next
breakpoint). The other breakpoints are untouched. -/
theorem C19.release_on_remove (s : St) (hw : WF s) (b : Nat) (hd : s.done b = true) (hT : Terminal s) :
    (∀ h, h < s.nh → s.hbp h = b → s.hpc h = .returned) ∧
    (∀ t, t < s.nt → s.tbp t = b → (s.prog t = .next ∨ s.prog t = .done ∨ s.prog t = .close) →
      (s.pc t).isRet = true) ∧
    (∀ t, t < s.nt → s.tbp t = b → s.prog t = .dnext → (s.pc t).isRet = true ∨ s.pc t = .xSend) ∧
    (∀ t, t < s.nt → s.tbp t = b → s.pc t ≠ .cWmu ∧ s.pc t ≠ .cRmu) := by
  refine ⟨fun h hh hb => term_hooks s hT h hh (by rw [hb]; exact hd), ?_, ?_, ?_⟩
  · intro t ht hb hp
    have hd' : s.done (s.tbp t) = true := by rw [hb]; exact hd
    have a1 := term_no_dSel s hT t ht hd'
    have a2 := term_no_nSel s hT t ht hd'
    have a3 := term_no_nLock s hT t ht hd'
    have a4 := term_no_cRmu s hT t ht hd'
    have hs : s.pc t ≠ .start := by
      rcases hp with hp | hp | hp
      · exact term_no_start_bp s hT t ht hd' (Or.inl hp)
      · exact term_no_start_bp s hT t ht hd' (Or.inr (Or.inl hp))
      · exact term_no_start_close s hT t ht hd' hp
    have hok := hw.1 t ht
    cases hpc : s.pc t with
    | ret r => rfl
    | start => exact absurd hpc hs
    | dSel => exact absurd hpc a1
    | nSel => exact absurd hpc a2
    | nLock => exact absurd hpc a3
    | cRmu => exact absurd hpc a4
    | cWmu => rcases hp with hp | hp | hp <;> simp [okPc, hp, hpc] at hok
    | xSend => rcases hp with hp | hp | hp <;> simp [okPc, hp, hpc] at hok
    | pSel => rcases hp with hp | hp | hp <;> simp [okPc, hp, hpc] at hok
    | qRmu => rcases hp with hp | hp | hp <;> simp [okPc, hp, hpc] at hok
  · intro t ht hb hp
    have hd' : s.done (s.tbp t) = true := by rw [hb]; exact hd
    have a1 := term_no_dSel s hT t ht hd'
    have a2 := term_no_nSel s hT t ht hd'
    have a3 := term_no_nLock s hT t ht hd'
    have hs := term_no_start_bp s hT t ht hd' (Or.inr (Or.inr hp))
    have hok := hw.1 t ht
    cases hpc : s.pc t with
    | ret r => left; rfl
    | xSend => right; rfl
    | start => exact absurd hpc hs
    | dSel => exact absurd hpc a1
    | nSel => exact absurd hpc a2
    | nLock => exact absurd hpc a3
    | cRmu => simp [okPc, hp, hpc] at hok
    | cWmu => simp [okPc, hp, hpc] at hok
    | pSel => simp [okPc, hp, hpc] at hok
    | qRmu => simp [okPc, hp, hpc] at hok
  · intro t ht hb
    have hd' : s.done (s.tbp t) = true := by rw [hb]; exact hd
    exact ⟨term_no_cWmu s hT t ht hd', term_no_cRmu s hT t ht hd'⟩

open Uniflow.Breakpoint in
/-- **After `Debugger.Close`: no state is stuck with any non-returned thread – for every list of
breakpoints.** In any well-formed state of a debugger with any number `nb` of breakpoints in
which `d.done` is closed and `done` of *every* breakpoint `b < nb` is closed, and no action is
enabled: every goroutine inside `OnFrame` of any breakpoint has returned and every `Next`, `Done`,
`Close`, `d.next`, `Pause`, `Step`, `RemoveBreakpoint` and `Debugger.Close` has returned. -/
theorem C19.release_on_close (s : St) (hw : WF s) (hd : ∀ b, b < s.nb → s.done b = true)
    (hdd : s.ddone = true) (hT : Terminal s) :
    (∀ h, h < s.nh → s.hpc h = .returned) ∧ (∀ t, t < s.nt → (s.pc t).isRet = true) := by
  have hall : AllDone s := fun t ht => hd _ (hw.2.1 t ht)
  refine ⟨fun h hh => term_hooks s hT h hh (hd _ (hw.2.2.1 h hh)), ?_⟩
  intro t ht
  have hdt := hall t ht
  cases hpc : s.pc t with
  | ret r => rfl
  | dSel => exact absurd hpc (term_no_dSel s hT t ht hdt)
  | nSel => exact absurd hpc (term_no_nSel s hT t ht hdt)
  | nLock => exact absurd hpc (term_no_nLock s hT t ht hdt)
  | cRmu => exact absurd hpc (term_no_cRmu s hT t ht hdt)
  | cWmu => exact absurd hpc (term_no_cWmu s hT t ht hdt)
  | xSend => exact absurd hpc (term_no_xSend s hT hdd t ht)
  | pSel => exact absurd hpc (term_no_pSel s hT hdd t ht)
  | qRmu => exact absurd hpc (term_no_qRmu s hT hdd t ht)
  | start =>
    exfalso
    cases hp : s.prog t with
    | next => exact term_no_start_bp s hT t ht hdt (Or.inl hp) hpc
    | done => exact term_no_start_bp s hT t ht hdt (Or.inr (Or.inl hp)) hpc
    | dnext => exact term_no_start_bp s hT t ht hdt (Or.inr (Or.inr hp)) hpc
    | close => exact term_no_start_close s hT t ht hdt hp hpc
    | pause => exact term_no_start_dbg s hT hall hdd t ht (Or.inl hp) hpc
    | step => exact term_no_start_dbg s hT hall hdd t ht (Or.inr (Or.inl hp)) hpc
    | remove => exact term_no_start_dbg s hT hall hdd t ht (Or.inr (Or.inr (Or.inl hp))) hpc
    | dclose => exact term_no_start_dbg s hT hall hdd t ht (Or.inr (Or.inr (Or.inr hp))) hpc

open Uniflow.Breakpoint in
/-- The same as an enabledness statement: after `Debugger.Close`, as long as some thread has not
returned, some action is enabled (and by `C19.release_measure` only finitely many can follow). -/
theorem C19.release_not_stuck (s : St) (hw : WF s) (hd : ∀ b, b < s.nb → s.done b = true)
    (hdd : s.ddone = true)
    (hlive : (∃ h, h < s.nh ∧ s.hpc h ≠ .returned) ∨ (∃ t, t < s.nt ∧ (s.pc t).isRet = false)) :
    ∃ a, (step s a).isSome = true := by
  apply Classical.byContradiction
  intro hno
  have hT : Terminal s := by
    intro a
    cases h : step s a with
    | none => rfl
    | some s' => exact absurd ⟨a, by simp [h]⟩ hno
  obtain ⟨h1, h2⟩ := C19.release_on_close s hw hd hdd hT
  rcases hlive with ⟨h, hh, hne⟩ | ⟨t, ht, hne⟩
  · exact hne (h1 h hh)
  · rw [h2 t ht] at hne; cases hne

open Uniflow.Breakpoint in
/-- **`Debugger.Close` skips no breakpoint.** When its loop moves on from breakpoint `b`, the
breakpoint it turns to is the first registered one after `b`, and it leaves the loop only when no
registered breakpoint is left – so every breakpoint that was registered when it started gets its
`Close` (this is what a `Close` that edits `d.breakpoints` while ranging over it gets wrong). -/
theorem C19.close_skips_no_breakpoint (s : St) (b : Nat) :
    (∀ b', nextReg s (b + 1) = some b' →
        b < b' ∧ b' < s.nb ∧ s.reg b' = true ∧ ∀ c, b < c → c < b' → s.reg c = false) ∧
    (nextReg s (b + 1) = none → ∀ c, b < c → c < s.nb → s.reg c = false) := by
  constructor
  · intro b' h
    obtain ⟨h1, h2⟩ := nextReg_spec s (b + 1) b' h
    unfold nextReg at h
    have hreg := List.find?_some h
    simp at hreg
    refine ⟨by omega, h2, hreg.2, ?_⟩
    intro c hc1 hc2
    rw [List.find?_eq_some_iff_getElem] at h
    obtain ⟨_, i, hi, hget, hbefore⟩ := h
    simp at hget
    subst hget
    have := hbefore c hc2
    simp at this
    rcases this with h | h
    · omega
    · exact h
  · intro h c hc1 hc2
    unfold nextReg at h
    rw [List.find?_eq_none] at h
    have := h c (List.mem_range.mpr hc2)
    simp at this
    exact this (by omega)

namespace Uniflow.Breakpoint
/-- One debugger, three breakpoints, a packet paused on each; then `Pause`, `Step`,
`RemoveBreakpoint(1)`, `Debugger.Close`. Threads 0–2 are the `d.next` goroutines. -/
def demo0 : St :=
  ((((((St.init 3).addHook 0).addHook 1).addHook 2).addThread .pause 0).addThread .step 0).addThread .remove 1
    |>.addThread .dclose 0

def demoSched : List Act :=
  [ .tau 0, .tau 0, .recvIn 0 0, .tau 1, .tau 1, .recvIn 1 1, .tau 2, .tau 2, .recvIn 2 2,  -- all three paused
    .tau 3, .dRecv 3 0,                                   -- Pause receives breakpoint 0
    .tau 4, .tau 7, .sendOut 7 0, .tau 7, .dRecv 4 1,     -- Step: packet 0 resumed, breakpoint 1 current
    .tau 5, .tau 5, .tau 5, .hdone 1,                     -- RemoveBreakpoint(1): packet 1 resumed
    .tau 6, .tau 6, .tau 7, .tau 6, .tau 6, .tau 6, .tau 6,   -- Debugger.Close: breakpoints 0 and 2
    .hdone 2, .tau 2 ]                                    -- packet 2 resumed, d.next of 2 ends
end Uniflow.Breakpoint

open Uniflow.Breakpoint in
/-- Non-vacuity: a concrete run (3 breakpoints, a packet paused on each; pause, step, remove, close)
ends in a state that meets the hypotheses of `release_on_close` (and of `release_on_remove` for
every breakpoint), with all three packets resumed and all eight threads returned; the run has 29
steps. -/
theorem C19.release_on_close_nonvacuous :
    (run demo0 demoSched).map (fun s => [s.ddone.toNat, ((List.range s.nb).all s.done).toNat,
        releasedCount s, s.nh, ((List.range s.nt).all (fun t => (s.pc t).isRet)).toNat, s.nt, s.nb,
        (enabled s).length]) = some [1, 1, 3, 3, 1, 8, 3, 0] ∧ WF demo0 := by
  refine ⟨by decide, ?_⟩
  exact wf_addThread _ _ _ (by decide) (wf_addThread _ _ _ (by decide) (wf_addThread _ _ _ (by decide)
    (wf_addThread _ _ _ (by decide) (wf_addHook _ _ (by decide) (wf_addHook _ _ (by decide)
      (wf_addHook _ _ (by decide) (wf_init 3)))))))

open Uniflow.Breakpoint in
/-- Who closes what: the step with which `Breakpoint.Close` gets past `b.wmu` – called directly, or
from `RemoveBreakpoint` / `Debugger.Close` (program counter `cWmu`) – leaves `done` of that
breakpoint closed, and the first step of `Debugger.Close` leaves `d.done` closed; by
`C19.done_stable` they stay closed. -/
theorem C19.close_closes_done (s s' : St) (t : Nat) (h : step s (.tau t) = some s') :
    ((s.pc t = .cWmu ∨ (s.pc t = .start ∧ s.prog t = .close)) → s'.done (s.tbp t) = true) ∧
    ((s.pc t = .start ∧ s.prog t = .dclose) → s'.ddone = true) := by
  simp only [step] at h
  unfold tau at h
  split at h
  next ht =>
    simp only [] at h
    constructor
    · rintro (hpc | ⟨hpc, hp⟩)
      · simp only [hpc] at h
        split at h
        · simp at h
        · split at h
          · rename_i hd
            split at h <;> (simp only [Option.some.injEq] at h; subst h)
            · rw [(dcloseNext_flags s t _).1]; simpa using hd
            · simpa using hd
          · simp only [Option.some.injEq] at h; subst h; simp [setf]
      · simp only [hpc, hp] at h
        split at h
        · simp at h
        · split at h
          · rename_i hd
            simp only [Option.some.injEq] at h; subst h; simpa using hd
          · simp only [Option.some.injEq] at h; subst h; simp [setf]
    · rintro ⟨hpc, hp⟩
      simp only [hpc, hp] at h
      split at h
      · simp at h
      · split at h
        · rename_i hd
          simp only [Option.some.injEq] at h; subst h; simpa using hd
        · split at h <;> (simp only [Option.some.injEq] at h; subst h; rfl)
  next => simp at h
