/-
C14 – re-statements of the function-outline ties of the source files this property DEPENDS on without being anchored in
them: the other files of its packages and every package they import (bin/mk_dependency_ties.py; hand-run). A source change
there is reported for C14 as well.
-/
import Uniflow.Props.C15TieSrc
import Uniflow.Props.C16Tie5
import Uniflow.Props.C16Tie3
import Uniflow.Props.C16Tie6
import Uniflow.Props.C16Tie1
import Uniflow.Props.C16Tie2
import Uniflow.Props.C16Tie4
import Uniflow.Props.C17Tie

theorem C14.dep_C15_types_map_as_modelled_1 : type_of% C15.src_types_map_as_modelled_1 := C15.src_types_map_as_modelled_1
theorem C14.dep_C15_types_map_as_modelled_2 : type_of% C15.src_types_map_as_modelled_2 := C15.src_types_map_as_modelled_2
theorem C14.dep_C15_types_map_as_modelled_3 : type_of% C15.src_types_map_as_modelled_3 := C15.src_types_map_as_modelled_3
theorem C14.dep_C15_types_map_as_modelled_4 : type_of% C15.src_types_map_as_modelled_4 := C15.src_types_map_as_modelled_4
theorem C14.dep_C16_encoding_assembler_as_modelled : type_of% C16.src_encoding_assembler_as_modelled := C16.src_encoding_assembler_as_modelled
theorem C14.dep_C16_encoding_compiler_as_modelled : type_of% C16.src_encoding_compiler_as_modelled := C16.src_encoding_compiler_as_modelled
theorem C14.dep_C16_encoding_decoder_as_modelled : type_of% C16.src_encoding_decoder_as_modelled := C16.src_encoding_decoder_as_modelled
theorem C14.dep_C16_encoding_encoder_as_modelled : type_of% C16.src_encoding_encoder_as_modelled := C16.src_encoding_encoder_as_modelled
theorem C14.dep_C16_encoding_group_as_modelled : type_of% C16.src_encoding_group_as_modelled := C16.src_encoding_group_as_modelled
theorem C14.dep_C16_types_binary_as_modelled_1 : type_of% C16.src_types_binary_as_modelled_1 := C16.src_types_binary_as_modelled_1
theorem C14.dep_C16_types_binary_as_modelled_2 : type_of% C16.src_types_binary_as_modelled_2 := C16.src_types_binary_as_modelled_2
theorem C14.dep_C16_types_boolean_as_modelled : type_of% C16.src_types_boolean_as_modelled := C16.src_types_boolean_as_modelled
theorem C14.dep_C16_types_buffer_as_modelled_1 : type_of% C16.src_types_buffer_as_modelled_1 := C16.src_types_buffer_as_modelled_1
theorem C14.dep_C16_types_buffer_as_modelled_2 : type_of% C16.src_types_buffer_as_modelled_2 := C16.src_types_buffer_as_modelled_2
theorem C14.dep_C16_types_encoding_as_modelled_1 : type_of% C16.src_types_encoding_as_modelled_1 := C16.src_types_encoding_as_modelled_1
theorem C14.dep_C16_types_encoding_as_modelled_2 : type_of% C16.src_types_encoding_as_modelled_2 := C16.src_types_encoding_as_modelled_2
theorem C14.dep_C16_types_error_as_modelled : type_of% C16.src_types_error_as_modelled := C16.src_types_error_as_modelled
theorem C14.dep_C16_types_float_as_modelled_1 : type_of% C16.src_types_float_as_modelled_1 := C16.src_types_float_as_modelled_1
theorem C14.dep_C16_types_float_as_modelled_2 : type_of% C16.src_types_float_as_modelled_2 := C16.src_types_float_as_modelled_2
theorem C14.dep_C16_types_integer_as_modelled_1 : type_of% C16.src_types_integer_as_modelled_1 := C16.src_types_integer_as_modelled_1
theorem C14.dep_C16_types_integer_as_modelled_2 : type_of% C16.src_types_integer_as_modelled_2 := C16.src_types_integer_as_modelled_2
theorem C14.dep_C16_types_json_as_modelled : type_of% C16.src_types_json_as_modelled := C16.src_types_json_as_modelled
theorem C14.dep_C16_types_map_as_modelled_1 : type_of% C16.src_types_map_as_modelled_1 := C16.src_types_map_as_modelled_1
theorem C14.dep_C16_types_map_as_modelled_2 : type_of% C16.src_types_map_as_modelled_2 := C16.src_types_map_as_modelled_2
theorem C14.dep_C16_types_map_as_modelled_3 : type_of% C16.src_types_map_as_modelled_3 := C16.src_types_map_as_modelled_3
theorem C14.dep_C16_types_map_as_modelled_4 : type_of% C16.src_types_map_as_modelled_4 := C16.src_types_map_as_modelled_4
theorem C14.dep_C16_types_slice_as_modelled : type_of% C16.src_types_slice_as_modelled := C16.src_types_slice_as_modelled
theorem C14.dep_C16_types_string_as_modelled_1 : type_of% C16.src_types_string_as_modelled_1 := C16.src_types_string_as_modelled_1
theorem C14.dep_C16_types_string_as_modelled_2 : type_of% C16.src_types_string_as_modelled_2 := C16.src_types_string_as_modelled_2
theorem C14.dep_C16_types_string_as_modelled_3 : type_of% C16.src_types_string_as_modelled_3 := C16.src_types_string_as_modelled_3
theorem C14.dep_C16_types_time_as_modelled : type_of% C16.src_types_time_as_modelled := C16.src_types_time_as_modelled
theorem C14.dep_C16_types_uinteger_as_modelled_1 : type_of% C16.src_types_uinteger_as_modelled_1 := C16.src_types_uinteger_as_modelled_1
theorem C14.dep_C16_types_uinteger_as_modelled_2 : type_of% C16.src_types_uinteger_as_modelled_2 := C16.src_types_uinteger_as_modelled_2
theorem C14.dep_C17_encoding_assembler_as_modelled : type_of% C17.src_encoding_assembler_as_modelled := C17.src_encoding_assembler_as_modelled
theorem C14.dep_C17_encoding_compiler_as_modelled : type_of% C17.src_encoding_compiler_as_modelled := C17.src_encoding_compiler_as_modelled
theorem C14.dep_C17_encoding_decoder_as_modelled : type_of% C17.src_encoding_decoder_as_modelled := C17.src_encoding_decoder_as_modelled
theorem C14.dep_C17_encoding_encoder_as_modelled : type_of% C17.src_encoding_encoder_as_modelled := C17.src_encoding_encoder_as_modelled
theorem C14.dep_C17_encoding_group_as_modelled : type_of% C17.src_encoding_group_as_modelled := C17.src_encoding_group_as_modelled
theorem C14.dep_C17_types_binary_as_modelled_1 : type_of% C17.src_types_binary_as_modelled_1 := C17.src_types_binary_as_modelled_1
theorem C14.dep_C17_types_binary_as_modelled_2 : type_of% C17.src_types_binary_as_modelled_2 := C17.src_types_binary_as_modelled_2
theorem C14.dep_C17_types_boolean_as_modelled : type_of% C17.src_types_boolean_as_modelled := C17.src_types_boolean_as_modelled
theorem C14.dep_C17_types_buffer_as_modelled_1 : type_of% C17.src_types_buffer_as_modelled_1 := C17.src_types_buffer_as_modelled_1
theorem C14.dep_C17_types_buffer_as_modelled_2 : type_of% C17.src_types_buffer_as_modelled_2 := C17.src_types_buffer_as_modelled_2
theorem C14.dep_C17_types_encoding_as_modelled_1 : type_of% C17.src_types_encoding_as_modelled_1 := C17.src_types_encoding_as_modelled_1
theorem C14.dep_C17_types_encoding_as_modelled_2 : type_of% C17.src_types_encoding_as_modelled_2 := C17.src_types_encoding_as_modelled_2
theorem C14.dep_C17_types_error_as_modelled : type_of% C17.src_types_error_as_modelled := C17.src_types_error_as_modelled
theorem C14.dep_C17_types_float_as_modelled_1 : type_of% C17.src_types_float_as_modelled_1 := C17.src_types_float_as_modelled_1
theorem C14.dep_C17_types_float_as_modelled_2 : type_of% C17.src_types_float_as_modelled_2 := C17.src_types_float_as_modelled_2
theorem C14.dep_C17_types_integer_as_modelled_1 : type_of% C17.src_types_integer_as_modelled_1 := C17.src_types_integer_as_modelled_1
theorem C14.dep_C17_types_integer_as_modelled_2 : type_of% C17.src_types_integer_as_modelled_2 := C17.src_types_integer_as_modelled_2
theorem C14.dep_C17_types_json_as_modelled : type_of% C17.src_types_json_as_modelled := C17.src_types_json_as_modelled
theorem C14.dep_C17_types_map_as_modelled_1 : type_of% C17.src_types_map_as_modelled_1 := C17.src_types_map_as_modelled_1
theorem C14.dep_C17_types_map_as_modelled_2 : type_of% C17.src_types_map_as_modelled_2 := C17.src_types_map_as_modelled_2
theorem C14.dep_C17_types_map_as_modelled_3 : type_of% C17.src_types_map_as_modelled_3 := C17.src_types_map_as_modelled_3
theorem C14.dep_C17_types_map_as_modelled_4 : type_of% C17.src_types_map_as_modelled_4 := C17.src_types_map_as_modelled_4
theorem C14.dep_C17_types_slice_as_modelled : type_of% C17.src_types_slice_as_modelled := C17.src_types_slice_as_modelled
theorem C14.dep_C17_types_string_as_modelled_1 : type_of% C17.src_types_string_as_modelled_1 := C17.src_types_string_as_modelled_1
theorem C14.dep_C17_types_string_as_modelled_2 : type_of% C17.src_types_string_as_modelled_2 := C17.src_types_string_as_modelled_2
theorem C14.dep_C17_types_string_as_modelled_3 : type_of% C17.src_types_string_as_modelled_3 := C17.src_types_string_as_modelled_3
theorem C14.dep_C17_types_time_as_modelled : type_of% C17.src_types_time_as_modelled := C17.src_types_time_as_modelled
theorem C14.dep_C17_types_uinteger_as_modelled_1 : type_of% C17.src_types_uinteger_as_modelled_1 := C17.src_types_uinteger_as_modelled_1
theorem C14.dep_C17_types_uinteger_as_modelled_2 : type_of% C17.src_types_uinteger_as_modelled_2 := C17.src_types_uinteger_as_modelled_2
