/-
C08 – theorems that tie the model's assumptions to fact tables regenerated from the
repository's source on every run (extract/main.go). Kept apart from C08.lean so that the
property theorems and these obligations can be maintained independently.
-/
import Uniflow.Generated.Lifecycle
import Uniflow.Generated.TableFacts
import Uniflow.Props.C01Tie

/-! ## Call order of `(*Table).load` / `unload` tied to the source

`Model/Table.lean` transcribes `load` as: for each symbol of `linked` in order, if activated:
init flow, load hooks, begin flow; `unload` walks `linked` in reverse: term flow, unload hooks,
final flow. `Generated/Lifecycle.lean` is regenerated from table.go on every run. -/
open Uniflow.Generated.Lifecycle in
theorem C08.lifecycle_calls_as_modelled :
    loadDirection = "forward" ∧
    loadCalls = ["linked", "isActivated", "exec:node.PortInit", "hooks:t.loadHooks.Load", "exec:node.PortBegin"] ∧
    unloadDirection = "reverse" ∧
    unloadCalls = ["linked", "isActivated", "exec:node.PortTerm", "hooks:t.unloadHooks.Unload", "exec:node.PortFinal"] := by
  decide

/-! ## Structure of `load` / `unload` / `linked` / `Close` / `exec` tied to the source

`Generated/TableFacts.lean` (extract/table.go) lists, for every method of `*Table`, its `if`s
(normalised condition, what the body does), loop headers, returns and free-standing branches. -/

open Uniflow.Generated.TableFacts in
/-- `load` / `unload` = model `loadLoop` / `unloadLoop`: walk `linked` forwards / backwards; for a
symbol that `isActivated` (called with the symbol only – no cache is threaded through the pass):
first flow, hooks, second flow, each error returned at once; nil at the end. -/
theorem C08.load_unload_as_modelled :
    of "load" =
      [("loop", "range linked", ""),
       ("if", "t.isActivated(sb)", "block:if"),
       ("if", "err := t.exec(sb, node.PortInit); err != nil", "return err else"),
       ("if", "err := t.loadHooks.Load(sb); err != nil", "return err else"),
       ("if", "err := t.exec(sb, node.PortBegin); err != nil", "return err"),
       ("return", "return nil", "")] ∧
    of "unload" =
      [("loop", "for i >= 0", "--"),
       ("if", "t.isActivated(sb)", "block:if"),
       ("if", "err := t.exec(sb, node.PortTerm); err != nil", "return err else"),
       ("if", "err := t.unloadHooks.Unload(sb); err != nil", "return err else"),
       ("if", "err := t.exec(sb, node.PortFinal); err != nil", "return err"),
       ("return", "return nil", "")] ∧
    sig "load" = some (["sb *Symbol"], ["error"]) ∧ sig "unload" = some (["sb *Symbol"], ["error"]) := by
  decide

open Uniflow.Generated.TableFacts in
/-- `linked`, first pass = model `bfs`: pop; skip a visited symbol (the visited check is on the
popped symbol only); for *every* live referrer of the popped symbol – visited or not – count
`degree[next]++` and enqueue it (body `incdec, assign`, nothing skipped): the count the second
pass consumes (`C08.deps_first` rests on "degree = number of entries naming the symbol"). -/
theorem C08.linked_first_pass_as_modelled :
    (of "linked").take 6 =
      [("loop", "for len(queue) > 0", ""),
       ("if", "_, ok := visited[curr]; ok", "continue"),
       ("loop", "range t.references[curr.ID()]", ""),
       ("loop", "range ports", ""),
       ("if", "id == uuid.Nil", "id = t.lookup(curr.Namespace(), port.Name)"),
       ("if", "next, ok := t.symbols[id]; ok", "block:incdec,assign")] := by
  decide

open Uniflow.Generated.TableFacts in
/-- `Close`, the freeing loop = model `freeAll`: free the symbols in order and return the error of
the first `free` that fails *from inside the loop* (`return err` with the `err` of that very
`if`); nil only after the loop. -/
theorem C08.close_returns_loop_error :
    (of "Close").drop 13 =
      [("loop", "range symbols", ""),
       ("if", "_, err := t.free(sb.ID()); err != nil", "return err"),
       ("return", "return nil", "")] ∧
    sig "Close" = some ([], ["error"]) := by
  decide

open Uniflow.Generated.TableFacts in
/-- `exec` = model `execTargets` / `exec`: link the temporary out-port to the in-port of every
present same-namespace target of the phase port that has that in-port, send, and return the
error payload of the joined answer (nil otherwise). -/
theorem C08.exec_as_modelled :
    of "exec" =
      [("loop", "range ports[name]", ""),
       ("if", "id == uuid.Nil", "id = t.lookup(sb.Namespace(), port.Name)"),
       ("if", "ok && ref.Namespace() == sb.Namespace()", "block:if"),
       ("if", "in := ref.In(port.Port); in != nil", "out.Link(in)"),
       ("if", "err != nil", "return err"),
       ("if", "v, ok := backPck.Payload().(types.Error); ok", "err = v.Unwrap()"),
       ("return", "return err", "")] ∧
    sig "exec" = some (["sb *Symbol", "name string"], ["error"]) := by
  decide

/-! ## `packet.Join` (lifecycle flows fanning out to several responders are joined by it) -/
theorem C08.join_facts_as_modelled : type_of% C01.join_facts_as_modelled := C01.join_facts_as_modelled
theorem C08.join_as_modelled : type_of% C01.join_as_modelled := C01.join_as_modelled
