/-
C08 – theorems that tie the model's assumptions to fact tables regenerated from the
repository's source on every run (extract/main.go). Kept apart from C08.lean so that the
property theorems and these obligations can be maintained independently.
-/
import Uniflow.Generated.Lifecycle

/-! ## Call order of `(*Table).load` / `unload` tied to the source

`Model/Table.lean` transcribes `load` as: for each symbol of `linked` in order, if activated:
init flow, load hooks, begin flow; `unload` walks `linked` in reverse: term flow, unload hooks,
final flow. `Generated/Lifecycle.lean` is regenerated from table.go on every run. -/
open Uniflow.Generated.Lifecycle in
theorem C08.lifecycle_calls_as_modelled :
    loadDirection = "forward" ∧
    loadCalls = ["linked", "isActivated", "exec:node.PortInit", "hooks:t.loadHooks.Load", "exec:node.PortBegin"] ∧
    unloadDirection = "reverse" ∧
    unloadCalls = ["linked", "isActivated", "exec:node.PortTerm", "hooks:t.unloadHooks.Unload", "exec:node.PortFinal"] := by
  decide
