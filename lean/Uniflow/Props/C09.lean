/-
C09 — the runtime converges to the stores: one symbol per spec, rebound, nothing extra;
loading again when nothing changed restarts nothing.

Theorems about `Uniflow.Runtime` (model of pkg/runtime/runtime.go after the `fix:` commits of this
property; helper lemmas in `Uniflow/Proofs/Runtime.lean`).  The specification is
`St.target` / `targetAt` (Model/Runtime.lean, last section): at id `i` the table must hold the
spec stored under `i` if it lives in the runtime's namespace – with its current content and its
env bound to the current values (or marked unbound when a reference has no value) – and nothing
otherwise.

Atomicity assumed by the model: a store mutation, a `Load`, and the consumption of one stream
event are atomic steps.  The first is the store's mutex; the other two are `loadMu` of the fixed
runtime (loads never overlap; the value consumer scans the table and reloads in one critical
section).  A store mutation landing between a `Load`'s reads and its table writes is covered by the
concurrent model (`cstep`: `begin…` reads the stores, `commit` writes the table, mutations in
between) and `C09.converges_concurrent`. Two *loads* overlapping – possible on the pinned code,
where they could publish a stale spec – is excluded by `loadMu` (see known_findings.txt).

Event delivery assumed by the model: the spec stream and the value stream are *reliable FIFO
queues* (`St.specEv`, `St.valEv`): every event emitted for a document of the runtime's namespace
while watching is delivered to its consumer exactly once, in emission order. That is what C13
(`C13.events_exact`, about pkg/store/stream.go and `store.emit`) establishes for the real streams;
`C09.converges`, `C09.converges_eventually` and `C09.converges_concurrent` take it as given. The
dependence is made explicit at the end of this file: over a stream that may drop an event equal
to the one its consumer is still handling (`lstep`), the same histories without drops converge
(`C09.reliable_queue_converges`), and one dropped event breaks convergence for good
(`C09.lossy_queue_breaks_convergence`, `C09.lossy_value_queue_breaks_convergence`). On the real
code the harness forces exactly that history (the same document updated again while the
reconciler's Load for the previous update is parked).

Serialisation assumed by the model: an event is taken and handled only when no load is in flight
(`cstep`), whatever its kind – `loadMu` around `Load` and `reload`, which are all `Reconcile`
does (tie theorems in C09Tie.lean over Generated/RuntimeFacts). The last section shows the
dependence: a delete event applied between a load's read and its commit (`ustep`) leaves a symbol
for a deleted spec for ever (`C09.unlocked_delete_breaks_convergence`); the harness forces that
interleaving on the real code (delete-during-load family).
-/
import Uniflow.Proofs.Runtime
import Uniflow.Proofs.RuntimeConc

open Uniflow.Runtime

namespace Uniflow.Runtime

theorem tabNs_congr {st st' : St} (h1 : st'.table = st.table) (h2 : st'.ns = st.ns) (h : TabNs st) : TabNs st' := by
  intro i sb hl
  rw [h1] at hl
  rw [h2]
  exact h i sb hl

/-- `TabNs` holds in every state reachable from an empty table. -/
theorem tabNs_step (st : St) (o : Op) (h : TabNs st) : TabNs (step st o).1 := by
  cases o with
  | watch => exact h
  | load f => exact load_tabNs st f h
  | consumeSpec =>
    simp only [step, consumeSpec]
    split
    · exact h
    · exact load_tabNs _ _ h
  | consumeVal =>
    simp only [step, consumeVal]
    split
    · exact h
    · split
      · exact h
      · exact load_tabNs _ _ h
  | insSpec s =>
    have : (step st (.insSpec s)).1.table = st.table ∧ (step st (.insSpec s)).1.ns = st.ns := by
      simp only [step]; repeat' split
      all_goals simp
    exact tabNs_congr this.1 this.2 h
  | updSpec s =>
    have : (step st (.updSpec s)).1.table = st.table ∧ (step st (.updSpec s)).1.ns = st.ns := by
      simp only [step]; repeat' split
      all_goals simp
    exact tabNs_congr this.1 this.2 h
  | delSpec i =>
    have : (step st (.delSpec i)).1.table = st.table ∧ (step st (.delSpec i)).1.ns = st.ns := by
      simp only [step]; repeat' split
      all_goals simp
    exact tabNs_congr this.1 this.2 h
  | insVal v =>
    have : (step st (.insVal v)).1.table = st.table ∧ (step st (.insVal v)).1.ns = st.ns := by
      simp only [step]; repeat' split
      all_goals simp
    exact tabNs_congr this.1 this.2 h
  | updVal v =>
    have : (step st (.updVal v)).1.table = st.table ∧ (step st (.updVal v)).1.ns = st.ns := by
      simp only [step]; repeat' split
      all_goals simp
    exact tabNs_congr this.1 this.2 h
  | delVal i =>
    have : (step st (.delVal i)).1.table = st.table ∧ (step st (.delVal i)).1.ns = st.ns := by
      simp only [step]; repeat' split
      all_goals simp
    exact tabNs_congr this.1 this.2 h

theorem tabNs_run (st : St) (os : List Op) (h : TabNs st) : TabNs (run st os) := by
  induction os generalizing st with
  | nil => exact h
  | cons o os ih => exact ih _ (tabNs_step st o h)

theorem tabNs_init (n : Nat) : TabNs { ns := n } := by
  intro i sb h
  simp [lookup] at h

/-- Draining: consuming one event shortens the queues and touches nothing else but table and log. -/
theorem consumeSpec_fields (st : St) :
    (consumeSpec st).specs = st.specs ∧ (consumeSpec st).vals = st.vals ∧ (consumeSpec st).ns = st.ns ∧
    (consumeSpec st).specEv = st.specEv.tail ∧ (consumeSpec st).valEv = st.valEv := by
  unfold consumeSpec
  cases h : st.specEv with
  | nil => simp [h]
  | cons i rest =>
    simp only []
    obtain ⟨e1, e2, e3, _, e5, e6⟩ := load_fields { st with specEv := rest } (.ids [i])
    simp [e1, e2, e3, e5, e6]

theorem consumeVal_fields (st : St) :
    (consumeVal st).specs = st.specs ∧ (consumeVal st).vals = st.vals ∧ (consumeVal st).ns = st.ns ∧
    (consumeVal st).specEv = st.specEv ∧ (consumeVal st).valEv = st.valEv.tail := by
  unfold consumeVal
  cases h : st.valEv with
  | nil => simp [h]
  | cons w rest =>
    simp only []
    split
    · simp
    · obtain ⟨e1, e2, e3, _, e5, e6⟩ := load_fields { st with valEv := rest } (.ids (selected { st with valEv := rest } w))
      simp [e1, e2, e3, e5, e6]

theorem drain_spec (n : Nat) (st : St) (hg : Good st) (hlen : st.specEv.length + st.valEv.length ≤ n) :
    Good (drain n st) ∧ (drain n st).specEv = [] ∧ (drain n st).valEv = [] ∧
    (drain n st).specs = st.specs ∧ (drain n st).vals = st.vals ∧ (drain n st).ns = st.ns := by
  induction n generalizing st with
  | zero =>
    have h1 : st.specEv = [] := List.eq_nil_of_length_eq_zero (by omega)
    have h2 : st.valEv = [] := List.eq_nil_of_length_eq_zero (by omega)
    exact ⟨hg, h1, h2, rfl, rfl, rfl⟩
  | succ n ih =>
    unfold drain
    cases h1 : st.specEv with
    | cons i rest =>
      simp only []
      obtain ⟨e1, e2, e3, e4, e5⟩ := consumeSpec_fields st
      have := ih (consumeSpec st) (good_consumeSpec st hg) (by rw [e4, e5, h1]; simp; rw [h1] at hlen; simp at hlen; omega)
      rw [e1, e2, e3] at this
      exact this
    | nil =>
      cases h2 : st.valEv with
      | cons w rest =>
        simp only []
        obtain ⟨e1, e2, e3, e4, e5⟩ := consumeVal_fields st
        have := ih (consumeVal st) (good_consumeVal st hg) (by rw [e4, e5, h1, h2]; simp; rw [h2] at hlen; simp at hlen; omega)
        rw [e1, e2, e3] at this
        exact this
      | nil => exact ⟨hg, h1, h2, rfl, rfl, rfl⟩

end Uniflow.Runtime

/-! ## Property theorems -/

/-- **After `Load(nil)` the table is exactly the target**: for every state whose table holds only
symbols of the runtime's namespace (every reachable state, `C09.load_exact_reachable`), after a
`Load` with no filter and no concurrent step, the symbol table holds under every id exactly what
the stores demand – the spec of the runtime's namespace stored under that id, with its current
content and bound to the current values, and nothing for deleted specs or other namespaces. -/
theorem C09.load_exact (st : St) (hns : TabNs st) (i : Nat) :
    lookup (load st .all).table i = st.target i := by
  rw [load_table st .all hns]
  simp [Filter.matches]

/-- The same for a filtered `Load` (the loads `Reconcile` issues): ids the filter covers become
exact, every other id is left alone. -/
theorem C09.load_exact_filtered (st : St) (f : Filter) (hns : TabNs st) (i : Nat) :
    lookup (load st f).table i = if f.matches i = true then st.target i else lookup st.table i :=
  load_table st f hns i

/-- `load_exact` for every history: whatever operations (mutations, loads, watch, event
consumptions) were applied to a fresh runtime of namespace `n`, a `Load(nil)` makes the table
exact. -/
theorem C09.load_exact_reachable (n : Nat) (h : List Op) (i : Nat) :
    lookup (load (run { ns := n } h) .all).table i = (run { ns := n } h).target i :=
  C09.load_exact _ (tabNs_run _ h (tabNs_init n)) i

/-- **A runtime can be used again after `Close`, and for a second watch session.** After
`Runtime.Close` (table emptied, streams forgotten) followed by `Watch`, a `Load(nil)` makes the
table exact again, and the state is then `Good`, i.e. `C09.converges` / `C09.converges_eventually`
apply to the new session from there; the same after a plain second `Watch` (the first session's
context cancelled, or still live), whose fresh streams start empty. -/
theorem C09.second_session_starts_exact (st : St) (hns : TabNs st) :
    (∀ i, lookup (load (step (closeRt st) .watch).1 .all).table i = st.target i) ∧
    Good (load (step (closeRt st) .watch).1 .all) ∧
    (∀ i, lookup (load (step st .watch).1 .all).table i = st.target i) ∧
    Good (load (step st .watch).1 .all) := by
  have hnsC : TabNs (step (closeRt st) .watch).1 := by
    intro i sb h
    simp [step, closeRt, lookup] at h
  have hnsW : TabNs (step st .watch).1 := hns
  have good : ∀ s : St, s.watching = true → TabNs s → Good (load s .all) := by
    intro s hw hn
    refine ⟨by rw [(load_fields s .all).2.2.2.1]; exact hw, load_tabNs s .all hn, ?_⟩
    apply cov_load .all hn
    intro j _ hf
    simp [Filter.matches] at hf
  refine ⟨fun i => ?_, good _ rfl hnsC, fun i => ?_, good _ rfl hnsW⟩
  · rw [C09.load_exact _ hnsC]; rfl
  · rw [C09.load_exact _ hnsW]; rfl

/-- **A second `Load` in an unchanged world restarts nothing**: it returns the very same state –
same table, and the notification log is not extended (no load or unload notification). -/
theorem C09.load_idempotent (st : St) (f : Filter) (hns : TabNs st) :
    load (load st f) f = load st f ∧ (load (load st f) f).log = (load st f).log := by
  have h : load (load st f) f = load st f := by
    apply load_noop
    intro i hf
    rw [load_table st f hns, if_pos hf]
    obtain ⟨e1, e2, e3, _, _, _⟩ := load_fields st f
    simp [St.target, e1, e2, e3]
  exact ⟨h, by rw [h]⟩

/-- More generally, a `Load` (any filter) over ids that already hold what the stores demand is a
no-op: no notification, no change. In particular after `Load(nil)` every filtered reload is silent. -/
theorem C09.load_silent_when_exact (st : St) (f : Filter)
    (h : ∀ i, f.matches i = true → lookup st.table i = st.target i) :
    load st f = st ∧ (load st f).log = st.log := by
  have := load_noop st f h
  exact ⟨this, by rw [this]⟩

theorem C09.reload_after_full_load_silent (st : St) (g : Filter) (hns : TabNs st) :
    (load (load st .all) g).log = (load st .all).log := by
  apply (C09.load_silent_when_exact (load st .all) g _).2
  intro i _
  rw [C09.load_exact st hns]
  obtain ⟨e1, e2, e3, _, _, _⟩ := load_fields st .all
  simp [St.target, e1, e2, e3]

/-- **The convergence invariant.** `Good` = watching ∧ table within the namespace ∧ `Cov`, where
`Cov` says: every id without a pending spec event holds exactly what the stores demanded at some
moment whose value store differs from the current one only in values that have a pending value
event (or are invisible to the namespace). It is preserved by every store mutation, every `Load`
and every consumption of a spec or value event. -/
theorem C09.converges_invariant (st : St) (o : Op) (hg : Good st) (ho : o ≠ .watch) :
    Good (step st o).1 :=
  good_step st o hg (fun h => ho h)

/-- **Convergence.** Start watching, `Load(nil)`, then let any history of inserts / updates /
deletes on both stores (a spec and a value keep their namespace for life – `step` refuses an
update that changes it), further `Load`s with any filter, and consumptions of spec and value
events interleave in any order (atomic steps: loads do not overlap). Whenever both event queues are
empty, the table is exactly the target: one symbol per spec of the namespace, current content,
bound to the current values, nothing extra. -/
theorem C09.converges (st0 : St) (hw : st0.watching = true) (hns : TabNs st0) (h : List Op) (hn : NoWatch h)
    (hq1 : (run (load st0 .all) h).specEv = []) (hq2 : (run (load st0 .all) h).valEv = []) (i : Nat) :
    lookup (run (load st0 .all) h).table i = (run (load st0 .all) h).target i := by
  have hg0 : Good (load st0 .all) := by
    refine ⟨by rw [(load_fields st0 .all).2.2.2.1]; exact hw, load_tabNs st0 .all hns, ?_⟩
    apply cov_load .all hns
    intro j _ hf
    simp [Filter.matches] at hf
  exact cov_quiescent (good_run _ h hg0 hn).2.2 hq1 hq2 i

/-- **Quiescence is reached, and then the table is the target ("eventually").** From any state of
such a history, once the stores stop changing, consuming the pending events (at most as many steps
as there are pending events) empties both queues, leaves the stores alone, and the table is then
exactly what the stores demand. -/
theorem C09.converges_eventually (st : St) (hg : Good st) (i : Nat) :
    let st' := drain (st.specEv.length + st.valEv.length) st
    st'.specEv = [] ∧ st'.valEv = [] ∧ st'.specs = st.specs ∧ st'.vals = st.vals ∧
    lookup st'.table i = st.target i := by
  obtain ⟨hg', h1, h2, h3, h4, h5⟩ := drain_spec _ st hg (Nat.le_refl _)
  refine ⟨h1, h2, h3, h4, ?_⟩
  rw [cov_quiescent hg'.2.2 h1 h2 i]
  simp [St.target, h3, h4, h5]

/-! ### non-vacuity -/

private def s1 : Spec := { id := 1, ns := 1, name := none, kind := 0, env := [⟨5, .name 7⟩], ver := 1 }
private def s2 : Spec := { id := 2, ns := 1, name := some 3, kind := 2, env := [], ver := 1 }
private def s3 : Spec := { id := 3, ns := 2, name := none, kind := 0, env := [], ver := 1 }
private def v10 : Value := { id := 10, ns := 1, name := some 7, ver := 4 }
/-- `s1` as the table holds it once bound to value 10: the reference by name has become the value's id. -/
private def s1b : Spec := { s1 with env := [⟨5, .id 10⟩] }

/-- A concrete history: three specs (one in another namespace, one of an unknown kind, one with a
reference by name that is missing at first), a value arriving later, an update of the value and
a deletion – the table after the loads is non-trivial, the first reload of the bound symbol emits
`unload`/`load`, and a repeated load emits nothing. -/
theorem C09.load_nonvacuous :
    let st := run { ns := 1 } [.insSpec s1, .insSpec s2, .insSpec s3, .load .all]
    let st2 := run st [.insVal v10, .load .all]
    let st3 := run st2 [.updVal { v10 with ver := 5 }, .load (.ids [1])]
    TabNs st ∧
    lookup st.table 1 = some ⟨s1, none⟩ ∧ lookup st.table 2 = some ⟨s2, some []⟩ ∧ lookup st.table 3 = none ∧
    st.log = [] ∧
    lookup st2.table 1 = some ⟨s1b, some [⟨5, 10, some 7, 4⟩]⟩ ∧ st2.log = [.load 1] ∧
    lookup st3.table 1 = some ⟨s1b, some [⟨5, 10, some 7, 5⟩]⟩ ∧ st3.log = [.load 1, .unload 1, .load 1] ∧
    (load st3 .all).log = st3.log := by
  refine ⟨tabNs_run _ _ (tabNs_init 1), ?_⟩
  decide

/-- A concrete watched history on which the invariant does real work: the value is inserted
after the spec that references it by name was loaded unbound; the spec is then updated and
another one deleted; events are consumed value-first. At quiescence the table is the target and
is not empty. -/
theorem C09.converges_nonvacuous :
    let st0 : St := (run { ns := 1 } [.insSpec s1, .insSpec s2, .watch])
    let h : List Op := [.insVal v10, .updSpec { s1 with ver := 2 }, .delSpec 2, .consumeVal, .consumeSpec, .consumeSpec]
    st0.watching = true ∧ TabNs st0 ∧ NoWatch h ∧
    (run (load st0 .all) h).specEv = [] ∧ (run (load st0 .all) h).valEv = [] ∧
    (run (load st0 .all) [.insVal v10, .updSpec { s1 with ver := 2 }]).valEv = [10] ∧
    lookup (run (load st0 .all) h).table 1 = some ⟨{ s1b with ver := 2 }, some [⟨5, 10, some 7, 4⟩]⟩ ∧
    lookup (run (load st0 .all) h).table 2 = none := by
  refine ⟨by decide, tabNs_run _ _ (tabNs_init 1), by simp [NoWatch], ?_⟩
  decide

/-! ### the overlapping case -/

/-- **Convergence with store mutations landing inside a `Load`.** In the concurrent model a
`Load` (explicit, or issued by the spec / value consumer for an event it has taken) reads the
stores at one step and writes the table at a later `commit`; store mutations interleave freely
with both; loads themselves are serialised (`loadMu`, at most one in flight – the fixed code;
on the pinned code two racing loads could publish a stale spec, reproduced with the verif yield
hook). For every such history from a watched, fully loaded state: whenever no load is in flight
and both event queues are empty, the table is exactly the target. -/
theorem C09.converges_concurrent (st0 : St) (h : List COp) (hw : st0.watching = true) (hns : TabNs st0)
    (hfl : (crun { st := load st0 .all } h).fl = none)
    (hq1 : (crun { st := load st0 .all } h).st.specEv = [])
    (hq2 : (crun { st := load st0 .all } h).st.valEv = []) (i : Nat) :
    lookup (crun { st := load st0 .all } h).st.table i = (crun { st := load st0 .all } h).st.target i := by
  have hg0 : CGood { st := load st0 .all } := by
    refine ⟨by rw [(load_fields st0 .all).2.2.2.1]; exact hw, load_tabNs st0 .all hns, ?_, fun fl h => by cases h⟩
    intro j hj
    right
    have hc : Cov (load st0 .all) := by
      apply cov_load .all hns
      intro j _ hf
      simp [Filter.matches] at hf
    exact hc j hj
  obtain ⟨_, _, hc, _⟩ := cgood_run _ h hg0
  apply cov_quiescent _ hq1 hq2 i
  intro j hj
  rcases hc j hj with ⟨fl, hfl', _⟩ | hcov
  · rw [hfl] at hfl'; cases hfl'
  · exact hcov

/-- Non-vacuity of the concurrent theorem: the value consumer's load reads spec 1 (version 1),
the spec is updated to version 2 while that load is in flight, the load commits the stale
version 1, and the pending spec event then repairs it. -/
theorem C09.converges_concurrent_nonvacuous :
    let st0 : St := run { ns := 1 } [.insSpec s1, .insVal v10, .watch]
    let h1 : List COp := [.store (.updVal { v10 with ver := 5 }), .beginVal, .store (.updSpec { s1 with ver := 2 }), .commit]
    let h : List COp := h1 ++ [.beginSpec, .commit]
    st0.watching = true ∧ TabNs st0 ∧
    lookup (crun { st := load st0 .all } h1).st.table 1 = some ⟨s1b, some [⟨5, 10, some 7, 5⟩]⟩ ∧
    (crun { st := load st0 .all } h1).st.specEv = [1] ∧
    (crun { st := load st0 .all } h).fl = none ∧
    (crun { st := load st0 .all } h).st.specEv = [] ∧ (crun { st := load st0 .all } h).st.valEv = [] ∧
    lookup (crun { st := load st0 .all } h).st.table 1 = some ⟨{ s1b with ver := 2 }, some [⟨5, 10, some 7, 5⟩]⟩ := by
  refine ⟨by decide, tabNs_run _ _ (tabNs_init 1), ?_⟩
  decide

/-! ### event delivery: what convergence relies on -/

/-- **With reliable streams the lossy model is the concurrent model and converges.** A history of
the lossy model in which the pumps never exercise their option to drop is a history of the
concurrent model, hence (by `C09.converges_concurrent`) at quiescence the table is the target. -/
theorem C09.reliable_queue_converges (st0 : St) (h : List LOp) (hw : st0.watching = true) (hns : TabNs st0)
    (hrel : ∀ o ∈ h, o.drop = false)
    (hfl : (lrun { c := { st := load st0 .all } } h).c.fl = none)
    (hq1 : (lrun { c := { st := load st0 .all } } h).c.st.specEv = [])
    (hq2 : (lrun { c := { st := load st0 .all } } h).c.st.valEv = []) (i : Nat) :
    lookup (lrun { c := { st := load st0 .all } } h).c.st.table i =
      (lrun { c := { st := load st0 .all } } h).c.st.target i := by
  rw [lrun_reliable _ h hrel] at hfl hq1 hq2 ⊢
  exact C09.converges_concurrent st0 (h.map (·.op)) hw hns hfl hq1 hq2 i

/-- **A stream that may drop an event equal to the previously delivered one breaks convergence.**
Concrete history: spec 1 is updated (version 2), the spec consumer takes the event and its Load
reads the store; spec 1 is updated again (version 3) – the event `{update, 1}` equals the one the
consumer is still handling, nothing else is queued, the pump drops it; the Load commits version 2.
No load in flight, both queues empty – and the table holds version 2 while the store holds
version 3, for good. Every drop in the history is of the permitted kind (an update event equal to
the last delivered one, consumer busy, queue empty – `lstep` ignores `drop` otherwise). -/
theorem C09.lossy_queue_breaks_convergence :
    ∃ (st0 : St) (h : List LOp),
      st0.watching = true ∧ TabNs st0 ∧
      (∀ o ∈ h, o.drop = true → ∃ m, o.op = .store m ∧ opKind m = 1) ∧
      let l := lrun { c := { st := load st0 .all } } h
      l.c.fl = none ∧ l.c.st.specEv = [] ∧ l.c.st.valEv = [] ∧
      ∃ i, lookup l.c.st.table i ≠ l.c.st.target i := by
  refine ⟨run { ns := 1 } [.insSpec s1, .insVal v10, .watch],
    [⟨.store (.updSpec { s1 with ver := 2 }), false⟩, ⟨.beginSpec, false⟩,
     ⟨.store (.updSpec { s1 with ver := 3 }), true⟩, ⟨.commit, false⟩],
    by decide, tabNs_run _ _ (tabNs_init 1), ?_, ?_⟩
  · intro o ho hd
    simp only [List.mem_cons, List.not_mem_nil, or_false] at ho
    rcases ho with rfl | rfl | rfl | rfl
    · cases hd
    · cases hd
    · exact ⟨_, rfl, rfl⟩
    · cases hd
  · refine ⟨by decide, by decide, by decide, 1, by decide⟩

/-- The same on the value stream: value 10, to which spec 1 is bound, is updated twice; the second
`{update, 10}` is dropped while the value consumer is inside the reload for the first; the symbol
stays bound to the first update's data. -/
theorem C09.lossy_value_queue_breaks_convergence :
    ∃ (st0 : St) (h : List LOp),
      st0.watching = true ∧ TabNs st0 ∧
      (∀ o ∈ h, o.drop = true → ∃ m, o.op = .store m ∧ opKind m = 1) ∧
      let l := lrun { c := { st := load st0 .all } } h
      l.c.fl = none ∧ l.c.st.specEv = [] ∧ l.c.st.valEv = [] ∧
      lookup l.c.st.table 1 = some ⟨s1b, some [⟨5, 10, some 7, 5⟩]⟩ ∧
      l.c.st.target 1 = some ⟨s1b, some [⟨5, 10, some 7, 6⟩]⟩ := by
  refine ⟨run { ns := 1 } [.insSpec s1, .insVal v10, .watch],
    [⟨.store (.updVal { v10 with ver := 5 }), false⟩, ⟨.beginVal, false⟩,
     ⟨.store (.updVal { v10 with ver := 6 }), true⟩, ⟨.commit, false⟩],
    by decide, tabNs_run _ _ (tabNs_init 1), ?_, ?_⟩
  · intro o ho hd
    simp only [List.mem_cons, List.not_mem_nil, or_false] at ho
    rcases ho with rfl | rfl | rfl | rfl
    · cases hd
    · cases hd
    · exact ⟨_, rfl, rfl⟩
    · cases hd
  · decide

/-- The drop in the counterexample is a real choice: the same history with the pump delivering
the second event converges (to version 3). -/
theorem C09.lossy_queue_counterexample_needs_the_drop :
    let st0 : St := run { ns := 1 } [.insSpec s1, .insVal v10, .watch]
    let h : List LOp := [⟨.store (.updSpec { s1 with ver := 2 }), false⟩, ⟨.beginSpec, false⟩,
      ⟨.store (.updSpec { s1 with ver := 3 }), false⟩, ⟨.commit, false⟩, ⟨.beginSpec, false⟩, ⟨.commit, false⟩]
    let l := lrun { c := { st := load st0 .all } } h
    l.c.fl = none ∧ l.c.st.specEv = [] ∧ l.c.st.valEv = [] ∧
    lookup l.c.st.table 1 = some ⟨{ s1b with ver := 3 }, some [⟨5, 10, some 7, 4⟩]⟩ ∧
    lookup l.c.st.table 1 = l.c.st.target 1 := by
  decide

/-! ### `loadMu` around the handling of every event kind: what convergence relies on

`C09.converges_concurrent` is about `cstep`, in which an event is taken and handled only when no
load is in flight – that is what `loadMu` (held by `Load` and by `reload`, the only two things
`Reconcile` does with an event: `C09.reconcile_reaches_table_only_through_load` in C09Tie.lean,
re-checked against the source on every run) guarantees, for every kind of event. `ustep` adds the
one step that breaks this: the spec consumer frees the symbol of a deleted spec at once, while a
load that read the spec before the deletion is still in flight. -/

/-- With no load in flight the fast path is harmless: it leaves under every id exactly what the
serialised handling of the event (`beginSpec` then `commit`, i.e. `Load({id})`) leaves. -/
theorem C09.unlocked_delete_harmless_when_idle (c : CSt) (i : Nat) (rest : List Nat)
    (hns : TabNs c.st) (hfl : c.fl = none) (hev : c.st.specEv = i :: rest) (hdel : lookup c.st.specs i = none)
    (j : Nat) :
    lookup (ustep c .fastDelete).st.table j = lookup (cstep (cstep c .beginSpec) .commit).st.table j := by
  have h1 : lookup (ustep c .fastDelete).st.table j = if j = i then none else lookup c.st.table j := by
    simp only [ustep, hev, hdel]
    exact freeSym_lookup c.st.table c.st.log i j
  have h2 : lookup (cstep (cstep c .beginSpec) .commit).st.table j = if j = i then none else lookup c.st.table j := by
    simp only [cstep, hfl, hev]
    have hns' : TabNs { c.st with specEv := rest } := hns
    show lookup (load { c.st with specEv := rest } (.ids [i])).table j = _
    rw [load_table _ _ hns']
    by_cases hji : j = i
    · subst hji
      simp [Filter.matches, St.target, targetAt, hdel]
    · simp [Filter.matches, hji]
  rw [h1, h2]

/-- **Handling a delete event outside `loadMu` breaks convergence.** Concrete history: value 10, to
which spec 1 is bound, is updated; the value consumer takes the event and its reload reads the
stores (spec 1 is in its snapshot); spec 1 is deleted and the spec consumer's unlocked fast path
frees the symbol at once; the reload then finds no symbol under id 1 and inserts spec 1 from its
stale snapshot. No load in flight, both queues empty – and the table holds a symbol for a spec
that no longer exists, for good ("nothing for deleted specs" fails). -/
theorem C09.unlocked_delete_breaks_convergence :
    ∃ (st0 : St) (h : List UOp),
      st0.watching = true ∧ TabNs st0 ∧
      let c := urun { st := load st0 .all } h
      c.fl = none ∧ c.st.specEv = [] ∧ c.st.valEv = [] ∧
      lookup c.st.specs 1 = none ∧ c.st.target 1 = none ∧
      lookup c.st.table 1 = some ⟨s1b, some [⟨5, 10, some 7, 5⟩]⟩ := by
  refine ⟨run { ns := 1 } [.insSpec s1, .insVal v10, .watch],
    [.c (.store (.updVal { v10 with ver := 5 })), .c .beginVal, .c (.store (.delSpec 1)), .fastDelete, .c .commit],
    by decide, tabNs_run _ _ (tabNs_init 1), ?_⟩
  decide

/-- The overlap is what matters: the same steps with the delete event handled after the reload has
committed (the order `loadMu` enforces) leave nothing under id 1. -/
theorem C09.unlocked_delete_counterexample_needs_the_race :
    let st0 : St := run { ns := 1 } [.insSpec s1, .insVal v10, .watch]
    let h : List UOp := [.c (.store (.updVal { v10 with ver := 5 })), .c .beginVal, .c (.store (.delSpec 1)),
      .c .commit, .fastDelete]
    let c := urun { st := load st0 .all } h
    c.fl = none ∧ c.st.specEv = [] ∧ c.st.valEv = [] ∧ lookup c.st.table 1 = none ∧ c.st.target 1 = none := by
  decide

/-- The table stores the *bound* spec (`compile` / `normEnv`): an update that only changes how an
env entry refers to the value it is already bound to (spec 1: by name 7 → by id 10) is no change
for `Load` – same table entry, no notification. -/
theorem C09.same_binding_restarts_nothing :
    let st := run { ns := 1 } [.insVal v10, .insSpec s1, .load .all]
    let st2 := run st [.updSpec s1b, .load .all]
    lookup st.table 1 = some ⟨s1b, some [⟨5, 10, some 7, 4⟩]⟩ ∧
    lookup st2.table 1 = lookup st.table 1 ∧ st.log = [.load 1] ∧ st2.log = st.log := by
  decide

/-! ### batches: one `Insert` of several documents, a later one refused -/

namespace Uniflow.Runtime

theorem insSpecs_run (st : St) (l : List (Spec × Bool)) : (insSpecs st l).1 = run st (specBatchOps st l) := by
  induction l generalizing st with
  | nil => rfl
  | cons d rest ih =>
    obtain ⟨s, acc⟩ := d
    cases acc with
    | false => simp [insSpecs, specBatchOps, run]
    | true =>
      cases hl : lookup st.specs s.id with
      | some _ => simp [insSpecs, specBatchOps, step, hl, run]
      | none =>
        simp only [insSpecs, specBatchOps, step, hl, run, Bool.true_eq_false, reduceCtorEq, ↓reduceIte]
        exact ih _

theorem insVals_run (st : St) (l : List (Value × Bool)) : (insVals st l).1 = run st (valBatchOps st l) := by
  induction l generalizing st with
  | nil => rfl
  | cons d rest ih =>
    obtain ⟨v, acc⟩ := d
    cases acc with
    | false => simp [insVals, valBatchOps, run]
    | true =>
      cases hl : lookup st.vals v.id with
      | some _ => simp [insVals, valBatchOps, step, hl, run]
      | none =>
        simp only [insVals, valBatchOps, step, hl, run, Bool.true_eq_false, reduceCtorEq, ↓reduceIte]
        exact ih _

theorem specBatchOps_noWatch (st : St) (l : List (Spec × Bool)) : NoWatch (specBatchOps st l) := by
  induction l generalizing st with
  | nil => trivial
  | cons d rest ih =>
    obtain ⟨s, acc⟩ := d
    cases acc with
    | false => simp [specBatchOps, NoWatch]
    | true =>
      cases hl : lookup st.specs s.id with
      | some _ => simp [specBatchOps, step, hl, NoWatch]
      | none =>
        simp only [specBatchOps, step, hl, NoWatch, Bool.true_eq_false, reduceCtorEq, ↓reduceIte]
        exact ih _

theorem valBatchOps_noWatch (st : St) (l : List (Value × Bool)) : NoWatch (valBatchOps st l) := by
  induction l generalizing st with
  | nil => trivial
  | cons d rest ih =>
    obtain ⟨v, acc⟩ := d
    cases acc with
    | false => simp [valBatchOps, NoWatch]
    | true =>
      cases hl : lookup st.vals v.id with
      | some _ => simp [valBatchOps, step, hl, NoWatch]
      | none =>
        simp only [valBatchOps, step, hl, NoWatch, Bool.true_eq_false, reduceCtorEq, ↓reduceIte]
        exact ih _

/-- What a batch never undoes: flags, events already queued, documents already stored. -/
theorem insSpecs_mono (st : St) (l : List (Spec × Bool)) :
    (insSpecs st l).1.watching = st.watching ∧ (insSpecs st l).1.ns = st.ns ∧
    (∀ j, j ∈ st.specEv → j ∈ (insSpecs st l).1.specEv) ∧
    (∀ j s, lookup st.specs j = some s → lookup (insSpecs st l).1.specs j = some s) := by
  induction l generalizing st with
  | nil => exact ⟨rfl, rfl, fun _ h => h, fun _ _ h => h⟩
  | cons d rest ih =>
    obtain ⟨s0, acc⟩ := d
    cases acc with
    | false => rw [show insSpecs st ((s0, false) :: rest) = (st, Out.bad) from by simp [insSpecs]]; exact ⟨rfl, rfl, fun _ h => h, fun _ _ h => h⟩
    | true =>
      cases hl : lookup st.specs s0.id with
      | some _ => rw [show insSpecs st ((s0, true) :: rest) = (st, Out.dup) from by simp [insSpecs, step, hl]]; exact ⟨rfl, rfl, fun _ h => h, fun _ _ h => h⟩
      | none =>
        rw [show insSpecs st ((s0, true) :: rest) = insSpecs { st with specs := put st.specs s0, specEv := emitSpec st s0.ns s0.id } rest from by simp [insSpecs, step, hl]]
        obtain ⟨h1, h2, h3, h4⟩ := ih { st with specs := put st.specs s0, specEv := emitSpec st s0.ns s0.id }
        refine ⟨h1, h2, fun j hj => h3 j ?_, fun j s hs => h4 j s ?_⟩
        · show j ∈ emitSpec st s0.ns s0.id
          unfold emitSpec; split
          · exact List.mem_append_left _ hj
          · exact hj
        · show lookup (put st.specs s0) j = some s
          rw [lookup_put]
          have : ¬ Keyed.key s0 = j := by
            intro e
            rw [show Keyed.key s0 = s0.id from rfl] at e
            rw [← e, hl] at hs; cases hs
          simp [this, hs]

theorem insVals_mono (st : St) (l : List (Value × Bool)) :
    (insVals st l).1.watching = st.watching ∧ (insVals st l).1.ns = st.ns ∧
    (∀ j, j ∈ st.valEv → j ∈ (insVals st l).1.valEv) ∧
    (∀ j v, lookup st.vals j = some v → lookup (insVals st l).1.vals j = some v) := by
  induction l generalizing st with
  | nil => exact ⟨rfl, rfl, fun _ h => h, fun _ _ h => h⟩
  | cons d rest ih =>
    obtain ⟨v0, acc⟩ := d
    cases acc with
    | false => rw [show insVals st ((v0, false) :: rest) = (st, Out.bad) from by simp [insVals]]; exact ⟨rfl, rfl, fun _ h => h, fun _ _ h => h⟩
    | true =>
      cases hl : lookup st.vals v0.id with
      | some _ => rw [show insVals st ((v0, true) :: rest) = (st, Out.dup) from by simp [insVals, step, hl]]; exact ⟨rfl, rfl, fun _ h => h, fun _ _ h => h⟩
      | none =>
        rw [show insVals st ((v0, true) :: rest) = insVals { st with vals := put st.vals v0, valEv := emitVal st v0.ns v0.id } rest from by simp [insVals, step, hl]]
        obtain ⟨h1, h2, h3, h4⟩ := ih { st with vals := put st.vals v0, valEv := emitVal st v0.ns v0.id }
        refine ⟨h1, h2, fun j hj => h3 j ?_, fun j v hv => h4 j v ?_⟩
        · show j ∈ emitVal st v0.ns v0.id
          unfold emitVal; split
          · exact List.mem_append_left _ hj
          · exact hj
        · show lookup (put st.vals v0) j = some v
          rw [lookup_put]
          have : ¬ Keyed.key v0 = j := by
            intro e
            rw [show Keyed.key v0 = v0.id from rfl] at e
            rw [← e, hl] at hv; cases hv
          simp [this, hv]

theorem insSpecs_announces (st : St) (l : List (Spec × Bool)) (hw : st.watching = true)
    (i : Nat) (s : Spec) (hnew : lookup st.specs i = none)
    (hst : lookup (insSpecs st l).1.specs i = some s) (hns : s.ns = st.ns) :
    i ∈ (insSpecs st l).1.specEv := by
  induction l generalizing st with
  | nil => simp only [insSpecs, Bool.true_eq_false, reduceCtorEq, ↓reduceIte] at hst; rw [hnew] at hst; cases hst
  | cons d rest ih =>
    obtain ⟨s0, acc⟩ := d
    cases acc with
    | false => simp only [insSpecs, Bool.true_eq_false, reduceCtorEq, ↓reduceIte] at hst; rw [hnew] at hst; cases hst
    | true =>
      cases hl : lookup st.specs s0.id with
      | some _ => simp only [insSpecs, step, hl, Bool.true_eq_false, reduceCtorEq, ↓reduceIte] at hst; rw [hnew] at hst; cases hst
      | none =>
        simp only [insSpecs, step, hl, Bool.true_eq_false, reduceCtorEq, ↓reduceIte] at hst ⊢
        by_cases hi : s0.id = i
        · subst hi
          obtain ⟨_, _, h3, h4⟩ := insSpecs_mono { st with specs := put st.specs s0, specEv := emitSpec st s0.ns s0.id } rest
          have hs0 : lookup (put st.specs s0) s0.id = some s0 := by rw [lookup_put]; simp [show Keyed.key s0 = s0.id from rfl]
          have := h4 s0.id s0 hs0
          rw [this] at hst
          injection hst with hst
          subst hst
          apply h3
          show s0.id ∈ emitSpec st s0.ns s0.id
          simp [emitSpec, hw, hns]
        · apply ih { st with specs := put st.specs s0, specEv := emitSpec st s0.ns s0.id } hw _ hst hns
          show lookup (put st.specs s0) i = none
          rw [lookup_put]; simp [show Keyed.key s0 = s0.id from rfl, hi, hnew]

theorem insVals_announces (st : St) (l : List (Value × Bool)) (hw : st.watching = true)
    (i : Nat) (v : Value) (hnew : lookup st.vals i = none)
    (hst : lookup (insVals st l).1.vals i = some v) (hns : v.ns = st.ns) :
    i ∈ (insVals st l).1.valEv := by
  induction l generalizing st with
  | nil => simp only [insVals, Bool.true_eq_false, reduceCtorEq, ↓reduceIte] at hst; rw [hnew] at hst; cases hst
  | cons d rest ih =>
    obtain ⟨v0, acc⟩ := d
    cases acc with
    | false => simp only [insVals, Bool.true_eq_false, reduceCtorEq, ↓reduceIte] at hst; rw [hnew] at hst; cases hst
    | true =>
      cases hl : lookup st.vals v0.id with
      | some _ => simp only [insVals, step, hl, Bool.true_eq_false, reduceCtorEq, ↓reduceIte] at hst; rw [hnew] at hst; cases hst
      | none =>
        simp only [insVals, step, hl, Bool.true_eq_false, reduceCtorEq, ↓reduceIte] at hst ⊢
        by_cases hi : v0.id = i
        · subst hi
          obtain ⟨_, _, h3, h4⟩ := insVals_mono { st with vals := put st.vals v0, valEv := emitVal st v0.ns v0.id } rest
          have hv0 : lookup (put st.vals v0) v0.id = some v0 := by rw [lookup_put]; simp [show Keyed.key v0 = v0.id from rfl]
          have := h4 v0.id v0 hv0
          rw [this] at hst
          injection hst with hst
          subst hst
          apply h3
          show v0.id ∈ emitVal st v0.ns v0.id
          simp [emitVal, hw, hns]
        · apply ih { st with vals := put st.vals v0, valEv := emitVal st v0.ns v0.id } hw _ hst hns
          show lookup (put st.vals v0) i = none
          rw [lookup_put]; simp [show Keyed.key v0 = v0.id from rfl, hi, hnew]

end Uniflow.Runtime

/-- **A batch is a history of single inserts.** One `Insert` of several documents leaves the state
that inserting its accepted documents one by one – up to the first refused one – leaves; those
single inserts contain no `watch`. So every theorem over histories (`C09.converges`,
`C09.converges_concurrent` with the inserts as adjacent `store` steps) covers batches, refused or not. -/
theorem C09.batch_is_a_history (st : St) (ls : List (Spec × Bool)) (lv : List (Value × Bool)) :
    (insSpecs st ls).1 = run st (specBatchOps st ls) ∧ NoWatch (specBatchOps st ls) ∧
    (insVals st lv).1 = run st (valBatchOps st lv) ∧ NoWatch (valBatchOps st lv) :=
  ⟨insSpecs_run st ls, specBatchOps_noWatch st ls, insVals_run st lv, valBatchOps_noWatch st lv⟩

/-- **A refused batch announces every document it stored.** Watching: whatever document a batch
(refused at some point or not) added to the spec / value store in the runtime's namespace has its
event in the stream's queue afterwards – nothing is stored silently. -/
theorem C09.batch_announces_every_stored_document (st : St) (hw : st.watching = true) :
    (∀ (l : List (Spec × Bool)) (i : Nat) (s : Spec), lookup st.specs i = none →
      lookup (insSpecs st l).1.specs i = some s → s.ns = st.ns → i ∈ (insSpecs st l).1.specEv) ∧
    (∀ (l : List (Value × Bool)) (i : Nat) (v : Value), lookup st.vals i = none →
      lookup (insVals st l).1.vals i = some v → v.ns = st.ns → i ∈ (insVals st l).1.valEv) :=
  ⟨fun l i s h1 h2 h3 => insSpecs_announces st l hw i s h1 h2 h3,
   fun l i v h1 h2 h3 => insVals_announces st l hw i v h1 h2 h3⟩

/-- **A refused batch still converges.** The convergence invariant survives a batch on either store,
whatever document of it is refused and why; hence (`C09.converges_eventually`) once the pending
events are consumed the table reflects the stores – including the documents 1..k-1 of a batch
whose document k was refused. -/
theorem C09.refused_batch_still_converges (st : St) (hg : Good st) (ls : List (Spec × Bool)) (lv : List (Value × Bool)) (i : Nat) :
    Good (insSpecs st ls).1 ∧ Good (insVals st lv).1 ∧
    (let st' := (insSpecs st ls).1
     lookup (drain (st'.specEv.length + st'.valEv.length) st').table i = st'.target i) ∧
    (let st' := (insVals st lv).1
     lookup (drain (st'.specEv.length + st'.valEv.length) st').table i = st'.target i) := by
  have g1 : Good (insSpecs st ls).1 := by
    rw [insSpecs_run]; exact good_run st _ hg (specBatchOps_noWatch st ls)
  have g2 : Good (insVals st lv).1 := by
    rw [insVals_run]; exact good_run st _ hg (valBatchOps_noWatch st lv)
  exact ⟨g1, g2, (C09.converges_eventually _ g1 i).2.2.2.2, (C09.converges_eventually _ g2 i).2.2.2.2⟩

/-- Non-vacuity: watching, spec 1 loaded; ONE Insert of [spec 2, spec 1 again (refused: id stored),
spec 3]: the result is `dup`, spec 2 is stored and announced, spec 3 is not stored; after the
pending event is consumed the table holds spec 2. And a batch whose second document has no id
(`accepted = false`) behaves the same with result `bad`. -/
theorem C09.refused_batch_nonvacuous :
    let st0 : St := load (run { ns := 1 } [.insSpec s1, .insVal v10, .watch]) .all
    let r := insSpecs st0 [(s2, true), (s1, true), (s3, true)]
    let r' := insSpecs st0 [(s2, true), (s3, false), (s3, true)]
    r.2 = .dup ∧ lookup r.1.specs 2 = some s2 ∧ lookup r.1.specs 3 = none ∧ r.1.specEv = [2] ∧
    lookup r.1.table 2 = none ∧
    lookup (drain 1 r.1).table 2 = some ⟨s2, some []⟩ ∧ (drain 1 r.1).specEv = [] ∧
    r'.2 = .bad ∧ r'.1.specEv = [2] ∧ lookup r'.1.specs 3 = none := by
  decide
