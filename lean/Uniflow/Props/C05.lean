/-
C05 — nothing created for a process outlives it; process-local stores never wedge; a lazily
initialised value is computed at most once per process.

What is PROVED here (each for all histories / schedules, no size bound), and about which model:

1. process-local store (`Uniflow.Local`, pkg/process/local.go + AddExitHook / Exit): no residue, no
   deadlock, lazy-once, the pinned `Store` deadlock.            `C05.local_*`, `C05.lazy_*`
   A failing initialiser: nothing is stored, every waiter returns the error, nobody stays blocked.
                                   `C05.failing_initialiser_stores_nothing`, `C05.failing_initialiser_waiters_get_error`
2. port endpoint maps (`Uniflow.PortMaps`, pkg/port/inport.go, outport.go): no entry and no open
   endpoint for a terminated process at quiescence, the status-check window, no deadlock. `C05.ports_*`
3. pump goroutines (`Uniflow.PortMaps.pumps`): the number of running reader / writer pumps equals the
   number of endpoints created and not closed, and is 0 once every process has exited; the variant
   that allocates before the lock (seeded change c05b) leaks one.
                                   `C05.pumps_match_endpoints`, `C05.no_pump_after_exit`, `C05.pump_leak_when_allocated_before_lock`
4. debug agent (`Uniflow.AgentProc`, pkg/runtime/agent.go after fix 574d8e0): a process whose agent exit
   hook has run is in neither `processes` nor `frames`, and no later packet hook brings it back; the
   unguarded hooks of the pinned tree do.
                                   `C05.agent_forgets_exited`, `C05.agent_stays_forgotten`, `C05.pinned_agent_frames_residue`
5. node tracers (`Uniflow.Tracer` / `Uniflow.ATracer`, pkg/packet/tracer.go): after any
   protocol-conforming call history, once the node's loops for a process have ended nothing in the seven
   maps mentions the process; the variant of seeded change c05c keeps a `reader` entry.
                                   `C05.tracer_no_residue_after_drops`, `C05.tracer_no_residue`, `C05.tracer_drop_detaches`,
                                   `C05.tracer_empty_single_process`, `C05.tracer_c05c_residue`
   ASSUMED about the node loops at process exit (pkg/node/onetoone.go, onetomany.go, manytoone.go; the
   node model `Uniflow.Node` has no loop-end steps, so this is a hypothesis of the theorem, not a lemma):
     * `Settled`: each forward loop has left its last iteration – every packet derived from a request
       it read has been passed to `Tracer.Write` (accepted by a writer of the process, or echoed);
     * at the end of the forward loop (`Drop(outWriter)`, `Drop(errWriter)`) and of each backward loop
       (`Drop(outWriter)` after `range outWriter.Receive()`), `Tracer.Drop(w)` has run for every writer
       `w` of the process after the last accepted `Write` on it.
       `C05.tracer_no_residue_after_drops` takes those `Drop` calls literally (`dropW`, any order, any
       superset of the process's writers) after an arbitrary protocol history; `C05.tracer_no_residue` is
       the older form in which a `Drop(w)` is written as the `Receive(w, dropped)` calls it stands for and
       its effect on `writes` is a hypothesis (discharged by `C05.tracer_drop_detaches`, proved for every
       tracer state). The two are connected by `drop_refines` / `resolve_setW` in Proofs/TracerExit.lean.
   Histories of these theorems contain no `Tracer.Receive(w, nil)` (discard – used by hand-written
   nodes such as ext's try / pipe, by no node of pkg/node): C02's protocol and abstract tracer have no
   discard. `C05.tracer_discard_answers_none` (concrete shapes, `decide`) and the harness's
   fire-and-forget node (driver c05t, every run) cover concrete shapes; the general statement is
   `C05.tracer_no_residue_with_discards` (every history with discards: same replies as "discard = answer
   with nothing", no panic, no residue after the drops), proved by a simulation argument
   (Proofs/TracerDiscard.lean); the variant of seeded change c05h is `C05.tracer_c05h_residue`.
   That the real loops do end (readers / writers get closed at exit) is C03's teardown.

What stays OBSERVED by the harness (harness/c05/flow.go, after a settle loop, on real workflows): that
the node goroutines actually reach their loop ends and that no goroutine with a uniflow/pkg frame is
left (runtime.Stack profile) – the Go scheduler and channels are not modelled. The agent's two key sets
and the port maps / pump counts are additionally compared with the models on every run.

Modelled, not verified: Go's mutexes and scheduler (atomic-step semantics); user call-outs
(initialiser, store hooks, foreign exit hooks) terminate; they may re-enter the same Local or exit the
process – the model calls them with no lock of the Local held (`C05.hooks_run_unlocked`, source tie
`C05.local_calls_out_unlocked` in Props/C05Tie.lean), and the step-level correspondence drives a store
hook that does exactly that (hook id 100, yield site 8).
Helper lemmas and the inductive invariants are in `Uniflow/Proofs/{Local,PortMaps,AgentProc,TracerExit}.lean`.
-/
import Uniflow.Proofs.Local
import Uniflow.Proofs.PortMaps
import Uniflow.Proofs.LocalFail
import Uniflow.Proofs.AgentProc
import Uniflow.Proofs.TracerExit
import Uniflow.Proofs.TracerDiscard
import Uniflow.Model.TracerC05c
import Uniflow.Model.TracerC05h

section LocalStore
open Uniflow.Local

/-! ## process-local store: no residue -/

/-- **No residue (general form).** In every reachable state, for a terminated process `p` such
that no thread is in flight on a `Delete(p)` it still owes (in the gap before `AddExitHook`,
running the hook immediately, or an `Exit` thread that still has delete hooks of `p` to run), the
store holds no value for `p`. -/
theorem C05.local_no_residue (sched : List Act) (p : Pid)
    (hterm : (run false init sched).term p = true)
    (hquiet : ∀ t, pendsOn p ((run false init sched).thr t) = false) :
    (run false init sched).eager p = none := by
  have h := (allInv_reach sched).res
  cases hv : (run false init sched).eager p with
  | none => rfl
  | some x =>
    rcases h p (by rw [hv]; simp) with ⟨h1, _⟩ | ⟨t, ht⟩
    · rw [hterm] at h1; cases h1
    · rw [hquiet t] at ht; cases ht

/-- **No residue at quiescence.** Terminated process, every thread idle (every operation and
every `Exit` has returned) ⇒ no value. -/
theorem C05.local_no_residue_idle (sched : List Act) (p : Pid)
    (hterm : (run false init sched).term p = true)
    (hidle : ∀ t, (run false init sched).thr t = .idle) :
    (run false init sched).eager p = none :=
  C05.local_no_residue sched p hterm (fun t => by rw [hidle t]; rfl)

/-- The same for every terminated process at once: `Keys()` lists no terminated process. -/
theorem C05.local_keys_exclude_terminated (sched : List Act) (n : Nat)
    (hidle : ∀ t, (run false init sched).thr t = .idle) :
    ∀ p ∈ keysBelow (run false init sched) n, (run false init sched).term p = false := by
  intro p hp
  simp only [keysBelow, List.mem_filter] at hp
  cases ht : (run false init sched).term p with
  | false => rfl
  | true =>
    have := C05.local_no_residue_idle sched p ht hidle
    rw [this] at hp; simp at hp

/-- A schedule in which the exit races into the gap of a `Store` (thread 1 has written the value and
unlocked; the process terminates and thread 0's `Exit` returns; thread 1 then finds the process
terminated and runs the delete itself). -/
def C05.raceSched : List Act :=
  [.call 1 (.store 0 7), .step 1, .step 1,          -- Lock; critical section; now in the gap
   .call 0 (.exit 0), .step 0, .step 0,             -- flip; no hooks; Exit returns
   .step 1, .step 1, .step 1, .step 1]              -- AddExitHook on terminated: Lock; Delete; store hooks; return

/-- Non-vacuity: the hypotheses are met by a state that had a value for the terminated process
while it was in flight (so the conclusion is not about an untouched store). -/
theorem C05.local_no_residue_nonvacuous :
    (run false init (C05.raceSched.take 6)).term 0 = true ∧
    (run false init (C05.raceSched.take 6)).eager 0 = some 7 ∧
    pendsOn 0 ((run false init (C05.raceSched.take 6)).thr 1) = true ∧
    (run false init C05.raceSched).term 0 = true ∧
    (run false init C05.raceSched).thr 0 = .idle ∧ (run false init C05.raceSched).thr 1 = .idle ∧
    (run false init C05.raceSched).eager 0 = none := by decide

/-! ## process-local store: no deadlock -/

/-- **Deadlock freedom.** In every reachable state of the fixed code, if some thread is inside an
operation then some thread has an enabled step; and no thread waits for a mutex it owns
(neither `l.mu` nor a lazy initialiser's mutex). -/
theorem C05.local_no_deadlock (sched : List Act) :
    ((∃ t, (run false init sched).thr t ≠ .idle) → ∃ t, enabled false (run false init sched) t = true) ∧
    (∀ t c, (run false init sched).thr t = .want c → (run false init sched).mu ≠ some t) ∧
    (∀ t p L, (run false init sched).thr t = .lzWant p L → ((run false init sched).lz L).owner ≠ some t) := by
  have h := allInv_reach sched
  generalize run false init sched = s at h
  refine ⟨?_, ?_, ?_⟩
  · rintro ⟨t0, ht0⟩
    cases hmu : s.mu with
    | some tm =>
      -- the holder of l.mu is at `hold c`, whose step is unconditional
      have hh := (h.mu tm).mpr hmu
      have hp := h.nopin tm
      refine ⟨tm, ?_⟩
      cases hpc : s.thr tm <;> simp [hpc, holdsMu, isPin] at hh hp
      simp [enabled, step, hpc]
    | none =>
      cases hpc : s.thr t0 with
      | idle => exact absurd hpc ht0
      | want c => exact ⟨t0, by simp [enabled, step, hpc, hmu]⟩
      | hold c =>
        have := (h.mu t0).mp (by rw [hpc]; rfl)
        rw [hmu] at this; cases this
      | rd r => exact ⟨t0, by simp [enabled, step, hpc, hmu]⟩
      | gap site p hl x => exact ⟨t0, by simp only [enabled, step, hpc]; split <;> rfl⟩
      | lzWant p L =>
        cases ho : (s.lz L).owner with
        | none => exact ⟨t0, by simp [enabled, step, hpc, ho]⟩
        | some t' =>
          have hh := (h.wf.own L t').mpr ho
          refine ⟨t', ?_⟩
          cases hpc' : s.thr t' <;> simp [hpc', holdsLz] at hh
          · simp [enabled, step, hpc']
          · simp only [enabled, step, hpc']; split <;> rfl
      | lzFn p L => exact ⟨t0, by simp [enabled, step, hpc]⟩
      | lzRel p L => exact ⟨t0, by simp only [enabled, step, hpc]; split <;> rfl⟩
      | cb hl x => exact ⟨t0, by simp [enabled, step, hpc]⟩
      | ashCb hk x => exact ⟨t0, by simp [enabled, step, hpc]⟩
      | exitFlip p => exact ⟨t0, by simp only [enabled, step, hpc]; split <;> rfl⟩
      | exitRun p hks =>
        refine ⟨t0, ?_⟩
        match hks with
        | [] => simp [enabled, step, hpc]
        | .del :: _ => simp [enabled, step, hpc]
        | .park :: _ => simp [enabled, step, hpc]
      | addHk p => exact ⟨t0, by simp only [enabled, step, hpc]; split <;> rfl⟩
      | pinAdd p v => have := h.nopin t0; rw [hpc] at this; cases this
      | pinRest p v => have := h.nopin t0; rw [hpc] at this; cases this
      | pinDel p v => have := h.nopin t0; rw [hpc] at this; cases this
  · intro t c hpc hmu
    have := (h.mu t).mpr hmu
    rw [hpc] at this; cases this
  · intro t p L hpc ho
    have := (h.wf.own L t).mpr ho
    rw [hpc] at this; cases this

/-- Whoever holds `l.mu` can always take its next step (it never waits for anything while holding
the store's lock – this is exactly what the fix restored), and so can whoever holds a lazy's mutex. -/
theorem C05.local_holders_progress (sched : List Act) :
    (∀ t, (run false init sched).mu = some t → enabled false (run false init sched) t = true) ∧
    (∀ L t, ((run false init sched).lz L).owner = some t → enabled false (run false init sched) t = true) := by
  have h := allInv_reach sched
  generalize run false init sched = s at h
  refine ⟨?_, ?_⟩
  · intro tm hmu
    have hh := (h.mu tm).mpr hmu
    have hp := h.nopin tm
    cases hpc : s.thr tm <;> simp [hpc, holdsMu, isPin] at hh hp
    simp [enabled, step, hpc]
  · intro L t' ho
    have hh := (h.wf.own L t').mpr ho
    cases hpc' : s.thr t' <;> simp [hpc', holdsLz] at hh
    · simp [enabled, step, hpc']
    · simp only [enabled, step, hpc']; split <;> rfl

/-- The program points at which user code runs: the store hooks fetched by `Store` / `LoadOrStore`
(`cb`), the hook of `AddStoreHook` called for a value that is already there (`ashCb`), the lazy
initialiser (`lzFn`), a foreign exit hook (`exitRun _ (park :: _)`). -/
def Uniflow.Local.isCallout : Uniflow.Local.Pc → Bool
  | .cb _ _ => true
  | .ashCb _ _ => true
  | .lzFn _ _ => true
  | .exitRun _ (.park :: _) => true
  | _ => false

/-- **User hooks run with no lock of the Local held.** In every reachable state of the fixed code a
thread that is inside a call-out does not hold `l.mu` (and, except for the initialiser, which runs
under its own lazy object's mutex only, holds no lazy mutex either). This is the fact the model relies
on when it treats what a hook does – `Load`, `Keys`, `Store`, `Delete` on the same Local, `Exit` of the
process – as ordinary steps of the machine (so that `C05.local_no_deadlock` covers re-entrant hooks):
the goroutine inside the hook holds nothing another operation could wait for. That the CODE calls
its hooks outside every critical section of `l.mu` is the regenerated-facts tie
`C05.local_calls_out_unlocked` (Props/C05Tie.lean); the pinned `Store` (5790134) and seeded change
c05e are exactly call-outs under the lock. -/
theorem C05.hooks_run_unlocked (sched : List Act) (t : Tid)
    (hc : isCallout ((run false init sched).thr t) = true) :
    (run false init sched).mu ≠ some t ∧
    (∀ L, ((run false init sched).lz L).owner = some t → ∃ p, (run false init sched).thr t = .lzFn p L) := by
  have h := allInv_reach sched
  generalize run false init sched = s at h hc
  refine ⟨?_, ?_⟩
  · intro hm
    have := (h.mu t).mpr hm
    cases hpc : s.thr t <;> simp [hpc, holdsMu, isCallout] at this hc
  · intro L ho
    have := (h.wf.own L t).mpr ho
    cases hpc : s.thr t <;> simp [hpc, holdsLz, isCallout] at this hc
    · rename_i p L'; exact ⟨p, by rw [this]⟩

/-- Non-vacuity of `C05.hooks_run_unlocked`, and the re-entrant hook as a schedule: thread 0 is inside
the hook of `AddStoreHook` (value present); what the hook does – here `Delete` of the same key and then
`Exit` of the process, on helper thread 1 – runs to completion while thread 0 sits in the hook; then
thread 0 returns. Nothing blocks. -/
theorem C05.hooks_run_unlocked_nonvacuous :
    let pre : List Act := [.call 0 (.store 0 7), .step 0, .step 0, .step 0, .step 0,
                           .call 0 (.addStoreHook 0 100), .step 0, .step 0]
    let inner : List Act := [.call 1 (.delete 0), .step 1, .step 1, .call 1 (.exit 0), .step 1, .step 1, .step 1, .step 1, .step 1]
    let post : List Act := [.step 0, .step 0, .step 0]
    (run false init pre).thr 0 = .ashCb 100 7 ∧ isCallout ((run false init pre).thr 0) = true ∧
    (run false init pre).mu = none ∧ yieldSite ((run false init pre).thr 0) = some 8 ∧
    (run false init (pre ++ inner)).thr 1 = .idle ∧ (run false init (pre ++ inner)).eager 0 = none ∧
    (run false init (pre ++ inner)).term 0 = true ∧
    (run false init (pre ++ inner ++ post)).thr 0 = .idle ∧ (run false init (pre ++ inner ++ post)).mu = none := by
  decide

/-- Non-vacuity: a reachable state with one thread holding `l.mu`, one waiting for it and one
waiting for a lazy's mutex held by a thread inside the initialiser. -/
def C05.contendSched : List Act :=
  [.call 0 (.loadOrStore 0 4 false), .step 0, .step 0, .step 0,       -- t0: created the lazy, before Do
   .call 1 (.loadOrStore 0 9 false), .step 1, .step 1, .step 1,       -- t1: fetched the same lazy
   .step 0,                                                           -- t0 inside the initialiser
   .call 2 (.store 1 5), .step 2,                                     -- t2 holds l.mu
   .call 3 (.delete 1)]                                               -- t3 wants l.mu

theorem C05.local_no_deadlock_nonvacuous :
    (run false init C05.contendSched).thr 0 = .lzFn 0 0 ∧
    (run false init C05.contendSched).thr 1 = .lzWant 0 0 ∧
    enabled false (run false init C05.contendSched) 1 = false ∧
    (run false init C05.contendSched).mu = some 2 ∧
    (run false init C05.contendSched).thr 3 = .want (.del 1 .ret) ∧
    enabled false (run false init C05.contendSched) 3 = false ∧
    enabled false (run false init C05.contendSched) 0 = true ∧
    enabled false (run false init C05.contendSched) 2 = true := by decide

/-! ## the pinned (pre-fix) Store deadlocks -/

/-- Store on a process that has already terminated, pre-fix code. -/
def C05.pinnedSched : List Act :=
  [.call 0 (.exit 0), .step 0, .step 0,                 -- Exit(p0) returns
   .call 0 (.store 0 7), .step 0, .step 0, .step 0]     -- Lock; eager[p]=v; AddExitHook → hook → Delete → Lock

/-- **The pinned tree deadlocks.** With the pre-fix `Store` (`pinned = true`) this schedule reaches a
state in which thread 0 holds `l.mu` and is blocked in `l.mu.Lock()`: it has no step, although it
is not idle, and the value it wrote for the terminated process stays in the map. -/
theorem C05.local_pinned_deadlocks :
    (run true init C05.pinnedSched).thr 0 = .pinDel 0 7 ∧
    (run true init C05.pinnedSched).mu = some 0 ∧
    step true (run true init C05.pinnedSched) 0 = none ∧
    (run true init C05.pinnedSched).term 0 = true ∧
    (run true init C05.pinnedSched).eager 0 = some 7 := by decide

/-- The same schedule on the fixed code returns and leaves nothing behind. -/
theorem C05.local_fixed_same_schedule :
    (run false init (C05.pinnedSched ++ [.step 0, .step 0, .step 0])).thr 0 = .idle ∧
    (run false init (C05.pinnedSched ++ [.step 0, .step 0, .step 0])).mu = none ∧
    (run false init (C05.pinnedSched ++ [.step 0, .step 0, .step 0])).eager 0 = none := by decide

/-- Once a thread sits in `pinDel` holding `l.mu` (and nobody else believes to hold it), the
store is wedged for good: whatever is scheduled afterwards, that thread never moves and `l.mu` is
never released – every later operation that needs the lock blocks forever. -/
theorem C05.local_pinned_wedged_forever (s : State) (t : Tid) (p : Pid) (v : Val)
    (h : Wedged s t p v) (sched : List Act) :
    (run true s sched).thr t = .pinDel p v ∧ (run true s sched).mu = some t := by
  induction sched generalizing s with
  | nil => exact ⟨h.1, h.2.1⟩
  | cons a as ih =>
    simp only [run]
    apply ih
    cases a with
    | call t' c =>
      simp only [apply]
      split
      · rename_i hidle
        have ht : t' ≠ t := by intro e; subst e; rw [h.1] at hidle; cases hidle
        exact wedged_move s t t' p v _ _ h ht rfl rfl (by cases c <;> rfl)
      · exact h
    | step t' =>
      simp only [apply]
      cases hst : step true s t' with
      | none => exact h
      | some pr => obtain ⟨s', e⟩ := pr; exact wedged_step s s' t t' p v e h hst

/-- The reachable deadlock state of `C05.local_pinned_deadlocks` meets the hypotheses of
`C05.local_pinned_wedged_forever`: the pinned tree wedges for good. -/
theorem C05.local_pinned_wedged_forever_nonvacuous (sched : List Act) :
    (run true (run true init C05.pinnedSched) sched).thr 0 = .pinDel 0 7 ∧
    (run true (run true init C05.pinnedSched) sched).mu = some 0 := by
  refine C05.local_pinned_wedged_forever _ 0 0 7 ⟨by decide, by decide, ?_⟩ sched
  intro t' ht'
  have : (run true init C05.pinnedSched).thr t' = .idle := by
    simp [C05.pinnedSched, run, apply, step, init, Call.entry, crit, upd, ht']
  rw [this]; rfl

/-! ## lazily initialised values: at most one computation per delete -/

/-- **Lazy once.** For every schedule and process: the number of initialiser runs is at most one
more than the number of deletions that took effect on that process (`Delete` / exit-hook delete
that removed a value, `Close` that removed a value or a pending lazy). -/
theorem C05.lazy_once (sched : List Act) (p : Pid) :
    (run false init sched).inits p ≤ 1 + (run false init sched).deletes p := by
  have h := allInv_reach sched
  have h1 := h.count.c1 p
  have h2 := h.ini p
  omega

/-- Corollary: as long as no deletion took effect on `p`, its initialiser ran at most once, for
any number of concurrent `LoadOrStore`s. -/
theorem C05.lazy_once_no_delete (sched : List Act) (p : Pid)
    (hd : (run false init sched).deletes p = 0) : (run false init sched).inits p ≤ 1 := by
  have := C05.lazy_once sched p
  omega

/-- The same, syntactically: if the schedule never starts `Delete(p)`, `Close` or `Exit(p)` then
the initialiser of `p` runs at most once, whatever else happens (any number of concurrent
`LoadOrStore(p)`, `Store`, exits of other processes, …). -/
theorem C05.lazy_once_per_process (sched : List Act) (p : Pid)
    (hfree : ∀ a ∈ sched, a.delFree p = true) : (run false init sched).inits p ≤ 1 :=
  C05.lazy_once_no_delete sched p (noDel_run init p sched (noDel_init p) hfree).d

/-- Non-vacuity of `C05.lazy_once_per_process`: three racing `LoadOrStore(p0)` (two of them sharing
the lazy, one arriving after the value was published), a `Store` on another process and the exit
of that other process – no `Delete(p0)` / `Close` / `Exit(p0)` – run the initialiser exactly once. -/
theorem C05.lazy_once_per_process_nonvacuous :
    let sched : List Act :=
      [.call 0 (.loadOrStore 0 4 false), .step 0, .step 0, .step 0,
       .call 1 (.loadOrStore 0 9 false), .step 1, .step 1, .step 1,
       .call 2 (.store 1 5), .step 2, .step 2, .step 2, .step 2,
       .step 1, .step 0, .step 1, .step 1,
       .call 2 (.exit 1), .step 2, .step 2, .step 2, .step 2, .step 2,
       .step 0, .step 0, .step 0, .step 0, .step 0, .step 1, .step 1, .step 1, .step 1, .step 1,
       .call 3 (.loadOrStore 0 6 false), .step 3, .step 0]
    (∀ a ∈ sched, a.delFree 0 = true) ∧ (run false init sched).inits 0 = 1 ∧
    (run false init sched).eager 0 = some 4 ∧ (run false init sched).eager 1 = none ∧
    (run false init sched).thr 0 = .idle ∧ (run false init sched).thr 1 = .idle ∧
    (run false init sched).thr 3 = .idle := by decide

/-- A lazy object's initialiser never runs twice (the `done` flag under the lazy's mutex): runs are
bounded by the lazy objects created for the process. -/
theorem C05.lazy_inits_le_created (sched : List Act) (p : Pid) :
    (run false init sched).inits p ≤ (run false init sched).created p := by
  have := (allInv_reach sched).ini p
  omega

/-- Non-vacuity / tightness: the bound `1 + deletes` is reached – the stale-completion schedule
(a thread that fetched lazy L0 publishes after a `Delete` and thereby drops the newer lazy L1 from
the map) runs the initialiser twice with exactly one effective delete; and two racing
`LoadOrStore`s without a delete run it once. -/
def C05.staleSched : List Act :=
  [.call 0 (.loadOrStore 0 4 false), .step 0, .step 0, .step 0,   -- t0: L0 created, before Do
   .call 1 (.loadOrStore 0 9 false), .step 1, .step 1, .step 1,   -- t1: fetched L0, before Do
   .step 0, .step 0, .step 0, .step 0, .step 0, .step 0, .step 0, -- t0: Do (runs), publish, AddExitHook, return
   .call 0 (.delete 0), .step 0, .step 0,                         -- Delete(p0) takes effect
   .call 2 (.loadOrStore 0 6 false), .step 2, .step 2, .step 2,   -- t2: L1 created
   .step 1, .step 1, .step 1, .step 1,                            -- t1: Do on L0 (cached), publish: removes L1 from the map
   .step 2, .step 2, .step 2]                                     -- t2: Do on L1: second run

theorem C05.lazy_once_nonvacuous :
    (run false init C05.staleSched).inits 0 = 2 ∧ (run false init C05.staleSched).deletes 0 = 1 ∧
    (run false init (C05.staleSched.take 15)).inits 0 = 1 ∧
    (run false init (C05.staleSched.take 15)).deletes 0 = 0 ∧
    (run false init (C05.staleSched.take 15)).eager 0 = some 4 := by decide

/-! ## the driver's macro steps are schedules -/

theorem C05.advance_is_schedule (fuel : Nat) (s : State) (t : Tid) (last : Ev) :
    ∃ k, (advance false fuel s t last).1 = run false s (List.replicate k (.step t)) := by
  induction fuel generalizing s last with
  | zero => exact ⟨0, rfl⟩
  | succ n ih =>
    simp only [advance]
    split
    · exact ⟨0, rfl⟩
    · split
      · exact ⟨0, rfl⟩
      · split
        · exact ⟨0, rfl⟩
        · rename_i s' e hs
          obtain ⟨k, hk⟩ := ih s' (if e = .tau then last else e)
          refine ⟨k + 1, ?_⟩
          rw [hk]
          simp only [List.replicate_succ, run, apply, hs]

/-- "Run thread `t` to its next yield point" (what the driver replays against the real goroutines)
is a sequence of atomic steps of `t`: the states the correspondence visits are reachable states of
the machine the theorems are about. -/
theorem C05.release_is_schedule (fuel : Nat) (s : State) (t : Tid) :
    ∃ k, (release false fuel s t).1 = run false s (List.replicate k (.step t)) := by
  simp only [release]
  split
  · exact ⟨0, rfl⟩
  · rename_i s' e hs
    obtain ⟨k, hk⟩ := C05.advance_is_schedule fuel s' t e
    refine ⟨k + 1, ?_⟩
    rw [hk]
    simp only [List.replicate_succ, run, apply, hs]

end LocalStore

/-! ## Part 2: port endpoint maps (`InPort.readers`, `OutPort.writers`) -/

namespace C05ports
open Uniflow.PortMaps

/-- The window between the status check and the insert: thread 0 has passed `proc.Status()`, the
process exits completely, thread 0 then inserts an endpoint for the terminated process. -/
def windowSched : List Act :=
  [.call 0 (.open_ 0 0), .step 0,                   -- status check passed (process still running)
   .call 1 (.exit 0), .step 1, .step 1,             -- Exit: flip, no hooks, returns
   .step 0, .step 0, .step 0]                       -- look (miss), Lock, insert + Unlock: now in the gap

def windowRest : List Act := [.step 0, .step 0, .step 0, .step 0]   -- AddExitHook ⇒ hook at once: Lock, delete, Close

end C05ports

open Uniflow.PortMaps in
/-- **Ports: no residue.** In every reachable state, for every schedule of `Open` / port `Close` /
`Exit` steps: if process `p` has terminated and no thread is in flight on a removal it owes for
`(q, p)` (an `Open` in the gap before `AddExitHook`, a running exit hook, an `Exit` thread with
hooks of port `q` left), then port `q`'s map has no entry for `p`. -/
theorem C05.ports_no_residue (sched : List Act) (q : Port) (p : Pid)
    (hterm : (run init sched).term p = true)
    (hquiet : ∀ t, pendsOn q p ((run init sched).thr t) = false) :
    (run init sched).ents q p = none := by
  have h := (all_reach sched).res
  cases hv : (run init sched).ents q p with
  | none => rfl
  | some x =>
    rcases h q p (by rw [hv]; simp) with ⟨h1, _⟩ | ⟨t, ht⟩
    · rw [hterm] at h1; cases h1
    · rw [hquiet t] at ht; cases ht

open Uniflow.PortMaps in
/-- At quiescence (every thread idle) no port map mentions a terminated process. -/
theorem C05.ports_no_residue_idle (sched : List Act) (p : Pid)
    (hterm : (run init sched).term p = true) (hidle : ∀ t, (run init sched).thr t = .idle) :
    ∀ q, (run init sched).ents q p = none :=
  fun q => C05.ports_no_residue sched q p hterm (fun t => by rw [hidle t]; rfl)

open Uniflow.PortMaps in
/-- **Ports: every endpoint is closed.** At quiescence every endpoint (reader / writer, hence its
pump goroutine) that was ever created for a terminated process has been closed – also the one
created in the window after the status check, and those dropped from the map by a port `Close`. -/
theorem C05.ports_endpoints_closed (sched : List Act) (e : Eid)
    (he : e < (run init sched).nep)
    (hterm : (run init sched).term ((run init sched).eproc e) = true)
    (hidle : ∀ t, (run init sched).thr t = .idle) :
    (run init sched).closed e = true := by
  have h := all_reach sched
  cases hc : (run init sched).closed e with
  | true => rfl
  | false =>
    rcases h.cls e he hc with ⟨p, h1, q, h2⟩ | ⟨t, ht⟩
    · have := (h.prc.hk p q e h2).2
      rw [this] at hterm; rw [hterm] at h1; cases h1
    · rw [hidle t] at ht; cases ht

open Uniflow.PortMaps C05ports in
/-- **The window is real but transient.** After `windowSched` the map of port 0 has an entry for
the already terminated process 0 (and a live endpoint exists for it); the opening thread itself
then runs the hook, and when it returns the entry is gone and the endpoint closed. -/
theorem C05.ports_window_transient :
    (run init windowSched).term 0 = true ∧ (run init windowSched).ents 0 0 = some 0 ∧
    (run init windowSched).closed 0 = false ∧ (run init windowSched).thr 0 = .openGap 0 0 0 ∧
    (run init (windowSched ++ windowRest)).thr 0 = .idle ∧
    (run init (windowSched ++ windowRest)).ents 0 0 = none ∧
    (run init (windowSched ++ windowRest)).closed 0 = true := by decide

open Uniflow.PortMaps in
/-- Non-vacuity of the quiescence theorems: a schedule with two ports opened for a process, a
port `Close` in between and the exit at the end meets their hypotheses with endpoints that existed. -/
theorem C05.ports_no_residue_nonvacuous :
    let sched : List Act :=
      [.call 0 (.open_ 0 0), .step 0, .step 0, .step 0, .step 0, .step 0,      -- port 0: endpoint 0
       .call 0 (.open_ 1 0), .step 0, .step 0, .step 0, .step 0, .step 0,      -- port 1: endpoint 1
       .call 1 (.close 0), .step 1, .step 1, .step 1, .step 1,                 -- Close(port 0) closes endpoint 0
       .call 0 (.open_ 0 0), .step 0, .step 0, .step 0, .step 0, .step 0,      -- port 0 again: endpoint 2
       .call 1 (.exit 0), .step 1,                                             -- flip
       .step 1, .step 1, .step 1, .step 1, .step 1, .step 1, .step 1, .step 1, .step 1, .step 1, .step 1, .step 1, .step 1]
    (run init (sched.take 23)).ents 0 0 = some 2 ∧ (run init (sched.take 23)).ents 1 0 = some 1 ∧
    (run init (sched.take 23)).closed 0 = true ∧ (run init (sched.take 23)).closed 2 = false ∧
    (run init sched).nep = 3 ∧ (run init sched).term 0 = true ∧
    (run init sched).thr 0 = .idle ∧ (run init sched).thr 1 = .idle ∧
    (run init sched).ents 0 0 = none ∧ (run init sched).ents 1 0 = none ∧
    (run init sched).closed 1 = true ∧ (run init sched).closed 2 = true := by decide

open Uniflow.PortMaps in
/-- **Ports: no deadlock.** In every reachable state, if some thread is inside `Open` / `Close` /
`Exit` then some thread has an enabled step, and nobody waits for a port mutex it holds (the exit
hook, which locks the port, is never run under that port's lock: `Open` registers it after unlocking). -/
theorem C05.ports_no_deadlock (sched : List Act) :
    ((∃ t, (run init sched).thr t ≠ .idle) → ∃ t, enabled (run init sched) t = true) ∧
    (∀ t q p e k, (run init sched).thr t = .hookWant q p e k → (run init sched).pmu q ≠ some t) := by
  have h := pmu_reach sched
  have hearly := (pinv_reach sched).early
  generalize run init sched = s at h hearly
  refine ⟨?_, ?_⟩
  · rintro ⟨t0, ht0⟩
    have wait : ∀ q, (s.pmu q = none → enabled s t0 = true) → ∃ t, enabled s t = true := by
      intro q hq
      cases hm : s.pmu q with
      | none => exact ⟨t0, hq hm⟩
      | some tm => exact ⟨tm, holder_enabled s h q tm hm⟩
    cases hpc : s.thr t0 with
    | idle => exact absurd hpc ht0
    | openChk q p => exact ⟨t0, by simp only [enabled, step, hpc]; split <;> rfl⟩
    | openRd q p => exact wait q (fun hm => by simp only [enabled, step, hpc, hm, if_true]; split <;> rfl)
    | openWant q p => exact wait q (fun hm => by simp [enabled, step, hpc, hm])
    | openHold q p => exact ⟨t0, by simp only [enabled, step, hpc]; split <;> rfl⟩
    | openGap q p e => exact ⟨t0, by simp only [enabled, step, hpc]; split <;> rfl⟩
    | hookWant q p e k => exact wait q (fun hm => by simp [enabled, step, hpc, hm])
    | hookHold q p e k => exact ⟨t0, by simp [enabled, step, hpc]⟩
    | hookClose p e k => exact ⟨t0, by simp [enabled, step, hpc]⟩
    | closeWant q => exact wait q (fun hm => by simp [enabled, step, hpc, hm])
    | closeHold q => exact ⟨t0, by simp [enabled, step, hpc]⟩
    | closeAll es =>
      refine ⟨t0, ?_⟩
      match es with
      | [] => simp [enabled, step, hpc]
      | e :: rest => simp [enabled, step, hpc]
    | openHoldE q p e => have := hearly t0; rw [hpc] at this; cases this
    | exitFlip p => exact ⟨t0, by simp only [enabled, step, hpc]; split <;> rfl⟩
    | exitRun p hks =>
      refine ⟨t0, ?_⟩
      match hks with
      | [] => simp [enabled, step, hpc]
      | (q, e) :: rest => simp [enabled, step, hpc]
  · intro t q p e k hpc hm
    have := (h q t).mpr hm
    rw [hpc] at this; cases this

open Uniflow.PortMaps in
/-- Non-vacuity: a reachable state in which one thread holds a port's mutex (inside `Close`) and
two others wait for it (an `Open` and an exit hook of a terminated process). -/
theorem C05.ports_no_deadlock_nonvacuous :
    let sched : List Act :=
      [.call 2 (.open_ 0 1), .step 2, .step 2, .step 2, .step 2, .step 2,   -- process 1 has an endpoint in port 0
       .call 0 (.close 0), .step 0,                                          -- t0 holds the port's mutex
       .call 1 (.open_ 0 0), .step 1,                                        -- t1 waits for it (read section)
       .call 2 (.exit 1), .step 2, .step 2]                                  -- t2: exit hook waits for it
    (run init sched).pmu 0 = some 0 ∧ (run init sched).thr 0 = .closeHold 0 ∧
    (run init sched).thr 1 = .openRd 0 0 ∧ enabled (run init sched) 1 = false ∧
    (run init sched).thr 2 = .hookWant 0 1 0 (.exit []) ∧ enabled (run init sched) 2 = false ∧
    enabled (run init sched) 0 = true := by decide

/-! ## pump goroutines (`NewReader` / `NewWriter` start one per endpoint; it ends when the endpoint is closed) -/

open Uniflow.PortMaps in
/-- **Pumps = endpoints.** In every reachable state the number of running pump goroutines (a counter
incremented where `Open` calls `NewReader()` / `NewWriter()` and decremented where `Close()` is called
on an endpoint that was not closed before) equals the number of endpoints created and not closed. -/
theorem C05.pumps_match_endpoints (sched : List Act) :
    (run init sched).pumps = openEndpoints (run init sched) := (pinv_reach sched).pumps

open Uniflow.PortMaps in
/-- **No pump after exit.** When every thread is idle and every process for which an endpoint was ever
created has terminated, no pump goroutine is running. -/
theorem C05.no_pump_after_exit (sched : List Act)
    (hidle : ∀ t, (run init sched).thr t = .idle)
    (hterm : ∀ e, e < (run init sched).nep → (run init sched).term ((run init sched).eproc e) = true) :
    (run init sched).pumps = 0 := by
  rw [C05.pumps_match_endpoints]
  exact openBelow_zero _ _ (fun e he => C05.ports_endpoints_closed sched e he (hterm e he) hidle)

namespace C05ports
open Uniflow.PortMaps

/-- Two openers of the same port and process both miss the read-locked lookup; then the process exits. -/
def twoOpeners : List Act :=
  [.call 0 (.open_ 0 0), .step 0, .step 0,          -- t0: status ok, lookup missed, before the Lock
   .call 1 (.open_ 0 0), .step 1, .step 1,          -- t1: the same
   .step 0, .step 0,                                -- t0: Lock; insert; Unlock (in the gap)
   .step 1, .step 1,                                -- t1: Lock; finds the entry; returns it
   .step 0,                                         -- t0: AddExitHook; returns
   .call 2 (.exit 0), .step 2, .step 2, .step 2, .step 2, .step 2, .step 2]   -- Exit: flip, hook: Lock, delete, Close; return

end C05ports

open Uniflow.PortMaps C05ports in
/-- Non-vacuity of the two pump theorems, and the **c05b situation**: on the real `Open` the schedule
`twoOpeners` creates one endpoint, one pump runs while the process lives and none after its exit; the
variant that allocates before taking the lock (`stepEarly`, seeded change c05b) creates two, the
loser's endpoint is dropped without `Close()`, and its pump is still running when everything is idle,
the process has exited and the map is empty. -/
theorem C05.pump_leak_when_allocated_before_lock :
    (run init (twoOpeners.take 11)).nep = 1 ∧ (run init (twoOpeners.take 11)).pumps = 1 ∧
    (run init twoOpeners).pumps = 0 ∧ (run init twoOpeners).term 0 = true ∧
    (run init twoOpeners).thr 0 = .idle ∧ (run init twoOpeners).thr 1 = .idle ∧ (run init twoOpeners).thr 2 = .idle ∧
    (runEarly init twoOpeners).nep = 2 ∧ (runEarly init twoOpeners).pumps = 1 ∧
    (runEarly init twoOpeners).closed 1 = false ∧ (runEarly init twoOpeners).ents 0 0 = none ∧
    (runEarly init twoOpeners).term 0 = true ∧
    (runEarly init twoOpeners).thr 0 = .idle ∧ (runEarly init twoOpeners).thr 1 = .idle ∧
    (runEarly init twoOpeners).thr 2 = .idle := by decide

/-! ## the debug agent forgets exited processes (`Uniflow.AgentProc`) -/

open Uniflow.AgentProc in
/-- **The agent forgets exited processes.** For every history of agent events – `accept`, packet
hooks (`inb` / `outb`, also of a process whose exit hook has already run: that is what
`Reader.Close` / `Writer.Close` do with the dropped responses), status flips and exit-hook runs – a
process for which no run of the agent's exit hook is owed (every hook registered by `accept` has run,
which the model allows only once the process has terminated) is in neither map: not in
`a.processes`, and `a.frames` has no key for it. More precisely a process is registered exactly
while one hook run is owed (`C05.agent_registered_iff_hook_owed`). -/
theorem C05.agent_forgets_exited (h : List Ev) (p : Nat)
    (hdone : (run true init h).owed p = 0) :
    (run true init h).procs p = false ∧ (run true init h).frames p = none := by
  have hi := ainv_run h init ainv_init
  have hp : (run true init h).procs p = false := by
    cases hv : (run true init h).procs p with
    | false => rfl
    | true => have := (hi.reg p).mp hv; omega
  refine ⟨hp, ?_⟩
  cases hf : (run true init h).frames p with
  | none => rfl
  | some fs => have := hi.fr p (by rw [hf]; simp); rw [hp] at this; cases this

open Uniflow.AgentProc in
/-- A process is in `a.processes` exactly while one run of the agent's exit hook is owed; the hook is
registered once per registration (never twice), and `a.frames` has a key only for a registered
process. -/
theorem C05.agent_registered_iff_hook_owed (h : List Ev) (p : Nat) :
    ((run true init h).procs p = true ↔ (run true init h).owed p = 1) ∧ (run true init h).owed p ≤ 1 ∧
    ((run true init h).frames p ≠ none → (run true init h).procs p = true) :=
  let hi := ainv_run h init ainv_init
  ⟨hi.reg p, hi.le p, hi.fr p⟩

open Uniflow.AgentProc in
/-- **… for ever after.** Once that is so, no later event other than a new `accept p` re-creates
either entry: in particular no packet hook of `p`, however many dropped responses the closing
endpoints still push through. (After a new `accept p` of the terminated process the exit hook runs
at once – `AddExitHook` on a terminated process – and `C05.agent_forgets_exited` applies again.) -/
theorem C05.agent_stays_forgotten (h later : List Ev) (p : Nat)
    (hdone : (run true init h).owed p = 0)
    (hno : ∀ e ∈ later, e.isAccept p = false) :
    (run true init (h ++ later)).procs p = false ∧ (run true init (h ++ later)).frames p = none := by
  obtain ⟨h1, h2⟩ := C05.agent_forgets_exited h p hdone
  rw [run_append]
  have := forgotten_run later p _ ⟨h1, h2, hdone⟩ hno
  exact ⟨this.1, this.2.1⟩

namespace C05agent
open Uniflow.AgentProc

def key : Uniflow.Agent.Key := { sym := 0, inPort := some 0, outPort := none }

/-- one request enters through an in-port, the process exits with it unanswered, the agent's hook
runs, then the closing reader passes the dropped response through the outbound hook -/
def abortedFlight : List Ev :=
  [.accept 0, .inb 0 key 1, .term 0, .hook 0, .outb 0 key 2]

end C05agent

open Uniflow.AgentProc C05agent in
/-- Non-vacuity: the aborted flight meets the hypotheses, the process had a frame while it lived, and
the late packet hook leaves both maps without it. -/
theorem C05.agent_forgets_exited_nonvacuous :
    (run true init (abortedFlight.take 2)).procs 0 = true ∧
    ((run true init (abortedFlight.take 2)).frames 0).isSome = true ∧
    (run true init abortedFlight).term 0 = true ∧ (run true init abortedFlight).owed 0 = 0 ∧
    (run true init abortedFlight).procs 0 = false ∧ (run true init abortedFlight).frames 0 = none ∧
    frameKeys (run true init abortedFlight) 3 = [] := by decide

open Uniflow.AgentProc C05agent in
/-- **Pinned counter-example** (the tree before fix 574d8e0, `guard = false`): on the same history the
late outbound hook re-creates `a.frames[p]` for the terminated, forgotten process – the entry comes
back and nothing removes it again. -/
theorem C05.pinned_agent_frames_residue :
    (run false init abortedFlight).term 0 = true ∧ (run false init abortedFlight).owed 0 = 0 ∧
    (run false init abortedFlight).procs 0 = false ∧
    ((run false init abortedFlight).frames 0).isSome = true ∧
    frameKeys (run false init abortedFlight) 3 = [0] := by decide

/-! ## node tracers keep no bookkeeping for an exited process (`Uniflow.Tracer` / `Uniflow.ATracer`) -/

open Uniflow.Tracer Uniflow.ATracer in
/-- **Tracer: no residue.** Take ANY history `cs` of calls to one node's tracer (`Read`, `Link`, `Write`
accepted or not, `Receive` – any number of processes, readers, writers, requests in flight) that follows
C02's call protocol. Let the readers and writers the node opened for process `p` be `Rp` / `Wp`, and
suppose the node's loops for `p` have ended, i.e.

* `hset` (forward loops): no request read on a reader of `p` is still inside its loop iteration – every
  packet derived from it has been written or answered – and whatever it still waits for was written to
  writers of `p` (`Settled`: the spec-level reading of "`for inPck := range inReader.Read()` has ended");
* `hdrop` (`Tracer.Drop` at the end of the forward and backward loops): `writes` has no key for a
  writer of `p` – `Drop(w)` detaches the key (`C05.tracer_drop_detaches`) after answering every packet
  still awaited on `w` with a dropped packet; in `cs` that is one `Receive(w, dropped)` per pending
  packet (`C02.drop_answers_pending`).

Then nothing in the seven maps mentions `p`: no request read on a reader of `p` is left in the
abstract state the maps represent (`TRel`), hence `reads` has no key among `p`'s readers, `writes`
none among `p`'s writers, `reader` maps no packet to a reader of `p`, every key of `receives`,
`sources`, `targets`, `reader` is a packet of a request still in flight – all of other processes –
and `hooks` is empty. -/
theorem C05.tracer_no_residue (cs : List Call) (hp : Protocol {} cs) (Rp : Rid → Bool) (Wp : Wid → Bool)
    (hset : Settled Rp Wp (arun {} cs).1)
    (hdrop : ∀ w, Wp w = true → aget (trun {} cs).1.writes w = none) :
    (∀ x ∈ (arun {} cs).1.reqs, Rp x.r = false) ∧
    (∀ r, Rp r = true → aget (trun {} cs).1.reads r = none) ∧
    (∀ k r, aget (trun {} cs).1.reader k = some r → Rp r = false) ∧
    (∀ k, k ∉ ids (arun {} cs).1.reqs →
        aget (trun {} cs).1.receives k = none ∧ aget (trun {} cs).1.sources k = none ∧
        aget (trun {} cs).1.targets k = none ∧ aget (trun {} cs).1.reader k = none) ∧
    (trun {} cs).1.hooks = [] := by
  obtain ⟨_, hrel, hinv⟩ := run_refines cs {} {} trel_init inv_init hp
  obtain ⟨hf, hc⟩ := hf_hc_run cs {} {} trel_init inv_init hf_init hc_init hp
  have hw : ∀ w, Wp w = true → getL (arun {} cs).1.wq w = [] := by
    intro w hwp
    have := hrel.writes w
    rw [hdrop w hwp] at this
    simp [getL, ← this]
  have hnone := no_request_left _ Rp Wp hf hc hset hw
  refine ⟨hnone, ?_, ?_, ?_, hrel.hooks⟩
  · intro r hr
    rw [hrel.reads r]
    have : readsOf (arun {} cs).1 r = [] := by
      simp only [readsOf, List.map_eq_nil_iff, List.filter_eq_nil_iff]
      intro x hx hxr
      have := hnone x hx
      simp only [decide_eq_true_eq] at hxr
      rw [hxr, hr] at this; cases this
    rw [this]; rfl
  · intro k r hk
    rw [hrel.rdr k] at hk
    obtain ⟨x, hx, hxr⟩ := rdr_of_info _ k r hk
    rw [← hxr]; exact hnone x hx
  · intro k hk
    have hi := info_fresh (arun {} cs).1 k hk
    refine ⟨by rw [hrel.recv k, hi], by rw [hrel.src k, hi], by rw [hrel.tgt k, hi], by rw [hrel.rdr k, hi]⟩

open Uniflow.Tracer Uniflow.ATracer in
/-- Corollary for a tracer that has served one process only (all readers and writers are that
process's): once its loops have ended all seven maps are empty. -/
theorem C05.tracer_empty_single_process (cs : List Call) (hp : Protocol {} cs)
    (hset : Settled (fun _ => true) (fun _ => true) (arun {} cs).1)
    (hdrop : ∀ w, aget (trun {} cs).1.writes w = none) :
    isEmpty (trun {} cs).1 = true := by
  obtain ⟨h1, _, _, _, _⟩ := C05.tracer_no_residue cs hp (fun _ => true) (fun _ => true) hset (fun w _ => hdrop w)
  obtain ⟨_, hrel, _⟩ := run_refines cs {} {} trel_init inv_init hp
  have hq : (arun {} cs).1.reqs = [] := by
    cases hr : (arun {} cs).1.reqs with
    | nil => rfl
    | cons x xs => have := h1 x (by rw [hr]; simp); cases this
  have hw : (arun {} cs).1.wq = [] :=
    eq_nil_of_aget _ (fun w => by rw [← hrel.writes w]; exact hdrop w)
  exact quiescent_empty_general cs hp hq hw

open Uniflow.Tracer Uniflow.ATracer in
/-- **Tracer: no residue, with the real `Drop` calls.** ANY protocol-conforming history `cs` of
`Read` / `Link` / `Write` / `Receive` calls, followed by the loop-end calls themselves –
`Tracer.Drop(w)` (`dropW`, the model of the Go method, not a stand-in) for every writer in `ws`, in any
order, `ws` containing at least the writers of process `p`. If the requests read on `p`'s readers
were settled when the loops ended, the tracer that results mentions `p` nowhere: no `reads` key
among its readers, no `writes` key among its writers, no `reader` entry naming one of its readers;
`hooks` is empty, the tracer did not panic (`resolve` never ran out of fuel, the slot search never
indexed out of range – also inside `Drop`), and the state is still the image (`TRel`) of an abstract
state without any request of `p` (so every packet-keyed entry belongs to a request of another
process still in flight). This removes the caveat of `C05.tracer_no_residue` that a `Drop` had to be
written as the `Receive(w, dropped)` calls it stands for: `drop_refines` (Proofs/TracerExit.lean)
proves that `Drop(w)` IS that, from the frame lemma `resolve_setW`. -/
theorem C05.tracer_no_residue_after_drops (cs : List Call) (hp : Protocol {} cs) (Rp : Rid → Bool)
    (Wp : Wid → Bool) (ws : List Wid)
    (hset : Settled Rp Wp (arun {} cs).1) (hws : ∀ w, Wp w = true → w ∈ ws) :
    (∀ r, Rp r = true → aget (dropAll ws (trun {} cs).1).reads r = none) ∧
    (∀ w, Wp w = true → aget (dropAll ws (trun {} cs).1).writes w = none) ∧
    (∀ k r, aget (dropAll ws (trun {} cs).1).reader k = some r → Rp r = false) ∧
    (dropAll ws (trun {} cs).1).hooks = [] ∧ (dropAll ws (trun {} cs).1).panic = false ∧
    ∃ a', TRel a' (dropAll ws (trun {} cs).1) ∧ (∀ x ∈ a'.reqs, Rp x.r = false) := by
  obtain ⟨_, hrel, hinv⟩ := run_refines cs {} {} trel_init inv_init hp
  obtain ⟨hf, hc⟩ := hf_hc_run cs {} {} trel_init inv_init hf_init hc_init hp
  obtain ⟨a', k1, _, k3, k4, k5, k6⟩ :=
    dropAll_refines Rp Wp ws _ _ hrel hinv hf hc hset [] (fun w hw => by simp at hw)
  obtain ⟨r1, r2, r3, _, r5, r6⟩ :=
    residue_free_of_rel a' _ Rp Wp k1 k3 k4 k5 (fun w hw => k6 w (Or.inr (hws w hw)))
  exact ⟨r2, fun w hw => dropAll_writes_none ws w (hws w hw) _, r3, r5, r6, a', k1, r1⟩

/-- `Tracer.Drop(w)` removes the key `w` from `writes`, for EVERY tracer state and writer (no
well-formedness is needed): `delete(t.writes, writer)` comes first and neither `receive` nor `resolve`
– at any fuel level, through the `foldl` over the sources, `fillSource` and the reader loop `flush` –
writes the `writes` map (`resolve_writes`, `dropLoop_writes` in Proofs/TracerExit.lean). -/
def C05.tracer_drop_detaches_full : Prop :=
  ∀ (t : Uniflow.Tracer.T) (w : Uniflow.Tracer.Wid),
    Uniflow.Tracer.aget (Uniflow.Tracer.dropW true t w).1.writes w = none

theorem C05.tracer_drop_detaches : C05.tracer_drop_detaches_full :=
  fun t w => Uniflow.Tracer.dropW_detaches true t w

/-- `Drop(w)` leaves the queue of every other writer exactly as it was (so the loop-end drops of one
process do not disturb the writers of another), and so does `Receive` on another writer. -/
theorem C05.tracer_drop_frame (t : Uniflow.Tracer.T) (w w' : Uniflow.Tracer.Wid) (h : w' ≠ w) :
    Uniflow.Tracer.aget (Uniflow.Tracer.dropW true t w).1.writes w' = Uniflow.Tracer.aget t.writes w' ∧
    ∀ a, Uniflow.Tracer.aget (Uniflow.Tracer.receiveW true t w a).1.writes w' = Uniflow.Tracer.aget t.writes w' :=
  ⟨Uniflow.Tracer.dropW_other true t w w' h, fun a => Uniflow.Tracer.receiveW_writes_other true t w w' a h⟩

namespace C05tracer
open Uniflow.Tracer Uniflow.ATracer

/-- two requests read on reader 0, each linked to a derived packet accepted by writer 1; the process
exits with both unanswered -/
def flight : List Call :=
  [.read 0 1, .link 1 11, .write (some 1) 11 (.pay (.atom 5)) true,
   .read 0 2, .link 2 12, .write (some 1) 12 (.pay (.atom 6)) true]

/-- what `Drop(writer 1)` stands for: one dropped response per pending packet -/
def drops : List Call := [.answer 1 Ans.dropped, .answer 1 Ans.dropped]

end C05tracer

open Uniflow.Tracer Uniflow.ATracer C05tracer in
/-- Non-vacuity: the aborted flight followed by the loop-end drops follows the protocol and meets both
hypotheses (for the process owning reader 0 and writer 1); before the drops five of the maps are
non-empty; `Drop` itself leaves the same empty tracer and detaches the writer. -/
theorem C05.tracer_no_residue_nonvacuous :
    protoB {} (flight ++ drops) = true ∧
    (∀ x ∈ (arun {} (flight ++ drops)).1.reqs, (x.r == 0) = true → stOK (fun w => w == 1) x.st = true) ∧
    aget (trun {} (flight ++ drops)).1.writes 1 = none ∧
    isEmpty (trun {} flight).1 = false ∧ (trun {} flight).1.reads.length = 1 ∧
    (trun {} flight).1.reader.length = 2 ∧
    isEmpty (trun {} (flight ++ drops)).1 = true ∧
    isEmpty (dropW true (trun {} flight).1 1).1 = true ∧
    aget (dropW true (trun {} flight).1 1).1.writes 1 = none := by decide

open Uniflow.Tracer Uniflow.ATracer C05tracer in
/-- Non-vacuity of `C05.tracer_no_residue_after_drops` and of `C05.tracer_drop_detaches`: on the
aborted flight (two packets pending on writer 1) the real `Drop(1)` empties all seven maps and
removes the key; a second `Drop(1)` and a `Drop` of a writer nothing is pending on change nothing. -/
theorem C05.tracer_drop_nonvacuous :
    protoB {} flight = true ∧ getL (trun {} flight).1.writes 1 = [11, 12] ∧
    isEmpty (dropAll [1] (trun {} flight).1) = true ∧ isEmpty (dropAll [2, 1, 1] (trun {} flight).1) = true ∧
    aget (dropW true (trun {} flight).1 1).1.writes 1 = none ∧
    (dropW true (trun {} flight).1 2).1.writes = (trun {} flight).1.writes := by decide

open Uniflow.Tracer in
/-- **The c05c situation** as a counter-example of the variant tracer (`Uniflow.TracerC05c`: the reader
loop deletes `reader[pck]` instead of `reader[read]`): two requests on one reader, the later one is
answered first (its derived packet is not accepted – the unlinked error port – so `Write` echoes it),
then the earlier one's answer arrives and both are flushed in one pass. The real tracer ends empty;
the variant keeps the overtaken request's `reader` entry for ever. -/
theorem C05.tracer_c05c_residue :
    let t1 := (write true (link (read {} 0 1) 1 11) (some 1) 11 (.pay (.atom 5)) true).1
    let t2 := (write true (link (read t1 0 2) 2 12) none 12 (.pay (.err [7])) false).1
    let t3 := (receiveW true t2 1 (some (.pay (.atom 9)))).1
    let u1 := (Uniflow.TracerC05c.write (link (read {} 0 1) 1 11) (some 1) 11 (.pay (.atom 5)) true).1
    let u2 := (Uniflow.TracerC05c.write (link (read u1 0 2) 2 12) none 12 (.pay (.err [7])) false).1
    let u3 := (Uniflow.TracerC05c.receiveW u2 1 (some (.pay (.atom 9)))).1
    isEmpty t3 = true ∧
    u3.reader = [(2, 0)] ∧ u3.reads = [] ∧ u3.writes = [] ∧ u3.receives = [] ∧ u3.panic = false ∧
    isEmpty u3 = false := by decide

/-! ## `Tracer.Receive(w, nil)`: a discarded answer

No node of pkg/node discards an answer, but hand-written nodes (ext's try / pipe) do:
`Tracer.Receive(w, nil)` removes the slot the oldest packet written to `w` was waiting with
(`discard`) instead of filling it. The tracer model has had `discard` from the start
(`Uniflow.Tracer.discard`, `receiveW … none`); C02's call protocol and abstract tracer do not, so
`C05.tracer_no_residue` / `_after_drops` speak about histories without discards. What is proved here
is concrete (`decide`); the general statement is `C05.tracer_no_residue_with_discards_full` below. -/

namespace C05tracer
open Uniflow.Tracer Uniflow.ATracer

/-- answers and events as numbers (the payload type has no decidable equality): `None` ↦ 0,
atom k ↦ k + 1 -/
def ansTag : Ans → Nat
  | .empty => 0
  | .pay (.atom k) => k + 1
  | _ => 1000000

def evTag : Ev → Nat × Nat
  | .reply r a => (r, ansTag a)
  | .hook p a => (1000000 + p, ansTag a)

/-- request 1 forwarded unchanged (`Read; Write` of the same packet, no `Link`), one pending slot -/
def sameFlight : List DCall := [.base (.read 0 1), .base (.write (some 1) 1 (.pay (.atom 1)) true)]

/-- two requests forwarded unchanged to two different writers; the later one's answer is discarded
while the earlier one is still waiting (the reader loop must keep it until its turn) -/
def twoWriters : List DCall :=
  [.base (.read 0 1), .base (.write (some 1) 1 (.pay (.atom 1)) true),
   .base (.read 0 2), .base (.write (some 2) 2 (.pay (.atom 2)) true),
   .discard 2, .base (.answer 1 (.pay (.atom 7)))]

/-- a linked derived packet whose answer is discarded -/
def linkedFlight : List DCall :=
  [.base (.read 0 1), .base (.link 1 11), .base (.write (some 1) 11 (.pay (.atom 5)) true), .discard 1]

end C05tracer

open Uniflow.Tracer Uniflow.ATracer C05tracer in
/-- **A discarded answer is answered with nothing, and leaves nothing.** On the fixed code (the key of
`receives` stays, with an empty slice) `Receive(w, nil)` for a packet forwarded unchanged answers the
requester with the join of nothing (`packet.None`) and empties the tracer; the same when the discarded
request has to wait for an earlier one (`twoWriters`: replies come in read order, the discarded one as
`None`), and for a linked derived packet; in all three the replies are those of the abstract reading
"`discard w` = answer `w` with nothing" (`adrun`). -/
theorem C05.tracer_discard_answers_none :
    (tdrun {} (sameFlight ++ [.discard 1])).2.map evTag = [(0, 0)] ∧
    isEmpty (tdrun {} (sameFlight ++ [.discard 1])).1 = true ∧
    (tdrun {} twoWriters).2.map evTag = [(0, 8), (0, 0)] ∧
    isEmpty (tdrun {} twoWriters).1 = true ∧
    (tdrun {} (twoWriters.take 5)).2.length = 0 ∧
    (aget (tdrun {} (twoWriters.take 5)).1.receives 2).isSome = true ∧
    (getL (tdrun {} (twoWriters.take 5)).1.receives 2).length = 0 ∧
    (tdrun {} linkedFlight).2.map evTag = [(0, 0)] ∧ isEmpty (tdrun {} linkedFlight).1 = true ∧
    (tdrun {} (sameFlight ++ [.discard 1])).2.map evTag = (adrun {} (sameFlight ++ [.discard 1])).2.map evTag ∧
    (tdrun {} twoWriters).2.map evTag = (adrun {} twoWriters).2.map evTag ∧
    (tdrun {} linkedFlight).2.map evTag = (adrun {} linkedFlight).2.map evTag ∧
    (adrun {} twoWriters).1.reqs.length = 0 ∧ (adrun {} twoWriters).1.bad = false := by decide

open Uniflow.Tracer C05tracer in
/-- **The c05h situation** as a counter-example of the variant tracer (`Uniflow.TracerC05h`: `discard`
deletes the `receives` key when the slice becomes empty): for the request forwarded unchanged the
reader loop finds no entry, breaks, and the requester is never answered; `reads` and `reader` keep the
packet, also after the loop-end `Drop` – for ever. -/
theorem C05.tracer_c05h_residue :
    let t := (tdrun {} sameFlight).1
    let u := Uniflow.TracerC05h.receiveW t 1 none
    (receiveW true t 1 none).2.map evTag = [(0, 0)] ∧ isEmpty (receiveW true t 1 none).1 = true ∧
    u.2.length = 0 ∧ u.1.reads = [(0, [1])] ∧ u.1.reader = [(1, 0)] ∧ u.1.receives.length = 0 ∧ u.1.writes = [] ∧
    (dropW true u.1 1).2.length = 0 ∧ (dropW true u.1 1).1.reads = [(0, [1])] ∧ isEmpty (dropW true u.1 1).1 = false := by
  decide

open Uniflow.Tracer Uniflow.ATracer C05tracer in
/-- Full statement for histories WITH discards (`Tracer.Receive(w, nil)` anywhere in the history, any
number of them, also for requests that then wait behind earlier ones or get further packets linked):
the tracer model sends exactly the replies of the abstract tracer in which a discard is an answer with
nothing (`packet.None`), never panics, and after the loop-end `Drop`s nothing mentions the process.
Proved below (`C05.tracer_no_residue_with_discards`) by simulation, without touching C02's refinement:
the run with discards and the run of the same history with every discard written as `Receive(w, None)`
keep tracers that are equal except for extra `some None` cells in rows of `receives` of the second
(`Sim`, `sim_run` in Proofs/TracerDiscard.lean), and nothing `resolve` reads of a row sees such cells. -/
def C05.tracer_no_residue_with_discards_full : Prop :=
  ∀ (cs : List DCall), DProtocol {} cs →
    (tdrun {} cs).2 = (adrun {} cs).2 ∧ (tdrun {} cs).1.panic = false ∧
    ∀ (Rp : Rid → Bool) (Wp : Wid → Bool) (ws : List Wid),
      Settled Rp Wp (adrun {} cs).1 → (∀ w, Wp w = true → w ∈ ws) →
      (∀ r, Rp r = true → aget (dropAll ws (tdrun {} cs).1).reads r = none) ∧
      (∀ w, Wp w = true → aget (dropAll ws (tdrun {} cs).1).writes w = none) ∧
      (∀ k r, aget (dropAll ws (tdrun {} cs).1).reader k = some r → Rp r = false)

open Uniflow.Tracer Uniflow.ATracer C05tracer in
/-- **Tracer: no residue, histories with discards.** -/
theorem C05.tracer_no_residue_with_discards : C05.tracer_no_residue_with_discards_full := by
  intro cs hp
  obtain ⟨s1, s2⟩ := sim_run cs {} {} {} (sim_refl _) trel_init inv_init hp
  have hp' := protocol_shadow cs {} hp
  obtain ⟨e1, hrel, _⟩ := run_refines (shadow cs) {} {} trel_init inv_init hp'
  refine ⟨by rw [s2, e1, adrun_shadow], by rw [s1.panic]; exact hrel.panic, ?_⟩
  intro Rp Wp ws hset hws
  rw [adrun_shadow] at hset
  obtain ⟨r1, r2, r3, _⟩ := C05.tracer_no_residue_after_drops (shadow cs) hp' Rp Wp ws hset hws
  have hd := sim_dropAll ws s1
  exact ⟨by rw [hd.reads]; exact r1, by rw [hd.writes]; exact r2, by rw [hd.reader]; exact r3⟩

open Uniflow.Tracer Uniflow.ATracer C05tracer in
/-- Non-vacuity: a history with three discards – a request forwarded unchanged and discarded while it
waits behind an earlier one, a further packet linked to that already "complete" request and discarded
too, and a linked packet of the earlier request discarded – follows the protocol, is settled, and after
the drops the tracer is empty; the replies are `None` for both requests, in read order. After the
first discard the two simulated tracers really differ (row of packet 2: `[]` against `[some None]`). -/
theorem C05.tracer_no_residue_with_discards_nonvacuous :
    let cs : List DCall :=
      [.base (.read 0 1), .base (.link 1 11), .base (.write (some 1) 11 (.pay (.atom 5)) true),
       .base (.read 0 2), .base (.write (some 2) 2 (.pay (.atom 2)) true), .discard 2,
       .base (.link 2 12), .base (.write (some 2) 12 (.pay (.atom 6)) true), .discard 2,
       .discard 1]
    protoB {} (shadow cs) = true ∧
    (∀ x ∈ (adrun {} cs).1.reqs, stOK (fun _ => true) x.st = true) ∧
    (tdrun {} (cs.take 6)).2.length = 0 ∧ (getL (tdrun {} (cs.take 6)).1.receives 2).length = 0 ∧
    (getL (trun {} (shadow (cs.take 6))).1.receives 2).length = 1 ∧
    (tdrun {} cs).2.map evTag = [(0, 0), (0, 0)] ∧ isEmpty (dropAll [1, 2] (tdrun {} cs).1) = true := by
  decide

/-! ## `LoadOrStore` with a failing initialiser -/

section FailingInitialiser
open Uniflow.Local

/-- inside a `LoadOrStore(p, …)`, before anything could be published -/
def Uniflow.Local.inLos (p : Pid) : Pc → Bool
  | .rd (.los1 q _ _) => q = p
  | .want (.los2 q _ _) => q = p
  | .hold (.los2 q _ _) => q = p
  | .lzWant q _ => q = p
  | .lzFn q _ => q = p
  | .lzRel q _ => q = p
  | _ => false

/-- **A failing initialiser stores nothing.** For every schedule in which every initialiser handed to
`LoadOrStore(p, …)` fails and nobody calls `Store(p, …)` (anything else is allowed: other processes,
Delete, Close, Exit, hooks, any number of concurrent `LoadOrStore(p)`): the store never holds a value
for `p`, and every lazy object ever created for `p` is a failing one (the cached error). -/
theorem C05.failing_initialiser_stores_nothing (sched : List Act) (p : Pid)
    (h : ∀ a ∈ sched, a.failOnly p = true) :
    (run false init sched).eager p = none ∧
    (∀ L, L < (run false init sched).nlz → ((run false init sched).lz L).proc = p →
      ((run false init sched).lz L).fails = true) :=
  let hf := fail_run sched p init (fail_init p) allInv_init h
  ⟨hf.ev, hf.lzs⟩

/-- **Every waiter gets the error.** In such a schedule, whatever step a thread inside `LoadOrStore(p)`
takes next: it stays inside `LoadOrStore(p)` without a result, or it returns – and then it returns the
error (`Ev.val none`), never a value; it never reaches the publishing section. Together with
`C05.local_no_deadlock` / `C05.local_holders_progress` (somebody can always move; whoever holds the lazy
object's mutex can) no waiter is left blocked, and by `C05.lazy_inits_le_created` each lazy object's
initialiser ran at most once. (Seeded change c05j – `lazy.Do` returning on the error path without
unlocking – is the code failing exactly this; the model releases in `lzRel` on both paths.) -/
theorem C05.failing_initialiser_waiters_get_error (sched : List Act) (p : Pid)
    (h : ∀ a ∈ sched, a.failOnly p = true) (t : Tid) (s' : State) (e : Ev)
    (hin : inLos p ((run false init sched).thr t) = true)
    (hs : step false (run false init sched) t = some (s', e)) :
    (e = .tau ∧ inLos p (s'.thr t) = true) ∨ (e = .val none ∧ s'.thr t = .idle) := by
  have hf := fail_run sched p init (fail_init p) allInv_init h
  have hw := (allInv_reach sched).wf
  generalize run false init sched = s at hf hw hin hs
  cases hpc : s.thr t <;> rw [hpc] at hin <;> simp [inLos] at hin
  case rd r =>
    cases r <;> simp [inLos] at hin
    case los1 q v f =>
      have hq : q = p := hin
      subst hq
      simp only [step, hpc] at hs
      split at hs
      · simp only [rdStep, hf.ev, Option.some.injEq, Prod.mk.injEq] at hs
        obtain ⟨rfl, rfl⟩ := hs
        left; exact ⟨rfl, by simp [inLos]⟩
      · cases hs
  case want c =>
    cases c <;> simp [inLos] at hin
    case los2 q v f =>
      have hq : q = p := hin
      subst hq
      simp only [step, hpc] at hs
      split at hs
      · cases hs; left; exact ⟨rfl, by simp [inLos]⟩
      · cases hs
  case hold c =>
    cases c <;> simp [inLos] at hin
    case los2 q v f =>
      have hq : q = p := hin
      subst hq
      simp only [step, hpc, crit, hf.ev, Option.some.injEq] at hs
      split at hs
      · cases hs; left; exact ⟨rfl, by simp [inLos]⟩
      · cases hs; left; exact ⟨rfl, by simp [inLos]⟩
  case lzWant q L =>
    have hq : q = p := hin
    subst hq
    simp only [step, hpc] at hs
    split at hs
    · cases hs; left; refine ⟨rfl, ?_⟩; simp only [upd_same]; split <;> simp [inLos]
    · cases hs
  case lzFn q L =>
    have hq : q = p := hin
    subst hq
    simp only [step, hpc] at hs
    cases hs; left; exact ⟨rfl, by simp [inLos]⟩
  case lzRel q L =>
    have hq : q = p := hin
    subst hq
    obtain ⟨hb, hp⟩ := hw.thr_ok t q L (by rw [hpc]; rfl)
    have hfl := hf.lzs L hb hp
    simp only [step, hpc, hfl, if_true] at hs
    cases hs; right; exact ⟨rfl, by simp⟩

/-- Non-vacuity, and the c05j situation on the model: thread 0 creates the lazy object for process 0
and is inside the failing initialiser; thread 1 arrives and waits on the object (blocked); thread 0
finishes – the initialiser ran once – releases and returns the error; thread 1 then takes the mutex,
finds `done`, releases and returns the same error; nothing is stored, nobody holds `l.mu` or the lazy
mutex, both are idle; a later `Load` finds nothing. -/
theorem C05.failing_initialiser_nonvacuous :
    let pre : List Act :=
      [.call 0 (.loadOrStore 0 4 true), .step 0, .step 0, .step 0, .step 0,       -- t0 inside the initialiser
       .call 1 (.loadOrStore 0 9 true), .step 1, .step 1, .step 1]                -- t1 before Do, on the same lazy
    let rest : List Act := [.step 0, .step 0, .step 1, .step 1]
    (∀ a ∈ pre ++ rest, a.failOnly 0 = true) ∧
    (run false init pre).thr 0 = .lzFn 0 0 ∧ (run false init pre).thr 1 = .lzWant 0 0 ∧
    enabled false (run false init pre) 1 = false ∧
    (run false init (pre ++ rest)).thr 0 = .idle ∧ (run false init (pre ++ rest)).thr 1 = .idle ∧
    (run false init (pre ++ rest)).inits 0 = 1 ∧ (run false init (pre ++ rest)).eager 0 = none ∧
    (run false init (pre ++ rest)).mu = none ∧ ((run false init (pre ++ rest)).lz 0).owner = none ∧
    (run false init (pre ++ rest)).lazy 0 = some 0 := by decide

end FailingInitialiser
