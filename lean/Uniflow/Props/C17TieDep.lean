/-
C17 – re-statements of the function-outline ties of the source files this property DEPENDS on without being anchored in
them: the other files of its packages and every package they import (bin/mk_dependency_ties.py; hand-run). A source change
there is reported for C17 as well.
-/
import Uniflow.Props.C14Tie1
import Uniflow.Props.C14Tie2
import Uniflow.Props.C15TieSrc
import Uniflow.Props.C16Tie1
import Uniflow.Props.C16Tie6
import Uniflow.Props.C16Tie2
import Uniflow.Props.C16Tie4
import Uniflow.Props.C16Tie5
import Uniflow.Props.C16Tie3

theorem C17.dep_C14_types_binary_as_modelled : type_of% C14.src_types_binary_as_modelled := C14.src_types_binary_as_modelled
theorem C17.dep_C14_types_boolean_as_modelled : type_of% C14.src_types_boolean_as_modelled := C14.src_types_boolean_as_modelled
theorem C17.dep_C14_types_buffer_as_modelled : type_of% C14.src_types_buffer_as_modelled := C14.src_types_buffer_as_modelled
theorem C17.dep_C14_types_error_as_modelled : type_of% C14.src_types_error_as_modelled := C14.src_types_error_as_modelled
theorem C17.dep_C14_types_float_as_modelled : type_of% C14.src_types_float_as_modelled := C14.src_types_float_as_modelled
theorem C17.dep_C14_types_integer_as_modelled_1 : type_of% C14.src_types_integer_as_modelled_1 := C14.src_types_integer_as_modelled_1
theorem C17.dep_C14_types_integer_as_modelled_2 : type_of% C14.src_types_integer_as_modelled_2 := C14.src_types_integer_as_modelled_2
theorem C17.dep_C14_types_slice_as_modelled_1 : type_of% C14.src_types_slice_as_modelled_1 := C14.src_types_slice_as_modelled_1
theorem C17.dep_C14_types_slice_as_modelled_2 : type_of% C14.src_types_slice_as_modelled_2 := C14.src_types_slice_as_modelled_2
theorem C17.dep_C14_types_string_as_modelled : type_of% C14.src_types_string_as_modelled := C14.src_types_string_as_modelled
theorem C17.dep_C14_types_uinteger_as_modelled_1 : type_of% C14.src_types_uinteger_as_modelled_1 := C14.src_types_uinteger_as_modelled_1
theorem C17.dep_C14_types_uinteger_as_modelled_2 : type_of% C14.src_types_uinteger_as_modelled_2 := C14.src_types_uinteger_as_modelled_2
theorem C17.dep_C14_types_value_as_modelled : type_of% C14.src_types_value_as_modelled := C14.src_types_value_as_modelled
theorem C17.dep_C15_types_map_as_modelled_1 : type_of% C15.src_types_map_as_modelled_1 := C15.src_types_map_as_modelled_1
theorem C17.dep_C15_types_map_as_modelled_2 : type_of% C15.src_types_map_as_modelled_2 := C15.src_types_map_as_modelled_2
theorem C17.dep_C15_types_map_as_modelled_3 : type_of% C15.src_types_map_as_modelled_3 := C15.src_types_map_as_modelled_3
theorem C17.dep_C15_types_map_as_modelled_4 : type_of% C15.src_types_map_as_modelled_4 := C15.src_types_map_as_modelled_4
theorem C17.dep_C16_types_binary_as_modelled_1 : type_of% C16.src_types_binary_as_modelled_1 := C16.src_types_binary_as_modelled_1
theorem C17.dep_C16_types_binary_as_modelled_2 : type_of% C16.src_types_binary_as_modelled_2 := C16.src_types_binary_as_modelled_2
theorem C17.dep_C16_types_boolean_as_modelled : type_of% C16.src_types_boolean_as_modelled := C16.src_types_boolean_as_modelled
theorem C17.dep_C16_types_buffer_as_modelled_1 : type_of% C16.src_types_buffer_as_modelled_1 := C16.src_types_buffer_as_modelled_1
theorem C17.dep_C16_types_buffer_as_modelled_2 : type_of% C16.src_types_buffer_as_modelled_2 := C16.src_types_buffer_as_modelled_2
theorem C17.dep_C16_types_error_as_modelled : type_of% C16.src_types_error_as_modelled := C16.src_types_error_as_modelled
theorem C17.dep_C16_types_float_as_modelled_1 : type_of% C16.src_types_float_as_modelled_1 := C16.src_types_float_as_modelled_1
theorem C17.dep_C16_types_float_as_modelled_2 : type_of% C16.src_types_float_as_modelled_2 := C16.src_types_float_as_modelled_2
theorem C17.dep_C16_types_integer_as_modelled_1 : type_of% C16.src_types_integer_as_modelled_1 := C16.src_types_integer_as_modelled_1
theorem C17.dep_C16_types_integer_as_modelled_2 : type_of% C16.src_types_integer_as_modelled_2 := C16.src_types_integer_as_modelled_2
theorem C17.dep_C16_types_map_as_modelled_1 : type_of% C16.src_types_map_as_modelled_1 := C16.src_types_map_as_modelled_1
theorem C17.dep_C16_types_map_as_modelled_2 : type_of% C16.src_types_map_as_modelled_2 := C16.src_types_map_as_modelled_2
theorem C17.dep_C16_types_map_as_modelled_3 : type_of% C16.src_types_map_as_modelled_3 := C16.src_types_map_as_modelled_3
theorem C17.dep_C16_types_map_as_modelled_4 : type_of% C16.src_types_map_as_modelled_4 := C16.src_types_map_as_modelled_4
theorem C17.dep_C16_types_slice_as_modelled : type_of% C16.src_types_slice_as_modelled := C16.src_types_slice_as_modelled
theorem C17.dep_C16_types_string_as_modelled_1 : type_of% C16.src_types_string_as_modelled_1 := C16.src_types_string_as_modelled_1
theorem C17.dep_C16_types_string_as_modelled_2 : type_of% C16.src_types_string_as_modelled_2 := C16.src_types_string_as_modelled_2
theorem C17.dep_C16_types_string_as_modelled_3 : type_of% C16.src_types_string_as_modelled_3 := C16.src_types_string_as_modelled_3
theorem C17.dep_C16_types_uinteger_as_modelled_1 : type_of% C16.src_types_uinteger_as_modelled_1 := C16.src_types_uinteger_as_modelled_1
theorem C17.dep_C16_types_uinteger_as_modelled_2 : type_of% C16.src_types_uinteger_as_modelled_2 := C16.src_types_uinteger_as_modelled_2
