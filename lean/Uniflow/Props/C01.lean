/-
C01 – every accepted write gets exactly one in-order joined response.

Model: `Uniflow.Writer` (index-addressed transcription of `pkg/packet/writer.go`, `reader.go`,
`packet.Join`, after the four `fix:` commits).  Specification: `Uniflow.WriterSpec` (rows keyed
by reader id and write id).  All theorems quantify over every history `h : List Step`, any number
of readers, no length bound.

Former known finding `relink-with-pending` (DESIGN.md §7 row 5): after `unlink r` with a request
outstanding and `link r` again, the code credited r's late answer to the next write.  Fixed by
link generations (every `Link` gets a fresh generation, requests carry it, `receive` compares):
the refinement `C01.refines : C01.refines_full` now holds for every history; the defect stays
machine-checked on the pinned variant of the step (`C01.pinned_relink_miscredit`).
-/
import Uniflow.Proofs.WriterSim
import Uniflow.Proofs.WriterGen
import Uniflow.Model.Pump

open Uniflow Uniflow.Writer Uniflow.WriterSpec Uniflow.WriterProofs

/-! ## Helper lemmas (model side) -/

namespace Uniflow.WriterProofs

theorem mflush_len (rows : List Row) :
    (Writer.flush rows).2.length + (Writer.flush rows).1.length = rows.length := by
  induction rows with
  | nil => rfl
  | cons row tl ih =>
    simp only [Writer.flush]
    split
    · simp
    · simp only [List.length_cons]; omega

theorem mflush_head (rows : List Row) :
    ∀ row rest, (Writer.flush rows).1 = row :: rest → hasNil row = true := by
  induction rows with
  | nil => simp [Writer.flush]
  | cons row tl ih =>
    simp only [Writer.flush]
    split
    · rename_i h
      intro row' rest' he
      injection he with h1 _
      exact h1 ▸ h
    · exact ih

theorem setCell_len {rows rows' : List Row} {h i : Nat} {a : Ans} (hs : setCell rows h i a = some rows') :
    rows'.length = rows.length := by
  simp only [setCell] at hs
  split at hs
  · simp at hs
  · split at hs
    · injection hs with hs; subst hs; simp
    · simp at hs

theorem eraseCol_len (i : Nat) (rows : List Row) : (eraseCol i rows).length = rows.length := by
  simp [eraseCol]

/-- `(*Writer).receive` never indexes out of range (given the parallel slices `readers`/`links`
have equal length), keeps the head row incomplete, and emits exactly the rows it removes. -/
theorem receive_facts (m : W) (a : Ans) (r : RId) (g w : Nat)
    (hh : ∀ row rest, m.rows = row :: rest → hasNil row = true) :
    (m.links.length = m.readers.length → m.writes.length = m.rows.length →
      (∀ k, (receive m a r g w).2.ret ≠ .panic k) ∧ (receive m a r g w).1.writes.length = (receive m a r g w).1.rows.length) ∧
    (∀ row rest, (receive m a r g w).1.rows = row :: rest → hasNil row = true) ∧
    (receive m a r g w).2.emits.length + (receive m a r g w).1.rows.length = m.rows.length ∧
    (receive m a r g w).2.deliv = [] ∧
    (receive m a r g w).1.readers = m.readers ∧ (receive m a r g w).1.links = m.links := by
  simp only [receive, receiveWith]
  split
  · exact ⟨fun _ hw => ⟨by simp, hw⟩, hh, by simp, rfl, rfl, rfl⟩
  split
  · exact ⟨fun _ hw => ⟨by simp, hw⟩, hh, by simp, rfl, rfl, rfl⟩
  rename_i index hidx
  split
  · rename_i hnone
    refine ⟨?_, hh, by simp, rfl, rfl, rfl⟩
    intro hl _
    have := indexOf_lt hidx
    rw [← hl] at this
    rw [List.getElem?_eq_getElem this] at hnone
    cases hnone
  split
  · exact ⟨fun _ hw => ⟨by simp, hw⟩, hh, by simp, rfl, rfl, rfl⟩
  simp only [if_true]
  cases hih : indexOfWrite index w m.writes m.rows with
  | panic => exact ⟨fun _ hw => absurd hih (indexOfWrite_ne_panic _ _ _ _ hw), hh, by simp, rfl, rfl, rfl⟩
  | notFound => exact ⟨fun _ hw => ⟨by simp, hw⟩, hh, by simp, rfl, rfl, rfl⟩
  | found head =>
    obtain ⟨rows', hset, _, hne0⟩ := indexOfWrite_found (some a) hih
    have hlen := setCell_len hset
    simp only [hset]
    split
    · have hfl := mflush_len rows'
      refine ⟨fun _ hw => ⟨by simp, ?_⟩, mflush_head _, ?_, rfl, rfl, rfl⟩
      · simp only [List.length_drop]; omega
      · simp only at hfl ⊢
        omega
    · rename_i h0
      obtain ⟨row, rest, rest', e1, e2⟩ := hne0 h0
      refine ⟨fun _ hw => ⟨by simp, by simp only; omega⟩, ?_, by simp [hlen], rfl, rfl, rfl⟩
      intro row' rest'' he
      simp only [e2, List.cons.injEq] at he
      rw [← he.1]
      exact hh row rest e1

end Uniflow.WriterProofs

namespace Uniflow.WriterProofs

/-- The step is a write that reported at least one accepting reader. -/
def isAccepted : Step → Out → Bool
  | .write _, o => match o.ret with
    | .cnt (_ + 1) => true
    | _ => false
  | _, _ => false

/-- Number of accepted writes of a history, read off what the steps returned. -/
def acceptedCount : List Step → List Out → Nat
  | st :: h, o :: outs => (if isAccepted st o then 1 else 0) + acceptedCount h outs
  | _, _ => 0

def HeadOpen (m : W) : Prop := ∀ row rest, m.rows = row :: rest → hasNil row = true

theorem newRow_hasNil {closed : RId → Bool} {l : List RId} (h : (accepting closed l).length > 0) :
    hasNil (newRow closed l) = true := by
  obtain ⟨a, ha⟩ : ∃ a, a ∈ accepting closed l := by
    cases h' : accepting closed l with
    | nil => simp [h'] at h
    | cons a t => exact ⟨a, by simp⟩
  have ha' := mem_accepting.1 ha
  simp only [hasNil, newRow, List.any_map, List.any_eq_true]
  exact ⟨a, ha'.1, by simp [ha'.2]⟩

/-- The parallel slices have equal length: `readers`/`links` and `receives`/`writes`. -/
def LinksOK (m : W) : Prop := m.links.length = m.readers.length ∧ m.writes.length = m.rows.length

theorem step_facts (m : W) (st : Step) (hh : HeadOpen m) :
    (LinksOK m → (∀ k, (Writer.step m st).2.ret ≠ .panic k) ∧ LinksOK (Writer.step m st).1) ∧
    HeadOpen (Writer.step m st).1 ∧
    (Writer.step m st).2.emits.length + (Writer.step m st).1.rows.length =
      m.rows.length + (if isAccepted st (Writer.step m st).2 then 1 else 0) := by
  have viaReceive : ∀ (m1 : W) (a : Ans) (r : RId) (g w : Nat), m1.rows = m.rows → m1.readers = m.readers →
      m1.links = m.links → m1.writes = m.writes → ∀ st', isAccepted st' (receive m1 a r g w).2 = false →
      (LinksOK m → (∀ k, (receive m1 a r g w).2.ret ≠ .panic k) ∧ LinksOK (receive m1 a r g w).1) ∧
      HeadOpen (receive m1 a r g w).1 ∧
      (receive m1 a r g w).2.emits.length + (receive m1 a r g w).1.rows.length =
        m.rows.length + (if isAccepted st' (receive m1 a r g w).2 then 1 else 0) := by
    intro m1 a r g w h1 h2 h3 h4 st' hacc
    have := receive_facts m1 a r g w (by rw [h1]; exact hh)
    refine ⟨fun hl => ?_, this.2.1, by rw [hacc, ← h1]; simpa using this.2.2.1⟩
    obtain ⟨q1, q2⟩ := this.1 (by rw [h3, h2]; exact hl.1) (by rw [h4, h1]; exact hl.2)
    refine ⟨q1, ?_, q2⟩
    rw [this.2.2.2.2.2, this.2.2.2.2.1, h3, h2]; exact hl.1
  cases st with
  | link r =>
    simp only [Writer.step, stepWith]
    split
    · exact ⟨fun hl => ⟨by simp, hl⟩, hh, by simp [isAccepted]⟩
    · split
      · exact ⟨fun hl => ⟨by simp, hl⟩, hh, by simp [isAccepted]⟩
      · exact ⟨fun hl => ⟨by simp, by simpa [LinksOK] using hl⟩, hh, by simp [isAccepted]⟩
  | unlink r =>
    simp only [Writer.step, stepWith]
    split
    · exact ⟨fun hl => ⟨by simp, hl⟩, hh, by simp [isAccepted]⟩
    · split
      · exact ⟨fun hl => ⟨by simp, hl⟩, hh, by simp [isAccepted]⟩
      · rename_i i hidx
        split
        · rename_i hle
          refine ⟨fun hl => ?_, hh, by simp [isAccepted]⟩
          have := indexOf_lt hidx
          simp only [LinksOK] at hl
          omega
        · have hfl := mflush_len (eraseCol i m.rows)
          rw [eraseCol_len] at hfl
          refine ⟨fun hl => ⟨by simp, ?_⟩, mflush_head _, ?_⟩
          · simp only [LinksOK] at hl ⊢
            constructor
            · show (m.links.eraseIdx i).length = (m.readers.eraseIdx i).length
              rw [List.length_eraseIdx, List.length_eraseIdx, hl.1]
            · show (m.writes.drop (Writer.flush (eraseCol i m.rows)).2.length).length = (Writer.flush (eraseCol i m.rows)).1.length
              rw [List.length_drop]; omega
          · simpa [isAccepted] using hfl
  | write v =>
    simp only [Writer.step, stepWith]
    split
    · exact ⟨fun hl => ⟨by simp, hl⟩, hh, by simp [isAccepted]⟩
    · split
      · exact ⟨fun hl => ⟨by simp, hl⟩, hh, by simp [isAccepted]⟩
      · split
        · rename_i hlt
          refine ⟨fun hl => ?_, hh, by simp [isAccepted]⟩
          simp only [LinksOK] at hl
          omega
        · split
          · rename_i hacc
            refine ⟨fun hl => ⟨by simp, by simpa [LinksOK] using hl⟩, ?_, ?_⟩
            · intro row rest he
              cases hs : m.rows with
              | nil =>
                simp only [hs, List.nil_append, List.cons.injEq] at he
                rw [← he.1]; exact newRow_hasNil hacc
              | cons r0 t0 =>
                simp only [hs, List.cons_append, List.cons.injEq] at he
                rw [← he.1]; exact hh r0 t0 hs
            · obtain ⟨n, hn⟩ : ∃ n, (accepting m.closed m.readers).length = n + 1 :=
                ⟨(accepting m.closed m.readers).length - 1, by omega⟩
              simp [isAccepted, hn]
          · exact ⟨fun hl => ⟨by simp, hl⟩, hh, by simp [isAccepted]⟩
  | answer r a =>
    simp only [Writer.step, stepWith]
    split
    · exact ⟨fun hl => ⟨by simp, hl⟩, hh, by simp [isAccepted]⟩
    · rename_i g rest _
      exact viaReceive { m with pend := fun x => if x = r then rest else m.pend x } a r g.1 g.2 rfl rfl rfl rfl
        (.answer r a) rfl
  | pop r a =>
    simp only [Writer.step, stepWith]
    split
    · exact ⟨fun hl => ⟨by simp, hl⟩, hh, by simp [isAccepted]⟩
    · exact ⟨fun hl => ⟨by simp, hl⟩, hh, by simp [isAccepted]⟩
  | deliver r k =>
    simp only [Writer.step, stepWith]
    split
    · exact ⟨fun hl => ⟨by simp, hl⟩, hh, by simp [isAccepted]⟩
    · rename_i e _
      exact viaReceive { m with flight := fun x => if x = r then (m.flight r).eraseIdx k else m.flight x } e.1 r e.2.1 e.2.2
        rfl rfl rfl rfl (.deliver r k) rfl
  | closeR r =>
    simp only [Writer.step, stepWith]
    split
    · exact ⟨fun hl => ⟨by simp, hl⟩, hh, by simp [isAccepted]⟩
    · exact ⟨fun hl => ⟨by simp, hl⟩, hh, by simp [isAccepted]⟩
  | deliverDrop r =>
    simp only [Writer.step, stepWith]
    split
    · exact ⟨fun hl => ⟨by simp, hl⟩, hh, by simp [isAccepted]⟩
    · rename_i g rest _
      have := viaReceive { m with drops := fun x => if x = r then rest else m.drops x } Ans.dropped r g.1 g.2 rfl rfl rfl rfl
        (.deliverDrop r) rfl
      refine ⟨fun hl => ⟨?_, (this.1 hl).2⟩, this.2.1, by simpa [isAccepted] using this.2.2⟩
      intro k
      have h1 := (this.1 hl).1
      simp only [receive] at h1
      generalize (receiveWith true { m with drops := fun x => if x = r then rest else m.drops x } Ans.dropped r g.1 g.2).2.ret = rr at h1 ⊢
      cases rr <;> simp_all
  | closeW =>
    simp only [Writer.step, stepWith]
    split
    · exact ⟨fun hl => ⟨by simp, hl⟩, hh, by simp [isAccepted]⟩
    · exact ⟨fun _ => ⟨by simp, by simp [LinksOK]⟩, by simp [HeadOpen], by simp [isAccepted]⟩

theorem run_facts (m : W) (h : List Step) (hh : HeadOpen m) (hl : LinksOK m) :
    (∀ o ∈ (Writer.runFrom m h).2, ∀ k, o.ret ≠ .panic k) ∧ HeadOpen (Writer.runFrom m h).1 ∧
    (emitted (Writer.runFrom m h).2).length + (Writer.runFrom m h).1.rows.length =
      m.rows.length + acceptedCount h (Writer.runFrom m h).2 := by
  induction h generalizing m with
  | nil => exact ⟨by simp [Writer.runFrom], hh, by simp [Writer.runFrom, emitted, acceptedCount]⟩
  | cons st h ih =>
    obtain ⟨s1, s2, s3⟩ := step_facts m st hh
    obtain ⟨s1a, s1b⟩ := s1 hl
    obtain ⟨i1, i2, i3⟩ := ih (Writer.step m st).1 s2 s1b
    refine ⟨?_, i2, ?_⟩
    · intro o ho
      simp only [Writer.runFrom, List.mem_cons] at ho
      rcases ho with rfl | ho
      · exact s1a
      · exact i1 o ho
    · simp only [Writer.runFrom, emitted, List.flatMap_cons, List.length_append, acceptedCount] at i3 ⊢
      omega

end Uniflow.WriterProofs

/-! ## Helper lemmas (specification side): write ids -/

namespace Uniflow.WriterProofs

theorem sflush_ids (rows : List SRow) :
    (WriterSpec.flush rows).2.2 ++ (WriterSpec.flush rows).1.map (·.wid) = rows.map (·.wid) ∧
    (WriterSpec.flush rows).2.1.length = (WriterSpec.flush rows).2.2.length := by
  induction rows with
  | nil => simp [WriterSpec.flush]
  | cons row tl ih =>
    simp only [WriterSpec.flush]
    split
    · simp
    · simp [ih.1, ih.2]

theorem credit_wids {w : Nat} {r : RId} {a : Ans} {rows rows' : List SRow} (h : credit w r a rows = some rows') :
    rows'.map (·.wid) = rows.map (·.wid) := by
  induction rows generalizing rows' with
  | nil => simp [credit] at h
  | cons row tl ih =>
    simp only [credit] at h
    split at h
    · split at h
      · injection h with h; subst h; simp [SRow.fill]
      · simp at h
    · cases hc : credit w r a tl with
      | none => simp [hc] at h
      | some tl' =>
        simp only [hc, Option.map_some, Option.some.injEq] at h; subst h
        simp [ih hc]

/-- The responses emitted so far and the pending rows are exactly the accepted writes, in order. -/
def IdsOK (s : S) : Prop := s.emittedIds ++ s.rows.map (·.wid) = List.range s.nextW

theorem arrive_ids (s : S) (w : Nat) (r : RId) (a : Ans) (hI : IdsOK s) :
    IdsOK (arrive s w r a).1 ∧
    (arrive s w r a).1.emittedIds.length = s.emittedIds.length + (arrive s w r a).2.emits.length ∧
    (arrive s w r a).1.nextW = s.nextW := by
  simp only [arrive]
  split
  · exact ⟨hI, by simp, rfl⟩
  split
  · exact ⟨hI, by simp, rfl⟩
  split
  · exact ⟨hI, by simp, rfl⟩
  · rename_i rows' hc
    have hw := credit_wids hc
    obtain ⟨f1, f2⟩ := sflush_ids rows'
    refine ⟨?_, by simp [f2], rfl⟩
    simp only [IdsOK] at hI ⊢
    rw [List.append_assoc, f1, hw]; exact hI

theorem spec_step_ids (s : S) (st : Step) (hI : IdsOK s) :
    IdsOK (WriterSpec.step s st).1 ∧
    (WriterSpec.step s st).1.emittedIds.length = s.emittedIds.length + (WriterSpec.step s st).2.emits.length ∧
    (WriterSpec.step s st).1.nextW = s.nextW + (if isAccepted st (WriterSpec.step s st).2 then 1 else 0) := by
  cases st with
  | link r =>
    simp only [WriterSpec.step]
    split
    · exact ⟨hI, by simp, by simp [isAccepted]⟩
    · split <;> exact ⟨hI, by simp, by simp [isAccepted]⟩
  | unlink r =>
    simp only [WriterSpec.step]
    split
    · exact ⟨hI, by simp, by simp [isAccepted]⟩
    · split
      · exact ⟨hI, by simp, by simp [isAccepted]⟩
      · obtain ⟨f1, f2⟩ := sflush_ids (s.rows.map (·.drop r))
        refine ⟨?_, by simp [f2], by simp [isAccepted]⟩
        simp only [IdsOK] at hI ⊢
        rw [List.append_assoc, f1, List.map_map]
        exact hI
  | write v =>
    simp only [WriterSpec.step]
    split
    · exact ⟨hI, by simp, by simp [isAccepted]⟩
    · split
      · rename_i hacc
        obtain ⟨n, hn⟩ : ∃ n, (accepting s.closed s.linked).length = n + 1 :=
          ⟨(accepting s.closed s.linked).length - 1, by omega⟩
        refine ⟨?_, by simp, by simp [isAccepted, hn]⟩
        simp only [IdsOK] at hI ⊢
        simp only [List.map_append, List.map_cons, List.map_nil, ← List.append_assoc, hI, List.range_succ]
      · exact ⟨hI, by simp, by simp [isAccepted]⟩
  | answer r a =>
    simp only [WriterSpec.step]
    split
    · exact ⟨hI, by simp, by simp [isAccepted]⟩
    · split
      · exact ⟨hI, by simp, by simp [isAccepted]⟩
      · rename_i w rest _
        have := arrive_ids { s with owed := fun x => if x = r then rest else s.owed x } w r a hI
        exact ⟨this.1, this.2.1, by simpa [isAccepted] using this.2.2⟩
  | pop r a =>
    simp only [WriterSpec.step]
    split
    · exact ⟨hI, by simp, by simp [isAccepted]⟩
    · split <;> exact ⟨hI, by simp, by simp [isAccepted]⟩
  | deliver r k =>
    simp only [WriterSpec.step]
    split
    · exact ⟨hI, by simp, by simp [isAccepted]⟩
    · rename_i e _
      have := arrive_ids { s with flight := fun x => if x = r then (s.flight r).eraseIdx k else s.flight x } e.2 r e.1 hI
      exact ⟨this.1, this.2.1, by simpa [isAccepted] using this.2.2⟩
  | closeR r =>
    simp only [WriterSpec.step]
    split <;> exact ⟨hI, by simp, by simp [isAccepted]⟩
  | deliverDrop r =>
    simp only [WriterSpec.step]
    split
    · exact ⟨hI, by simp, by simp [isAccepted]⟩
    · split
      · exact ⟨hI, by simp, by simp [isAccepted]⟩
      · rename_i w rest _
        have := arrive_ids { s with owed := fun x => if x = r then rest else s.owed x } w r Ans.dropped hI
        exact ⟨this.1, this.2.1, by simpa [isAccepted] using this.2.2⟩
  | closeW =>
    simp only [WriterSpec.step]
    split
    · exact ⟨hI, by simp, by simp [isAccepted]⟩
    · refine ⟨?_, by simp, by simp [isAccepted]⟩
      simpa [IdsOK] using hI

theorem spec_run_ids (s : S) (h : List Step) (hI : IdsOK s) :
    IdsOK (WriterSpec.runFrom s h).1 ∧
    (WriterSpec.runFrom s h).1.emittedIds.length = s.emittedIds.length + (emitted (WriterSpec.runFrom s h).2).length ∧
    (WriterSpec.runFrom s h).1.nextW = s.nextW + acceptedCount h (WriterSpec.runFrom s h).2 := by
  induction h generalizing s with
  | nil => exact ⟨hI, by simp [WriterSpec.runFrom, emitted], by simp [WriterSpec.runFrom, acceptedCount]⟩
  | cons st h ih =>
    obtain ⟨s1, s2, s3⟩ := spec_step_ids s st hI
    obtain ⟨i1, i2, i3⟩ := ih (WriterSpec.step s st).1 s1
    refine ⟨i1, ?_, ?_⟩
    · simp only [WriterSpec.runFrom, emitted, List.flatMap_cons, List.length_append] at i2 ⊢
      omega
    · simp only [WriterSpec.runFrom, acceptedCount] at i3 ⊢
      omega

end Uniflow.WriterProofs

/-! ## The property theorems -/

instance decNoRelink : (m : W) → (h : List Step) → Decidable (NoRelink m h)
  | _, [] => isTrue trivial
  | m, s :: h =>
    have := decNoRelink (Writer.step m s).1 h
    inferInstanceAs (Decidable (relinkPending m s = false ∧ NoRelink (Writer.step m s).1 h))

/-- The index arithmetic of `indexOfHead`, `receive`, `Unlink` and `Write` (rows, columns and the
parallel slices `readers`/`links`) never leaves range: no step of any history panics. -/
theorem C01.no_panic (h : List Step) : ∀ o ∈ (Writer.run h).2, ∀ k, o.ret ≠ Ret.panic k :=
  (run_facts W.init h (by simp [HeadOpen, W.init]) (by simp [LinksOK, W.init])).1

/-- No complete row ever waits: after any history the head pending row (if any) still lacks an
answer.  (This is what failed before the `receive` fix, DESIGN.md §7 row 4.) -/
theorem C01.head_incomplete (h : List Step) :
    ∀ row rest, (Writer.run h).1.rows = row :: rest → hasNil row = true :=
  (run_facts W.init h (by simp [HeadOpen, W.init]) (by simp [LinksOK, W.init])).2.1

/-- Exactly one response per accepted write: after any history, the number of responses pushed
into the pump plus the number of writes still pending equals the number of writes that reported
at least one accepting reader.  Together with `C01.head_incomplete` (a pending write is never
complete) and `C01.pending_backed` below this is "exactly one, none for unaccepted writes". -/
theorem C01.exactly_one_response (h : List Step) :
    (emitted (Writer.run h).2).length + (Writer.run h).1.rows.length = acceptedCount h (Writer.run h).2 := by
  have := (run_facts W.init h (by simp [HeadOpen, W.init]) (by simp [LinksOK, W.init])).2.2
  rw [show W.init.rows.length = 0 from rfl, Nat.zero_add] at this
  exact this

/-- A write – accepted or not – emits nothing itself, in any state; in particular a write that
reports zero accepting readers produces no response (DESIGN.md §7 row 3), and it queues no row. -/
theorem C01.unaccepted_write_emits_nothing (m : W) (v : Nat) :
    (Writer.step m (.write v)).2.emits = [] ∧
    ((Writer.step m (.write v)).2.ret = .cnt 0 → (Writer.step m (.write v)).1.rows = m.rows) := by
  simp only [Writer.step, stepWith]
  split
  · simp
  · split
    · simp
    · split
      · simp
      · split
        · rename_i h
          refine ⟨rfl, ?_⟩
          intro h0
          simp only [Ret.cnt.injEq] at h0
          omega
        · simp

/-- The refinement statement: on every history the model shows, step by step, exactly what the
id-keyed specification shows (return value, responses, deliveries). -/
def C01.refines_full : Prop := ∀ h : List Step, (Writer.run h).2 = (WriterSpec.run h).2

/-- Refinement of the id-keyed specification, for every history – unlink and re-link with
requests outstanding included (the link generations make a late answer to a request of a removed
link a no-op, exactly as the specification ignores an answer whose slot is gone), and with the
window inside `Reader.Receive` open: answers in flight (`pop`) reach the writer (`deliver`) in any
order relative to each other, to the drop notices of a `Reader.Close` and to every other step, and
each is credited to the write it answers (writes are numbered). -/
theorem C01.refines : C01.refines_full := fun h => (sim_run rel_init h).1

/-- The history that used to be the witness of the known finding `relink-with-pending`: the late
answer to write 1 is refused, the answer to write 2 is its response. -/
theorem C01.refines_relink_witness :
    (Writer.run [.link 0, .write 1, .unlink 0, .link 0, .write 2, .answer 0 (.val 1), .answer 0 (.val 2)]).2.map
        (fun o => (o.ret, o.emits)) =
      [(.ok true, []), (.cnt 1, []), (.ok true, [.err [0]]), (.ok true, []), (.cnt 1, []), (.ok false, []),
       (.ok true, [.val 2])] := by decide

/-- **Link generations are fresh** (every history): live links carry pairwise different generations,
and every generation on record – of a live link, of a request a reader still holds, of a drop notice
whose goroutine has not run yet, of an answer in flight between `Reader.Receive` and
`(*Writer).receive` – is one `Link` has handed out before (`≤ linked`). -/
theorem C01.link_generations_on_record (h : List Step) :
    (Writer.run h).1.links.Nodup ∧ (∀ g ∈ (Writer.run h).1.links, g ≤ (Writer.run h).1.linked) ∧
    (∀ r, ∀ e ∈ (Writer.run h).1.pend r, e.1 ≤ (Writer.run h).1.linked) ∧
    (∀ r, ∀ e ∈ (Writer.run h).1.drops r, e.1 ≤ (Writer.run h).1.linked) ∧
    (∀ r, ∀ e ∈ (Writer.run h).1.flight r, e.2.1 ≤ (Writer.run h).1.linked) :=
  let g := genOK_run h
  ⟨g.nodup, g.links, g.pend, g.drops, g.flight⟩

/-- **A new link's generation is carried by nothing recorded before it** (every history, every reader):
when `Link` succeeds after any history, the generation it hands out is `linked + 1`, and no live link,
no request still held by any reader, no undelivered drop notice and no answer in flight carries it. A
late answer over a removed link can therefore never pass the generation test of a later link of the
same reader, however often the link flaps. -/
theorem C01.new_link_generation_unused (h : List Step) (r : RId)
    (hl : (Writer.step (Writer.run h).1 (.link r)).2.ret = .ok true) :
    (Writer.step (Writer.run h).1 (.link r)).1.links = (Writer.run h).1.links ++ [(Writer.run h).1.linked + 1] ∧
    (∀ g ∈ (Writer.run h).1.links, g ≠ (Writer.run h).1.linked + 1) ∧
    (∀ r', ∀ e ∈ (Writer.run h).1.pend r', e.1 ≠ (Writer.run h).1.linked + 1) ∧
    (∀ r', ∀ e ∈ (Writer.run h).1.drops r', e.1 ≠ (Writer.run h).1.linked + 1) ∧
    (∀ r', ∀ e ∈ (Writer.run h).1.flight r', e.2.1 ≠ (Writer.run h).1.linked + 1) := by
  have g := genOK_run h
  refine ⟨?_, fun x hx => Nat.ne_of_lt (Nat.lt_succ_of_le (g.links x hx)),
    fun r' e he => Nat.ne_of_lt (Nat.lt_succ_of_le (g.pend r' e he)),
    fun r' e he => Nat.ne_of_lt (Nat.lt_succ_of_le (g.drops r' e he)),
    fun r' e he => Nat.ne_of_lt (Nat.lt_succ_of_le (g.flight r' e he))⟩
  revert hl
  simp only [Writer.step, stepWith]
  split
  · intro hl; simp at hl
  · split
    · intro hl; simp at hl
    · intro _; rfl

/-- The hypothesis of `C01.new_link_generation_unused` is met by a reader that flaps: after
`link 0 · write 1 · unlink 0` the next `link 0` succeeds, and the request of write 1 is still held. -/
theorem C01.new_link_generation_unused_nonvacuous :
    (Writer.step (Writer.run [.link 0, .write 1, .unlink 0]).1 (.link 0)).2.ret = .ok true ∧
    (Writer.run [.link 0, .write 1, .unlink 0]).1.pend 0 = [(1, 0)] := by decide

/-- **Write numbers are never re-used** (every history): every write number on record – with a request a
reader still holds (or, once it has closed, with a drop notice not yet delivered), with an answer in
flight – is smaller than the number the next accepted write gets. Together with
`C01.new_link_generation_unused`: neither half of the pair (generation, write number) of an old request
can come up again with a later link or a later write. -/
theorem C01.write_numbers_on_record (h : List Step) :
    (∀ r, ∀ e ∈ fifo (Writer.run h).1 r, e.2 < (Writer.run h).1.written) ∧
    (∀ r, ∀ e ∈ (Writer.run h).1.flight r, e.2.2 < (Writer.run h).1.written) := by
  have R := (sim_run rel_init h).2
  refine ⟨fun r e he => ?_, fun r e he => ?_⟩
  · have : e.2 ∈ (WriterSpec.run h).1.owed r := by
      have hq := R.queue r
      simp only [WriterSpec.run, Writer.run] at hq ⊢
      rw [← hq]; exact List.mem_map_of_mem he
    have := R.inv.owedLt r _ this
    simpa [R.written, Writer.run, WriterSpec.run] using this
  · have : (e.1, e.2.2) ∈ (WriterSpec.run h).1.flight r := by
      have hq := R.flight r
      simp only [WriterSpec.run, Writer.run] at hq ⊢
      rw [← hq]; exact List.mem_map_of_mem (f := fun e => (e.1, e.2.2)) he
    have := R.inv.flightLt r _ this
    simpa [R.written, Writer.run, WriterSpec.run] using this

/-- A link that flaps (a test on one history, labelled as such; the statement for all histories is
`C01.refines`): the reader is linked three times with one write each and the writer is idle at
every relink; each unlink answers the outstanding write with the dropped error; at the end the
reader answers oldest first – both late answers are refused and emit nothing, write 3 gets its own
answer. (Seeded change c01m: link generations taken from `written`, write numbers restarted when
nothing is pending – the late answer to write 2 became the response to write 3.) -/
theorem C01.flapping_link_witness :
    (Writer.run [.link 0, .write 1, .unlink 0, .link 0, .write 2, .unlink 0, .link 0, .write 3,
        .answer 0 (.val 1), .answer 0 (.val 2), .answer 0 (.val 3)]).2.map (fun o => (o.ret, o.emits)) =
      [(.ok true, []), (.cnt 1, []), (.ok true, [.err [0]]), (.ok true, []), (.cnt 1, []), (.ok true, [.err [0]]),
       (.ok true, []), (.cnt 1, []), (.ok false, []), (.ok false, []), (.ok true, [.val 3])] := by decide

/-- The defect the link generations repair, kept machine-checked on the code as it was before
(`stepPinned`: `receive` without the generation test): unlink with a request outstanding, re-link,
write again – the late answer to the first write is emitted as the response to the second, so the
pinned model does not refine the specification. -/
theorem C01.pinned_relink_miscredit :
    ¬ ∀ h : List Step, (Writer.runFromPinned W.init h).2 = (WriterSpec.run h).2 := by
  intro hf
  have := hf [.link 0, .write 1, .unlink 0, .link 0, .write 2, .answer 0 (.val 1), .answer 0 (.val 2)]
  revert this
  decide

/-- The window inside `Reader.Receive` (pop under `r.mu`, unlock, then `(*Writer).receive`): the
reader is closed in the gap and the drop notice of its second request reaches the writer before
the answer to the first.  The answer still goes to the first write and the notice to the second. -/
theorem C01.refines_race_witness :
    (Writer.run [.link 0, .write 1, .write 2, .pop 0 (.val 1), .closeR 0, .deliverDrop 0, .deliver 0 0]).2.map
        (fun o => (o.ret, o.emits)) =
      [(.ok true, []), (.cnt 1, []), (.cnt 1, []), (.ok true, []), (.cnt 1, []), (.unit, []),
       (.ok true, [.val 1, .err [0]])] := by decide

/-- The defect the numbering of writes repairs, kept machine-checked on the code as it was before
(`stepPinned`: a response goes to the oldest row still owing the reader): in the same schedule
the drop notice fills the row of write 1 and the answer to write 1 becomes the response to write 2. -/
theorem C01.pinned_race_miscredit :
    (Writer.runFromPinned W.init
        [.link 0, .write 1, .write 2, .pop 0 (.val 1), .closeR 0, .deliverDrop 0, .deliver 0 0]).2.map (·.emits) =
      [[], [], [], [], [], [.err [0]], [.val 1]] ∧
    ¬ ∀ h : List Step, (Writer.runFromPinned W.init h).2 = (WriterSpec.run h).2 := by
  refine ⟨by decide, ?_⟩
  intro hf
  have := hf [.link 0, .write 1, .write 2, .pop 0 (.val 1), .closeR 0, .deliverDrop 0, .deliver 0 0]
  revert this
  decide

/-- A response carrying a generation other than the reader's current link generation (a request
of a link that `Unlink` removed, or of a reader that is not linked) changes nothing and emits
nothing, in every state: where such a response – in particular a stale drop notice – is placed
in a schedule cannot be observed. -/
theorem C01.stale_response_ignored (m : W) (a : Ans) (r : RId) (g w : Nat)
    (hl : m.links.length = m.readers.length) (hs : linkOf m r ≠ some g) :
    receive m a r g w = (m, { ret := .ok false }) := by
  simp only [receive, receiveWith]
  split
  · rfl
  split
  · rfl
  rename_i index hidx
  simp only [linkOf, hidx] at hs
  split
  · rename_i hnone
    have := indexOf_lt hidx
    rw [← hl] at this
    rw [List.getElem?_eq_getElem this] at hnone
    cases hnone
  · rename_i l hsome
    rw [hsome] at hs
    have : (l != g) = true := by simpa using fun e => hs (by rw [e])
    simp [this]

/-- Order = write order, stated on the specification for every history: the write ids of the
responses emitted so far followed by the ids of the pending rows are exactly `0, 1, …, n-1`, where
`n` is the number of accepted writes; and there is one id per emitted response.  Hence the k-th
response ever emitted belongs to the k-th accepted write. -/
theorem C01.spec_in_order (h : List Step) :
    (WriterSpec.run h).1.emittedIds ++ (WriterSpec.run h).1.rows.map (·.wid) = List.range (WriterSpec.run h).1.nextW ∧
    (WriterSpec.run h).1.emittedIds.length = (emitted (WriterSpec.run h).2).length ∧
    (WriterSpec.run h).1.nextW = acceptedCount h (WriterSpec.run h).2 ∧
    (WriterSpec.run h).1.emittedIds = List.range (emitted (WriterSpec.run h).2).length := by
  unfold WriterSpec.run
  obtain ⟨h1, h2, h3⟩ := spec_run_ids S.init h (by simp [IdsOK, S.init])
  rw [show S.init.emittedIds.length = 0 from rfl, Nat.zero_add] at h2
  rw [show S.init.nextW = 0 from rfl, Nat.zero_add] at h3
  refine ⟨h1, h2, h3, ?_⟩
  have hle : (WriterSpec.runFrom S.init h).1.emittedIds.length ≤ (WriterSpec.runFrom S.init h).1.nextW := by
    have := congrArg List.length h1
    simp only [List.length_append, List.length_range] at this
    omega
  have := congrArg (List.take (WriterSpec.runFrom S.init h).1.emittedIds.length) h1
  rw [List.take_left, List.take_range, Nat.min_eq_left hle] at this
  rw [← h2]; exact this

/-- Order and count on the model, for every history: its responses are the specification's, so
the k-th response pushed into the pump answers the k-th accepted write. -/
theorem C01.in_order (h : List Step) :
    emitted (Writer.run h).2 = emitted (WriterSpec.run h).2 ∧
    (WriterSpec.run h).1.emittedIds = List.range (emitted (Writer.run h).2).length := by
  rw [C01.refines h]
  exact ⟨rfl, (C01.spec_in_order h).2.2.2⟩

/-- Every answer a pending row still waits for is on its way, after every history: the model's
rows are the specification's rows read column-wise (and its write numbers their write ids), and
every write whose row still owes reader `r` an answer has a request in r's queue (a drop notice
once r is closed) or an answer in flight that carries its number. -/
theorem C01.pending_backed (h : List Step) :
    (Writer.run h).1.rows = (WriterSpec.run h).1.rows.map SRow.cells ∧
    (Writer.run h).1.writes = (WriterSpec.run h).1.rows.map (·.wid) ∧
    (Writer.run h).1.readers = (WriterSpec.run h).1.linked ∧
    ∀ r, ∀ w ∈ owedBy (WriterSpec.run h).1.rows r,
      (∃ l, (l, w) ∈ (if (Writer.run h).1.closed r then (Writer.run h).1.drops r else (Writer.run h).1.pend r)) ∨
      (∃ a l, (a, l, w) ∈ (Writer.run h).1.flight r) := by
  have hR := (sim_run rel_init h).2
  refine ⟨hR.rows, hR.writes, hR.readers, fun r w hw => ?_⟩
  rcases hR.inv.backed r w hw with h1 | ⟨a, h1⟩
  · left
    have hq := hR.queue r
    rw [← hq] at h1
    obtain ⟨e, he, rfl⟩ := List.mem_map.1 h1
    exact ⟨e.1, he⟩
  · right
    have hf := hR.flight r
    rw [← hf] at h1
    obtain ⟨e, he, hee⟩ := List.mem_map.1 h1
    injection hee with h2 h3
    exact ⟨e.1, e.2.1, by rw [← h3]; exact he⟩

/-! ### `Join` as the statement describes it -/

/-- Errors dominate: with at least two answers of which one is an error, the response is the
error of all error answers, in link (column) order. -/
theorem C01.join_errors_dominate (a b : Ans) (cs : List Ans) (h : (a :: b :: cs).filterMap errOf ≠ []) :
    join (a :: b :: cs) = .err ((a :: b :: cs).filterMap errOf).flatten := by
  simp only [join, h, ne_eq, not_false_eq_true, if_true]

/-- **Every error leaf is kept.**  When some reader answered with an error, the joined response
carries, in link (column) order, every leaf of every erroring reader: a leaf `e` is in the
response exactly when some answer carries it – a plain error, the `dropped packet` stand-in of a
reader that closed (`Ans.dropped = .err 0`), or one of the leaves of a relayed joined error – and
the leaves of an earlier column come before those of a later one.  (Seeded change c01l threw away
every error collected before a joined one.) -/
theorem C01.join_keeps_every_error_leaf (a b : Ans) (cs : List Ans) (h : (a :: b :: cs).filterMap errOf ≠ []) :
    (∀ e, (∃ es, join (a :: b :: cs) = .err es ∧ e ∈ es) ↔ ∃ x ∈ a :: b :: cs, ∃ l, errOf x = some l ∧ e ∈ l) ∧
    (∀ pre x post l, a :: b :: cs = pre ++ x :: post → errOf x = some l →
      ∃ es, join (a :: b :: cs) = .err es ∧ (pre.filterMap errOf).flatten ++ l <+: es) := by
  have hj := C01.join_errors_dominate a b cs h
  constructor
  · intro e
    rw [hj]
    constructor
    · rintro ⟨es, he, hm⟩
      injection he with he
      rw [← he] at hm
      simp only [List.mem_flatten, List.mem_filterMap] at hm
      obtain ⟨l, ⟨x, hx, hl⟩, hel⟩ := hm
      exact ⟨x, hx, l, hl, hel⟩
    · rintro ⟨x, hx, l, hl, hel⟩
      refine ⟨_, rfl, ?_⟩
      simp only [List.mem_flatten, List.mem_filterMap]
      exact ⟨l, ⟨x, hx, hl⟩, hel⟩
  · intro pre x post l hsplit hl
    refine ⟨_, hj, ?_⟩
    rw [hsplit]
    simp only [List.filterMap_append, List.filterMap_cons, hl, List.flatten_append, List.flatten_cons]
    rw [← List.append_assoc]
    exact List.prefix_append _ _

/-- Non-vacuity: reader 0 closed before answering (`dropped`), reader 1 answers a payload, reader 2
relays a joined error of two leaves, reader 3 a plain error: all four leaves, in link order. -/
theorem C01.join_keeps_every_error_leaf_nonvacuous :
    join [.dropped, .val 1, .errs [5, 6], .err 9] = .err [0, 5, 6, 9] ∧
    join [.err 3, .errs [5, 6, 7]] = .err [3, 5, 6, 7] ∧ join [.errs [5, 6]] = .err [5, 6] := by
  decide

/-- Without errors, empty answers vanish and the payloads form a list in link (column) order
(a single payload is passed through, none at all gives the empty response). -/
theorem C01.join_payloads_in_order (a b : Ans) (cs : List Ans) (h : (a :: b :: cs).filterMap errOf = []) :
    ((a :: b :: cs).filterMap valOf = [] → join (a :: b :: cs) = .none) ∧
    (∀ v, (a :: b :: cs).filterMap valOf = [v] → join (a :: b :: cs) = .val v) ∧
    (∀ v w vs, (a :: b :: cs).filterMap valOf = v :: w :: vs → join (a :: b :: cs) = .vals (v :: w :: vs)) := by
  refine ⟨?_, ?_, ?_⟩
  · intro hv; simp only [join, h, ne_eq, not_true_eq_false, if_false, hv]
  · intro v hv; simp only [join, h, ne_eq, not_true_eq_false, if_false, hv]
  · intro v w vs hv; simp only [join, h, ne_eq, not_true_eq_false, if_false, hv]

/-- One answer is passed through unchanged; a row with no column left (every reader unlinked) is
answered with `dropped`. -/
theorem C01.join_single (a : Ans) : join [a] = Resp.ofAns a ∧ respOf [] = Resp.dropped := by
  simp [join, respOf, accepted]

/-- No accepting reader left ⇒ `dropped`: a complete row in which every remaining cell is the
`refused` marker of a reader that did not accept the write is answered with the dropped-packet
error – whereas a reader that accepted and answered `None` yields the empty response.  (Before
the `refused` marker both were the same `None` cell and the first case was answered `None`.) -/
theorem C01.no_accepting_reader_left_is_dropped (row : Row) (h : ∀ c ∈ row, c = some none) :
    respOf row = Resp.dropped := by
  have : accepted row = [] := by
    simp only [accepted, List.filterMap_eq_nil_iff]
    intro f hf
    simp only [List.mem_filterMap, id] at hf
    obtain ⟨c, hc, e⟩ := hf
    rw [h c hc] at e
    cases e; rfl
  simp [respOf, this]

/-- The two witnesses of the defect (corpus/C01/08, 09), on the model: the only reader that
accepted is unlinked while a reader that refused remains – through `Unlink`'s flush and through
`receive`'s flush – and a genuine `None` answer for contrast. -/
theorem C01.refused_only_row_witness :
    (Writer.run [.link 0, .link 1, .closeR 1, .write 1, .unlink 0]).2.map (·.emits) =
      [[], [], [], [], [.dropped]] ∧
    (Writer.run [.link 0, .link 1, .write 1, .closeR 1, .write 2, .unlink 0, .deliverDrop 1]).2.map (·.emits) =
      [[], [], [], [], [], [], [.dropped, .dropped]] ∧
    (Writer.run [.link 0, .link 1, .closeR 1, .write 1, .answer 0 .none]).2.map (·.emits) =
      [[], [], [], [], [.none]] := by decide

/-! ### The writer's pump (what is pushed into `in` against what `Receive()` yields) -/

namespace Uniflow.WriterProofs
open Uniflow.Pump

/-- Invariant of the pump with the withdrawn repair (`Pump.stepDrain`, exit rule `drain`). -/
theorem pump_step_inv {α : Type} (p : P α) (s : Pump.Step α)
    (hp : p.delivered ++ p.buf = p.pushed) (hb : p.exited = true → p.buf = [] ∧ p.inClosed = true) :
    (Pump.stepDrain p s).delivered ++ (Pump.stepDrain p s).buf = (Pump.stepDrain p s).pushed ∧
    ((Pump.stepDrain p s).exited = true → (Pump.stepDrain p s).buf = [] ∧ (Pump.stepDrain p s).inClosed = true) := by
  cases s with
  | enq a =>
    simp only [Pump.stepDrain, Pump.stepR]; split
    · exact ⟨hp, hb⟩
    · rename_i hic
      refine ⟨by simp only; rw [← List.append_assoc, hp], ?_⟩
      intro he; simp only at he
      exact absurd (hb he).2 hic
  | deq =>
    simp only [Pump.stepDrain, Pump.stepR]; split
    · exact ⟨hp, hb⟩
    · rename_i a rest hbuf
      refine ⟨by simp only; rw [hbuf] at hp; simpa using hp, ?_⟩
      intro he; simp only at he
      have := (hb he).1
      rw [hbuf] at this; simp at this
  | closeIn =>
    simp only [Pump.stepDrain, Pump.stepR]
    exact ⟨hp, fun he => ⟨(hb he).1, trivial⟩⟩
  | exit =>
    simp only [Pump.stepDrain, Pump.stepR]; split
    · rename_i hc
      simp only [Bool.and_eq_true, List.isEmpty_iff] at hc
      exact ⟨hp, fun _ => ⟨hc.2, hc.1⟩⟩
    · exact ⟨hp, hb⟩

theorem pump_run_inv {α : Type} (p : P α) (h : List (Pump.Step α))
    (hp : p.delivered ++ p.buf = p.pushed) (hb : p.exited = true → p.buf = [] ∧ p.inClosed = true) :
    (Pump.runDrain p h).delivered ++ (Pump.runDrain p h).buf = (Pump.runDrain p h).pushed ∧
    ((Pump.runDrain p h).exited = true → (Pump.runDrain p h).buf = [] ∧ (Pump.runDrain p h).inClosed = true) := by
  induction h generalizing p with
  | nil => exact ⟨hp, hb⟩
  | cons s h ih =>
    obtain ⟨h1, h2⟩ := pump_step_inv p s hp hb
    exact ih (Pump.stepDrain p s) h1 h2

/-- Invariant of the pump as it is in the code (`Pump.step`, exit rule `discard`). -/
theorem pump_inv {α : Type} (p : P α) (h : List (Pump.Step α))
    (hp : p.exited = false → p.delivered ++ p.buf = p.pushed) (hpre : p.delivered <+: p.pushed)
    (hb : p.exited = true → p.buf = []) (hc : p.exited = true → p.inClosed = true) :
    ((Pump.run p h).exited = false → (Pump.run p h).delivered ++ (Pump.run p h).buf = (Pump.run p h).pushed) ∧
    (Pump.run p h).delivered <+: (Pump.run p h).pushed ∧
    ((Pump.run p h).inClosed = false → (Pump.run p h).exited = false) := by
  induction h generalizing p with
  | nil => exact ⟨hp, hpre, fun h => by cases he : p.exited <;> simp_all [Pump.run]⟩
  | cons s h ih =>
    simp only [Pump.run]
    apply ih
    · cases s with
      | enq a =>
        simp only [Pump.step, Pump.stepR]; split
        · exact hp
        · intro he; simp only at he ⊢; rw [← List.append_assoc, hp he]
      | deq =>
        simp only [Pump.step, Pump.stepR]; split
        · exact hp
        · rename_i a rest hbuf
          intro he; simp only at he ⊢
          have := hp he
          rw [hbuf] at this
          simpa using this
      | closeIn => simpa [Pump.step, Pump.stepR] using hp
      | exit => simp only [Pump.step, Pump.stepR]; split <;> simp_all
    · cases s with
      | enq a =>
        simp only [Pump.step, Pump.stepR]; split
        · exact hpre
        · exact hpre.trans (List.prefix_append _ _)
      | deq =>
        simp only [Pump.step, Pump.stepR]; split
        · exact hpre
        · rename_i a rest hbuf
          cases he : p.exited with
          | true => simp [hb he] at hbuf
          | false =>
            have := hp he
            rw [hbuf] at this
            simp only
            rw [← this]
            exact ⟨rest, by simp⟩
      | closeIn => simpa [Pump.step, Pump.stepR] using hpre
      | exit => simp only [Pump.step, Pump.stepR]; split <;> simpa using hpre
    · cases s with
      | enq a =>
        simp only [Pump.step, Pump.stepR]; split
        · exact hb
        · rename_i hic
          intro he; simp only at he
          exact absurd (hc he) hic
      | deq =>
        simp only [Pump.step, Pump.stepR]; split
        · exact hb
        · rename_i a rest hbuf
          intro he; simp only at he
          simp [hb he] at hbuf
      | closeIn => simpa [Pump.step, Pump.stepR] using hb
      | exit => simp only [Pump.step, Pump.stepR]; split <;> simp_all
    · cases s with
      | enq a => simp only [Pump.step, Pump.stepR]; split <;> simpa using hc
      | deq => simp only [Pump.step, Pump.stepR]; split <;> simpa using hc
      | closeIn => simp [Pump.step, Pump.stepR]
      | exit => simp only [Pump.step, Pump.stepR]; split <;> simp_all

end Uniflow.WriterProofs

/-- FIFO, no duplication, no invention: under every schedule of sends, receives, close and exit,
what `Receive()` has yielded is a prefix of what was pushed into the pump; while the goroutine has
not exited nothing is lost (`delivered ++ buffered = pushed`), so a consumer that has read as many
packets as were pushed has read exactly them. -/
theorem C01.pump_fifo {α : Type} (h : List (Pump.Step α)) :
    (Pump.run ({} : Pump.P α) h).delivered <+: (Pump.run ({} : Pump.P α) h).pushed ∧
    ((Pump.run ({} : Pump.P α) h).exited = false →
      (Pump.run ({} : Pump.P α) h).delivered ++ (Pump.run ({} : Pump.P α) h).buf = (Pump.run ({} : Pump.P α) h).pushed) := by
  have := pump_inv ({} : Pump.P α) h (by simp) (by simp) (by simp) (by simp)
  exact ⟨this.2.1, this.1⟩

/-- `_partial` (known finding `close-discards-buffered`): as long as the writer is not closed the
pump never exits, hence every response pushed is delivered or still buffered – none is lost. -/
theorem C01.pump_no_loss_partial {α : Type} (h : List (Pump.Step α))
    (hopen : (Pump.run ({} : Pump.P α) h).inClosed = false) :
    (Pump.run ({} : Pump.P α) h).delivered ++ (Pump.run ({} : Pump.P α) h).buf = (Pump.run ({} : Pump.P α) h).pushed := by
  have := pump_inv ({} : Pump.P α) h (by simp) (by simp) (by simp) (by simp)
  exact this.1 (this.2.2 hopen)

/-- The full statement (every pushed response is eventually readable) and its refutation: the
`dropped` responses `Writer.Close` pushes just before `close(w.in)` are discarded when the pump
goroutine sees the closed channel first. -/
def C01.pump_no_loss_full : Prop :=
  ∀ h : List (Pump.Step Nat), (Pump.run ({} : Pump.P Nat) h).delivered ++ (Pump.run ({} : Pump.P Nat) h).buf
    = (Pump.run ({} : Pump.P Nat) h).pushed

theorem C01.pump_no_loss_full_false : ¬ C01.pump_no_loss_full := by
  intro hf
  have := hf [.enq 7, .closeIn, .exit, .deq]
  revert this
  decide

/-! #### The repair that was tried and withdrawn (exit rule `drain`)

Handing the buffer to `out` before the goroutine returns loses nothing
(`C01.pump_drain_no_loss`, `C01.pump_drain_fifo`) – but the goroutine then cannot return while
anything is buffered (`C01.pump_drain_strands`): after `Close`, a writer whose consumer abandons
the responses it is owed keeps a goroutine parked for ever, where the code as it is returns at
once.  That violates C05, so the repair was withdrawn and the closed channel is made to *stand
for* the discarded `dropped` responses instead (`Send`'s guard, C03). -/

theorem C01.pump_drain_no_loss {α : Type} (h : List (Pump.Step α)) :
    (Pump.runDrain ({} : Pump.P α) h).delivered ++ (Pump.runDrain ({} : Pump.P α) h).buf = (Pump.runDrain ({} : Pump.P α) h).pushed :=
  (pump_run_inv ({} : Pump.P α) h (by simp) (by simp)).1

theorem C01.pump_drain_fifo {α : Type} (h : List (Pump.Step α)) :
    (Pump.runDrain ({} : Pump.P α) h).delivered <+: (Pump.runDrain ({} : Pump.P α) h).pushed ∧
    ((Pump.runDrain ({} : Pump.P α) h).exited = true →
      (Pump.runDrain ({} : Pump.P α) h).delivered = (Pump.runDrain ({} : Pump.P α) h).pushed ∧
      (Pump.runDrain ({} : Pump.P α) h).inClosed = true) := by
  obtain ⟨h1, h2⟩ := pump_run_inv ({} : Pump.P α) h (by simp) (by simp)
  refine ⟨⟨_, h1⟩, fun he => ?_⟩
  obtain ⟨hb, hc⟩ := h2 he
  rw [hb, List.append_nil] at h1
  exact ⟨h1, hc⟩

/-- The cost of the drain: while anything is buffered the goroutine cannot return – `exit` is
disabled, and only a consumer's `deq` shrinks the buffer (a closed writer accepts no `enq`). So
with no consumer the goroutine stays parked for ever; with the code's rule it returns at once. -/
theorem C01.pump_drain_strands {α : Type} (p : Pump.P α) (hb : p.buf ≠ []) :
    Pump.stepDrain p .exit = p ∧
    (p.inClosed = true → ∀ a, Pump.stepDrain p (.enq a) = p) ∧
    (p.inClosed = true → (Pump.step p .exit).exited = true) := by
  refine ⟨?_, ?_, ?_⟩
  · simp only [Pump.stepDrain, Pump.stepR]
    split
    · rename_i hc
      simp only [Bool.and_eq_true, List.isEmpty_iff] at hc
      exact absurd hc.2 hb
    · rfl
  · intro hc a; simp [Pump.stepDrain, Pump.stepR, hc]
  · intro hc; simp [Pump.step, Pump.stepR, hc]

/-! ### Content: where an answer goes and what a response is made of (specification) -/

/-- An answer of reader `r` to its request `w` lands in r's slot of the row of write `w` – that row
still owed it – and changes nothing else. -/
theorem C01.spec_answer_goes_to_its_write {w : Nat} {r : RId} {a : Fill} {rows rows' : List SRow}
    (h : credit w r a rows = some rows') :
    ∃ pre row post, rows = pre ++ row :: post ∧ row.wid = w ∧ row.owes r = true ∧
      rows' = pre ++ row.fill r a :: post := by
  induction rows generalizing rows' with
  | nil => simp [credit] at h
  | cons row tl ih =>
    simp only [credit] at h
    split at h
    · rename_i hw
      split at h
      · rename_i ho
        injection h with h
        exact ⟨[], row, tl, rfl, hw, ho, by simp [← h]⟩
      · simp at h
    · cases hc : credit w r a tl with
      | none => simp [hc] at h
      | some tl' =>
        simp only [hc, Option.map_some, Option.some.injEq] at h
        obtain ⟨pre, row', post, e1, e2, e3, e4⟩ := ih hc
        exact ⟨row :: pre, row', post, by simp [e1], e2, e3, by simp [← h, e4]⟩

/-- Responses are emitted from the head only, each for a row in which every remaining slot is
filled or refused, and each is `SRow.response`: the `join` of what the ACCEPTING readers still in
the row answered, in link order – or `dropped` when no accepting reader is left (all unlinked;
slots of readers that refused the write do not count).  It is what the model's `respOf`
(`joinAccepted`) computes from the cells.  The first row left pending is incomplete. -/
theorem C01.spec_response_is_join_of_slots (rows : List SRow) :
    ∃ pre, rows = pre ++ (WriterSpec.flush rows).1 ∧
      (∀ row ∈ pre, hasNil row.cells = false) ∧
      (WriterSpec.flush rows).2.1 =
        pre.map (fun row => if row.answers.isEmpty then Resp.dropped else join row.answers) ∧
      (WriterSpec.flush rows).2.1 = pre.map (fun row => respOf row.cells) ∧
      (WriterSpec.flush rows).2.2 = pre.map (·.wid) ∧
      (∀ row rest, (WriterSpec.flush rows).1 = row :: rest → hasNil row.cells = true) := by
  induction rows with
  | nil => exact ⟨[], by simp [WriterSpec.flush]⟩
  | cons row tl ih =>
    simp only [WriterSpec.flush]
    split
    · rename_i h
      refine ⟨[], by simp, by simp, by simp, by simp, by simp, ?_⟩
      intro row' rest' he
      injection he with h1 _
      exact h1 ▸ h
    · rename_i h
      obtain ⟨pre, h1, h2, h3, h3', h4, h5⟩ := ih
      refine ⟨row :: pre, ?_, ?_, ?_, ?_, ?_, h5⟩
      · simp only [List.cons_append, List.cons.injEq, true_and]; exact h1
      · intro x hx
        simp only [List.mem_cons] at hx
        rcases hx with rfl | hx
        · simpa using h
        · exact h2 x hx
      · simp only [List.map_cons, h3, List.cons.injEq, and_true]
        rfl
      · simp only [List.map_cons, h3', List.cons.injEq, and_true]
        exact response_eq row
      · simp [h4]

/-- A reader that closed before answering is represented by `dropped` (the deferred notice fills
its slot with `Ans.dropped`); closing the writer answers every pending write with `dropped`. -/
theorem C01.spec_dropped_stands_in (s : S) :
    (s.done = false →
      (WriterSpec.step s .closeW).2.emits = s.rows.map (fun _ => Resp.dropped) ∧ (WriterSpec.step s .closeW).1.rows = []) ∧
    (∀ r w rest, s.closed r = true → s.owed r = w :: rest →
      (WriterSpec.step s (.deliverDrop r)).1 =
        (arrive { s with owed := fun x => if x = r then rest else s.owed x } w r Ans.dropped).1) := by
  constructor
  · intro hd; simp [WriterSpec.step, hd]
  · intro r w rest hc ho; simp [WriterSpec.step, hc, ho]

/-! ### Non-vacuity of the remaining hypotheses -/

/-- A pump schedule with the writer still open in which packets are buffered, delivered and
still waiting. -/
theorem C01.pump_no_loss_partial_nonvacuous :
    ∃ h : List (Pump.Step Nat), (Pump.run ({} : Pump.P Nat) h).inClosed = false ∧
      (Pump.run ({} : Pump.P Nat) h).delivered = [1, 2] ∧ (Pump.run ({} : Pump.P Nat) h).buf = [3] :=
  ⟨[.enq 1, .enq 2, .deq, .enq 3, .deq], by decide⟩

/-- With the withdrawn repair: the writer is closed with two responses buffered, the goroutine
tries to return at once and both are still delivered before it does. -/
theorem C01.pump_drain_fifo_nonvacuous :
    ∃ h : List (Pump.Step Nat), (Pump.runDrain ({} : Pump.P Nat) h).exited = true ∧
      (Pump.runDrain ({} : Pump.P Nat) h).delivered = [7, 8] :=
  ⟨[.enq 7, .enq 8, .closeIn, .exit, .deq, .exit, .deq, .exit], by decide⟩

/-- Rows with an error among several answers, and rows without. -/
theorem C01.join_nonvacuous :
    join [.val 1, .err 4, .none, .err 0] = .err [4, 0] ∧ join [.none, .val 1, .none, .val 2] = .vals [1, 2] ∧
    join [.none, .val 1] = .val 1 ∧ join [.none, .none] = .none := by decide

/-! ## The window inside `Write` (a reader closes between `accepting()` and its `Reader.write`) -/

namespace Uniflow.WriterProofs

theorem closeR_keeps (m : W) (r : RId) :
    (Writer.step m (.closeR r)).1.rows = m.rows ∧ (Writer.step m (.closeR r)).1.writes = m.writes ∧
    (Writer.step m (.closeR r)).1.written = m.written ∧ (Writer.step m (.closeR r)).2.emits = [] := by
  simp only [Writer.step, stepWith]
  split <;> exact ⟨rfl, rfl, rfl, rfl⟩

theorem closeAll_keeps (m : W) (cs : List RId) :
    (Writer.closeAll m cs).1.rows = m.rows ∧ (Writer.closeAll m cs).1.writes = m.writes ∧
    (Writer.closeAll m cs).1.written = m.written := by
  induction cs generalizing m with
  | nil => exact ⟨rfl, rfl, rfl⟩
  | cons r rs ih =>
    obtain ⟨h1, h2, h3, _⟩ := closeR_keeps m r
    obtain ⟨i1, i2, i3⟩ := ih (Writer.step m (.closeR r)).1
    simp only [Writer.closeAll]
    exact ⟨i1.trans h1, i2.trans h2, i3.trans h3⟩

theorem write_zero_keeps (m : W) (v : Nat) (h : (Writer.step m (.write v)).2.ret = .cnt 0) :
    (Writer.step m (.write v)).1.rows = m.rows ∧ (Writer.step m (.write v)).1.writes = m.writes ∧
    (Writer.step m (.write v)).1.written = m.written ∧ (Writer.step m (.write v)).2.emits = [] ∧
    (Writer.step m (.write v)).2.deliv = [] := by
  revert h
  simp only [Writer.step, stepWith]
  split
  · intro _; exact ⟨rfl, rfl, rfl, rfl, rfl⟩
  · split
    · intro _; exact ⟨rfl, rfl, rfl, rfl, rfl⟩
    · split
      · intro h; cases h
      · split
        · rename_i hacc
          intro h
          simp only [Ret.cnt.injEq] at h
          omega
        · intro _; exact ⟨rfl, rfl, rfl, rfl, rfl⟩

theorem spec_closeAll_ids (s : S) (cs : List RId) (hI : IdsOK s) :
    IdsOK (WriterSpec.closeAll s cs).1 ∧ (WriterSpec.closeAll s cs).1.emittedIds = s.emittedIds ∧
    (WriterSpec.closeAll s cs).1.nextW = s.nextW := by
  induction cs generalizing s with
  | nil => exact ⟨hI, rfl, rfl⟩
  | cons r rs ih =>
    have hk : (WriterSpec.step s (.closeR r)).1.emittedIds = s.emittedIds ∧
        (WriterSpec.step s (.closeR r)).1.rows = s.rows ∧ (WriterSpec.step s (.closeR r)).1.nextW = s.nextW := by
      simp only [WriterSpec.step]
      split <;> exact ⟨rfl, rfl, rfl⟩
    have hI' : IdsOK (WriterSpec.step s (.closeR r)).1 := by
      simp only [IdsOK, hk.1, hk.2.1, hk.2.2]; exact hI
    obtain ⟨i1, i2, i3⟩ := ih _ hI'
    simp only [WriterSpec.closeAll]
    exact ⟨i1, i2.trans hk.1, i3.trans hk.2.2⟩

/-- Responses emitted by an extended step. -/
def xemitted (outs : List XOut) : List Resp := emitted (outs.map (·.out))

theorem spec_xstep_ids (s : S) (st : XStep) (hI : IdsOK s) :
    IdsOK (WriterSpec.xstep s st).1 ∧
    (WriterSpec.xstep s st).1.emittedIds.length = s.emittedIds.length + (WriterSpec.xstep s st).2.out.emits.length := by
  cases st with
  | base b =>
    obtain ⟨h1, h2, _⟩ := spec_step_ids s b hI
    exact ⟨h1, h2⟩
  | writeH v cs =>
    simp only [WriterSpec.xstep]
    split
    · obtain ⟨c1, c2, _⟩ := spec_closeAll_ids s cs hI
      obtain ⟨h1, h2, _⟩ := spec_step_ids (WriterSpec.closeAll s cs).1 (.write v) c1
      refine ⟨h1, ?_⟩
      rw [h2, c2]
    · exact ⟨hI, by simp⟩

theorem spec_xrun_ids (s : S) (h : List XStep) (hI : IdsOK s) :
    IdsOK (WriterSpec.xrunFrom s h).1 ∧
    (WriterSpec.xrunFrom s h).1.emittedIds.length = s.emittedIds.length + (xemitted (WriterSpec.xrunFrom s h).2).length := by
  induction h generalizing s with
  | nil => exact ⟨hI, by simp [WriterSpec.xrunFrom, xemitted, emitted]⟩
  | cons st h ih =>
    obtain ⟨s1, s2⟩ := spec_xstep_ids s st hI
    obtain ⟨i1, i2⟩ := ih _ s1
    refine ⟨i1, ?_⟩
    simp only [WriterSpec.xrunFrom, xemitted, emitted, List.map_cons, List.flatMap_cons, List.length_append] at i2 ⊢
    omega

end Uniflow.WriterProofs

/-- Refinement with the window inside `Write` open: on every history of base steps and of writes
inside which readers close (an outbound hook that closes the only open reader, one of several, a
reader of no link, or none), the model shows step by step what the specification shows – return
value, responses, deliveries, the number of calls of the outbound hook and the drop goroutines
the hook's closes spawned. -/
theorem C01.refines_hooks (h : List XStep) : (Writer.xrun h).2 = (WriterSpec.xrun h).2 :=
  (sim_xrun rel_init h).1

/-- **A write that reports 0 leaves nothing behind**, whatever closes inside it: the writer's
pending rows, their write numbers and the counter of accepted writes are what they were, nothing
is emitted and nothing is handed to a reader.  (Seeded change c01j appended the all-refused row
and advanced `written`.) -/
theorem C01.write_zero_changes_nothing (m : W) (v : Nat) (cs : List RId)
    (h : (Writer.xstep m (.writeH v cs)).2.out.ret = .cnt 0) :
    (Writer.xstep m (.writeH v cs)).1.rows = m.rows ∧ (Writer.xstep m (.writeH v cs)).1.writes = m.writes ∧
    (Writer.xstep m (.writeH v cs)).1.written = m.written ∧
    (Writer.xstep m (.writeH v cs)).2.out.emits = [] ∧ (Writer.xstep m (.writeH v cs)).2.out.deliv = [] := by
  revert h
  simp only [Writer.xstep]
  split
  · intro h
    obtain ⟨c1, c2, c3⟩ := closeAll_keeps m cs
    obtain ⟨w1, w2, w3, w4, w5⟩ := write_zero_keeps (Writer.closeAll m cs).1 v h
    exact ⟨w1.trans c1, w2.trans c2, w3.trans c3, w4, w5⟩
  · intro _; exact ⟨rfl, rfl, rfl, rfl, rfl⟩

/-- The same for a plain `write`, and: a write that is not a request at all (writer closed, no
reader linked, no reader accepting) does not show the packet to the outbound hook. -/
theorem C01.write_zero_base (m : W) (v : Nat) (h : (Writer.step m (.write v)).2.ret = .cnt 0) :
    (Writer.step m (.write v)).1.rows = m.rows ∧ (Writer.step m (.write v)).1.writes = m.writes ∧
    (Writer.step m (.write v)).1.written = m.written ∧
    (isRequest m = false → (Writer.xstep m (.writeH v [])).2.shown = 0 ∧ (Writer.xstep m (.writeH v [])).1 = m) := by
  obtain ⟨w1, w2, w3, _, _⟩ := write_zero_keeps m v h
  refine ⟨w1, w2, w3, ?_⟩
  intro hq
  simp [Writer.xstep, hq]

/-- Responses after such a write pair with the right writes: on every extended history the write
ids of the responses emitted so far followed by the ids of the pending rows are `0, 1, …, n-1`
(`n` = number of accepted writes, a write reporting 0 gets no id), one id per response, and the
model emits exactly these responses. -/
theorem C01.hooks_in_order (h : List XStep) :
    xemitted (Writer.xrun h).2 = xemitted (WriterSpec.xrun h).2 ∧
    (WriterSpec.xrun h).1.emittedIds ++ (WriterSpec.xrun h).1.rows.map (·.wid) = List.range (WriterSpec.xrun h).1.nextW ∧
    (WriterSpec.xrun h).1.emittedIds = List.range (xemitted (Writer.xrun h).2).length := by
  rw [C01.refines_hooks h]
  unfold WriterSpec.xrun
  obtain ⟨h1, h2⟩ := spec_xrun_ids S.init h (by simp [IdsOK, S.init])
  rw [show S.init.emittedIds.length = 0 from rfl, Nat.zero_add] at h2
  refine ⟨rfl, h1, ?_⟩
  have hle : (WriterSpec.xrunFrom S.init h).1.emittedIds.length ≤ (WriterSpec.xrunFrom S.init h).1.nextW := by
    have := congrArg List.length h1
    simp only [List.length_append, List.length_range] at this
    omega
  have := congrArg (List.take (WriterSpec.xrunFrom S.init h).1.emittedIds.length) h1
  rw [List.take_left, List.take_range, Nat.min_eq_left hle] at this
  rw [← h2]; exact this

/-- Non-vacuity: the only open reader closes inside the write (the write reports 0, the hook was
shown the packet once, nothing is left behind), then a second reader is linked and its two
requests are answered – responses `v5`, `v6` for write ids 0 and 1; and a hook that closes one of
two open readers (the write is accepted by the other one alone). -/
theorem C01.write_zero_nonvacuous :
    (Writer.xrun [.base (.link 0), .writeH 1 [0], .base (.link 1), .base (.write 2), .base (.answer 1 (.val 5)),
        .base (.write 3), .base (.answer 1 (.val 6))]).2.map (fun o => (o.out.ret, o.shown, o.out.emits)) =
      [(.ok true, 0, []), (.cnt 0, 1, []), (.ok true, 0, []), (.cnt 1, 1, []), (.ok true, 0, [.val 5]),
       (.cnt 1, 1, []), (.ok true, 0, [.val 6])] ∧
    (Writer.xrun [.base (.link 0), .writeH 1 [0]]).1.rows = [] ∧
    (Writer.xrun [.base (.link 0), .writeH 1 [0]]).1.written = 0 ∧
    (Writer.xrun [.base (.link 0), .base (.link 1), .writeH 1 [1], .base (.answer 0 (.val 7))]).2.map
        (fun o => (o.out.ret, o.out.emits)) =
      [(.ok true, []), (.ok true, []), (.cnt 1, []), (.ok true, [.val 7])] := by
  decide
