/-
C19 – re-statements of the function-outline ties of source files this property DEPENDS on without being anchored in
them (bin/mk_dependency_ties.py; hand-run): a source change there is reported for C19 as well.
-/
import Uniflow.Props.C02TieFn2
import Uniflow.Props.C02TieFn1
import Uniflow.Props.C04TieFn1
import Uniflow.Props.C06TieFn2
import Uniflow.Props.C01TieFn1
import Uniflow.Props.C01TieLayer
import Uniflow.Props.C05TieLayer

theorem C19.dep_C02_packet_tracer_as_modelled_1 : type_of% C02.src_packet_tracer_as_modelled_1 := C02.src_packet_tracer_as_modelled_1
theorem C19.dep_C02_packet_tracer_as_modelled_2 : type_of% C02.src_packet_tracer_as_modelled_2 := C02.src_packet_tracer_as_modelled_2
theorem C19.dep_C02_packet_tracer_as_modelled_3 : type_of% C02.src_packet_tracer_as_modelled_3 := C02.src_packet_tracer_as_modelled_3
theorem C19.dep_C04_process_process_as_modelled_1 : type_of% C04.src_process_process_as_modelled_1 := C04.src_process_process_as_modelled_1
theorem C19.dep_C04_process_process_as_modelled_2 : type_of% C04.src_process_process_as_modelled_2 := C04.src_process_process_as_modelled_2
theorem C19.dep_C06_symbol_symbol_as_modelled : type_of% C06.src_symbol_symbol_as_modelled := C06.src_symbol_symbol_as_modelled
theorem C19.dep_C01_packet_packet_as_modelled : type_of% C01.src_packet_packet_as_modelled := C01.src_packet_packet_as_modelled
theorem C19.dep_C01_packet_hook_as_modelled : type_of% C01.src_packet_hook_as_modelled := C01.src_packet_hook_as_modelled
theorem C19.dep_C05_port_openhook_as_modelled : type_of% C05.src_port_openhook_as_modelled := C05.src_port_openhook_as_modelled
theorem C19.dep_C05_port_closehook_as_modelled : type_of% C05.src_port_closehook_as_modelled := C05.src_port_closehook_as_modelled
theorem C19.dep_C05_port_listener_as_modelled : type_of% C05.src_port_listener_as_modelled := C05.src_port_listener_as_modelled
