/-
C04 – theorems that tie the model's assumptions to fact tables regenerated from the
repository's source on every run (extract/main.go). Kept apart from C04.lean so that the
property theorems and these obligations can be maintained independently.
-/
import Uniflow.Generated.Locks

/-! ## Step granularity tied to the source

The small-step machine takes every method of `process.Process` as ONE critical section (one
atomic step under `p.mu`). `Generated/Locks.lean` is regenerated from process.go on every run:
every method that locks `p.mu` does so at exactly one site – except `Fork`, whose body contains
its own critical section (`children++`, the model's `forkAdd` step) and the closure of the child's
wait-done hook (`children--`, the model's `waitDone` hook step, run by the child's Exit). -/
open Uniflow.Generated.Locks in
theorem C04.atomic_sections :
    (acquireSites.filter (fun a => a.1 == "process.Process" && a.2.1 != "Fork")).all (fun a => a.2.2.2 == 1) = true ∧
    acquireSites.contains ("process.Process", "Fork", "mu", 2) = true ∧
    acquireSites.contains ("process.Process", "Join", "mu", 1) = true ∧
    acquireSites.contains ("process.Process", "AddExitHook", "mu", 1) = true ∧
    acquireSites.contains ("process.Process", "Exit", "mu", 1) = true := by
  decide
