/-
C04 – theorems that tie the model's assumptions to fact tables regenerated from the
repository's source on every run (extract/main.go). Kept apart from C04.lean so that the
property theorems and these obligations can be maintained independently.

Besides the lock facts, Generated/ProcessFacts (extract/process.go) carries the structure of `Exit`, `AddExitHook`,
`Fork`, `Join` and `ExitHooks.Exit` as flat data. The `…_facts` theorems pin the data; the `…_as_modelled` theorems
*read* it (the guarded block of `Exit` as updates of the model's process record, the loop header of `ExitHooks.Exit`
as an order, the lock calls of `AddExitHook` as one critical section, the condition of `Join`'s wait loop as a
comparison) and prove that the reading is the model's `exitFlip` / `addHook` / `joining` step for every state.
-/
import Uniflow.Generated.Locks
import Uniflow.Generated.ProcessFacts
import Uniflow.Model.Process

/-! ## Step granularity tied to the source

The small-step machine takes every method of `process.Process` as ONE critical section (one
atomic step under `p.mu`). `Generated/Locks.lean` is regenerated from process.go on every run:
every method that locks `p.mu` does so at exactly one site – except `Fork`, whose body contains
its own critical section (`children++`, the model's `forkAdd` step) and the closure of the child's
wait-done hook (`children--` and the Broadcast at 0, the model's `waitDone` hook step, run by the child's Exit). -/
open Uniflow.Generated.Locks in
theorem C04.atomic_sections :
    (acquireSites.filter (fun a => a.1 == "process.Process" && a.2.1 != "Fork")).all (fun a => a.2.2.2 == 1) = true ∧
    acquireSites.contains ("process.Process", "Fork", "mu", 2) = true ∧
    acquireSites.contains ("process.Process", "Join", "mu", 1) = true ∧
    acquireSites.contains ("process.Process", "AddExitHook", "mu", 1) = true ∧
    acquireSites.contains ("process.Process", "Exit", "mu", 1) = true := by
  decide

open Uniflow.Process Uniflow.Generated.ProcessFacts

/-! ## `Exit` -/
namespace C04

def cmpHolds (op : String) (x : Int) (n : Nat) : Option Bool :=
  if op = "==" then some (decide (x = (n : Int)))
  else if op = "!=" then some (decide (x ≠ (n : Int)))
  else if op = ">" then some (decide (x > (n : Int)))
  else if op = ">=" then some (decide (x ≥ (n : Int)))
  else if op = "<" then some (decide (x < (n : Int)))
  else if op = "<=" then some (decide (x ≤ (n : Int)))
  else none

/-- the two status tests of process.go on a model process -/
def guardHolds (g : String) (pr : Proc) : Option Bool :=
  if g = "p.status != StatusTerminated" then some (!pr.terminated)
  else if g = "p.status == StatusTerminated" then some pr.terminated
  else none

/-- one statement of the guarded block of `Exit` as an update of the model's process record
(`endTime` is not modelled) -/
def applyWrite (e : Nat) (pr : Proc) (w : String) : Option Proc :=
  if w = "close(p.done)" then some { pr with done := true }
  else if w = "p.data = make(map[any]any)" then some { pr with data := [] }
  else if w = "p.status = StatusTerminated" then some { pr with terminated := true }
  else if w = "p.err = err" then some { pr with err := e }
  else if w = "p.endTime = time.Now()" then some pr
  else if w = "p.exitHooks = nil" then some { pr with hooks := [] }
  else none

def applyWrites (e : Nat) : Proc → List String → Option Proc
  | pr, [] => some pr
  | pr, w :: ws => match applyWrite e pr w with | some pr' => applyWrites e pr' ws | none => none

/-- the order in which `ExitHooks.Exit` runs a hook list -/
def runOrder (order : String) (hs : List Hook) : Option (List Hook) :=
  if order = "reverse" then some hs.reverse else if order = "forward" then some hs else none

/-- `Exit` as the facts read: the hook list is read first and unconditionally, the guarded block runs under the guard,
the lock is released, then the hooks that were read run in the extracted order. -/
def exitByFacts (s : State) (t p e : Nat) : Option State :=
  if exitHeads ≠ ["p.mu.Lock()", "exitHooks := p.exitHooks", "if p.status != StatusTerminated", "p.mu.Unlock()",
      "exitHooks.Exit(err)"] then none
  else
    let pr := s.procs p
    match guardHolds exitGuard pr, runOrder hooksOrder pr.hooks with
    | some true, some rem =>
      (applyWrites e pr exitGuarded).map fun pr' => pushFrame (setProc s p pr') t { proc := p, rem := rem, err := e }
    | some false, some rem => some (pushFrame s t { proc := p, rem := rem, err := e })
    | _, _ => none
end C04

theorem C04.exit_facts :
    exitHeads = ["p.mu.Lock()", "exitHooks := p.exitHooks", "if p.status != StatusTerminated", "p.mu.Unlock()",
      "exitHooks.Exit(err)"] ∧
    exitGuard = "p.status != StatusTerminated" ∧
    exitGuarded = ["close(p.done)", "p.data = make(map[any]any)", "p.status = StatusTerminated", "p.err = err",
      "p.endTime = time.Now()", "p.exitHooks = nil"] ∧
    exitWrites = [("close:done", true), ("data", true), ("status", true), ("err", true), ("endTime", true),
      ("exitHooks", true)] ∧
    exitMuCalls = ["Lock", "Unlock"] ∧
    hooksOrder = "reverse" ∧
    hooksLoop = ⟨"for3", "i := len(h) - 1; i >= 0; i--", "", false, false, false, ["hook := h[i]", "hook.Exit(err)"]⟩ ∧
    hooksHeads = ["for i := len(h) - 1; i >= 0; i--"] := by
  decide

/-- Every write `Exit` makes to the process stands under `if p.status != StatusTerminated` – a second `Exit` changes
nothing, in particular not the stored error. -/
theorem C04.exit_writes_guarded : exitWrites.all (·.2) = true ∧ exitGuard = "p.status != StatusTerminated" := by
  decide

/-- The reading of the extracted facts is the model's `exitFlip`, for every state, thread, process and error. -/
theorem C04.exit_flip_as_modelled (s : State) (t p e : Nat) : C04.exitByFacts s t p e = some (exitFlip s t p e) := by
  have h1 : exitHeads = ["p.mu.Lock()", "exitHooks := p.exitHooks", "if p.status != StatusTerminated", "p.mu.Unlock()",
      "exitHooks.Exit(err)"] := by decide
  have h2 : exitGuard = "p.status != StatusTerminated" := by decide
  have h3 : exitGuarded = ["close(p.done)", "p.data = make(map[any]any)", "p.status = StatusTerminated", "p.err = err",
      "p.endTime = time.Now()", "p.exitHooks = nil"] := by decide
  have h4 : hooksOrder = "reverse" := by decide
  unfold C04.exitByFacts
  rw [h1, h2, h3, h4]
  cases ht : (s.procs p).terminated <;>
    simp [C04.guardHolds, C04.runOrder, C04.applyWrites, C04.applyWrite, exitFlip, ht]

theorem C04.exit_flip_nonvacuous :
    (C04.applyWrites 3 { hooks := [⟨.user 1, 0⟩] } exitGuarded).map (fun pr => (pr.terminated, pr.err, pr.hooks.length))
      = some (true, 3, 0) ∧
    C04.runOrder hooksOrder [⟨.user 1, 0⟩, ⟨.user 2, 1⟩] = some [⟨.user 2, 1⟩, ⟨.user 1, 0⟩] := by
  decide

/-! ## `AddExitHook` -/

/-- `AddExitHook` as the facts read: ONE exclusive acquisition of `p.mu`, released on each of the three exits; under it
the status test (terminated: the hook runs inline, after the unlock, with the error the process stored), the duplicate
scan over `p.exitHooks`, the append. -/
def C04.addByFacts (s : State) (t p : Nat) (k : HookKind) : Option State :=
  let pr := s.procs p
  let h : Hook := { kind := k, tok := s.nextTok }
  if addMuCalls ≠ ["Lock", "Unlock", "Unlock", "Unlock"] then none
  else if addHeads ≠ ["p.mu.Lock()", "if p.status == StatusTerminated", "for _, h := range p.exitHooks",
      "p.exitHooks = append(p.exitHooks, hook)", "p.mu.Unlock()", "return true"] then none
  else match addGuards with
    | [(cond, branch)] =>
      match C04.guardHolds cond pr with
      | some true =>
        if branch = "err := p.err; p.mu.Unlock(); hook.Exit(err); return false" then
          some (pushFrame (alloc s p true) t { proc := p, rem := [h], err := pr.err })
        else none
      | some false =>
        if addScan = ⟨"range", "p.exitHooks", "_,h", false, false, true, ["if h == hook", "  p.mu.Unlock()", "  return false"]⟩ then
          some (if pr.hooks.any (fun h => h.kind == k) then s
                else alloc (setProc s p { pr with hooks := pr.hooks ++ [h] }) p false)
        else none
      | none => none
    | _ => none

theorem C04.add_hook_facts :
    addMuCalls = ["Lock", "Unlock", "Unlock", "Unlock"] ∧
    addHeads = ["p.mu.Lock()", "if p.status == StatusTerminated", "for _, h := range p.exitHooks",
      "p.exitHooks = append(p.exitHooks, hook)", "p.mu.Unlock()", "return true"] ∧
    addGuards = [("p.status == StatusTerminated", "err := p.err; p.mu.Unlock(); hook.Exit(err); return false")] ∧
    addScan = ⟨"range", "p.exitHooks", "_,h", false, false, true, ["if h == hook", "  p.mu.Unlock()", "  return false"]⟩ := by
  decide

/-- The reading of the extracted facts is the model's `addHook` – status check, duplicate scan and append are one
atomic step. -/
theorem C04.add_hook_as_modelled (s : State) (t p : Nat) (k : HookKind) :
    C04.addByFacts s t p k = some (addHook s t p k) := by
  have h1 : addMuCalls = ["Lock", "Unlock", "Unlock", "Unlock"] := by decide
  have h2 : addHeads = ["p.mu.Lock()", "if p.status == StatusTerminated", "for _, h := range p.exitHooks",
      "p.exitHooks = append(p.exitHooks, hook)", "p.mu.Unlock()", "return true"] := by decide
  have h3 : addGuards = [("p.status == StatusTerminated", "err := p.err; p.mu.Unlock(); hook.Exit(err); return false")] := by
    decide
  have h4 : addScan = ⟨"range", "p.exitHooks", "_,h", false, false, true,
      ["if h == hook", "  p.mu.Unlock()", "  return false"]⟩ := by decide
  unfold C04.addByFacts
  rw [h1, h2, h3, h4]
  cases ht : (s.procs p).terminated <;> simp [C04.guardHolds, addHook, ht]

/-! ## `Fork` and `Join` -/

theorem C04.fork_facts :
    forkMuCalls = ["Lock", "Unlock"] ∧
    forkHeads = ["p.mu.Lock()", "p.children++", "p.mu.Unlock()", "child := &Process{…}",
      "child.join = sync.NewCond(&child.mu)", "p.AddExitHook(child)", "return child"] ∧
    forkChildFields = ["id: uuid.Must(uuid.NewV7())", "data: make(map[any]any)", "endTime: time.Now()",
      "exitHooks: []ExitHook{ ExitFunc(func#1), }", "done: make(chan struct{})", "parent: p"] ∧
    forkClosure = ["func#1(err error)", "  p.mu.Lock()", "  defer p.mu.Unlock()", "  if p.children--; p.children == 0",
      "    p.join.Broadcast()"] := by
  decide

/-- `Fork` counts the child (its own critical section) BEFORE the child exists and registers it afterwards; the child
is born running, with exactly one hook – the closure that un-counts it – and its parent: the model's `forkAdd` step,
`mkChild` and `forkReg`. -/
theorem C04.fork_as_modelled (s : State) (p : Nat) :
    forkHeads.take 3 = ["p.mu.Lock()", "p.children++", "p.mu.Unlock()"] ∧
    forkHeads.drop 3 = ["child := &Process{…}", "child.join = sync.NewCond(&child.mu)", "p.AddExitHook(child)", "return child"] ∧
    ((mkChild s p).procs s.np).hooks = [⟨.waitDone p, s.nextTok⟩] ∧
    ((mkChild s p).procs s.np).parent = some p ∧
    ((mkChild s p).procs s.np).terminated = false ∧
    ((mkChild s p).procs s.np).children = 0 := by
  refine ⟨by decide, by decide, ?_, ?_, ?_, ?_⟩ <;> simp [mkChild, alloc, setProc, upd]

theorem C04.join_facts :
    joinHeads = ["p.mu.Lock()", "defer p.mu.Unlock()", "for p.children > 0"] ∧
    joinLoop = ⟨"for", "p.children > 0", "", false, false, false, ["p.join.Wait()"]⟩ ∧
    joinCond = ("p.children", ">", 0) := by
  decide

/-- `Join` is a loop (`for`) around `p.join.Wait()`: one test of the extracted condition against the child counter (a Go
`int`, compared as an integer) per step – false: `Join` returns; true: the thread parks in `Wait` and, once parked,
does not move by itself – the model's `joining` / `waiting` steps. -/
theorem C04.join_wait_as_modelled (s : State) (t p : Nat) (h : (s.threads t).pc = .joining p) :
    joinLoop.kind = "for" ∧ joinLoop.body = ["p.join.Wait()"] ∧
    contStep s t =
      (if C04.cmpHolds joinCond.2.1 (s.procs p).children joinCond.2.2 = some false
       then setThread s t { s.threads t with pc := .idle }
       else setThread s t { s.threads t with pc := .waiting p }) ∧
    (∀ s' : State, (s'.threads t).pc = .waiting p → contStep s' t = s') := by
  have hc : joinCond = ("p.children", ">", 0) := by decide
  refine ⟨by decide, by decide, ?_, ?_⟩
  · rw [hc]
    by_cases hw : 0 < (s.procs p).children
    · simp [contStep, h, hw, C04.cmpHolds]
    · simp [contStep, h, hw, C04.cmpHolds]
  · intro s' h'
    simp [contStep, h']

/-- The child's wait-done hook as the closure extracted from `Fork` reads: under `p.mu`, decrement, and Broadcast
exactly when the counter has become 0 – the model's `waitDone`: every thread parked in `p.join.Wait()` is put back in
front of the loop condition, nothing else about the threads changes. There is no panic path. -/
theorem C04.wait_done_as_modelled (s : State) (p : Nat) :
    forkClosure = ["func#1(err error)", "  p.mu.Lock()", "  defer p.mu.Unlock()", "  if p.children--; p.children == 0",
      "    p.join.Broadcast()"] ∧
    ((waitDone s p).procs p).children = (s.procs p).children - 1 ∧
    (∀ t, ((waitDone s p).threads t) =
      if (s.procs p).children - 1 = 0 ∧ (s.threads t).pc = .waiting p
      then { s.threads t with pc := .joining p } else s.threads t) := by
  refine ⟨by decide, ?_, ?_⟩
  · unfold waitDone; dsimp only; split <;> simp [broadcast, setProc, upd]
  · intro t
    unfold waitDone; dsimp only
    by_cases h0 : (s.procs p).children - 1 = 0
    · rw [if_pos h0]
      by_cases h1 : (s.threads t).pc = .waiting p <;> simp [broadcast, setProc, h0, h1]
    · rw [if_neg h0]; simp [setProc, h0]

/-! ## outlines -/

/-- The outlines of the functions the small-step machine follows. -/
theorem C04.process_outlines_as_modelled :
    outline_Exit = [
      "p.mu.Lock()",
      "exitHooks := p.exitHooks",
      "if p.status != StatusTerminated",
      "  close(p.done)",
      "  p.data = make(map[any]any)",
      "  p.status = StatusTerminated",
      "  p.err = err",
      "  p.endTime = time.Now()",
      "  p.exitHooks = nil",
      "p.mu.Unlock()",
      "exitHooks.Exit(err)"] ∧
    outline_AddExitHook = [
      "p.mu.Lock()",
      "if p.status == StatusTerminated",
      "  err := p.err",
      "  p.mu.Unlock()",
      "  hook.Exit(err)",
      "  return false",
      "for _, h := range p.exitHooks",
      "  if h == hook",
      "    p.mu.Unlock()",
      "    return false",
      "p.exitHooks = append(p.exitHooks, hook)",
      "p.mu.Unlock()",
      "return true"] ∧
    outline_Join = [
      "p.mu.Lock()",
      "defer p.mu.Unlock()",
      "for p.children > 0",
      "  p.join.Wait()"] ∧
    outline_ExitHooks_Exit = [
      "for i := len(h) - 1; i >= 0; i--",
      "  hook := h[i]",
      "  hook.Exit(err)"] ∧
    outline_exitHook_Exit = ["h.exit(err)"] := by
  decide
