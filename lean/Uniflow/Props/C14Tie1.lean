/-
C14 – regenerated tie over Generated/ValueFuncs.lean (extract/funcs.go): for every source file the models of this
property were transcribed from, the outline of EVERY function of that file – regenerated from /repo on every run –
equals the transcript frozen here (bin/freeze_outlines.py, repo 7f54b88, 2026-10-01). A theorem that stops checking
names the file whose code is no longer the code that was modelled; bin/check then searches for a failing input.
-/
import Uniflow.Generated.ValueFuncs

set_option maxRecDepth 16384 in
/-- pkg/types/integer.go as modelled (part 1 of 2): its declarations (in source order) and the outline of each -/
theorem C14.src_types_integer_as_modelled_1 :
    Uniflow.Generated.ValueFuncs.o_types_integer_fn_NewInt = [
      "return Int{value: value}"
    ] ∧
    Uniflow.Generated.ValueFuncs.o_types_integer_Int_Int = [
      "return int64(i.value)"
    ] ∧
    Uniflow.Generated.ValueFuncs.o_types_integer_Int_Kind = [
      "return KindInt"
    ] ∧
    Uniflow.Generated.ValueFuncs.o_types_integer_Int_Hash = [
      "h := fnv.New64a()",
      "h.Write((*[unsafe.Sizeof(i.value)]byte)(unsafe.Pointer(&i.value))[:])",
      "return h.Sum64()"
    ] ∧
    Uniflow.Generated.ValueFuncs.o_types_integer_Int_Interface = [
      "return i.value"
    ] ∧
    Uniflow.Generated.ValueFuncs.o_types_integer_Int_Equal = [
      "if o, ok := other.(Int); ok",
      "  return i.value == o.value",
      "return false"
    ] ∧
    Uniflow.Generated.ValueFuncs.o_types_integer_Int_Compare = [
      "if o, ok := other.(Int); ok",
      "  return compare(i.value, o.value)",
      "return compare(i.Kind(), KindOf(other))"
    ] ∧
    Uniflow.Generated.ValueFuncs.o_types_integer_fn_NewInt8 = [
      "return Int8{value: value}"
    ] ∧
    Uniflow.Generated.ValueFuncs.o_types_integer_Int8_Int = [
      "return int64(i.value)"
    ] ∧
    Uniflow.Generated.ValueFuncs.o_types_integer_Int8_Kind = [
      "return KindInt8"
    ] ∧
    Uniflow.Generated.ValueFuncs.o_types_integer_Int8_Hash = [
      "h := fnv.New64a()",
      "h.Write((*[1]byte)(unsafe.Pointer(&i.value))[:])",
      "return h.Sum64()"
    ] ∧
    Uniflow.Generated.ValueFuncs.o_types_integer_Int8_Interface = [
      "return i.value"
    ] ∧
    Uniflow.Generated.ValueFuncs.o_types_integer_Int8_Equal = [
      "if o, ok := other.(Int8); ok",
      "  return i.value == o.value",
      "return false"
    ] ∧
    Uniflow.Generated.ValueFuncs.o_types_integer_Int8_Compare = [
      "if o, ok := other.(Int8); ok",
      "  return compare(i.value, o.value)",
      "return compare(i.Kind(), KindOf(other))"
    ] ∧
    Uniflow.Generated.ValueFuncs.o_types_integer_fn_NewInt16 = [
      "return Int16{value: value}"
    ] ∧
    Uniflow.Generated.ValueFuncs.o_types_integer_Int16_Int = [
      "return int64(i.value)"
    ] ∧
    Uniflow.Generated.ValueFuncs.o_types_integer_Int16_Kind = [
      "return KindInt16"
    ] ∧
    Uniflow.Generated.ValueFuncs.o_types_integer_Int16_Hash = [
      "h := fnv.New64a()",
      "h.Write((*[2]byte)(unsafe.Pointer(&i.value))[:])",
      "return h.Sum64()"
    ] ∧
    Uniflow.Generated.ValueFuncs.o_types_integer_Int16_Interface = [
      "return i.value"
    ] ∧
    Uniflow.Generated.ValueFuncs.o_types_integer_Int16_Equal = [
      "if o, ok := other.(Int16); ok",
      "  return i.value == o.value",
      "return false"
    ] ∧
    Uniflow.Generated.ValueFuncs.o_types_integer_Int16_Compare = [
      "if o, ok := other.(Int16); ok",
      "  return compare(i.value, o.value)",
      "return compare(i.Kind(), KindOf(other))"
    ] ∧
    Uniflow.Generated.ValueFuncs.o_types_integer_fn_NewInt32 = [
      "return Int32{value: value}"
    ] ∧
    Uniflow.Generated.ValueFuncs.o_types_integer_Int32_Int = [
      "return int64(i.value)"
    ] ∧
    Uniflow.Generated.ValueFuncs.o_types_integer_Int32_Kind = [
      "return KindInt32"
    ] ∧
    Uniflow.Generated.ValueFuncs.o_types_integer_Int32_Hash = [
      "h := fnv.New64a()",
      "h.Write((*[4]byte)(unsafe.Pointer(&i.value))[:])",
      "return h.Sum64()"
    ] ∧
    Uniflow.Generated.ValueFuncs.o_types_integer_Int32_Interface = [
      "return i.value"
    ] := by
  decide

set_option maxRecDepth 16384 in
/-- pkg/types/slice.go as modelled (part 1 of 2): its declarations (in source order) and the outline of each -/
theorem C14.src_types_slice_as_modelled_1 :
    Uniflow.Generated.ValueFuncs.o_types_slice_fn_NewSlice = [
      "return &_slice{value: elements}"
    ] ∧
    Uniflow.Generated.ValueFuncs.o_types_slice_Slice_Prepend = [
      "return &_slice{value: append(elements, s.value...)}"
    ] ∧
    Uniflow.Generated.ValueFuncs.o_types_slice_Slice_Append = [
      "value := make([]Value, len(s.value), len(s.value)+len(elements))",
      "copy(value, s.value)",
      "value = append(value, elements...)",
      "return &_slice{value: value}"
    ] ∧
    Uniflow.Generated.ValueFuncs.o_types_slice_Slice_Sub = [
      "if start < 0",
      "  start = 0",
      "if end > len(s.value)",
      "  end = len(s.value)",
      "if end <= start",
      "  return &_slice{}",
      "elements := make([]Value, end-start)",
      "copy(elements, s.value[start:end])",
      "return &_slice{value: elements}"
    ] ∧
    Uniflow.Generated.ValueFuncs.o_types_slice_Slice_Get = [
      "if index >= len(s.value)",
      "  return nil",
      "return s.value[index]"
    ] ∧
    Uniflow.Generated.ValueFuncs.o_types_slice_Slice_Set = [
      "if index < 0 || index >= len(s.value)",
      "  return s",
      "elements := make([]Value, len(s.value))",
      "copy(elements, s.value)",
      "elements[index] = value",
      "return &_slice{value: elements}"
    ] ∧
    Uniflow.Generated.ValueFuncs.o_types_slice_Slice_Values = [
      "return append([]Value(nil), s.value...)"
    ] ∧
    Uniflow.Generated.ValueFuncs.o_types_slice_Slice_Range = [
      "return func#1",
      "func#1(yield func(key int, value Value) bool)",
      "  for i := 0; i < len(s.value); i++",
      "    v := s.value[i]",
      "    if !yield(i, v)",
      "      return"
    ] ∧
    Uniflow.Generated.ValueFuncs.o_types_slice_Slice_Len = [
      "return len(s.value)"
    ] ∧
    Uniflow.Generated.ValueFuncs.o_types_slice_Slice_Slice = [
      "if len(s.value) == 0",
      "  return nil",
      "values := make([]any, len(s.value))",
      "for i := 0; i < len(s.value); i++",
      "  v := s.value[i]",
      "  values[i] = InterfaceOf(v)",
      "return values"
    ] ∧
    Uniflow.Generated.ValueFuncs.o_types_slice_Slice_Kind = [
      "return KindSlice"
    ] ∧
    Uniflow.Generated.ValueFuncs.o_types_slice_Slice_Hash = [
      "s.mu.Lock()",
      "defer s.mu.Unlock()",
      "if s.hash == 0",
      "  h := fnv.New64a()",
      "  var buf [8]byte",
      "  for i := 0; i < len(s.value); i++",
      "    v := s.value[i]",
      "    binary.BigEndian.PutUint64(buf[:], HashOf(v))",
      "    _, _ = h.Write(buf[:])",
      "  s.hash = h.Sum64()",
      "return s.hash"
    ] ∧
    Uniflow.Generated.ValueFuncs.o_types_slice_Slice_Interface = [
      "if len(s.value) == 0",
      "  return []any{}",
      "var elementType reflect.Type",
      "for _, element := range s.value",
      "  elementType = unionType(elementType, TypeOf(KindOf(element)))",
      "if elementType == nil || elementType.Kind() == reflect.Uint8",
      "  elementType = types[KindUnknown]",
      "t := reflect.MakeSlice(reflect.SliceOf(elementType), len(s.value), len(s.value))",
      "for i, element := range s.value",
      "  if v := InterfaceOf(element); v != nil",
      "    t.Index(i).Set(reflect.ValueOf(v))",
      "return t.Interface()"
    ] := by
  decide

set_option maxRecDepth 16384 in
/-- pkg/types/binary.go as modelled: its declarations (in source order) and the outline of each -/
theorem C14.src_types_binary_as_modelled :
    Uniflow.Generated.ValueFuncs.o_types_binary_fn_NewBinary = [
      "return &binary_{ value: value, }"
    ] ∧
    Uniflow.Generated.ValueFuncs.o_types_binary_Binary_Len = [
      "return len(b.value)"
    ] ∧
    Uniflow.Generated.ValueFuncs.o_types_binary_Binary_Get = [
      "if index >= len(b.value)",
      "  return 0",
      "return b.value[index]"
    ] ∧
    Uniflow.Generated.ValueFuncs.o_types_binary_Binary_Bytes = [
      "return b.value"
    ] ∧
    Uniflow.Generated.ValueFuncs.o_types_binary_Binary_String = [
      "return base64.StdEncoding.EncodeToString(b.value)"
    ] ∧
    Uniflow.Generated.ValueFuncs.o_types_binary_Binary_Kind = [
      "return KindBinary"
    ] ∧
    Uniflow.Generated.ValueFuncs.o_types_binary_Binary_Hash = [
      "b.mu.Lock()",
      "defer b.mu.Unlock()",
      "if b.hash == 0",
      "  h := fnv.New64a()",
      "  h.Write(b.value)",
      "  b.hash = h.Sum64()",
      "return b.hash"
    ] ∧
    Uniflow.Generated.ValueFuncs.o_types_binary_Binary_Interface = [
      "return b.value"
    ] ∧
    Uniflow.Generated.ValueFuncs.o_types_binary_Binary_Equal = [
      "if o, ok := other.(Binary); ok",
      "  if b.Hash() != o.Hash()",
      "    return false",
      "  return bytes.Equal(b.value, o.value)",
      "return false"
    ] ∧
    Uniflow.Generated.ValueFuncs.o_types_binary_Binary_Compare = [
      "if o, ok := other.(Binary); ok",
      "  return bytes.Compare(b.Bytes(), o.Bytes())",
      "return compare(b.Kind(), KindOf(other))"
    ] ∧
    Uniflow.Generated.ValueFuncs.names_types_binary = ["fn.NewBinary", "Binary.Len", "Binary.Get", "Binary.Bytes", "Binary.String", "Binary.Kind", "Binary.Hash", "Binary.Interface", "Binary.Equal", "Binary.Compare"] := by
  decide

set_option maxRecDepth 16384 in
/-- pkg/types/buffer.go as modelled: its declarations (in source order) and the outline of each -/
theorem C14.src_types_buffer_as_modelled :
    Uniflow.Generated.ValueFuncs.o_types_buffer_fn_NewBuffer = [
      "return &_buffer{value: value}"
    ] ∧
    Uniflow.Generated.ValueFuncs.o_types_buffer_Buffer_Read = [
      "return b.value.Read(p)"
    ] ∧
    Uniflow.Generated.ValueFuncs.o_types_buffer_Buffer_Bytes = [
      "data, err := io.ReadAll(b.value)",
      "if err != nil",
      "  return nil, err",
      "if err := b.Close(); err != nil",
      "  return nil, err",
      "return data, nil"
    ] ∧
    Uniflow.Generated.ValueFuncs.o_types_buffer_Buffer_Close = [
      "if closer, ok := b.value.(io.Closer); ok",
      "  return closer.Close()",
      "return nil"
    ] ∧
    Uniflow.Generated.ValueFuncs.o_types_buffer_Buffer_Kind = [
      "return KindBuffer"
    ] ∧
    Uniflow.Generated.ValueFuncs.o_types_buffer_Buffer_Hash = [
      "return uint64(uintptr(unsafe.Pointer(b)))"
    ] ∧
    Uniflow.Generated.ValueFuncs.o_types_buffer_Buffer_Interface = [
      "return b.value"
    ] ∧
    Uniflow.Generated.ValueFuncs.o_types_buffer_Buffer_Equal = [
      "if o, ok := other.(Buffer); ok",
      "  return b == o",
      "return false"
    ] ∧
    Uniflow.Generated.ValueFuncs.o_types_buffer_Buffer_Compare = [
      "if o, ok := other.(Buffer); ok",
      "  return compare(b.Hash(), o.Hash())",
      "return compare(b.Kind(), KindOf(other))"
    ] ∧
    Uniflow.Generated.ValueFuncs.names_types_buffer = ["fn.NewBuffer", "Buffer.Read", "Buffer.Bytes", "Buffer.Close", "Buffer.Kind", "Buffer.Hash", "Buffer.Interface", "Buffer.Equal", "Buffer.Compare"] := by
  decide

set_option maxRecDepth 16384 in
/-- pkg/types/uinteger.go as modelled (part 2 of 2): its declarations (in source order) and the outline of each -/
theorem C14.src_types_uinteger_as_modelled_2 :
    Uniflow.Generated.ValueFuncs.o_types_uinteger_Uint32_Equal = [
      "if o, ok := other.(Uint32); ok",
      "  return u.value == o.value",
      "return false"
    ] ∧
    Uniflow.Generated.ValueFuncs.o_types_uinteger_Uint32_Compare = [
      "if o, ok := other.(Uint32); ok",
      "  return compare(u.value, o.value)",
      "return compare(u.Kind(), KindOf(other))"
    ] ∧
    Uniflow.Generated.ValueFuncs.o_types_uinteger_fn_NewUint64 = [
      "return Uint64{value: value}"
    ] ∧
    Uniflow.Generated.ValueFuncs.o_types_uinteger_Uint64_Uint = [
      "return u.value"
    ] ∧
    Uniflow.Generated.ValueFuncs.o_types_uinteger_Uint64_Kind = [
      "return KindUint64"
    ] ∧
    Uniflow.Generated.ValueFuncs.o_types_uinteger_Uint64_Hash = [
      "h := fnv.New64a()",
      "h.Write((*[8]byte)(unsafe.Pointer(&u.value))[:])",
      "return h.Sum64()"
    ] ∧
    Uniflow.Generated.ValueFuncs.o_types_uinteger_Uint64_Interface = [
      "return u.value"
    ] ∧
    Uniflow.Generated.ValueFuncs.o_types_uinteger_Uint64_Equal = [
      "if o, ok := other.(Uint64); ok",
      "  return u.value == o.value",
      "return false"
    ] ∧
    Uniflow.Generated.ValueFuncs.o_types_uinteger_Uint64_Compare = [
      "if o, ok := other.(Uint64); ok",
      "  return compare(u.value, o.value)",
      "return compare(u.Kind(), KindOf(other))"
    ] ∧
    Uniflow.Generated.ValueFuncs.names_types_uinteger = ["fn.NewUint", "Uint.Uint", "Uint.Kind", "Uint.Hash", "Uint.Interface", "Uint.Equal", "Uint.Compare", "fn.NewUint8", "Uint8.Uint", "Uint8.Kind", "Uint8.Hash", "Uint8.Interface", "Uint8.Equal", "Uint8.Compare", "fn.NewUint16", "Uint16.Uint", "Uint16.Kind", "Uint16.Hash", "Uint16.Interface", "Uint16.Equal", "Uint16.Compare", "fn.NewUint32", "Uint32.Uint", "Uint32.Kind", "Uint32.Hash", "Uint32.Interface", "Uint32.Equal", "Uint32.Compare", "fn.NewUint64", "Uint64.Uint", "Uint64.Kind", "Uint64.Hash", "Uint64.Interface", "Uint64.Equal", "Uint64.Compare"] := by
  decide

set_option maxRecDepth 16384 in
/-- pkg/types/string.go as modelled: its declarations (in source order) and the outline of each -/
theorem C14.src_types_string_as_modelled :
    Uniflow.Generated.ValueFuncs.o_types_string_fn_NewString = [
      "return String{value: value}"
    ] ∧
    Uniflow.Generated.ValueFuncs.o_types_string_String_Len = [
      "return len([]rune(s.value))"
    ] ∧
    Uniflow.Generated.ValueFuncs.o_types_string_String_Get = [
      "runes := []rune(s.value)",
      "if index >= len(runes)",
      "  return rune(0)",
      "return runes[index]"
    ] ∧
    Uniflow.Generated.ValueFuncs.o_types_string_String_String = [
      "return s.value"
    ] ∧
    Uniflow.Generated.ValueFuncs.o_types_string_String_Kind = [
      "return KindString"
    ] ∧
    Uniflow.Generated.ValueFuncs.o_types_string_String_Hash = [
      "h := fnv.New64a()",
      "_, _ = h.Write([]byte(s.value))",
      "return h.Sum64()"
    ] ∧
    Uniflow.Generated.ValueFuncs.o_types_string_String_Interface = [
      "return s.value"
    ] ∧
    Uniflow.Generated.ValueFuncs.o_types_string_String_Equal = [
      "if o, ok := other.(String); ok",
      "  return s.value == o.value",
      "return false"
    ] ∧
    Uniflow.Generated.ValueFuncs.o_types_string_String_Compare = [
      "if o, ok := other.(String); ok",
      "  return compare(s.value, o.value)",
      "return compare(s.Kind(), KindOf(other))"
    ] ∧
    Uniflow.Generated.ValueFuncs.names_types_string = ["fn.NewString", "String.Len", "String.Get", "String.String", "String.Kind", "String.Hash", "String.Interface", "String.Equal", "String.Compare"] := by
  decide

