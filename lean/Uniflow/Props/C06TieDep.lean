/-
C06 – re-statements of the function-outline ties of source files this property DEPENDS on without being anchored in
them (bin/mk_dependency_ties.py; hand-run): a source change there is reported for C06 as well.
-/
import Uniflow.Props.C07TieFn1
import Uniflow.Props.C05TieLayer
import Uniflow.Props.C08TieLayer

theorem C06.dep_C07_symbol_loadhook_as_modelled : type_of% C07.src_symbol_loadhook_as_modelled := C07.src_symbol_loadhook_as_modelled
theorem C06.dep_C07_symbol_unloadhook_as_modelled : type_of% C07.src_symbol_unloadhook_as_modelled := C07.src_symbol_unloadhook_as_modelled
theorem C06.dep_C05_port_closehook_as_modelled : type_of% C05.src_port_closehook_as_modelled := C05.src_port_closehook_as_modelled
theorem C06.dep_C08_node_proxy_as_modelled : type_of% C08.src_node_proxy_as_modelled := C08.src_node_proxy_as_modelled
theorem C06.dep_C08_symbol_cluster_as_modelled : type_of% C08.src_symbol_cluster_as_modelled := C08.src_symbol_cluster_as_modelled
