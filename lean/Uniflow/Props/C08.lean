/-
C08 — activation runs dependencies first and wraps hooks in init/begin, term/final; a lifecycle
error aborts the operation and is returned.

Theorems about `Uniflow.Table` (model of `pkg/symbol/table.go`): `loadLoop` / `unloadLoop` are
the loops of `Table.load` / `Table.unload` over `Table.linked`, `exec` is the synchronous
lifecycle flow.  The pass lemmas themselves are proved in `Proofs/TablePass.lean` (`Pass08.*`,
used by the C06 / C07 proofs); they are restated here.  All statements hold for every iteration
order `o`.
-/
import Uniflow.Props.C07

open Uniflow.Table

/-- **Lifecycle order (activation).** `Table.load(sb)` changes nothing but the log, and what it
appends is, for the activated symbols of `linked(sb)` taken in that order, one block
`init flow, load hooks, begin flow` each – every activated symbol exactly one block when the
result is nil (see `PassSpec`). -/
theorem C08.lifecycle_order_load (o : Ord) (st : State) (sb : Sym) (l : List Sym)
    (h : linked o st sb = some l) :
    Nonempty (PassSpec o st .init .begin Event.load l (load o st sb)) :=
  Pass08.lifecycle_order_load o st sb l h

/-- **Lifecycle order (deactivation).** `Table.unload(sb)` appends, for the activated symbols of
`linked(sb)` in *reverse* order, one block `term flow, unload hooks, final flow` each. -/
theorem C08.lifecycle_order_unload (o : Ord) (st : State) (sb : Sym) (l : List Sym)
    (h : linked o st sb = some l) :
    Nonempty (PassSpec o st .term .final Event.unload l.reverse (unload o st sb)) :=
  Pass08.lifecycle_order_unload o st sb l h

/-- **Error aborts (within a pass).** If `load` returns an error then that error is exactly what
the last lifecycle flow in the log answered, that flow's targets did answer with an error, and
the log ends with it (init flow) or with the block it closes (begin flow): no hook and no flow ran
after the failing flow. -/
theorem C08.error_aborts_load (o : Ord) (st : State) (sb : Sym) (es : List Nat)
    (h : (load o st sb).2 = .err es) :
    es ≠ [] ∧ ∃ x pre, isActivated o st x = some true ∧
      (((load o st sb).1.log = st.log ++ pre ++ [flowEv st x .init] ∧ flowErrs st x .init = es) ∨
       ((load o st sb).1.log = st.log ++ pre ++ actBlock st x ∧ flowErrs st x .init = [] ∧
          flowErrs st x .begin = es)) :=
  Pass08.error_aborts_load o st sb es h

theorem C08.error_aborts_unload (o : Ord) (st : State) (sb : Sym) (es : List Nat)
    (h : (unload o st sb).2 = .err es) :
    es ≠ [] ∧ ∃ x pre, isActivated o st x = some true ∧
      (((unload o st sb).1.log = st.log ++ pre ++ [flowEv st x .term] ∧ flowErrs st x .term = es) ∨
       ((unload o st sb).1.log = st.log ++ pre ++ deactBlock st x ∧ flowErrs st x .term = [] ∧
          flowErrs st x .final = es)) :=
  Pass08.error_aborts_unload o st sb es h

/-- **Error aborts (Free).** When `Free(id)` returns an error it is the error of the unload pass,
the symbol is *not* removed: symbols, name index, reverse references and port links are
unchanged, and the result flag is false. -/
theorem C08.error_aborts_free (o : Ord) (st : State) (id : Nat) (es : List Nat)
    (h : (free o st id).2.1 = .err es) :
    (∃ sb, aget id st.symbols = some sb ∧ (unload o st sb).2 = .err es ∧
      (free o st id).1 = (unload o st sb).1) ∧
    (free o st id).1.symbols = st.symbols ∧ (free o st id).1.namespaces = st.namespaces ∧
    (free o st id).1.references = st.references ∧ (free o st id).1.links = st.links ∧
    (free o st id).2.2 = false :=
  Pass08.error_aborts_free o st id es h

/-- **Error aborts (Insert).** `Insert(sb)` first frees the old symbol; if that fails the error
is returned and nothing is inserted. Otherwise the result is the result of the load pass. -/
theorem C08.error_aborts_insert (o : Ord) (st : State) (sb : Sym) :
    (∀ es, (free o st sb.id).2.1 = .err es →
        step o st (.insert sb) = ((free o st sb.id).1, .err es, false) ∧
        (step o st (.insert sb)).1.symbols = st.symbols) ∧
    ((free o st sb.id).2.1 = .ok →
        (step o st (.insert sb)).2.1 = (insert o (free o st sb.id).1 sb).2) :=
  Pass08.error_aborts_insert o st sb

/-- **Error aborts (Close).** `Close` frees the symbols one after the other and stops at the first
`free` that returns an error, returning that error. -/
theorem C08.error_aborts_close (o : Ord) (st : State) (x : Sym) (xs : List Sym) (es : List Nat)
    (h : (free o st x.id).2.1 = .err es) :
    freeAll o st (x :: xs) = ((free o st x.id).1, .err es) :=
  Pass08.error_aborts_close o st x xs es h

open Uniflow.Table.C08Ex in
theorem C08.error_aborts_nonvacuous :
    (step Ord.id st2 (.insert s1)).2.1 = .err [7] ∧
    ((step Ord.id st2 (.insert s1)).1.log.drop st2.log.length
      = [.exec .init 1 [(8, 5)], .load 1, .exec .begin 1 [(9, 5)]]) :=
  Pass08.error_aborts_nonvacuous

/-! ### dependencies first -/

namespace Uniflow.Table

theorem kahn_prefix (succ : Nat → Sym → List Sym) (f : Nat) (q out : List Sym) (deg : Deg)
    (res : List Sym × Deg) (hr : kahn succ f q out deg = some res) : ∃ tl, res.1 = out ++ tl := by
  induction f generalizing q out deg with
  | zero =>
    cases q with
    | nil => simp [kahn] at hr; subst hr; exact ⟨[], by simp⟩
    | cons c q => simp [kahn] at hr
  | succ f ih =>
    cases q with
    | nil => simp [kahn] at hr; subst hr; exact ⟨[], by simp⟩
    | cons c q =>
      simp only [kahn] at hr
      split at hr
      · exact ih _ _ _ hr
      · obtain ⟨tl, h⟩ := ih _ _ _ hr
        exact ⟨c :: tl, by rw [h]; simp⟩

/-- `linked(sb)` starts with `sb`. -/
theorem linked_head (o : Ord) (st : State) (sb : Sym) (l : List Sym) (h : linked o st sb = some l) :
    ∃ tl, l = sb :: tl := by
  unfold linked at h
  cases hb : bfs o st (bfsFuel st) [sb] [] [] with
  | none => rw [hb] at h; cases h
  | some deg =>
    rw [hb] at h
    simp only at h
    have hf : kahnFuel [sb] deg = degSum deg + 1 := by unfold kahnFuel; simp; omega
    rw [hf] at h
    simp only [kahn, List.any_nil, Bool.false_eq_true, if_false, List.nil_append] at h
    cases hk : kahn (fun f c => referrers o (1000 + f) st c) (degSum deg)
        ((referrers o (1000 + degSum deg) st sb).foldl kahnStep (deg, [])).2 [sb]
        ((referrers o (1000 + degSum deg) st sb).foldl kahnStep (deg, [])).1 with
    | none => rw [hk] at h; cases h
    | some res =>
      obtain ⟨out, deg'⟩ := res
      rw [hk] at h
      simp only [Option.some.injEq] at h
      obtain ⟨tl, ht⟩ := kahn_prefix _ _ _ _ _ _ hk
      simp only at ht
      subst h
      rw [ht]
      exact ⟨_, by rw [List.append_assoc, List.singleton_append]⟩

end Uniflow.Table

/-- FULL statement (not proved): in every state reached by a well-formed history, for an
acyclic reference graph (a rank that strictly decreases along references), `linked(sb)` lists a
symbol after every listed symbol it references – so by `C08.lifecycle_order_*` each symbol is
activated after, and deactivated before, the symbols it references. -/
def C08.deps_first_full : Prop :=
  ∀ (o : Ord), o.Valid → ∀ (h : List Op), WfRun o {} h →
    ∀ (sb : Sym) (l : List Sym), Live (run o {} h) sb → linked o (run o {} h) sb = some l →
    (∃ rank : Nat → Nat, ∀ x y, Live (run o {} h) x → Live (run o {} h) y →
        Edge (run o {} h) y x → rank x.id < rank y.id) →
    ∀ (i j : Nat) (x y : Sym), l[i]? = some x → l[j]? = some y → Edge (run o {} h) y x → i < j

/-- **Dependencies first – the part that is proved (all graphs, cyclic ones included).**
In every state reached by a well-formed history, `linked(sb)` is `sb` followed by exactly the
other present symbols that reference `sb` transitively, each once: the symbol every listed
symbol depends on is activated first and (the unload pass walks the list in reverse,
`C08.lifecycle_order_unload`) deactivated last, and no symbol outside the set of transitive
referrers is touched.  Missing for `C08.deps_first_full`: the order *among* the referrers
(Kahn's counting invariant `degree[y] = number of entries of not yet listed visited symbols naming y`,
and "acyclic ⇒ the left-over loop adds nothing"); it is checked by the C08 oracle on the real log
of every operation. -/
theorem C08.deps_first_partial (o : Ord) (ho : o.Valid) (h : List Op) (hw : WfRun o {} h) (sb : Sym)
    (l : List Sym) (hsb : Live (run o {} h) sb) (hl : linked o (run o {} h) sb = some l) :
    ∃ tl, l = sb :: tl ∧ (l.map (·.id)).Nodup ∧
      (∀ x ∈ tl, x ≠ sb ∧ Live (run o {} h) x ∧ Reach (run o {} h) x sb) ∧
      (∀ x, Live (run o {} h) x → Reach (run o {} h) x sb → x ∈ l) := by
  obtain ⟨tl, ht⟩ := linked_head o _ sb l hl
  have hn := C07.linked_nodup o ho _ sb l hl
  have hx := C07.linked_exact o ho h hw sb hsb l hl
  refine ⟨tl, ht, hn, ?_, fun x h1 h2 => (hx x).mpr ⟨h1, h2⟩⟩
  intro x hxt
  have hxl : x ∈ l := by rw [ht]; exact List.mem_cons_of_mem _ hxt
  refine ⟨?_, (hx x).mp hxl⟩
  intro e
  subst e
  rw [ht] at hn
  simp only [List.map_cons, List.nodup_cons] at hn
  exact hn.1 (List.mem_map.mpr ⟨x, hxt, rfl⟩)
