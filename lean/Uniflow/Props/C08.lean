/-
C08 — activation runs dependencies first and wraps hooks in init/begin, term/final; a lifecycle
error aborts the operation and is returned.

Theorems about `Uniflow.Table` (model of `pkg/symbol/table.go`): `loadLoop` / `unloadLoop` are
the loops of `Table.load` / `Table.unload` over `Table.linked`, `exec` is the synchronous
lifecycle flow.  The pass lemmas themselves are proved in `Proofs/TablePass.lean` (`Pass08.*`,
used by the C06 / C07 proofs); they are restated here.  All statements hold for every iteration
order `o`.
-/
import Uniflow.Props.C07
import Uniflow.Proofs.TableKahn
import Uniflow.Proofs.TableDepsLog

open Uniflow.Table

/-- **Lifecycle order (activation).** `Table.load(sb)` changes nothing but the log, and what it
appends is, for the activated symbols of `linked(sb)` taken in that order, one block
`init flow, load hooks, begin flow` each – every activated symbol exactly one block when the
result is nil (see `PassSpec`). -/
theorem C08.lifecycle_order_load (o : Ord) (st : State) (sb : Sym) (l : List Sym)
    (h : linked o st sb = some l) :
    Nonempty (PassSpec o st .init .begin Event.load l (load o st sb)) :=
  Pass08.lifecycle_order_load o st sb l h

/-- **Lifecycle order (deactivation).** `Table.unload(sb)` appends, for the activated symbols of
`linked(sb)` in *reverse* order, one block `term flow, unload hooks, final flow` each. -/
theorem C08.lifecycle_order_unload (o : Ord) (st : State) (sb : Sym) (l : List Sym)
    (h : linked o st sb = some l) :
    Nonempty (PassSpec o st .term .final Event.unload l.reverse (unload o st sb)) :=
  Pass08.lifecycle_order_unload o st sb l h

/-- **Error aborts (within a pass).** If `load` returns an error then the log ends with the
activation of an activated symbol cut short by exactly that error (`AbortTail`): its init flow
answered with it (any error value – a dropped packet included); or a load hook that runs before the
observing hooks refused the symbol with it (no load notification was recorded); or one that runs
after them did (the notification was recorded); or its begin flow answered with it – and no hook
and no flow ran after it. -/
theorem C08.error_aborts_load (o : Ord) (st : State) (sb : Sym) (es : List Nat)
    (h : (load o st sb).2 = .err es) :
    es ≠ [] ∧ ∃ x pre tail, isActivated o st x = some true ∧
      (load o st sb).1.log = st.log ++ pre ++ tail ∧ AbortTail st x .init .begin Event.load tail es :=
  Pass08.error_aborts_load o st sb es h

/-- The same for `unload`: term flow, unload hooks that run before / after the observing hooks
(`UnloadHooks.Unload` runs last registered first), final flow. -/
theorem C08.error_aborts_unload (o : Ord) (st : State) (sb : Sym) (es : List Nat)
    (h : (unload o st sb).2 = .err es) :
    es ≠ [] ∧ ∃ x pre tail, isActivated o st x = some true ∧
      (unload o st sb).1.log = st.log ++ pre ++ tail ∧ AbortTail st x .term .final Event.unload tail es :=
  Pass08.error_aborts_unload o st sb es h

/-- **One (de)activation ends at its first error.** `notify` (the body of the load / unload loop for
one activated symbol: first flow, hooks, second flow) appends the complete block and returns nil,
or returns an error and appends an `AbortTail`; it never answers `panic`. -/
theorem C08.notify_aborts_at_first_error (st : State) (x : Sym) (p1 p2 : Phase) (mid : Nat → Event) :
    ∃ evs, (notify st x (isUnl p1) p1 p2 mid).1 = { st with log := st.log ++ evs } ∧
      (((notify st x (isUnl p1) p1 p2 mid).2 = .ok ∧ evs = [flowEv st x p1, mid x.id, flowEv st x p2] ∧
          flowErrs st x p1 = [] ∧ flowErrs st x p2 = []) ∨
       (∃ es, (notify st x (isUnl p1) p1 p2 mid).2 = .err es ∧ AbortTail st x p1 p2 mid evs es)) :=
  notify_spec st x p1 p2 mid

/-- **A failed first flow runs nothing else for that symbol** – whatever the error value: when the
init (term) flow of `x` answers with errors, the aborted activation consists of that flow alone and
its errors are what is returned: no hook, no notification, no second flow. -/
theorem C08.failed_first_flow_runs_nothing (st : State) (x : Sym) (p1 p2 : Phase) (mid : Nat → Event)
    (tail : List Event) (es : List Nat) (h : AbortTail st x p1 p2 mid tail es)
    (hf : flowErrs st x p1 ≠ []) : tail = [flowEv st x p1] ∧ es = flowErrs st x p1 := by
  rcases h with ⟨h1, h2, _⟩ | ⟨_, _, _, _, _, _, _, h0⟩ | ⟨_, _, _, _, _, _, _, h0⟩ | ⟨_, h0, _⟩
  · exact ⟨h1, h2.symm⟩
  · exact absurd h0 hf
  · exact absurd h0 hf
  · exact absurd h0 hf

/-- **A refused unload notifies no hook that runs after the refusing one.** When the deactivation
of `x` is cut short by an unload hook that runs before the observing hooks (it was registered
after them), no unload notification and no final flow of `x` are recorded, and the error returned
is that hook's. Likewise for a load hook registered before the observing hooks. -/
theorem C08.refusal_before_observers_unobserved (st : State) (x : Sym) (p1 p2 : Phase) (unl : Bool)
    (hu : isUnl p1 = unl) (tail : List Event) (es : List Nat)
    (h : AbortTail st x p1 p2 (if unl then Event.unload else Event.load) tail es)
    (hr : Event.refused unl false x.id ∈ tail) :
    tail = [flowEv st x p1, Event.refused unl false x.id] ∧
    (∃ r ∈ st.refusals, r.unload = unl ∧ r.after = false ∧ r.sym = x.id ∧ es = [r.code]) ∧
    Event.load x.id ∉ tail ∧ Event.unload x.id ∉ tail := by
  subst hu
  rcases h with ⟨h1, _, _⟩ | ⟨r, hm, e1, e2, e3, e4, h1, _⟩ | ⟨r, _, _, _, _, _, h1, _⟩ | ⟨h1, _, _, _⟩
  · rw [h1] at hr; simp [flowEv] at hr
  · refine ⟨h1, ⟨r, hm, e1, e2, e3, e4⟩, ?_, ?_⟩ <;> rw [h1] <;> simp [flowEv]
  · rw [h1] at hr
    cases hp : isUnl p1 <;> simp [flowEv, hp] at hr
  · rw [h1] at hr
    cases hp : isUnl p1 <;> simp [flowEv, hp] at hr

/-- **Error aborts (Free).** When `Free(id)` returns an error it is the error of the unload pass,
the symbol is *not* removed: symbols, name index, reverse references and port links are
unchanged, and the result flag is false. -/
theorem C08.error_aborts_free (o : Ord) (st : State) (id : Nat) (es : List Nat)
    (h : (free o st id).2.1 = .err es) :
    (∃ sb, aget id st.symbols = some sb ∧ (unload o st sb).2 = .err es ∧
      (free o st id).1 = (unload o st sb).1) ∧
    (free o st id).1.symbols = st.symbols ∧ (free o st id).1.namespaces = st.namespaces ∧
    (free o st id).1.references = st.references ∧ (free o st id).1.links = st.links ∧
    (free o st id).2.2 = false :=
  Pass08.error_aborts_free o st id es h

/-- **Error aborts (Insert).** `Insert(sb)` first frees the old symbol; if that fails the error
is returned and nothing is inserted. Otherwise the result is the result of the load pass. -/
theorem C08.error_aborts_insert (o : Ord) (st : State) (sb : Sym) :
    (∀ es, (free o st sb.id).2.1 = .err es →
        step o st (.insert sb) = ((free o st sb.id).1, .err es, false) ∧
        (step o st (.insert sb)).1.symbols = st.symbols) ∧
    ((free o st sb.id).2.1 = .ok →
        (step o st (.insert sb)).2.1 = (insert o (free o st sb.id).1 sb).2) :=
  Pass08.error_aborts_insert o st sb

/-- **Error aborts (Close).** `Close` frees the symbols one after the other and stops at the first
`free` that returns an error, returning that error. -/
theorem C08.error_aborts_close (o : Ord) (st : State) (x : Sym) (xs : List Sym) (es : List Nat)
    (h : (free o st x.id).2.1 = .err es) :
    freeAll o st (x :: xs) = ((free o st x.id).1, .err es) :=
  Pass08.error_aborts_close o st x xs es h

open Uniflow.Table.C08Ex in
theorem C08.error_aborts_nonvacuous :
    (step Ord.id st2 (.insert s1)).2.1 = .err [7] ∧
    ((step Ord.id st2 (.insert s1)).1.log.drop st2.log.length
      = [.exec .init 1 [(8, 5)], .load 1, .exec .begin 1 [(9, 5)]]) :=
  Pass08.error_aborts_nonvacuous

/-! ### dependencies first -/

namespace Uniflow.Table

theorem kahn_prefix (succ : Nat → Sym → List Sym) (f : Nat) (q out : List Sym) (deg : Deg)
    (res : List Sym × Deg) (hr : kahn succ f q out deg = some res) : ∃ tl, res.1 = out ++ tl := by
  induction f generalizing q out deg with
  | zero =>
    cases q with
    | nil => simp [kahn] at hr; subst hr; exact ⟨[], by simp⟩
    | cons c q => simp [kahn] at hr
  | succ f ih =>
    cases q with
    | nil => simp [kahn] at hr; subst hr; exact ⟨[], by simp⟩
    | cons c q =>
      simp only [kahn] at hr
      split at hr
      · exact ih _ _ _ hr
      · obtain ⟨tl, h⟩ := ih _ _ _ hr
        exact ⟨c :: tl, by rw [h]; simp⟩

/-- `linked(sb)` starts with `sb`. -/
theorem linked_head (o : Ord) (st : State) (sb : Sym) (l : List Sym) (h : linked o st sb = some l) :
    ∃ tl, l = sb :: tl := by
  unfold linked at h
  cases hb : bfs o st (bfsFuel st) [sb] [] [] with
  | none => rw [hb] at h; cases h
  | some deg =>
    rw [hb] at h
    simp only at h
    have hf : kahnFuel [sb] deg = degSum deg + 1 := by unfold kahnFuel; simp; omega
    rw [hf] at h
    simp only [kahn, List.any_nil, Bool.false_eq_true, if_false, List.nil_append] at h
    cases hk : kahn (fun f c => referrers o (1000 + f) st c) (degSum deg)
        ((referrers o (1000 + degSum deg) st sb).foldl kahnStep (deg, [])).2 [sb]
        ((referrers o (1000 + degSum deg) st sb).foldl kahnStep (deg, [])).1 with
    | none => rw [hk] at h; cases h
    | some res =>
      obtain ⟨out, deg'⟩ := res
      rw [hk] at h
      simp only [Option.some.injEq] at h
      obtain ⟨tl, ht⟩ := kahn_prefix _ _ _ _ _ _ hk
      simp only at ht
      subst h
      rw [ht]
      exact ⟨_, by rw [List.append_assoc, List.singleton_append]⟩

end Uniflow.Table

/-- FULL statement (proved below as `C08.deps_first`): in every state reached by a well-formed history, for an
acyclic reference graph (a rank that strictly decreases along references), `linked(sb)` lists a
symbol after every listed symbol it references – so by `C08.lifecycle_order_*` each symbol is
activated after, and deactivated before, the symbols it references. -/
def C08.deps_first_full : Prop :=
  ∀ (o : Ord), o.Valid → ∀ (h : List Op), WfRun o {} h →
    ∀ (sb : Sym) (l : List Sym), Live (run o {} h) sb → linked o (run o {} h) sb = some l →
    (∃ rank : Nat → Nat, ∀ x y, Live (run o {} h) x → Live (run o {} h) y →
        Edge (run o {} h) y x → rank x.id < rank y.id) →
    ∀ (i j : Nat) (x y : Sym), l[i]? = some x → l[j]? = some y → Edge (run o {} h) y x → i < j

/-- **Dependencies first – the part that is proved (all graphs, cyclic ones included).**
In every state reached by a well-formed history, `linked(sb)` is `sb` followed by exactly the
other present symbols that reference `sb` transitively, each once: the symbol every listed
symbol depends on is activated first and (the unload pass walks the list in reverse,
`C08.lifecycle_order_unload`) deactivated last, and no symbol outside the set of transitive
referrers is touched.  (The order *among* the referrers, for acyclic graphs, is `C08.deps_first`.) -/
theorem C08.deps_first_partial (o : Ord) (ho : o.Valid) (h : List Op) (hw : WfRun o {} h) (sb : Sym)
    (l : List Sym) (hsb : Live (run o {} h) sb) (hl : linked o (run o {} h) sb = some l) :
    ∃ tl, l = sb :: tl ∧ (l.map (·.id)).Nodup ∧
      (∀ x ∈ tl, x ≠ sb ∧ Live (run o {} h) x ∧ Reach (run o {} h) x sb) ∧
      (∀ x, Live (run o {} h) x → Reach (run o {} h) x sb → x ∈ l) := by
  obtain ⟨tl, ht⟩ := linked_head o _ sb l hl
  have hn := C07.linked_nodup o ho _ sb l hl
  have hx := C07.linked_exact o ho h hw sb hsb l hl
  refine ⟨tl, ht, hn, ?_, fun x h1 h2 => (hx x).mpr ⟨h1, h2⟩⟩
  intro x hxt
  have hxl : x ∈ l := by rw [ht]; exact List.mem_cons_of_mem _ hxt
  refine ⟨?_, (hx x).mp hxl⟩
  intro e
  subst e
  rw [ht] at hn
  simp only [List.map_cons, List.nodup_cons] at hn
  exact hn.1 (List.mem_map.mpr ⟨x, hxt, rfl⟩)

/-- **Dependencies first.** In every state reached by a well-formed history and for an acyclic
reference graph, `linked(sb)` lists a symbol after every listed symbol it references (Kahn's
counting invariant, `Proofs/TableKahn.lean`); with `C08.lifecycle_order_load` / `_unload` each
symbol is activated after, and deactivated before, the symbols it references. -/
theorem C08.deps_first : C08.deps_first_full := by
  intro o ho h hw sb l hsb hl ⟨rank, hrank⟩ i j x y hi hj he
  have hR := rinv_run o ho h {} rinv_init hw
  have hp := linked_pairwise o ho _ hR sb hsb rank hrank l hl
  obtain ⟨hi', ei⟩ := List.getElem?_eq_some_iff.mp hi
  obtain ⟨hj', ej⟩ := List.getElem?_eq_some_iff.mp hj
  rcases Nat.lt_trichotomy i j with hlt | heq | hgt
  · exact hlt
  · exfalso
    subst heq
    rw [ei] at ej; subst ej
    have hx : Live (run o {} h) x := ((C07.linked_exact o ho h hw sb hsb l hl x).mp (ei ▸ List.getElem_mem hi')).1
    have := hrank x x hx hx he
    omega
  · exfalso
    have := (List.pairwise_iff_getElem.mp hp) j i hj' hi' hgt
    rw [ei, ej] at this
    exact this he

/-- **Dependencies first, on the log.** For every well-formed history `h` and every next operation
`op` (Insert, Free or Close) that returns nil, the events `seg` the operation appends to the log
satisfy:
* if the reference graph *after* the operation is acyclic, a `load a` that comes before a
  `load b` is never a load of a symbol that references `b` – whenever `s` references `t` and both
  are loaded, `load t` precedes `load s`;
* if the reference graph *before* the operation is acyclic, an `unload a` that comes before an
  `unload b` is never followed by the unload of a symbol that references it – whenever `s`
  references `t` and both are unloaded, `unload s` precedes `unload t` (for `Close` across all
  the symbols it frees).
`RefsTo st a b` = the present symbol stored under `a` references the present symbol stored under `b`. -/
theorem C08.deps_first_log (o : Ord) (ho : o.Valid) (h : List Op) (hw : WfRun o {} h) (op : Op)
    (hwop : WfOp (run o {} h) op) (hok : (step o (run o {} h) op).2.1 = .ok) :
    ∃ seg, (step o (run o {} h) op).1.log = (run o {} h).log ++ seg ∧
      (∀ rank, Ranked (step o (run o {} h) op).1 rank → LoadOrd (step o (run o {} h) op).1 seg) ∧
      (∀ rank, Ranked (run o {} h) rank → UnloadOrd (run o {} h) seg) :=
  step_seg o ho _ op (rinv_run o ho h {} rinv_init hw) hwop hok

/-- Index form of `C08.deps_first_log`: positions in the operation's own events. -/
theorem C08.deps_first_log_index (o : Ord) (ho : o.Valid) (h : List Op) (hw : WfRun o {} h) (op : Op)
    (hwop : WfOp (run o {} h) op) (hok : (step o (run o {} h) op).2.1 = .ok) :
    ∃ seg, (step o (run o {} h) op).1.log = (run o {} h).log ++ seg ∧
      (∀ rank, Ranked (step o (run o {} h) op).1 rank → ∀ (i j s t : Nat),
        seg[i]? = some (Event.load t) → seg[j]? = some (Event.load s) →
        RefsTo (step o (run o {} h) op).1 s t → i < j) ∧
      (∀ rank, Ranked (run o {} h) rank → ∀ (i j s t : Nat),
        seg[i]? = some (Event.unload s) → seg[j]? = some (Event.unload t) →
        RefsTo (run o {} h) s t → i < j) := by
  obtain ⟨seg, h1, h2, h3⟩ := C08.deps_first_log o ho h hw op hwop hok
  have self_free : ∀ (st : State) (rank : Nat → Nat), KeyId st → Ranked st rank → ∀ a, ¬ RefsTo st a a := by
    intro st rank hk hr a ⟨S, T, hs, ht, he⟩
    rw [hs] at ht; cases ht
    have hl : Live st S := by unfold Live; rw [hk _ _ hs]; exact hs
    have := hr S S hl hl he
    omega
  refine ⟨seg, h1, ?_, ?_⟩
  · intro rank hrank i j s t hi hj href
    have hp := h2 rank hrank
    obtain ⟨hi', ei⟩ := List.getElem?_eq_some_iff.mp hi
    obtain ⟨hj', ej⟩ := List.getElem?_eq_some_iff.mp hj
    rcases Nat.lt_trichotomy i j with hlt | heq | hgt
    · exact hlt
    · exfalso
      subst heq
      rw [ei] at ej; cases ej
      exact self_free _ rank (keyId_step o _ op (C07.reachable_keyId o h)) hrank _ href
    · exfalso
      have := (List.pairwise_iff_getElem.mp hp) j i hj' hi' hgt s t ej ei
      exact this href
  · intro rank hrank i j s t hi hj href
    have hp := h3 rank hrank
    obtain ⟨hi', ei⟩ := List.getElem?_eq_some_iff.mp hi
    obtain ⟨hj', ej⟩ := List.getElem?_eq_some_iff.mp hj
    rcases Nat.lt_trichotomy i j with hlt | heq | hgt
    · exact hlt
    · exfalso
      subst heq
      rw [ei] at ej; cases ej
      exact self_free _ rank (C07.reachable_keyId o h) hrank _ href
    · exfalso
      have := (List.pairwise_iff_getElem.mp hp) j i hj' hi' hgt t s ej ei
      exact this href

/-! ### non-vacuity: a chain 3 → 2 → 1 whose target is inserted last -/

namespace Uniflow.Table

/-- Decidable check of `Ranked`. -/
def rankedB (st : State) (rank : Nat → Nat) : Bool :=
  st.symbols.all (fun p => p.2.ports.all (fun np => np.2.all (fun r =>
    match aget (resolve st p.2.ns r) st.symbols with
    | none => true
    | some T => !(T.ns == p.2.ns) || decide (rank T.id < rank p.2.id))))

theorem rankedB_sound (st : State) (rank : Nat → Nat) (h : rankedB st rank = true) : Ranked st rank := by
  intro x y _ hy ⟨np, hnp, r, hr, ha, hns⟩
  unfold rankedB at h
  rw [List.all_eq_true] at h
  have h1 := h (y.id, y) (mem_of_aget hy)
  simp only [List.all_eq_true] at h1
  have h2 := h1 np hnp r hr
  rw [ha] at h2
  simpa [hns] using h2

namespace C08Ex
def c1 : Sym := Sym.mk 1 0 0 true [5] [6, 9] none []
def c2 : Sym := Sym.mk 2 0 0 true [5] [6, 9] none [(6, [Ref.mk 1 0 5])]
def c3 : Sym := Sym.mk 3 0 0 true [5] [6, 9] none [(6, [Ref.mk 2 0 5]), (1, [Ref.mk 1 0 5])]
def chainHist : List Op := [.insert c3, .insert c2]
end C08Ex

end Uniflow.Table

open Uniflow.Table.C08Ex in
/-- Non-vacuity of `C08.deps_first` / `C08.deps_first_log`: a well-formed history, a well-formed
next operation that returns nil, ranked states before and after (rank = id), and the operation's
events: the target 1 is loaded first, then 2, then 3 (which also sends its init flow to 1);
freeing 1 afterwards unloads 3, then 2, then 1. -/
theorem C08.deps_first_nonvacuous :
    wfRunB Ord.id {} (chainHist ++ [.insert c1]) = true ∧
    (step Ord.id (run Ord.id {} chainHist) (.insert c1)).2.1 = .ok ∧
    rankedB (run Ord.id {} chainHist) (fun k => k) = true ∧
    rankedB (step Ord.id (run Ord.id {} chainHist) (.insert c1)).1 (fun k => k) = true ∧
    (step Ord.id (run Ord.id {} chainHist) (.insert c1)).1.log =
      [.exec .init 1 [], .load 1, .exec .begin 1 [],
       .exec .init 2 [], .load 2, .exec .begin 2 [],
       .exec .init 3 [(1, 5)], .load 3, .exec .begin 3 []] ∧
    ((step Ord.id (run Ord.id {} (chainHist ++ [.insert c1])) (.free 1)).1.log.drop 9) =
      [.exec .term 3 [], .unload 3, .exec .final 3 [],
       .exec .term 2 [], .unload 2, .exec .final 2 [],
       .exec .term 1 [], .unload 1, .exec .final 1 [], .close 1] := by
  decide +kernel

/-! ### the same without "the result is not a fuel exhaustion" hypotheses -/

/-- `linked` always answers, and both passes meet `PassSpec` on its answer
(`C08.lifecycle_order_load` / `_unload` with `linked … = some l` discharged; any state). -/
theorem C08.lifecycle_order_total (o : Ord) (ho : o.Valid) (st : State) (sb : Sym) :
    ∃ l, linked o st sb = some l ∧
      Nonempty (PassSpec o st .init .begin Event.load l (load o st sb)) ∧
      Nonempty (PassSpec o st .term .final Event.unload l.reverse (unload o st sb)) := by
  cases hl : linked o st sb with
  | none => exact absurd hl (linked_ne_none o ho st sb)
  | some l => exact ⟨l, rfl, C08.lifecycle_order_load o st sb l hl, C08.lifecycle_order_unload o st sb l hl⟩

/-- `C08.deps_first` with `linked … = some l` discharged: for an acyclic reference graph `linked`
answers a list in which no symbol comes before a symbol it references. -/
theorem C08.deps_first_total (o : Ord) (ho : o.Valid) (h : List Op) (hw : WfRun o {} h) (sb : Sym)
    (hsb : Live (run o {} h) sb) (rank : Nat → Nat) (hrank : Ranked (run o {} h) rank) :
    ∃ l, linked o (run o {} h) sb = some l ∧ l.Pairwise (fun a b => ¬ Edge (run o {} h) a b) := by
  cases hl : linked o (run o {} h) sb with
  | none => exact absurd hl (linked_ne_none o ho _ sb)
  | some l =>
    exact ⟨l, rfl, linked_pairwise o ho _ (rinv_run o ho h {} rinv_init hw) sb hsb rank hrank l hl⟩

/-! ### non-vacuity: refusing hooks, a dropped answer, a closed responder -/

namespace Uniflow.Table.C08Ex
/-- an unload hook that runs before the observers always refuses 1 (error 40); a load hook that
runs after them refuses 2 once (error 41) -/
def rst : State := { refusals := [⟨true, false, 1, false, 40⟩, ⟨false, true, 2, true, 41⟩] }
def p1 : Sym := Sym.mk 1 0 0 true [5] [6, 9] none []
def p2 : Sym := Sym.mk 2 0 0 true [5] [6, 9] none []
/-- 3 answers every request with `packet.ErrDroppedPacket`; 4 is a node that was closed before -/
def d3 : Sym := Sym.mk 3 0 0 true [5] [6, 9] (some 63) []
def c4 : Sym := Sym.mk 4 0 0 true [5] [6, 9] (some 62) []
def q5 : Sym := Sym.mk 5 0 0 true [5] [6, 9] none [(1, [Ref.mk 3 0 5])]
def q6 : Sym := Sym.mk 6 0 0 true [5] [6, 9] none [(3, [Ref.mk 4 0 5])]
end Uniflow.Table.C08Ex

open Uniflow.Table.C08Ex in
/-- * `Free 1` is refused by the unload hook that runs first: error 40, the log gains the term flow
  and the refusal only (no unload notification, no final flow, no close), 1 stays in the table;
* `Insert 2` is refused after the observers were notified: error 41, 2 is in the table, loaded;
  the retry succeeds (the hook refuses once);
* `Insert 5`, whose init flow goes to 3: the dropped answer is an error (63) like any other – no load
  notification, no begin flow;
* `Free 6`, whose term flow goes to the closed node 4: error 63, the node never saw the request. -/
theorem C08.refusal_and_drop_nonvacuous :
    let s1 := (step Ord.id rst (.insert p1)).1
    let f1 := step Ord.id s1 (.free 1)
    let i2 := step Ord.id rst (.insert p2)
    let i2' := step Ord.id i2.1 (.insert p2)
    let s3 := (step Ord.id {} (.insert d3)).1
    let i5 := step Ord.id s3 (.insert q5)
    let s6 := run Ord.id {} [.insert c4, .insert q6]
    let f6 := step Ord.id s6 (.free 6)
    f1.2.1 = .err [40] ∧ f1.1.log.drop s1.log.length = [.exec .term 1 [], .refused true false 1] ∧
      f1.1.symbols.map (·.1) = [1] ∧
    i2.2.1 = .err [41] ∧ i2.1.log = [.exec .init 2 [], .load 2, .refused false true 2] ∧
      i2.1.symbols.map (·.1) = [2] ∧ i2'.2.1 = .ok ∧
    i5.2.1 = .err [63] ∧ i5.1.log.drop s3.log.length = [.exec .init 5 [(3, 5)]] ∧
    f6.2.1 = .err [63] ∧ f6.1.log.drop s6.log.length = [.exec .term 6 []] ∧
      f6.1.symbols.map (·.1) = [4, 6] := by
  decide +kernel
