/-
C13 – regenerated tie over Generated/StoreFuncs.lean (extract/funcs.go): the outline of EVERY function of the source
files named below – regenerated from /repo on every run – equals the transcript frozen here (bin/freeze_all.py, repo 7f54b88,
2026-10-01). A theorem that stops checking names the file whose code is no longer the code that was modelled; bin/check then
searches for a failing input.
-/
import Uniflow.Generated.StoreFuncs

set_option maxRecDepth 16384 in
/-- pkg/store/stream.go as modelled: its declarations (in source order) and the outline of each -/
theorem C13.src_store_stream_as_modelled :
    Uniflow.Generated.StoreFuncs.o_store_stream_fn_newStream = [
      "c := &stream{ filter: filter, in: make(chan types.Map), out: make(chan types.Map), done: make(chan struct{}), }",
      "go func#1()",
      "func#1()",
      "  defer close(c.out)",
      "  defer close(c.in)",
      "  buffer := make([]types.Map, 0, 2)",
      "  for",
      "    var event types.Map",
      "    select",
      "      case event = <-c.in",
      "      case <-c.done",
      "        return",
      "    select",
      "      case c.out <- event",
      "      case <-c.done",
      "        return",
      "      default",
      "        buffer = append(buffer, event)",
      "        for len(buffer) > 0",
      "          select",
      "            case event = <-c.in",
      "              buffer = append(buffer, event)",
      "            case c.out <- buffer[0]",
      "              buffer = buffer[1:]",
      "            case <-c.done",
      "              return",
      "return c"
    ] ∧
    Uniflow.Generated.StoreFuncs.o_store_stream_stream_Match = [
      "if s.filter == nil",
      "  return true, nil",
      "return match(doc, s.filter)"
    ] ∧
    Uniflow.Generated.StoreFuncs.o_store_stream_stream_Emit = [
      "s.mu.Lock()",
      "defer s.mu.Unlock()",
      "select",
      "  case <-s.done",
      "    return false",
      "  default",
      "    s.in <- doc",
      "    return true"
    ] ∧
    Uniflow.Generated.StoreFuncs.o_store_stream_stream_Next = [
      "select",
      "  case <-ctx.Done()",
      "    return false",
      "  case doc, ok := <-s.out",
      "    s.doc = doc",
      "    return ok"
    ] ∧
    Uniflow.Generated.StoreFuncs.o_store_stream_stream_Decode = [
      "return types.Unmarshal(s.doc, val)"
    ] ∧
    Uniflow.Generated.StoreFuncs.o_store_stream_stream_Close = [
      "s.mu.Lock()",
      "defer s.mu.Unlock()",
      "select",
      "  case <-s.done",
      "    return nil",
      "  default",
      "    close(s.done)",
      "    return nil"
    ] ∧
    Uniflow.Generated.StoreFuncs.o_store_stream_stream_Done = [
      "return s.done"
    ] ∧
    Uniflow.Generated.StoreFuncs.names_store_stream = ["fn.newStream", "stream.Match", "stream.Emit", "stream.Next", "stream.Decode", "stream.Close", "stream.Done"] := by
  decide

