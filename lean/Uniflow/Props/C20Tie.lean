/-
C20Tie – re-statement, under this property's name, of regenerated-source tie theorems proved for
other properties, about code whose concurrency safety C20 claims and whose defects the race-detector
stress finds only statistically (e.g. seeded change c20c: `stream.Emit` tested `done` before taking
the lock – a send on a closed channel in a window of a few instructions, found by the stress on some
seeds only). `bin/check C20` builds and audits Props/C20*.lean only, so without this file such a
source change would be reported deterministically for C13 / C04 / C01 but not for C20. Each theorem has
the SAME statement (type_of%) as the theorem it cites and is proved by it.
-/
import Uniflow.Props.C13Tie
import Uniflow.Props.C04Tie
import Uniflow.Props.C01Tie

theorem C20.stream_emit_facts : type_of% C13.stream_emit_facts := C13.stream_emit_facts
theorem C20.stream_emit_as_modelled : type_of% C13.stream_emit_as_modelled := C13.stream_emit_as_modelled
theorem C20.stream_outline_as_modelled : type_of% C13.stream_outline_as_modelled := C13.stream_outline_as_modelled
theorem C20.add_hook_as_modelled : type_of% C04.add_hook_as_modelled := C04.add_hook_as_modelled
theorem C20.exit_writes_guarded : type_of% C04.exit_writes_guarded := C04.exit_writes_guarded
theorem C20.join_wait_as_modelled : type_of% C04.join_wait_as_modelled := C04.join_wait_as_modelled
theorem C20.reader_receive_window : type_of% C01.reader_receive_window := C01.reader_receive_window
theorem C20.close_loops_as_modelled : type_of% C01.close_loops_as_modelled := C01.close_loops_as_modelled
