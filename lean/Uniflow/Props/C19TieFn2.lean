/-
C19 – regenerated tie over Generated/AgentFuncs.lean (extract/funcs.go): the outline of EVERY function of the source
files named below – regenerated from /repo on every run – equals the transcript frozen here (bin/freeze_all.py, repo 7f54b88,
2026-10-01). A theorem that stops checking names the file whose code is no longer the code that was modelled; bin/check then
searches for a failing input.
-/
import Uniflow.Generated.AgentFuncs

set_option maxRecDepth 16384 in
/-- pkg/runtime/agent.go as modelled (part 1 of 2): its declarations (in source order) and the outline of each -/
theorem C19.src_runtime_agent_as_modelled_1 :
    Uniflow.Generated.AgentFuncs.o_runtime_agent_fn_NewAgent = [
      "return &Agent{ symbols: make(map[uuid.UUID]*symbol.Symbol), processes: make(map[uuid.UUID]*process.Process), frames: make(map[uuid.UUID][]*Frame), inbounds: make(map[uuid.UUID]map[string]port.OpenHook), outbounds: make(map[uuid.UUID]map[string]port.OpenHook), }"
    ] ∧
    Uniflow.Generated.AgentFuncs.o_runtime_agent_Agent_Watch = [
      "a.mu.Lock()",
      "defer a.mu.Unlock()",
      "for _, w := range a.watchers",
      "  if w == watcher",
      "    return false",
      "a.watchers = append(a.watchers, watcher)",
      "return true"
    ] ∧
    Uniflow.Generated.AgentFuncs.o_runtime_agent_Agent_Unwatch = [
      "a.mu.Lock()",
      "defer a.mu.Unlock()",
      "for i, w := range a.watchers",
      "  if w == watcher",
      "    a.watchers = append(a.watchers[:i:i], a.watchers[i+1:]...)",
      "    return true",
      "return false"
    ] ∧
    Uniflow.Generated.AgentFuncs.o_runtime_agent_Agent_Symbols = [
      "a.mu.RLock()",
      "defer a.mu.RUnlock()",
      "symbols := make([]*symbol.Symbol, 0, len(a.symbols))",
      "for _, sym := range a.symbols",
      "  symbols = append(symbols, sym)",
      "return symbols"
    ] ∧
    Uniflow.Generated.AgentFuncs.o_runtime_agent_Agent_Symbol = [
      "a.mu.RLock()",
      "defer a.mu.RUnlock()",
      "return a.symbols[id]"
    ] ∧
    Uniflow.Generated.AgentFuncs.o_runtime_agent_Agent_Processes = [
      "a.mu.RLock()",
      "defer a.mu.RUnlock()",
      "procs := make([]*process.Process, 0, len(a.processes))",
      "for _, proc := range a.processes",
      "  procs = append(procs, proc)",
      "return procs"
    ] ∧
    Uniflow.Generated.AgentFuncs.o_runtime_agent_Agent_Process = [
      "a.mu.RLock()",
      "defer a.mu.RUnlock()",
      "return a.processes[id]"
    ] ∧
    Uniflow.Generated.AgentFuncs.o_runtime_agent_Agent_Frames = [
      "a.mu.RLock()",
      "defer a.mu.RUnlock()",
      "return append([]*Frame(nil), a.frames[id]...)"
    ] ∧
    Uniflow.Generated.AgentFuncs.o_runtime_agent_Agent_Load = [
      "a.mu.Lock()",
      "defer a.mu.Unlock()",
      "inbounds := make(map[string]port.OpenHook)",
      "outbounds := make(map[string]port.OpenHook)",
      "a.symbols[sym.ID()] = sym",
      "a.inbounds[sym.ID()] = inbounds",
      "a.outbounds[sym.ID()] = outbounds",
      "for name, in := range sym.Ins()",
      "  hook := port.OpenHookFunc(func#1)",
      "  func#1(proc *process.Process)",
      "    a.accept(proc)",
      "    inboundHook, outboundHook := a.hooks(proc, sym, in, nil)",
      "    reader := in.Open(proc)",
      "    reader.AddInboundHook(inboundHook)",
      "    reader.AddOutboundHook(outboundHook)",
      "  in.AddOpenHook(hook)",
      "  inbounds[name] = hook",
      "for name, out := range sym.Outs()",
      "  hook := port.OpenHookFunc(func#2)",
      "  func#2(proc *process.Process)",
      "    a.accept(proc)",
      "    inboundHook, outboundHook := a.hooks(proc, sym, nil, out)",
      "    writer := out.Open(proc)",
      "    writer.AddInboundHook(inboundHook)",
      "    writer.AddOutboundHook(outboundHook)",
      "  out.AddOpenHook(hook)",
      "  outbounds[name] = hook",
      "return nil"
    ] ∧
    Uniflow.Generated.AgentFuncs.o_runtime_agent_Agent_Unload = [
      "a.mu.Lock()",
      "defer a.mu.Unlock()",
      "for name, hook := range a.inbounds[sym.ID()]",
      "  in := sym.In(name)",
      "  in.RemoveOpenHook(hook)",
      "for name, hook := range a.outbounds[sym.ID()]",
      "  out := sym.Out(name)",
      "  out.RemoveOpenHook(hook)",
      "delete(a.inbounds, sym.ID())",
      "delete(a.outbounds, sym.ID())",
      "delete(a.symbols, sym.ID())",
      "return nil"
    ] := by
  decide

set_option maxRecDepth 16384 in
/-- pkg/runtime/debugger.go as modelled (part 1 of 2): its declarations (in source order) and the outline of each -/
theorem C19.src_runtime_debugger_as_modelled_1 :
    Uniflow.Generated.AgentFuncs.o_runtime_debugger_fn_NewDebugger = [
      "return &Debugger{ agent: agent, in: make(chan *Breakpoint), done: make(chan struct{}), }"
    ] ∧
    Uniflow.Generated.AgentFuncs.o_runtime_debugger_Debugger_AddBreakpoint = [
      "d.wmu.Lock()",
      "defer d.wmu.Unlock()",
      "select",
      "  case <-d.done",
      "    return false",
      "  default",
      "for _, b := range d.breakpoints",
      "  if b == bp",
      "    return false",
      "d.breakpoints = append(d.breakpoints, bp)",
      "d.agent.Watch(bp)",
      "go d.next(bp)",
      "return true"
    ] ∧
    Uniflow.Generated.AgentFuncs.o_runtime_debugger_Debugger_RemoveBreakpoint = [
      "d.wmu.Lock()",
      "defer d.wmu.Unlock()",
      "for i, b := range d.breakpoints",
      "  if b == bp",
      "    d.breakpoints = append(d.breakpoints[:i], d.breakpoints[i+1:]...)",
      "    d.agent.Unwatch(bp)",
      "    bp.Close()",
      "    return true",
      "return false"
    ] ∧
    Uniflow.Generated.AgentFuncs.o_runtime_debugger_Debugger_Breakpoints = [
      "d.wmu.RLock()",
      "defer d.wmu.RUnlock()",
      "return append([]*Breakpoint(nil), d.breakpoints...)"
    ] ∧
    Uniflow.Generated.AgentFuncs.o_runtime_debugger_Debugger_Pause = [
      "d.rmu.Lock()",
      "defer d.rmu.Unlock()",
      "if d.current != nil",
      "  return true",
      "select",
      "  case d.current = <-d.in",
      "    return true",
      "  case <-d.done",
      "    return false",
      "  case <-ctx.Done()",
      "    return false"
    ] ∧
    Uniflow.Generated.AgentFuncs.o_runtime_debugger_Debugger_Step = [
      "d.rmu.Lock()",
      "defer d.rmu.Unlock()",
      "if d.current != nil",
      "  go d.next(d.current)",
      "select",
      "  case d.current = <-d.in",
      "    return true",
      "  case <-d.done",
      "    return false",
      "  case <-ctx.Done()",
      "    return false"
    ] ∧
    Uniflow.Generated.AgentFuncs.o_runtime_debugger_Debugger_Breakpoint = [
      "if d.rmu.TryRLock()",
      "  defer d.rmu.RUnlock()",
      "  return d.current",
      "return nil"
    ] ∧
    Uniflow.Generated.AgentFuncs.o_runtime_debugger_Debugger_Frame = [
      "if d.rmu.TryRLock()",
      "  defer d.rmu.RUnlock()",
      "  if d.current != nil",
      "    return d.current.Frame()",
      "return nil"
    ] ∧
    Uniflow.Generated.AgentFuncs.o_runtime_debugger_Debugger_Process = [
      "if d.rmu.TryRLock()",
      "  defer d.rmu.RUnlock()",
      "  if d.current != nil",
      "    frame := d.current.Frame()",
      "    if frame != nil",
      "      return frame.Process",
      "return nil"
    ] ∧
    Uniflow.Generated.AgentFuncs.o_runtime_debugger_Debugger_Symbol = [
      "if d.rmu.TryRLock()",
      "  defer d.rmu.RUnlock()",
      "  if d.current != nil",
      "    frame := d.current.Frame()",
      "    if frame != nil",
      "      return frame.Symbol",
      "    return d.current.Symbol()",
      "return nil"
    ] := by
  decide

