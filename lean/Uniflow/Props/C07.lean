/-
C07 — a symbol is active exactly when its whole reference closure is present.

Theorems about `Uniflow.Table` (model of `pkg/symbol/table.go`).
-/
import Uniflow.Proofs.Table
import Uniflow.Props.C06

namespace Uniflow.Table

/-! ### the closure predicate of the statement -/

/-- `s` is a symbol of the table. -/
def Live (st : State) (s : Sym) : Prop := aget s.id st.symbols = some s

/-- A port reference of `s` names the present symbol `t` of the same namespace. -/
def Edge (st : State) (s t : Sym) : Prop :=
  ∃ np ∈ s.ports, ∃ r ∈ np.2, aget (resolve st s.ns r) st.symbols = some t ∧ t.ns = s.ns

/-- `s` has a node and each of its port references names a present symbol of its namespace. -/
def LocalOK (st : State) (s : Sym) : Prop :=
  s.hasNode = true ∧ ∀ np ∈ s.ports, ∀ r ∈ np.2, ∃ t, aget (resolve st s.ns r) st.symbols = some t ∧ t.ns = s.ns

/-- Following port references transitively from `s`. -/
inductive Reach (st : State) (s : Sym) : Sym → Prop
  | refl : Reach st s s
  | step {t u : Sym} : Reach st s t → Edge st t u → Reach st s u

/-- "Its port references, followed transitively from the symbol itself, reach only present
symbols of the same namespace that have a node." -/
def ClosureOK (st : State) (s : Sym) : Prop := ∀ t, Reach st s t → LocalOK st t

theorem live_of_edge {st : State} (hk : KeyId st) {s t : Sym} (h : Edge st s t) : Live st t := by
  obtain ⟨np, _, r, _, h1, _⟩ := h
  have := hk _ _ h1
  unfold Live; rw [this]; exact h1

theorem live_inj {st : State} {s t : Sym} (hs : Live st s) (ht : Live st t) (e : s.id = t.id) : s = t := by
  unfold Live at hs ht; rw [e] at hs; rw [hs] at ht; exact Option.some.inj ht

/-! ### `isActivated`'s stack loop decides the closure predicate -/

theorem mem_refs (o : Ord) (ho : o.Valid) (k : Nat) (s : Sym) (r : Ref) :
    r ∈ (o.ports k s.ports).flatMap (·.2) ↔ ∃ np ∈ s.ports, r ∈ np.2 := by
  simp only [List.mem_flatMap]
  constructor
  · rintro ⟨np, h1, h2⟩; exact ⟨np, (ho.2.1 k _).mem_iff.mp h1, h2⟩
  · rintro ⟨np, h1, h2⟩; exact ⟨np, (ho.2.1 k _).mem_iff.mpr h1, h2⟩

theorem pushRefs_none (st : State) (c : Sym) (rs : List Ref) : rs.foldl (pushRefs st c) none = none := by
  induction rs with
  | nil => rfl
  | cons r rs ih => simpa [pushRefs] using ih

theorem pushRefs_fold (st : State) (c : Sym) (rs : List Ref) (stk : List Sym) :
    (rs.foldl (pushRefs st c) (some stk) = none →
        ∃ r ∈ rs, ¬ ∃ t, aget (resolve st c.ns r) st.symbols = some t ∧ t.ns = c.ns) ∧
    (∀ stk', rs.foldl (pushRefs st c) (some stk) = some stk' →
        (∀ r ∈ rs, ∃ t, aget (resolve st c.ns r) st.symbols = some t ∧ t.ns = c.ns ∧ t ∈ stk') ∧
        (∀ x ∈ stk, x ∈ stk') ∧
        (∀ x ∈ stk', x ∈ stk ∨ ∃ r ∈ rs, aget (resolve st c.ns r) st.symbols = some x ∧ x.ns = c.ns)) := by
  induction rs generalizing stk with
  | nil =>
    refine ⟨by simp, ?_⟩
    intro stk' h
    simp only [List.foldl_nil, Option.some.injEq] at h
    subst h
    exact ⟨by simp, fun _ h => h, fun _ h => Or.inl h⟩
  | cons r rs ih =>
    simp only [List.foldl_cons]
    cases hr : aget (resolve st c.ns r) st.symbols with
    | none =>
      have : pushRefs st c (some stk) r = none := by simp [pushRefs, hr]
      rw [this, pushRefs_none]
      exact ⟨fun _ => ⟨r, by simp, by simp [hr]⟩, by simp⟩
    | some t =>
      by_cases hns : t.ns = c.ns
      · have : pushRefs st c (some stk) r = some (t :: stk) := by simp [pushRefs, hr, hns]
        rw [this]
        obtain ⟨i1, i2⟩ := ih (t :: stk)
        constructor
        · intro h
          obtain ⟨r', h1, h2⟩ := i1 h
          exact ⟨r', List.mem_cons_of_mem _ h1, h2⟩
        · intro stk' h
          obtain ⟨j1, j2, j3⟩ := i2 stk' h
          refine ⟨?_, fun x hx => j2 x (List.mem_cons_of_mem _ hx), ?_⟩
          · intro r' hr'
            rcases List.mem_cons.mp hr' with e | hr'
            · subst e; exact ⟨t, hr, hns, j2 t (by simp)⟩
            · exact j1 r' hr'
          · intro x hx
            rcases j3 x hx with h | ⟨r', h1, h2⟩
            · rcases List.mem_cons.mp h with e | h
              · subst e; exact Or.inr ⟨r, by simp, hr, hns⟩
              · exact Or.inl h
            · exact Or.inr ⟨r', List.mem_cons_of_mem _ h1, h2⟩
      · have : pushRefs st c (some stk) r = none := by simp [pushRefs, hr, hns]
        rw [this, pushRefs_none]
        refine ⟨fun _ => ⟨r, by simp, ?_⟩, by simp⟩
        rintro ⟨t', h1, h2⟩
        rw [hr] at h1; cases h1; exact hns h2

/-- Loop invariant of `isActivated`. -/
structure ActInv (st : State) (sb : Sym) (stack : List Sym) (vis : List Nat) : Prop where
  hstack : ∀ s ∈ stack, Live st s ∧ Reach st sb s
  hvis : ∀ v ∈ vis, ∃ s, Live st s ∧ s.id = v ∧ LocalOK st s ∧
    ∀ t, Edge st s t → t.id ∈ vis ∨ t ∈ stack
  hroot : sb.id ∈ vis ∨ sb ∈ stack

theorem reach_live {st : State} (hk : KeyId st) {sb t : Sym} (hsb : Live st sb) (h : Reach st sb t) :
    Live st t := by
  cases h with
  | refl => exact hsb
  | step _ he => exact live_of_edge hk he

/-- Empty stack: the visited set contains `sb`, is closed under edges and locally fine. -/
theorem closed_imp_closure (st : State) (hk : KeyId st) (sb : Sym) (hsb : Live st sb) (vis : List Nat)
    (inv : ActInv st sb [] vis) : ClosureOK st sb := by
  have hall : ∀ t, Reach st sb t → t.id ∈ vis := by
    intro t ht
    induction ht with
    | refl => rcases inv.hroot with h | h; exact h; cases h
    | @step t' u hr he ih =>
      obtain ⟨s, hs, e, _, hcl⟩ := inv.hvis _ ih
      have hl : Live st t' := reach_live hk hsb hr
      have : s = t' := live_inj hs hl e
      subst this
      rcases hcl _ he with h | h; exact h; cases h
  intro t ht
  obtain ⟨s, hs, e, hl, _⟩ := inv.hvis _ (hall t ht)
  have hlt : Live st t := reach_live hk hsb ht
  have : s = t := live_inj hs hlt e
  subst this; exact hl

theorem actLoop_sound (o : Ord) (ho : o.Valid) (st : State) (hk : KeyId st) (sb : Sym) (hsb : Live st sb)
    (f : Nat) (stack : List Sym) (vis : List Nat) (b : Bool)
    (h : actLoop o st f stack vis = some b) (inv : ActInv st sb stack vis) :
    (b = true ↔ ClosureOK st sb) := by
  induction f generalizing stack vis with
  | zero =>
    cases stack with
    | cons c s => simp [actLoop] at h
    | nil =>
      simp only [actLoop, Option.some.injEq] at h
      subst h
      simp only [true_iff]
      exact closed_imp_closure st hk sb hsb vis inv
  | succ f ih =>
    cases stack with
    | nil =>
      -- same as above: empty stack
      simp only [actLoop, Option.some.injEq] at h
      subst h
      simp only [true_iff]
      exact closed_imp_closure st hk sb hsb vis inv
    | cons c stk =>
      obtain ⟨hcl, hcr⟩ := inv.hstack c (by simp)
      simp only [actLoop] at h
      split at h
      · -- already visited: pop
        rename_i hv
        refine ih stk vis h ⟨fun s hs => inv.hstack s (List.mem_cons_of_mem _ hs), ?_, ?_⟩
        · intro v hvv
          obtain ⟨s, h1, h2, h3, h4⟩ := inv.hvis v hvv
          refine ⟨s, h1, h2, h3, ?_⟩
          intro t ht
          rcases h4 t ht with h | h
          · exact Or.inl h
          · rcases List.mem_cons.mp h with e | h
            · subst e; exact Or.inl hv
            · exact Or.inr h
        · rcases inv.hroot with h | h
          · exact Or.inl h
          · rcases List.mem_cons.mp h with e | h
            · rw [e]; exact Or.inl hv
            · exact Or.inr h
      · rename_i hv
        split at h
        · -- no node: false
          rename_i hn
          simp only [Option.some.injEq] at h; subst h
          simp only [Bool.false_eq_true, false_iff]
          intro hc
          have := (hc c hcr).1
          simp [this] at hn
        · rename_i hn
          have hnode : c.hasNode = true := by simpa using hn
          obtain ⟨p1, p2⟩ := pushRefs_fold st c ((o.ports (2000 + f) c.ports).flatMap (·.2)) stk
          split at h
          · -- a reference is dangling / crosses namespaces: false
            rename_i hnone
            simp only [Option.some.injEq] at h; subst h
            simp only [Bool.false_eq_true, false_iff]
            intro hc
            obtain ⟨r, hr, hbad⟩ := p1 hnone
            obtain ⟨np, hnp, hrn⟩ := (mem_refs o ho _ c r).mp hr
            exact hbad ((hc c hcr).2 np hnp r hrn)
          · rename_i stk' hsome
            obtain ⟨q1, q2, q3⟩ := p2 stk' hsome
            have hloc : LocalOK st c := by
              refine ⟨hnode, ?_⟩
              intro np hnp r hr
              obtain ⟨t, h1, h2, _⟩ := q1 r ((mem_refs o ho _ c r).mpr ⟨np, hnp, hr⟩)
              exact ⟨t, h1, h2⟩
            refine ih stk' (c.id :: vis) h ⟨?_, ?_, ?_⟩
            · intro s hs
              rcases q3 s hs with h | ⟨r, hr, h1, h2⟩
              · exact inv.hstack s (List.mem_cons_of_mem _ h)
              · obtain ⟨np, hnp, hrn⟩ := (mem_refs o ho _ c r).mp hr
                have he : Edge st c s := ⟨np, hnp, r, hrn, h1, h2⟩
                exact ⟨live_of_edge hk he, Reach.step hcr he⟩
            · intro v hvv
              rcases List.mem_cons.mp hvv with e | hvv
              · subst e
                refine ⟨c, hcl, rfl, hloc, ?_⟩
                intro t ht
                obtain ⟨np, hnp, r, hr, h1, h2⟩ := ht
                obtain ⟨t', h1', _, h3'⟩ := q1 r ((mem_refs o ho _ c r).mpr ⟨np, hnp, hr⟩)
                rw [h1] at h1'; cases h1'
                exact Or.inr h3'
              · obtain ⟨s, h1, h2, h3, h4⟩ := inv.hvis v hvv
                refine ⟨s, h1, h2, h3, ?_⟩
                intro t ht
                rcases h4 t ht with h | h
                · exact Or.inl (List.mem_cons_of_mem _ h)
                · rcases List.mem_cons.mp h with e | h
                  · subst e; exact Or.inl (by simp)
                  · exact Or.inr (q2 t h)
            · rcases inv.hroot with h | h
              · exact Or.inl (List.mem_cons_of_mem _ h)
              · rcases List.mem_cons.mp h with e | h
                · rw [e]; exact Or.inl (by simp)
                · exact Or.inr (q2 _ h)

end Uniflow.Table

open Uniflow.Table

/-- **The activation test is the closure predicate of the statement.** For a symbol `sb` of
the table, `isActivated` (the predicate `load` / `unload` use to decide whether the hooks run)
answers true exactly when every symbol reached from `sb` by following port references
transitively has a node and all of *its* references name present symbols of its own namespace –
for every iteration order of Go's maps, every table state, cycles and self-references included.
(`isActivated` returning `none` is fuel exhaustion.) -/
theorem C07.isActivated_iff_closure (o : Ord) (ho : o.Valid) (st : State) (hk : KeyId st) (sb : Sym)
    (hsb : Live st sb) (b : Bool) (h : isActivated o st sb = some b) :
    (b = true ↔ ClosureOK st sb) := by
  unfold isActivated at h
  exact actLoop_sound o ho st hk sb hsb _ _ _ b h
    ⟨by intro s hs; simp at hs; subst hs; exact ⟨hsb, Reach.refl⟩, by simp, Or.inr (by simp)⟩

/-! ### `linked` lists every symbol at most once -/

namespace Uniflow.Table

/-- Well-formed degree map: one entry per key, each entry stored under its symbol's id. -/
def DegWF (d : Deg) : Prop := (keys d).Nodup ∧ ∀ p ∈ d, p.2.1.id = p.1

theorem degWF_dadd (d : Deg) (s : Sym) (k : Int) (h : DegWF d) : DegWF (dadd d s k) := by
  refine ⟨nodup_keys_aset _ _ h.1, ?_⟩
  intro p hp
  rcases mem_aset hp with e | hp
  · rw [e]
  · exact h.2 p hp

theorem degWF_fold_dadd (ns : List Sym) (d : Deg) (h : DegWF d) :
    DegWF (ns.foldl (fun d n => dadd d n 1) d) := by
  induction ns generalizing d with
  | nil => exact h
  | cons n ns ih => exact ih _ (degWF_dadd d n 1 h)

theorem degWF_bfs (o : Ord) (st : State) (f : Nat) (q : List Sym) (vis : List Nat) (d d' : Deg)
    (hr : bfs o st f q vis d = some d') (h : DegWF d) : DegWF d' := by
  induction f generalizing q vis d with
  | zero =>
    cases q with
    | nil => simp [bfs] at hr; subst hr; exact h
    | cons c q => simp [bfs] at hr
  | succ f ih =>
    cases q with
    | nil => simp [bfs] at hr; subst hr; exact h
    | cons c q =>
      simp only [bfs] at hr
      split at hr
      · exact ih _ _ _ hr h
      · exact ih _ _ _ hr (degWF_fold_dadd _ _ h)

theorem degWF_kahnStep_fold (ns : List Sym) (acc : Deg × List Sym) (h : DegWF acc.1) :
    DegWF (ns.foldl kahnStep acc).1 := by
  induction ns generalizing acc with
  | nil => exact h
  | cons n ns ih =>
    apply ih
    have : (kahnStep acc n).1 = dadd acc.1 n (-1) := by
      unfold kahnStep; simp only; split <;> rfl
    rw [this]; exact degWF_dadd _ _ _ h

theorem kahn_nodup (succ : Nat → Sym → List Sym) (f : Nat) (q out : List Sym) (deg : Deg)
    (res : List Sym × Deg) (hr : kahn succ f q out deg = some res)
    (hd : DegWF deg) (ho : (out.map (·.id)).Nodup) :
    DegWF res.2 ∧ (res.1.map (·.id)).Nodup := by
  induction f generalizing q out deg with
  | zero =>
    cases q with
    | nil => simp [kahn] at hr; subst hr; exact ⟨hd, ho⟩
    | cons c q => simp [kahn] at hr
  | succ f ih =>
    cases q with
    | nil => simp [kahn] at hr; subst hr; exact ⟨hd, ho⟩
    | cons c q =>
      simp only [kahn] at hr
      split at hr
      · exact ih _ _ _ hr hd ho
      · rename_i hany
        refine ih _ _ _ hr (degWF_kahnStep_fold _ (deg, q) hd) ?_
        rw [List.map_append]
        refine List.nodup_append.mpr ⟨ho, by simp, ?_⟩
        intro a ha b hb
        simp only [List.map_cons, List.map_nil, List.mem_singleton] at hb
        subst hb
        intro e
        apply hany
        obtain ⟨s, hs, e'⟩ := List.mem_map.mp ha
        simp only [List.any_eq_true, decide_eq_true_eq]
        exact ⟨s, hs, e'.trans e⟩

end Uniflow.Table

/-- **No symbol is notified twice in one pass.** The list `linked(sb)` that `load` and `unload`
walk contains every symbol at most once – for every state, every iteration order, cyclic
reference graphs included. (On the pinned tree the root was listed twice when it lies on a cycle
that never drains, so its load hooks ran twice in one operation and the notifications did not
alternate; `C07.linked_dup_on_pinned` replays that witness on the unfixed loop.) -/
theorem C07.linked_nodup (o : Ord) (ho : o.Valid) (st : State) (sb : Sym) (l : List Sym)
    (h : linked o st sb = some l) : (l.map (·.id)).Nodup := by
  unfold linked at h
  cases hb : bfs o st (fuelOf st) [sb] [] [] with
  | none => rw [hb] at h; cases h
  | some deg =>
    rw [hb] at h
    simp only at h
    have hd : DegWF deg := degWF_bfs o st _ _ _ _ _ hb ⟨by simp [keys], by simp⟩
    cases hk : kahn (fun f c => referrers o (1000 + f) st c) (fuelOf st) [sb] [] deg with
    | none => rw [hk] at h; cases h
    | some res =>
      obtain ⟨out, deg'⟩ := res
      rw [hk] at h
      simp only [Option.some.injEq] at h
      obtain ⟨hd', hout⟩ := kahn_nodup _ _ _ _ _ _ hk hd (by simp)
      subst h
      rw [List.map_append]
      refine List.nodup_append.mpr ⟨hout, ?_, ?_⟩
      · -- the left-over part: a sub-multiset of the (duplicate-free) keys
        have hperm : ((o.deg 1 deg').map (·.1)).Nodup := ((ho.2.2 1 deg').map _).nodup_iff.mpr hd'.1
        have hsub : (((o.deg 1 deg').filter
            (fun p => p.2.2 ≠ 0 && !(out.any (fun s => s.id = p.1)))).map (·.1)).Nodup :=
          (List.Sublist.map _ List.filter_sublist).nodup hperm
        have heq : (((o.deg 1 deg').filter
            (fun p => p.2.2 ≠ 0 && !(out.any (fun s => s.id = p.1)))).map (·.2.1)).map (·.id)
            = ((o.deg 1 deg').filter
            (fun p => p.2.2 ≠ 0 && !(out.any (fun s => s.id = p.1)))).map (·.1) := by
          rw [List.map_map]
          apply List.map_congr_left
          intro p hp
          exact hd'.2 p ((ho.2.2 1 deg').mem_iff.mp (List.mem_filter.mp hp).1)
        rw [heq]; exact hsub
      · intro a ha b hb e
        subst e
        obtain ⟨s, hs, e1⟩ := List.mem_map.mp ha
        obtain ⟨t, ht, e2⟩ := List.mem_map.mp hb
        obtain ⟨p, hp, e3⟩ := List.mem_map.mp ht
        have hf := (List.mem_filter.mp hp).2
        simp only [Bool.and_eq_true, Bool.not_eq_true', List.any_eq_false, decide_eq_true_eq] at hf
        have hpid : p.2.1.id = p.1 := hd'.2 p ((ho.2.2 1 deg').mem_iff.mp (List.mem_filter.mp hp).1)
        apply hf.2 s hs
        rw [e1, ← e2, ← e3, hpid]

/-! ### witnesses -/

namespace Uniflow.Table.C07Ex

/-- `linked` of the pinned tree: the final loop appends every symbol with a non-zero count. -/
def linkedPinned (o : Ord) (st : State) (sb : Sym) : Option (List Sym) :=
  match bfs o st (fuelOf st) [sb] [] [] with
  | none => none
  | some deg =>
    match kahn (fun f c => referrers o (1000 + f) st c) (fuelOf st) [sb] [] deg with
    | none => none
    | some (out, deg') => some (out ++ ((o.deg 1 deg').filter (fun p => p.2.2 ≠ 0)).map (·.2.1))

/-- 1 → 2, 1 → 1, 2 → 1 (corpus/C07/cycle-double-load.ops). -/
def a : Sym := Sym.mk 1 0 0 true [5] [6, 9] none [(6, [Ref.mk 2 0 5, Ref.mk 1 0 5])]
def b : Sym := Sym.mk 2 0 0 true [5] [6, 9] none [(6, [Ref.mk 1 0 5])]
def st : State := run Ord.id {} [.insert a, .insert b]

end Uniflow.Table.C07Ex

open Uniflow.Table.C07Ex in
/-- The defect of the pinned tree, replayed on the model: the unfixed final loop lists the root
twice (`[2, 1, 2]`), the fixed `linked` lists `[2, 1]`; both symbols are activated. -/
theorem C07.linked_dup_on_pinned :
    (linkedPinned Ord.id st b).map (·.map (·.id)) = some [2, 1, 2] ∧
    (linked Ord.id st b).map (·.map (·.id)) = some [2, 1] ∧
    isActivated Ord.id st a = some true ∧ isActivated Ord.id st b = some true := by
  decide +kernel

/-- The hypothesis `KeyId` of the theorems above holds in every reachable state. -/
theorem C07.reachable_keyId (o : Ord) (h : List Op) : KeyId (run o {} h) := by
  have gen : ∀ (h : List Op) (st : State), KeyId st → KeyId (run o st h) := by
    intro h
    induction h with
    | nil => intro st hk; exact hk
    | cons op ops ih => intro st hk; exact ih _ (keyId_step o st op hk)
  exact gen h {} (by intro k s h; cases h)

open Uniflow.Table.C07Ex in
/-- Non-vacuity of `C07.isActivated_iff_closure` / `C07.linked_nodup`: a reachable cyclic table
with two live symbols, both activated (see `C07.linked_dup_on_pinned`). -/
theorem C07.isActivated_iff_closure_nonvacuous :
    aget a.id st.symbols = some a ∧ aget b.id st.symbols = some b ∧ st.symbols.map (·.1) = [1, 2] := by
  decide +kernel

/-! ### full history-level statements (NOT proved)

What is proved above: the activation test equals the closure predicate in every reachable state
(`C07.isActivated_iff_closure` + `C07.reachable_keyId`), one pass never notifies a symbol twice
(`C07.linked_nodup`), a pass notifies exactly the activated symbols of `linked`, each with one
complete block (`C08.lifecycle_order_*`), and the wiring / name index are exact (`C06.*`).
Missing for the history-level statements below: `references_exact` (the reverse index has the
same support as the spec graph, through the `unlinks` filter), completeness of `linked`'s two
queue loops (every transitive referrer is listed) and fuel sufficiency; they are checked by the
correspondence runs and the C07 oracle only. -/

/-- At every quiescent point the symbols loaded and not unloaded are exactly those whose
reference closure is present. -/
def C07.active_iff_closure_full : Prop :=
  ∀ (o : Ord), o.Valid → ∀ h : List Op, WfRun o {} h → OkRun o {} h → ∀ k,
    activeIn (run o {} h).log k ↔
      ∃ s, aget k (run o {} h).symbols = some s ∧ ClosureOK (run o {} h) s

/-- Load and unload notifications of a symbol strictly alternate, starting with load. -/
def C07.alternation_full : Prop :=
  ∀ (o : Ord), o.Valid → ∀ h : List Op, WfRun o {} h → OkRun o {} h → ∀ k pre,
    pre <+: (run o {} h).log → balance k pre = 0 ∨ balance k pre = 1

/-- A symbol is unloaded before its node is closed. -/
def C07.unload_before_close_full : Prop :=
  ∀ (o : Ord), o.Valid → ∀ h : List Op, WfRun o {} h → OkRun o {} h → ∀ k pre,
    (pre ++ [Event.close k]) <+: (run o {} h).log → balance k pre = 0

/-- Closing the table unloads every active symbol. -/
def C07.close_unloads_all_full : Prop :=
  ∀ (o : Ord), o.Valid → ∀ h : List Op, WfRun o {} (h ++ [.close]) → OkRun o {} (h ++ [.close]) →
    ∀ k, ¬ activeIn (run o {} (h ++ [.close])).log k
