/-
C07 — a symbol is active exactly when its whole reference closure is present.

Theorems about `Uniflow.Table` (model of `pkg/symbol/table.go`).
-/
import Uniflow.Proofs.Table
import Uniflow.Props.C06
import Uniflow.Proofs.TableRefs
import Uniflow.Proofs.TableFuel

namespace Uniflow.Table

/-! ### the closure predicate of the statement -/

/-- `s` is a symbol of the table. -/
def Live (st : State) (s : Sym) : Prop := aget s.id st.symbols = some s

/-- A port reference of `s` names the present symbol `t` of the same namespace. -/
def Edge (st : State) (s t : Sym) : Prop :=
  ∃ np ∈ s.ports, ∃ r ∈ np.2, aget (resolve st s.ns r) st.symbols = some t ∧ t.ns = s.ns

/-- `s` has a node and each of its port references names a present symbol of its namespace. -/
def LocalOK (st : State) (s : Sym) : Prop :=
  s.hasNode = true ∧ ∀ np ∈ s.ports, ∀ r ∈ np.2, ∃ t, aget (resolve st s.ns r) st.symbols = some t ∧ t.ns = s.ns

/-- Following port references transitively from `s`. -/
inductive Reach (st : State) (s : Sym) : Sym → Prop
  | refl : Reach st s s
  | step {t u : Sym} : Reach st s t → Edge st t u → Reach st s u

/-- "Its port references, followed transitively from the symbol itself, reach only present
symbols of the same namespace that have a node." -/
def ClosureOK (st : State) (s : Sym) : Prop := ∀ t, Reach st s t → LocalOK st t

theorem live_of_edge {st : State} (hk : KeyId st) {s t : Sym} (h : Edge st s t) : Live st t := by
  obtain ⟨np, _, r, _, h1, _⟩ := h
  have := hk _ _ h1
  unfold Live; rw [this]; exact h1

theorem live_inj {st : State} {s t : Sym} (hs : Live st s) (ht : Live st t) (e : s.id = t.id) : s = t := by
  unfold Live at hs ht; rw [e] at hs; rw [hs] at ht; exact Option.some.inj ht

/-! ### `isActivated`'s stack loop decides the closure predicate -/

theorem mem_refs (o : Ord) (ho : o.Valid) (k : Nat) (s : Sym) (r : Ref) :
    r ∈ (o.ports k s.ports).flatMap (·.2) ↔ ∃ np ∈ s.ports, r ∈ np.2 := by
  simp only [List.mem_flatMap]
  constructor
  · rintro ⟨np, h1, h2⟩; exact ⟨np, (ho.2.1 k _).mem_iff.mp h1, h2⟩
  · rintro ⟨np, h1, h2⟩; exact ⟨np, (ho.2.1 k _).mem_iff.mpr h1, h2⟩

theorem pushRefs_none (st : State) (c : Sym) (rs : List Ref) : rs.foldl (pushRefs st c) none = none := by
  induction rs with
  | nil => rfl
  | cons r rs ih => simpa [pushRefs] using ih

theorem pushRefs_fold (st : State) (c : Sym) (rs : List Ref) (stk : List Sym) :
    (rs.foldl (pushRefs st c) (some stk) = none →
        ∃ r ∈ rs, ¬ ∃ t, aget (resolve st c.ns r) st.symbols = some t ∧ t.ns = c.ns) ∧
    (∀ stk', rs.foldl (pushRefs st c) (some stk) = some stk' →
        (∀ r ∈ rs, ∃ t, aget (resolve st c.ns r) st.symbols = some t ∧ t.ns = c.ns ∧ t ∈ stk') ∧
        (∀ x ∈ stk, x ∈ stk') ∧
        (∀ x ∈ stk', x ∈ stk ∨ ∃ r ∈ rs, aget (resolve st c.ns r) st.symbols = some x ∧ x.ns = c.ns)) := by
  induction rs generalizing stk with
  | nil =>
    refine ⟨by simp, ?_⟩
    intro stk' h
    simp only [List.foldl_nil, Option.some.injEq] at h
    subst h
    exact ⟨by simp, fun _ h => h, fun _ h => Or.inl h⟩
  | cons r rs ih =>
    simp only [List.foldl_cons]
    cases hr : aget (resolve st c.ns r) st.symbols with
    | none =>
      have : pushRefs st c (some stk) r = none := by simp [pushRefs, hr]
      rw [this, pushRefs_none]
      exact ⟨fun _ => ⟨r, by simp, by simp [hr]⟩, by simp⟩
    | some t =>
      by_cases hns : t.ns = c.ns
      · have : pushRefs st c (some stk) r = some (t :: stk) := by simp [pushRefs, hr, hns]
        rw [this]
        obtain ⟨i1, i2⟩ := ih (t :: stk)
        constructor
        · intro h
          obtain ⟨r', h1, h2⟩ := i1 h
          exact ⟨r', List.mem_cons_of_mem _ h1, h2⟩
        · intro stk' h
          obtain ⟨j1, j2, j3⟩ := i2 stk' h
          refine ⟨?_, fun x hx => j2 x (List.mem_cons_of_mem _ hx), ?_⟩
          · intro r' hr'
            rcases List.mem_cons.mp hr' with e | hr'
            · subst e; exact ⟨t, hr, hns, j2 t (by simp)⟩
            · exact j1 r' hr'
          · intro x hx
            rcases j3 x hx with h | ⟨r', h1, h2⟩
            · rcases List.mem_cons.mp h with e | h
              · subst e; exact Or.inr ⟨r, by simp, hr, hns⟩
              · exact Or.inl h
            · exact Or.inr ⟨r', List.mem_cons_of_mem _ h1, h2⟩
      · have : pushRefs st c (some stk) r = none := by simp [pushRefs, hr, hns]
        rw [this, pushRefs_none]
        refine ⟨fun _ => ⟨r, by simp, ?_⟩, by simp⟩
        rintro ⟨t', h1, h2⟩
        rw [hr] at h1; cases h1; exact hns h2

/-- Loop invariant of `isActivated`. -/
structure ActInv (st : State) (sb : Sym) (stack : List Sym) (vis : List Nat) : Prop where
  hstack : ∀ s ∈ stack, Live st s ∧ Reach st sb s
  hvis : ∀ v ∈ vis, ∃ s, Live st s ∧ s.id = v ∧ LocalOK st s ∧
    ∀ t, Edge st s t → t.id ∈ vis ∨ t ∈ stack
  hroot : sb.id ∈ vis ∨ sb ∈ stack

theorem reach_live {st : State} (hk : KeyId st) {sb t : Sym} (hsb : Live st sb) (h : Reach st sb t) :
    Live st t := by
  cases h with
  | refl => exact hsb
  | step _ he => exact live_of_edge hk he

/-- Empty stack: the visited set contains `sb`, is closed under edges and locally fine. -/
theorem closed_imp_closure (st : State) (hk : KeyId st) (sb : Sym) (hsb : Live st sb) (vis : List Nat)
    (inv : ActInv st sb [] vis) : ClosureOK st sb := by
  have hall : ∀ t, Reach st sb t → t.id ∈ vis := by
    intro t ht
    induction ht with
    | refl => rcases inv.hroot with h | h; exact h; cases h
    | @step t' u hr he ih =>
      obtain ⟨s, hs, e, _, hcl⟩ := inv.hvis _ ih
      have hl : Live st t' := reach_live hk hsb hr
      have : s = t' := live_inj hs hl e
      subst this
      rcases hcl _ he with h | h; exact h; cases h
  intro t ht
  obtain ⟨s, hs, e, hl, _⟩ := inv.hvis _ (hall t ht)
  have hlt : Live st t := reach_live hk hsb ht
  have : s = t := live_inj hs hlt e
  subst this; exact hl

theorem actLoop_sound (o : Ord) (ho : o.Valid) (st : State) (hk : KeyId st) (sb : Sym) (hsb : Live st sb)
    (f : Nat) (stack : List Sym) (vis : List Nat) (b : Bool)
    (h : actLoop o st f stack vis = some b) (inv : ActInv st sb stack vis) :
    (b = true ↔ ClosureOK st sb) := by
  induction f generalizing stack vis with
  | zero =>
    cases stack with
    | cons c s => simp [actLoop] at h
    | nil =>
      simp only [actLoop, Option.some.injEq] at h
      subst h
      simp only [true_iff]
      exact closed_imp_closure st hk sb hsb vis inv
  | succ f ih =>
    cases stack with
    | nil =>
      -- same as above: empty stack
      simp only [actLoop, Option.some.injEq] at h
      subst h
      simp only [true_iff]
      exact closed_imp_closure st hk sb hsb vis inv
    | cons c stk =>
      obtain ⟨hcl, hcr⟩ := inv.hstack c (by simp)
      simp only [actLoop] at h
      split at h
      · -- already visited: pop
        rename_i hv
        refine ih stk vis h ⟨fun s hs => inv.hstack s (List.mem_cons_of_mem _ hs), ?_, ?_⟩
        · intro v hvv
          obtain ⟨s, h1, h2, h3, h4⟩ := inv.hvis v hvv
          refine ⟨s, h1, h2, h3, ?_⟩
          intro t ht
          rcases h4 t ht with h | h
          · exact Or.inl h
          · rcases List.mem_cons.mp h with e | h
            · subst e; exact Or.inl hv
            · exact Or.inr h
        · rcases inv.hroot with h | h
          · exact Or.inl h
          · rcases List.mem_cons.mp h with e | h
            · rw [e]; exact Or.inl hv
            · exact Or.inr h
      · rename_i hv
        split at h
        · -- no node: false
          rename_i hn
          simp only [Option.some.injEq] at h; subst h
          simp only [Bool.false_eq_true, false_iff]
          intro hc
          have := (hc c hcr).1
          simp [this] at hn
        · rename_i hn
          have hnode : c.hasNode = true := by simpa using hn
          obtain ⟨p1, p2⟩ := pushRefs_fold st c ((o.ports (2000 + f) c.ports).flatMap (·.2)) stk
          split at h
          · -- a reference is dangling / crosses namespaces: false
            rename_i hnone
            simp only [Option.some.injEq] at h; subst h
            simp only [Bool.false_eq_true, false_iff]
            intro hc
            obtain ⟨r, hr, hbad⟩ := p1 hnone
            obtain ⟨np, hnp, hrn⟩ := (mem_refs o ho _ c r).mp hr
            exact hbad ((hc c hcr).2 np hnp r hrn)
          · rename_i stk' hsome
            obtain ⟨q1, q2, q3⟩ := p2 stk' hsome
            have hloc : LocalOK st c := by
              refine ⟨hnode, ?_⟩
              intro np hnp r hr
              obtain ⟨t, h1, h2, _⟩ := q1 r ((mem_refs o ho _ c r).mpr ⟨np, hnp, hr⟩)
              exact ⟨t, h1, h2⟩
            refine ih stk' (c.id :: vis) h ⟨?_, ?_, ?_⟩
            · intro s hs
              rcases q3 s hs with h | ⟨r, hr, h1, h2⟩
              · exact inv.hstack s (List.mem_cons_of_mem _ h)
              · obtain ⟨np, hnp, hrn⟩ := (mem_refs o ho _ c r).mp hr
                have he : Edge st c s := ⟨np, hnp, r, hrn, h1, h2⟩
                exact ⟨live_of_edge hk he, Reach.step hcr he⟩
            · intro v hvv
              rcases List.mem_cons.mp hvv with e | hvv
              · subst e
                refine ⟨c, hcl, rfl, hloc, ?_⟩
                intro t ht
                obtain ⟨np, hnp, r, hr, h1, h2⟩ := ht
                obtain ⟨t', h1', _, h3'⟩ := q1 r ((mem_refs o ho _ c r).mpr ⟨np, hnp, hr⟩)
                rw [h1] at h1'; cases h1'
                exact Or.inr h3'
              · obtain ⟨s, h1, h2, h3, h4⟩ := inv.hvis v hvv
                refine ⟨s, h1, h2, h3, ?_⟩
                intro t ht
                rcases h4 t ht with h | h
                · exact Or.inl (List.mem_cons_of_mem _ h)
                · rcases List.mem_cons.mp h with e | h
                  · subst e; exact Or.inl (by simp)
                  · exact Or.inr (q2 t h)
            · rcases inv.hroot with h | h
              · exact Or.inl (List.mem_cons_of_mem _ h)
              · rcases List.mem_cons.mp h with e | h
                · rw [e]; exact Or.inl (by simp)
                · exact Or.inr (q2 _ h)

end Uniflow.Table

open Uniflow.Table

/-- **The activation test is the closure predicate of the statement.** For a symbol `sb` of
the table, `isActivated` (the predicate `load` / `unload` use to decide whether the hooks run)
answers true exactly when every symbol reached from `sb` by following port references
transitively has a node and all of *its* references name present symbols of its own namespace –
for every iteration order of Go's maps, every table state, cycles and self-references included.
(`isActivated` returning `none` is fuel exhaustion.) -/
theorem C07.isActivated_iff_closure (o : Ord) (ho : o.Valid) (st : State) (hk : KeyId st) (sb : Sym)
    (hsb : Live st sb) (b : Bool) (h : isActivated o st sb = some b) :
    (b = true ↔ ClosureOK st sb) := by
  unfold isActivated at h
  exact actLoop_sound o ho st hk sb hsb _ _ _ b h
    ⟨by intro s hs; simp at hs; subst hs; exact ⟨hsb, Reach.refl⟩, by simp, Or.inr (by simp)⟩

/-! ### `linked` lists every symbol at most once -/

namespace Uniflow.Table

/-- Well-formed degree map: one entry per key, each entry stored under its symbol's id. -/
def DegWF (d : Deg) : Prop := (keys d).Nodup ∧ ∀ p ∈ d, p.2.1.id = p.1

theorem degWF_dadd (d : Deg) (s : Sym) (k : Int) (h : DegWF d) : DegWF (dadd d s k) := by
  refine ⟨nodup_keys_aset _ _ h.1, ?_⟩
  intro p hp
  rcases mem_aset hp with e | hp
  · rw [e]
  · exact h.2 p hp

theorem degWF_fold_dadd (ns : List Sym) (d : Deg) (h : DegWF d) :
    DegWF (ns.foldl (fun d n => dadd d n 1) d) := by
  induction ns generalizing d with
  | nil => exact h
  | cons n ns ih => exact ih _ (degWF_dadd d n 1 h)

theorem degWF_bfs (o : Ord) (st : State) (f : Nat) (q : List Sym) (vis : List Nat) (d d' : Deg)
    (hr : bfs o st f q vis d = some d') (h : DegWF d) : DegWF d' := by
  induction f generalizing q vis d with
  | zero =>
    cases q with
    | nil => simp [bfs] at hr; subst hr; exact h
    | cons c q => simp [bfs] at hr
  | succ f ih =>
    cases q with
    | nil => simp [bfs] at hr; subst hr; exact h
    | cons c q =>
      simp only [bfs] at hr
      split at hr
      · exact ih _ _ _ hr h
      · exact ih _ _ _ hr (degWF_fold_dadd _ _ h)

theorem degWF_kahnStep_fold (ns : List Sym) (acc : Deg × List Sym) (h : DegWF acc.1) :
    DegWF (ns.foldl kahnStep acc).1 := by
  induction ns generalizing acc with
  | nil => exact h
  | cons n ns ih =>
    apply ih
    have : (kahnStep acc n).1 = dadd acc.1 n (-1) := by
      unfold kahnStep; simp only; split <;> rfl
    rw [this]; exact degWF_dadd _ _ _ h

theorem kahn_nodup (succ : Nat → Sym → List Sym) (f : Nat) (q out : List Sym) (deg : Deg)
    (res : List Sym × Deg) (hr : kahn succ f q out deg = some res)
    (hd : DegWF deg) (ho : (out.map (·.id)).Nodup) :
    DegWF res.2 ∧ (res.1.map (·.id)).Nodup := by
  induction f generalizing q out deg with
  | zero =>
    cases q with
    | nil => simp [kahn] at hr; subst hr; exact ⟨hd, ho⟩
    | cons c q => simp [kahn] at hr
  | succ f ih =>
    cases q with
    | nil => simp [kahn] at hr; subst hr; exact ⟨hd, ho⟩
    | cons c q =>
      simp only [kahn] at hr
      split at hr
      · exact ih _ _ _ hr hd ho
      · rename_i hany
        refine ih _ _ _ hr (degWF_kahnStep_fold _ (deg, q) hd) ?_
        rw [List.map_append]
        refine List.nodup_append.mpr ⟨ho, by simp, ?_⟩
        intro a ha b hb
        simp only [List.map_cons, List.map_nil, List.mem_singleton] at hb
        subst hb
        intro e
        apply hany
        obtain ⟨s, hs, e'⟩ := List.mem_map.mp ha
        simp only [List.any_eq_true, decide_eq_true_eq]
        exact ⟨s, hs, e'.trans e⟩

end Uniflow.Table

/-- **No symbol is notified twice in one pass.** The list `linked(sb)` that `load` and `unload`
walk contains every symbol at most once – for every state, every iteration order, cyclic
reference graphs included. (On the pinned tree the root was listed twice when it lies on a cycle
that never drains, so its load hooks ran twice in one operation and the notifications did not
alternate; `C07.linked_dup_on_pinned` replays that witness on the unfixed loop.) -/
theorem C07.linked_nodup (o : Ord) (ho : o.Valid) (st : State) (sb : Sym) (l : List Sym)
    (h : linked o st sb = some l) : (l.map (·.id)).Nodup := by
  unfold linked at h
  cases hb : bfs o st (bfsFuel st) [sb] [] [] with
  | none => rw [hb] at h; cases h
  | some deg =>
    rw [hb] at h
    simp only at h
    have hd : DegWF deg := degWF_bfs o st _ _ _ _ _ hb ⟨by simp [keys], by simp⟩
    cases hk : kahn (fun f c => referrers o (1000 + f) st c) (kahnFuel [sb] deg) [sb] [] deg with
    | none => rw [hk] at h; cases h
    | some res =>
      obtain ⟨out, deg'⟩ := res
      rw [hk] at h
      simp only [Option.some.injEq] at h
      obtain ⟨hd', hout⟩ := kahn_nodup _ _ _ _ _ _ hk hd (by simp)
      subst h
      rw [List.map_append]
      refine List.nodup_append.mpr ⟨hout, ?_, ?_⟩
      · -- the left-over part: a sub-multiset of the (duplicate-free) keys
        have hperm : ((o.deg 1 deg').map (·.1)).Nodup := ((ho.2.2 1 deg').map _).nodup_iff.mpr hd'.1
        have hsub : (((o.deg 1 deg').filter
            (fun p => p.2.2 ≠ 0 && !(out.any (fun s => s.id = p.1)))).map (·.1)).Nodup :=
          (List.Sublist.map _ List.filter_sublist).nodup hperm
        have heq : (((o.deg 1 deg').filter
            (fun p => p.2.2 ≠ 0 && !(out.any (fun s => s.id = p.1)))).map (·.2.1)).map (·.id)
            = ((o.deg 1 deg').filter
            (fun p => p.2.2 ≠ 0 && !(out.any (fun s => s.id = p.1)))).map (·.1) := by
          rw [List.map_map]
          apply List.map_congr_left
          intro p hp
          exact hd'.2 p ((ho.2.2 1 deg').mem_iff.mp (List.mem_filter.mp hp).1)
        rw [heq]; exact hsub
      · intro a ha b hb e
        subst e
        obtain ⟨s, hs, e1⟩ := List.mem_map.mp ha
        obtain ⟨t, ht, e2⟩ := List.mem_map.mp hb
        obtain ⟨p, hp, e3⟩ := List.mem_map.mp ht
        have hf := (List.mem_filter.mp hp).2
        simp only [Bool.and_eq_true, Bool.not_eq_true', List.any_eq_false, decide_eq_true_eq] at hf
        have hpid : p.2.1.id = p.1 := hd'.2 p ((ho.2.2 1 deg').mem_iff.mp (List.mem_filter.mp hp).1)
        apply hf.2 s hs
        rw [e1, ← e2, ← e3, hpid]

/-! ### witnesses -/

namespace Uniflow.Table.C07Ex

/-- `linked` of the pinned tree: the final loop appends every symbol with a non-zero count. -/
def linkedPinned (o : Ord) (st : State) (sb : Sym) : Option (List Sym) :=
  match bfs o st (bfsFuel st) [sb] [] [] with
  | none => none
  | some deg =>
    match kahn (fun f c => referrers o (1000 + f) st c) (kahnFuel [sb] deg) [sb] [] deg with
    | none => none
    | some (out, deg') => some (out ++ ((o.deg 1 deg').filter (fun p => p.2.2 ≠ 0)).map (·.2.1))

/-- 1 → 2, 1 → 1, 2 → 1 (corpus/C07/cycle-double-load.ops). -/
def a : Sym := Sym.mk 1 0 0 true [5] [6, 9] none [(6, [Ref.mk 2 0 5, Ref.mk 1 0 5])]
def b : Sym := Sym.mk 2 0 0 true [5] [6, 9] none [(6, [Ref.mk 1 0 5])]
def st : State := run Ord.id {} [.insert a, .insert b]

end Uniflow.Table.C07Ex

open Uniflow.Table.C07Ex in
/-- The defect of the pinned tree, replayed on the model: the unfixed final loop lists the root
twice (`[2, 1, 2]`), the fixed `linked` lists `[2, 1]`; both symbols are activated. -/
theorem C07.linked_dup_on_pinned :
    (linkedPinned Ord.id st b).map (·.map (·.id)) = some [2, 1, 2] ∧
    (linked Ord.id st b).map (·.map (·.id)) = some [2, 1] ∧
    isActivated Ord.id st a = some true ∧ isActivated Ord.id st b = some true := by
  decide +kernel

/-- The hypothesis `KeyId` of the theorems above holds in every reachable state. -/
theorem C07.reachable_keyId (o : Ord) (h : List Op) : KeyId (run o {} h) := by
  have gen : ∀ (h : List Op) (st : State), KeyId st → KeyId (run o st h) := by
    intro h
    induction h with
    | nil => intro st hk; exact hk
    | cons op ops ih => intro st hk; exact ih _ (keyId_step o st op hk)
  exact gen h {} (by intro k s h; cases h)

open Uniflow.Table.C07Ex in
/-- Non-vacuity of `C07.isActivated_iff_closure` / `C07.linked_nodup`: a reachable cyclic table
with two live symbols, both activated (see `C07.linked_dup_on_pinned`). -/
theorem C07.isActivated_iff_closure_nonvacuous :
    aget a.id st.symbols = some a ∧ aget b.id st.symbols = some b ∧ st.symbols.map (·.1) = [1, 2] := by
  decide +kernel

/-! ### full history-level statements

The statements are the `def … _full : Prop` below; they are proved at the end of this file
(`C07.active_iff_closure`, `C07.alternation`, `C07.unload_before_close`, `C07.close_unloads_all`)
from `references_exact` (`Proofs/TableRefs.lean`), the exact characterisation of `linked`
(`linked_spec`), fuel sufficiency (`Proofs/TableFuel.lean`) and the frame lemma `Frame.closure`. -/

/-- At every quiescent point the symbols loaded and not unloaded are exactly those whose
reference closure is present. -/
def C07.active_iff_closure_full : Prop :=
  ∀ (o : Ord), o.Valid → ∀ h : List Op, WfRun o {} h → OkRun o {} h → ∀ k,
    activeIn (run o {} h).log k ↔
      ∃ s, aget k (run o {} h).symbols = some s ∧ ClosureOK (run o {} h) s

/-- Load and unload notifications of a symbol strictly alternate, starting with load. -/
def C07.alternation_full : Prop :=
  ∀ (o : Ord), o.Valid → ∀ h : List Op, WfRun o {} h → OkRun o {} h → ∀ k pre,
    pre <+: (run o {} h).log → balance k pre = 0 ∨ balance k pre = 1

/-- A symbol is unloaded before its node is closed. -/
def C07.unload_before_close_full : Prop :=
  ∀ (o : Ord), o.Valid → ∀ h : List Op, WfRun o {} h → OkRun o {} h → ∀ k pre,
    (pre ++ [Event.close k]) <+: (run o {} h).log → balance k pre = 0

/-- Closing the table unloads every active symbol. -/
def C07.close_unloads_all_full : Prop :=
  ∀ (o : Ord), o.Valid → ∀ h : List Op, WfRun o {} (h ++ [.close]) → OkRun o {} (h ++ [.close]) →
    ∀ k, ¬ activeIn (run o {} (h ++ [.close])).log k

namespace Uniflow.Table

/-! ### `linked` lists exactly the transitive referrers -/

/-- `x` reaches `sb` by following port references (defined from `sb` backwards). -/
inductive RReach (st : State) (sb : Sym) : Sym → Prop
  | refl : RReach st sb sb
  | step {x y : Sym} : RReach st sb y → Edge st x y → RReach st sb x

theorem reach_head {st : State} {x y z : Sym} (h : Edge st x y) (hr : Reach st y z) : Reach st x z := by
  induction hr with
  | refl => exact Reach.step Reach.refl h
  | step _ he ih => exact Reach.step ih he

theorem rreach_iff {st : State} {sb x : Sym} : RReach st sb x ↔ Reach st x sb := by
  constructor
  · intro h
    induction h with
    | refl => exact Reach.refl
    | step _ he ih => exact reach_head he ih
  · intro h
    have gen : ∀ z, Reach st x z → ∀ w, RReach st w z → RReach st w x := by
      intro z hz
      induction hz with
      | refl => intro w hw; exact hw
      | step _ he ih => intro w hw; exact ih w (RReach.step hw he)
    exact gen sb h sb RReach.refl

theorem mem_entries (o : Ord) (ho : o.Valid) (tag : Nat) (st : State) (hin : InnerOK st.references)
    (id : Nat) (e : Ref) : e ∈ entries o tag st id ↔ ∃ i, e ∈ refsAt st.references id i := by
  unfold entries refsAt
  cases ha : aget id st.references with
  | none => simp
  | some m =>
    simp only [List.mem_flatMap]
    constructor
    · rintro ⟨p, hp, he⟩
      have hp' := (ho.2.1 tag m).mem_iff.mp hp
      refine ⟨p.1, ?_⟩
      rw [aget_of_mem (hin id m ha) hp']; exact he
    · rintro ⟨i, he⟩
      cases hb : aget i m with
      | none => rw [hb] at he; cases he
      | some l =>
        rw [hb] at he
        exact ⟨(i, l), (ho.2.1 tag m).mem_iff.mpr (mem_of_aget hb), he⟩

theorem mem_referrers (o : Ord) (ho : o.Valid) (tag : Nat) (st : State) (h : RInv st) (curr : Sym)
    (hc : Live st curr) (x : Sym) : x ∈ referrers o tag st curr ↔ Live st x ∧ Edge st x curr := by
  unfold referrers
  simp only [List.mem_filterMap, mem_entries o ho tag st h.inner]
  constructor
  · rintro ⟨e, ⟨i, he⟩, hx⟩
    obtain ⟨S, T, a1, a2, a3, np, hnp, hn, r, hr, hN, hp, _⟩ := (h.refs curr.id i e).mp he
    have hT : T = curr := by unfold Live at hc; rw [hc] at a2; exact (Option.some.inj a2).symm
    subst hT
    have hS0 : e.id ≠ 0 := by have := (h.wf _ _ a1).1; rw [h.keyId _ _ a1] at this; exact this
    have hres : resolve st T.ns e = e.id := by simp [resolve, hS0]
    rw [hres, a1] at hx; cases hx
    refine ⟨by unfold Live; rw [h.keyId _ _ a1]; exact a1, np, hnp, r, hr, ?_, a3⟩
    rw [(resolve_iff h.toTBase x.ns r T.id T a2).mpr hN]; exact a2
  · rintro ⟨hl, np, hnp, r, hr, ha, hns⟩
    have hid : curr.id = resolve st x.ns r := h.keyId _ _ ha
    have hc' : aget curr.id st.symbols = some curr := hc
    have hN : Names st x.ns r curr.id := (resolve_iff h.toTBase x.ns r curr.id curr hc').mp hid.symm
    have hspec : RefSpec st curr.id r.port ⟨x.id, r.name, np.1⟩ :=
      ⟨x, curr, hl, hc', hns, np, hnp, rfl, r, hr, hN, rfl, rfl⟩
    refine ⟨⟨x.id, r.name, np.1⟩, ⟨r.port, (h.refs _ _ _).mpr hspec⟩, ?_⟩
    have hx0 : x.id ≠ 0 := (h.wf _ _ hl).1
    have : resolve st curr.ns ⟨x.id, r.name, np.1⟩ = x.id := by simp [resolve, hx0]
    rw [this]; exact hl

/-- `P x`: a present symbol that reaches `sb`. -/
def TRef (st : State) (sb x : Sym) : Prop := Live st x ∧ RReach st sb x

theorem fold_dadd_spec (ns : List Sym) (d : Deg) :
    (∀ p ∈ ns.foldl (fun d n => dadd d n 1) d, p ∈ d ∨ (∃ n ∈ ns, p.1 = n.id ∧ p.2.1 = n)) ∧
    (∀ k ∈ keys d, k ∈ keys (ns.foldl (fun d n => dadd d n 1) d)) ∧
    (∀ n ∈ ns, n.id ∈ keys (ns.foldl (fun d n => dadd d n 1) d)) ∧
    ((∀ p ∈ d, 1 ≤ p.2.2) → ∀ p ∈ ns.foldl (fun d n => dadd d n 1) d, 1 ≤ p.2.2) := by
  induction ns generalizing d with
  | nil => exact ⟨fun p h => Or.inl h, fun _ h => h, by simp, fun h => h⟩
  | cons n ns ih =>
    obtain ⟨i1, i2, i3, i4⟩ := ih (dadd d n 1)
    simp only [List.foldl_cons]
    refine ⟨?_, ?_, ?_, ?_⟩
    · intro p hp
      rcases i1 p hp with h | ⟨m, hm, e⟩
      · rcases mem_aset h with e | h
        · exact Or.inr ⟨n, by simp, by rw [e], by rw [e]⟩
        · exact Or.inl h
      · exact Or.inr ⟨m, List.mem_cons_of_mem _ hm, e⟩
    · intro k hk; exact i2 k (keys_subset_aset _ _ _ k hk)
    · intro m hm
      rcases List.mem_cons.mp hm with e | hm
      · subst e; exact i2 _ ((mem_keys_aset _ _ _ _).mpr (Or.inl rfl))
      · exact i3 m hm
    · intro hd
      apply i4
      intro p hp
      rcases mem_aset hp with e | h
      · rw [e]; simp only
        unfold dget
        cases ha : aget n.id d with
        | none => simp
        | some q => have := hd (n.id, q) (mem_of_aget ha); simp only at this ⊢; omega
      · exact hd p h

structure BInv (st : State) (sb : Sym) (q : List Sym) (vis : List Nat) (deg : Deg) : Prop where
  hq : ∀ s ∈ q, TRef st sb s ∧ (s = sb ∨ s.id ∈ keys deg)
  hv : ∀ v ∈ vis, ∃ s, TRef st sb s ∧ s.id = v ∧ (s = sb ∨ v ∈ keys deg) ∧
    ∀ x, Live st x → Edge st x s → (x.id ∈ vis ∨ x ∈ q)
  hr : sb.id ∈ vis ∨ sb ∈ q
  hd : ∀ p ∈ deg, TRef st sb p.2.1 ∧ p.2.1.id = p.1 ∧ 1 ≤ p.2.2

theorem bfs_spec (o : Ord) (ho : o.Valid) (st : State) (h : RInv st) (sb : Sym) (f : Nat) (q : List Sym)
    (vis : List Nat) (deg deg' : Deg) (hb : bfs o st f q vis deg = some deg') (inv : BInv st sb q vis deg) :
    (∀ x, TRef st sb x → x = sb ∨ x.id ∈ keys deg') ∧
    (∀ p ∈ deg', TRef st sb p.2.1 ∧ p.2.1.id = p.1 ∧ 1 ≤ p.2.2) := by
  have fin : ∀ (vis : List Nat) (deg : Deg), BInv st sb [] vis deg →
      (∀ x, TRef st sb x → x = sb ∨ x.id ∈ keys deg) := by
    intro vis deg inv x hx
    have hall : ∀ y, RReach st sb y → Live st y → y.id ∈ vis := by
      intro y hy
      induction hy with
      | refl => intro _; rcases inv.hr with h | h; exact h; cases h
      | @step x' y' hr he ih =>
        intro hl
        have hly : Live st y' := live_of_edge h.keyId he
        obtain ⟨s, hs, e, _, hcl⟩ := inv.hv _ (ih hly)
        have : s = y' := live_inj hs.1 hly e
        subst this
        rcases hcl x' hl he with h | h; exact h; cases h
    obtain ⟨s, hs, e, hk, _⟩ := inv.hv _ (hall x hx.2 hx.1)
    have : s = x := live_inj hs.1 hx.1 e
    subst this
    rw [e]; exact hk
  induction f generalizing q vis deg with
  | zero =>
    cases q with
    | nil => simp [bfs] at hb; subst hb; exact ⟨fin vis deg inv, inv.hd⟩
    | cons c q => simp [bfs] at hb
  | succ f ih =>
    cases q with
    | nil => simp [bfs] at hb; subst hb; exact ⟨fin vis deg inv, inv.hd⟩
    | cons c q =>
      simp only [bfs] at hb
      obtain ⟨hcP, hcK⟩ := inv.hq c (by simp)
      split at hb
      · rename_i hv
        refine ih q vis deg hb ⟨fun s hs => inv.hq s (List.mem_cons_of_mem _ hs), ?_, ?_, inv.hd⟩
        · intro v hvv
          obtain ⟨s, h1, h2, h3, h4⟩ := inv.hv v hvv
          refine ⟨s, h1, h2, h3, ?_⟩
          intro x hl he
          rcases h4 x hl he with h | h
          · exact Or.inl h
          · rcases List.mem_cons.mp h with e | h
            · subst e; exact Or.inl hv
            · exact Or.inr h
        · rcases inv.hr with h | h
          · exact Or.inl h
          · rcases List.mem_cons.mp h with e | h
            · rw [e]; exact Or.inl hv
            · exact Or.inr h
      · rename_i hv
        have hmem := fun x => mem_referrers o ho (10 + f) st h c hcP.1 x
        obtain ⟨d1, d2, d3, d4⟩ := fold_dadd_spec (referrers o (10 + f) st c) deg
        have hnsP : ∀ n ∈ referrers o (10 + f) st c, TRef st sb n := by
          intro n hn
          obtain ⟨hl, he⟩ := (hmem n).mp hn
          exact ⟨hl, RReach.step hcP.2 he⟩
        refine ih _ _ _ hb ⟨?_, ?_, ?_, ?_⟩
        · intro s hs
          rcases List.mem_append.mp hs with hs | hs
          · obtain ⟨a, b⟩ := inv.hq s (List.mem_cons_of_mem _ hs)
            exact ⟨a, b.imp id (d2 _)⟩
          · exact ⟨hnsP s hs, Or.inr (d3 s hs)⟩
        · intro v hvv
          rcases List.mem_cons.mp hvv with e | hvv
          · subst e
            refine ⟨c, hcP, rfl, hcK.imp id (d2 _), ?_⟩
            intro x hl he
            exact Or.inr (List.mem_append_right _ ((hmem x).mpr ⟨hl, he⟩))
          · obtain ⟨s, h1, h2, h3, h4⟩ := inv.hv v hvv
            refine ⟨s, h1, h2, h3.imp id (d2 _), ?_⟩
            intro x hl he
            rcases h4 x hl he with h | h
            · exact Or.inl (List.mem_cons_of_mem _ h)
            · rcases List.mem_cons.mp h with e | h
              · subst e; exact Or.inl (by simp)
              · exact Or.inr (List.mem_append_left _ h)
        · rcases inv.hr with h | h
          · exact Or.inl (List.mem_cons_of_mem _ h)
          · rcases List.mem_cons.mp h with e | h
            · rw [e]; exact Or.inl (by simp)
            · exact Or.inr (List.mem_append_left _ h)
        · intro p hp
          have h1 := d4 (fun p hp => (inv.hd p hp).2.2) p hp
          rcases d1 p hp with hold | ⟨n, hn, e1, e2⟩
          · exact ⟨(inv.hd p hold).1, (inv.hd p hold).2.1, h1⟩
          · rw [e2]; exact ⟨hnsP n hn, e1.symm, h1⟩


theorem kahn_q_sub (succ : Nat → Sym → List Sym) (f : Nat) (q out : List Sym) (deg : Deg)
    (res : List Sym × Deg) (hr : kahn succ f q out deg = some res) :
    (∀ s ∈ q, ∃ s' ∈ res.1, s'.id = s.id) ∧ (∀ s ∈ out, s ∈ res.1) := by
  induction f generalizing q out deg with
  | zero =>
    cases q with
    | nil => simp [kahn] at hr; subst hr; exact ⟨by simp, fun _ h => h⟩
    | cons c q => simp [kahn] at hr
  | succ f ih =>
    cases q with
    | nil => simp [kahn] at hr; subst hr; exact ⟨by simp, fun _ h => h⟩
    | cons c q =>
      simp only [kahn] at hr
      split at hr
      · rename_i hany
        obtain ⟨i1, i2⟩ := ih q out deg hr
        refine ⟨?_, i2⟩
        intro s hs
        rcases List.mem_cons.mp hs with e | hs
        · subst e
          simp only [List.any_eq_true, decide_eq_true_eq] at hany
          obtain ⟨s', hs', e'⟩ := hany
          exact ⟨s', i2 s' hs', e'⟩
        · exact i1 s hs
      · obtain ⟨i1, i2⟩ := ih _ _ _ hr
        have hsub : ∀ x ∈ q, x ∈ ((succ f c).foldl kahnStep (deg, q)).2 := by
          have gen : ∀ (ns : List Sym) (acc : Deg × List Sym), ∀ x ∈ acc.2, x ∈ (ns.foldl kahnStep acc).2 := by
            intro ns
            induction ns with
            | nil => intro acc x hx; exact hx
            | cons n ns ih =>
              intro acc x hx
              apply ih
              unfold kahnStep; simp only; split
              · exact List.mem_append_left _ hx
              · exact hx
          exact gen _ (deg, q)
        refine ⟨?_, fun s hs => i2 s (List.mem_append_left _ hs)⟩
        intro s hs
        rcases List.mem_cons.mp hs with e | hs
        · subst e; exact ⟨s, i2 s (by simp), rfl⟩
        · exact i1 s (hsub s hs)

theorem kahn_pred (Pr : Sym → Prop) (succ : Nat → Sym → List Sym)
    (hs : ∀ f c, Pr c → ∀ n ∈ succ f c, Pr n) (f : Nat) (q out : List Sym) (deg : Deg)
    (res : List Sym × Deg) (hr : kahn succ f q out deg = some res)
    (hq : ∀ s ∈ q, Pr s) (ho : ∀ s ∈ out, Pr s) (hd : ∀ p ∈ deg, Pr p.2.1) :
    (∀ s ∈ res.1, Pr s) ∧ (∀ p ∈ res.2, Pr p.2.1) := by
  induction f generalizing q out deg with
  | zero =>
    cases q with
    | nil => simp [kahn] at hr; subst hr; exact ⟨ho, hd⟩
    | cons c q => simp [kahn] at hr
  | succ f ih =>
    cases q with
    | nil => simp [kahn] at hr; subst hr; exact ⟨ho, hd⟩
    | cons c q =>
      simp only [kahn] at hr
      split at hr
      · exact ih q out deg hr (fun s h => hq s (List.mem_cons_of_mem _ h)) ho hd
      · have hc : Pr c := hq c (by simp)
        have gen : ∀ (ns : List Sym) (acc : Deg × List Sym), (∀ n ∈ ns, Pr n) → (∀ s ∈ acc.2, Pr s) →
            (∀ p ∈ acc.1, Pr p.2.1) →
            (∀ s ∈ (ns.foldl kahnStep acc).2, Pr s) ∧ (∀ p ∈ (ns.foldl kahnStep acc).1, Pr p.2.1) := by
          intro ns
          induction ns with
          | nil => intro acc _ h1 h2; exact ⟨h1, h2⟩
          | cons n ns ih =>
            intro acc hn h1 h2
            apply ih _ (fun m hm => hn m (List.mem_cons_of_mem _ hm))
            · intro s hs
              unfold kahnStep at hs; simp only at hs
              split at hs
              · rcases List.mem_append.mp hs with h | h
                · exact h1 s h
                · simp at h; subst h; exact hn _ (by simp)
              · exact h1 s hs
            · intro p hp
              have : (kahnStep acc n).1 = dadd acc.1 n (-1) := by
                unfold kahnStep; simp only; split <;> rfl
              rw [this] at hp
              rcases mem_aset hp with e | h
              · rw [e]; exact hn _ (by simp)
              · exact h2 p h
        obtain ⟨g1, g2⟩ := gen (succ f c) (deg, q) (hs f c hc)
          (fun s h => hq s (List.mem_cons_of_mem _ h)) hd
        refine ih _ _ _ hr g1 ?_ g2
        intro s hs
        rcases List.mem_append.mp hs with h | h
        · exact ho s h
        · simp at h; subst h; exact hc

/-- **`linked(sb)` is exactly the set of present symbols that reach `sb`.** -/
theorem linked_spec (o : Ord) (ho : o.Valid) (st : State) (h : RInv st) (sb : Sym) (hsb : Live st sb)
    (l : List Sym) (hl : linked o st sb = some l) : ∀ x, x ∈ l ↔ (Live st x ∧ Reach st x sb) := by
  unfold linked at hl
  cases hb : bfs o st (bfsFuel st) [sb] [] [] with
  | none => rw [hb] at hl; cases hl
  | some deg =>
    rw [hb] at hl
    simp only at hl
    have hP0 : TRef st sb sb := ⟨hsb, RReach.refl⟩
    obtain ⟨b1, b2⟩ := bfs_spec o ho st h sb _ _ _ _ _ hb
      ⟨by intro s hs; simp at hs; subst hs; exact ⟨hP0, Or.inl rfl⟩, by simp, Or.inr (by simp), by simp⟩
    cases hk : kahn (fun f c => referrers o (1000 + f) st c) (kahnFuel [sb] deg) [sb] [] deg with
    | none => rw [hk] at hl; cases hl
    | some res =>
      obtain ⟨out, deg'⟩ := res
      rw [hk] at hl
      simp only [Option.some.injEq] at hl
      -- everything listed reaches sb
      obtain ⟨p1, p2⟩ := kahn_pred (TRef st sb) _ (by
          intro f c hc n hn
          obtain ⟨hl', he⟩ := (mem_referrers o ho _ st h c hc.1 n).mp hn
          exact ⟨hl', RReach.step hc.2 he⟩) _ _ _ _ _ hk
        (by intro s hs; simp at hs; subst hs; exact hP0) (by simp) (fun p hp => (b2 p hp).1)
      -- coverage
      have hinv : KInv deg [] [sb] := by
        refine ⟨?_, fun p hp => (b2 p hp).2.1⟩
        intro p hp h0
        have := (b2 p hp).2.2; omega
      obtain ⟨r1, r2, _⟩ := kahn_cover _ _ _ _ _ _ hk hinv
      obtain ⟨q1, _⟩ := kahn_q_sub _ _ _ _ _ _ hk
      simp only at p1 p2 r1 r2 q1
      subst hl
      intro x
      constructor
      · intro hx
        rcases List.mem_append.mp hx with hx | hx
        · obtain ⟨a, b⟩ := p1 x hx; exact ⟨a, rreach_iff.mp b⟩
        · obtain ⟨p, hp, e⟩ := List.mem_map.mp hx
          have hp' := (ho.2.2 1 deg').mem_iff.mp (List.mem_filter.mp hp).1
          obtain ⟨a, b⟩ := p2 p hp'
          rw [← e]; exact ⟨a, rreach_iff.mp b⟩
      · rintro ⟨hlx, hrx⟩
        have hPx : TRef st sb x := ⟨hlx, rreach_iff.mpr hrx⟩
        rcases b1 x hPx with e | hkx
        · subst e
          obtain ⟨s', hs', e'⟩ := q1 x (by simp)
          have : s' = x := live_inj (p1 s' hs').1 hlx e'
          subst this
          exact List.mem_append_left _ hs'
        · have hkx' := r2 _ hkx
          obtain ⟨p, hp, e⟩ := List.mem_map.mp hkx'
          have hpx : p.2.1 = x := live_inj (p2 p hp).1 hlx ((r1.ids p hp).trans e)
          by_cases hin : ∃ s ∈ out, s.id = p.1
          · obtain ⟨s, hs, e'⟩ := hin
            have : s = x := live_inj (p1 s hs).1 hlx (e'.trans e)
            subst this
            exact List.mem_append_left _ hs
          · have hc : p.2.2 ≠ 0 := by
              intro h0
              rcases r1.cover p hp h0 with h' | ⟨s, hs, _⟩
              · exact hin h'
              · cases hs
            refine List.mem_append_right _ (List.mem_map.mpr ⟨p, List.mem_filter.mpr
              ⟨(ho.2.2 1 deg').mem_iff.mpr hp, ?_⟩, hpx⟩)
            simp only [Bool.and_eq_true, Bool.not_eq_true', List.any_eq_false, decide_eq_true_eq,
              ne_eq, hc, not_false_eq_true, true_and]
            intro s hs e'
            exact hin ⟨s, hs, e'⟩


/-! ### frame: removing / adding one symbol -/

theorem edge_congr {st st' : State} (hs : st'.symbols = st.symbols) (hn : st'.namespaces = st.namespaces)
    (x y : Sym) : Edge st' x y ↔ Edge st x y := by
  unfold Edge resolve lookupName; rw [hs, hn]

theorem localOK_congr {st st' : State} (hs : st'.symbols = st.symbols) (hn : st'.namespaces = st.namespaces)
    (x : Sym) : LocalOK st' x ↔ LocalOK st x := by
  unfold LocalOK resolve lookupName; rw [hs, hn]

theorem reach_congr {st st' : State} (hs : st'.symbols = st.symbols) (hn : st'.namespaces = st.namespaces)
    (x y : Sym) : Reach st' x y ↔ Reach st x y := by
  constructor
  · intro h; induction h with
    | refl => exact Reach.refl
    | step _ he ih => exact Reach.step ih ((edge_congr hs hn _ _).mp he)
  · intro h; induction h with
    | refl => exact Reach.refl
    | step _ he ih => exact Reach.step ih ((edge_congr hs hn _ _).mpr he)

theorem closure_congr {st st' : State} (hs : st'.symbols = st.symbols) (hn : st'.namespaces = st.namespaces)
    (x : Sym) : ClosureOK st' x ↔ ClosureOK st x := by
  unfold ClosureOK
  constructor
  · intro h t ht; exact (localOK_congr hs hn t).mp (h t ((reach_congr hs hn x t).mpr ht))
  · intro h t ht; exact (localOK_congr hs hn t).mpr (h t ((reach_congr hs hn x t).mp ht))

/-- `small` is `big` without the symbol `sb`. -/
structure Frame (small big : State) (sb : Sym) : Prop where
  sm : TBase small
  bg : TBase big
  f1 : ∀ k, aget k small.symbols = if k = sb.id then none else aget k big.symbols
  f2 : aget sb.id big.symbols = some sb

theorem Frame.names {small big : State} {sb : Sym} (F : Frame small big sb) (ns : Nat) (r : Ref) (t : Nat)
    (ht : t ≠ sb.id) : Names small ns r t ↔ Names big ns r t := by
  unfold Names; rw [F.f1 t]; simp [ht]

theorem Frame.tgt {small big : State} {sb : Sym} (F : Frame small big sb) (ns : Nat) (r : Ref) (T : Sym) :
    aget (resolve small ns r) small.symbols = some T ↔
      (aget (resolve big ns r) big.symbols = some T ∧ T.id ≠ sb.id) := by
  constructor
  · intro h
    have hid : T.id = resolve small ns r := F.sm.keyId _ _ h
    have hne : T.id ≠ sb.id := by
      intro e; rw [← hid, e, F.f1] at h; simp at h
    have hb : aget T.id big.symbols = some T := by
      have := h; rw [← hid, F.f1] at this; simpa [hne] using this
    have hN := (resolve_iff F.sm ns r T.id T (by rw [hid]; exact h)).mp hid.symm
    have := (resolve_iff F.bg ns r T.id T hb).mpr ((F.names ns r T.id hne).mp hN)
    rw [this]; exact ⟨hb, hne⟩
  · rintro ⟨h, hne⟩
    have hid : T.id = resolve big ns r := F.bg.keyId _ _ h
    have hs : aget T.id small.symbols = some T := by
      rw [F.f1]; simp only [hne, if_false]; rw [hid]; exact h
    have hN := (resolve_iff F.bg ns r T.id T (by rw [hid]; exact h)).mp hid.symm
    have := (resolve_iff F.sm ns r T.id T hs).mpr ((F.names ns r T.id hne).mpr hN)
    rw [this]; exact hs

theorem Frame.eq_sb {small big : State} {sb : Sym} (F : Frame small big sb) {ns : Nat} {r : Ref} {T : Sym}
    (h : aget (resolve big ns r) big.symbols = some T) (e : T.id = sb.id) : T = sb := by
  have hid : T.id = resolve big ns r := F.bg.keyId _ _ h
  rw [← hid, e, F.f2] at h; exact (Option.some.inj h).symm

theorem Frame.edge {small big : State} {sb : Sym} (F : Frame small big sb) (y u : Sym) :
    Edge small y u ↔ Edge big y u ∧ u.id ≠ sb.id := by
  unfold Edge
  constructor
  · rintro ⟨np, hnp, r, hr, h, hns⟩
    obtain ⟨h1, h2⟩ := (F.tgt y.ns r u).mp h
    exact ⟨⟨np, hnp, r, hr, h1, hns⟩, h2⟩
  · rintro ⟨⟨np, hnp, r, hr, h, hns⟩, h2⟩
    exact ⟨np, hnp, r, hr, (F.tgt y.ns r u).mpr ⟨h, h2⟩, hns⟩

theorem Frame.localOK {small big : State} {sb : Sym} (F : Frame small big sb) (y : Sym) :
    LocalOK small y ↔ LocalOK big y ∧ ¬ Edge big y sb := by
  unfold LocalOK
  constructor
  · rintro ⟨hn, hall⟩
    refine ⟨⟨hn, ?_⟩, ?_⟩
    · intro np hnp r hr
      obtain ⟨T, h, hns⟩ := hall np hnp r hr
      exact ⟨T, ((F.tgt y.ns r T).mp h).1, hns⟩
    · rintro ⟨np, hnp, r, hr, h, _⟩
      obtain ⟨T, h', _⟩ := hall np hnp r hr
      obtain ⟨h1, h2⟩ := (F.tgt y.ns r T).mp h'
      rw [h] at h1; cases h1; exact h2 rfl
  · rintro ⟨⟨hn, hall⟩, hne⟩
    refine ⟨hn, ?_⟩
    intro np hnp r hr
    obtain ⟨T, h, hns⟩ := hall np hnp r hr
    refine ⟨T, (F.tgt y.ns r T).mpr ⟨h, ?_⟩, hns⟩
    intro e
    have := F.eq_sb h e
    subst this
    exact hne ⟨np, hnp, r, hr, h, hns⟩

theorem Frame.reach_up {small big : State} {sb : Sym} (F : Frame small big sb) {x y : Sym}
    (h : Reach small x y) : Reach big x y := by
  induction h with
  | refl => exact Reach.refl
  | step _ he ih => exact Reach.step ih ((F.edge _ _).mp he).1

theorem Frame.edge_sb {small big : State} {sb : Sym} (F : Frame small big sb) {t u : Sym}
    (he : Edge big t u) (e : u.id = sb.id) : u = sb := by
  obtain ⟨np, _, r, _, h, _⟩ := he
  exact F.eq_sb h e

theorem Frame.closure {small big : State} {sb : Sym} (F : Frame small big sb) (x : Sym) (hx : x ≠ sb) :
    ClosureOK small x ↔ ClosureOK big x ∧ ¬ Reach big x sb := by
  constructor
  · intro hc
    have key : ∀ y, Reach big x y → Reach small x y ∧ (y = x ∨ y.id ≠ sb.id) := by
      intro y hy
      induction hy with
      | refl => exact ⟨Reach.refl, Or.inl rfl⟩
      | @step t u _ he ih =>
        have hloc := (F.localOK t).mp (hc t ih.1)
        have hu : u.id ≠ sb.id := by
          intro e; have := F.edge_sb he e; subst this; exact hloc.2 he
        exact ⟨Reach.step ih.1 ((F.edge t u).mpr ⟨he, hu⟩), Or.inr hu⟩
    refine ⟨fun y hy => ((F.localOK y).mp (hc y (key y hy).1)).1, ?_⟩
    intro hr
    -- the last edge into sb contradicts local soundness in `small`
    cases hr with
    | refl => exact hx rfl
    | @step t _ hrt he =>
      exact ((F.localOK t).mp (hc t (key t hrt).1)).2 he
  · rintro ⟨hc, hnr⟩ y hy
    have hyb := F.reach_up hy
    exact (F.localOK y).mpr ⟨hc y hyb, fun he => hnr (Reach.step hyb he)⟩


/-! ### the log -/

theorem balance_append (k : Nat) (a b : List Event) : balance k (a ++ b) = balance k a + balance k b := by
  induction a with
  | nil => simp [balance]
  | cons e a ih => cases e <;> simp [balance, ih] <;> omega

theorem balance_loadBlocks (st : State) (k : Nat) (done : List Sym) (hn : (done.map (·.id)).Nodup) :
    balance k (done.flatMap (fun x => [flowEv st x .init, Event.load x.id, flowEv st x .begin])) =
      if k ∈ done.map (·.id) then 1 else 0 := by
  induction done with
  | nil => simp [balance]
  | cons x xs ih =>
    simp only [List.map_cons, List.nodup_cons] at hn
    simp only [List.flatMap_cons, balance_append, ih hn.2, List.map_cons, List.mem_cons]
    by_cases h : x.id = k
    · subst h
      simp [balance, flowEv, hn.1]
    · have h' : ¬ k = x.id := fun e => h e.symm
      simp [balance, flowEv, h, h']

theorem balance_unloadBlocks (st : State) (k : Nat) (done : List Sym) (hn : (done.map (·.id)).Nodup) :
    balance k (done.flatMap (fun x => [flowEv st x .term, Event.unload x.id, flowEv st x .final])) =
      if k ∈ done.map (·.id) then -1 else 0 := by
  induction done with
  | nil => simp [balance]
  | cons x xs ih =>
    simp only [List.map_cons, List.nodup_cons] at hn
    simp only [List.flatMap_cons, balance_append, ih hn.2, List.map_cons, List.mem_cons]
    by_cases h : x.id = k
    · subst h
      simp [balance, flowEv, hn.1]
    · have h' : ¬ k = x.id := fun e => h e.symm
      simp [balance, flowEv, h, h']

/-- Per symbol the load / unload notifications alternate starting with load, and a node is closed
only while its symbol is not loaded. -/
structure LogOK (L : List Event) : Prop where
  alt : ∀ k pre, pre <+: L → balance k pre = 0 ∨ balance k pre = 1
  cls : ∀ k pre, pre ++ [Event.close k] <+: L → balance k pre = 0

def SafeEv (L : List Event) : Event → Prop
  | .load k => balance k L = 0
  | .unload k => balance k L = 1
  | .close k => balance k L = 0
  | .exec _ _ _ => True
  | .refused _ _ _ => True

theorem logOK_snoc {L : List Event} (h : LogOK L) (e : Event) (hs : SafeEv L e) : LogOK (L ++ [e]) := by
  refine ⟨?_, ?_⟩
  · intro k pre hp
    rcases List.prefix_concat_iff.mp hp with e' | hp
    · subst e'
      have hL := h.alt k L (List.prefix_refl _)
      rw [balance_append]
      cases e with
      | load j =>
        simp only [SafeEv] at hs
        by_cases hj : j = k
        · subst hj; simp [balance, hs]
        · simp [balance, hj]; exact hL
      | unload j =>
        simp only [SafeEv] at hs
        by_cases hj : j = k
        · subst hj; simp [balance, hs]
        · simp [balance, hj]; exact hL
      | close j => simp [balance]; exact hL
      | exec a b c => simp [balance]; exact hL
      | refused a b c => simp [balance]; exact hL
    · exact h.alt k pre hp
  · intro k pre hp
    rcases List.prefix_concat_iff.mp hp with e' | hp
    · obtain ⟨e1, e2⟩ := List.append_singleton_inj.mp e'
      subst e1; subst e2
      exact hs
    · exact h.cls k pre hp

theorem logOK_loadBlocks (st : State) {L : List Event} (h : LogOK L) (done : List Sym)
    (hn : (done.map (·.id)).Nodup) (h0 : ∀ x ∈ done, balance x.id L = 0) :
    LogOK (L ++ done.flatMap (fun x => [flowEv st x .init, Event.load x.id, flowEv st x .begin])) := by
  induction done generalizing L with
  | nil => simpa using h
  | cons x xs ih =>
    simp only [List.map_cons, List.nodup_cons] at hn
    simp only [List.flatMap_cons]
    have e : L ++ ([flowEv st x .init, Event.load x.id, flowEv st x .begin] ++
        xs.flatMap (fun x => [flowEv st x .init, Event.load x.id, flowEv st x .begin])) =
        (((L ++ [flowEv st x .init]) ++ [Event.load x.id]) ++ [flowEv st x .begin]) ++
        xs.flatMap (fun x => [flowEv st x .init, Event.load x.id, flowEv st x .begin]) := by simp
    rw [e]
    have hx := h0 x (by simp)
    have h1 := logOK_snoc h (flowEv st x .init) (by simp [flowEv, SafeEv])
    have h2 := logOK_snoc h1 (Event.load x.id) (by simp [SafeEv, balance_append, balance, flowEv, hx])
    have h3 := logOK_snoc h2 (flowEv st x .begin) (by simp [flowEv, SafeEv])
    apply ih h3 hn.2
    intro y hy
    have hne : x.id ≠ y.id := by
      intro e'; apply hn.1; rw [e']; exact List.mem_map.mpr ⟨y, hy, rfl⟩
    simp [balance_append, balance, flowEv, hne, h0 y (List.mem_cons_of_mem _ hy)]

theorem logOK_unloadBlocks (st : State) {L : List Event} (h : LogOK L) (done : List Sym)
    (hn : (done.map (·.id)).Nodup) (h0 : ∀ x ∈ done, balance x.id L = 1) :
    LogOK (L ++ done.flatMap (fun x => [flowEv st x .term, Event.unload x.id, flowEv st x .final])) := by
  induction done generalizing L with
  | nil => simpa using h
  | cons x xs ih =>
    simp only [List.map_cons, List.nodup_cons] at hn
    simp only [List.flatMap_cons]
    have e : L ++ ([flowEv st x .term, Event.unload x.id, flowEv st x .final] ++
        xs.flatMap (fun x => [flowEv st x .term, Event.unload x.id, flowEv st x .final])) =
        (((L ++ [flowEv st x .term]) ++ [Event.unload x.id]) ++ [flowEv st x .final]) ++
        xs.flatMap (fun x => [flowEv st x .term, Event.unload x.id, flowEv st x .final]) := by simp
    rw [e]
    have hx := h0 x (by simp)
    have h1 := logOK_snoc h (flowEv st x .term) (by simp [flowEv, SafeEv])
    have h2 := logOK_snoc h1 (Event.unload x.id) (by simp [SafeEv, balance_append, balance, flowEv, hx])
    have h3 := logOK_snoc h2 (flowEv st x .final) (by simp [flowEv, SafeEv])
    apply ih h3 hn.2
    intro y hy
    have hne : x.id ≠ y.id := by
      intro e'; apply hn.1; rw [e']; exact List.mem_map.mpr ⟨y, hy, rfl⟩
    simp [balance_append, balance, flowEv, hne, h0 y (List.mem_cons_of_mem _ hy)]


/-! ### the activation invariant -/

/-- The symbol stored under `k` is present and its reference closure is present. -/
def Cl (st : State) (k : Nat) : Prop := ∃ s, aget k st.symbols = some s ∧ ClosureOK st s

structure AInv (st : State) : Prop where
  act : ∀ k, (balance k st.log = 1 ∧ Cl st k) ∨ (balance k st.log = 0 ∧ ¬ Cl st k)
  log : LogOK st.log

theorem activated_iff (o : Ord) (ho : o.Valid) (st : State) (hk : KeyId st) (x : Sym) (hl : Live st x) :
    isActivated o st x = some true ↔ ClosureOK st x := by
  have hn := isActivated_ne_none o ho st hk x
  cases hb : isActivated o st x with
  | none => exact absurd hb hn
  | some b =>
    have := C07.isActivated_iff_closure o ho st hk x hl b hb
    cases b with
    | true => simp [this.mp rfl]
    | false =>
      simp only [Option.some.injEq, Bool.false_eq_true, false_iff]
      intro hc; have := this.mpr hc; cases this

/-- What one pass over `linked(sb)` (in either direction) notifies, and how it splits the
symbols with a present closure. -/
theorem pass_split (o : Ord) (ho : o.Valid) (small big : State) (sb : Sym) (hR : RInv big)
    (F : Frame small big sb) (l l' done : List Sym) (hl : linked o big sb = some l)
    (hperm : ∀ x, x ∈ l' ↔ x ∈ l) (hsub : l'.Sublist l ∨ l'.Sublist l.reverse)
    (hd : done = l'.filter (fun x => isActivated o big x = some true)) :
    (done.map (·.id)).Nodup ∧
    (∀ k, Cl big k ↔ (Cl small k ∨ ∃ x ∈ done, x.id = k)) ∧
    (∀ k, Cl small k → ¬ ∃ x ∈ done, x.id = k) := by
  have hsbL : Live big sb := F.f2
  have hspec := linked_spec o ho big hR sb hsbL l hl
  have hD : ∀ x, x ∈ done ↔ (Live big x ∧ Reach big x sb ∧ ClosureOK big x) := by
    intro x
    rw [hd, List.mem_filter, hperm, hspec]
    constructor
    · rintro ⟨⟨h1, h2⟩, h3⟩
      exact ⟨h1, h2, (activated_iff o ho big hR.keyId x h1).mp (by simpa using h3)⟩
    · rintro ⟨h1, h2, h3⟩
      exact ⟨⟨h1, h2⟩, by simpa using (activated_iff o ho big hR.keyId x h1).mpr h3⟩
  have hS : ∀ k, Cl small k ↔ ∃ s, aget k big.symbols = some s ∧ k ≠ sb.id ∧ ClosureOK big s ∧ ¬ Reach big s sb := by
    intro k
    unfold Cl
    constructor
    · rintro ⟨s, h1, h2⟩
      rw [F.f1] at h1
      split at h1
      · cases h1
      · rename_i hne
        have hsne : s ≠ sb := by
          intro e; subst e; exact hne (hR.keyId _ _ h1).symm
        exact ⟨s, h1, hne, (F.closure s hsne).mp h2⟩
    · rintro ⟨s, h1, hne, h2⟩
      have hsne : s ≠ sb := by
        intro e; subst e; exact hne (hR.keyId _ _ h1).symm
      exact ⟨s, by rw [F.f1]; simp [hne, h1], (F.closure s hsne).mpr h2⟩
  have hnodup : (done.map (·.id)).Nodup := by
    have hn := C07.linked_nodup o ho big sb l hl
    have hn' : (l'.map (·.id)).Nodup := by
      rcases hsub with h | h
      · exact (h.map _).nodup hn
      · exact (h.map _).nodup (by rw [List.map_reverse]; exact (List.reverse_perm _).nodup_iff.mpr hn)
    rw [hd]
    exact (List.Sublist.map _ List.filter_sublist).nodup hn'
  refine ⟨hnodup, ?_, ?_⟩
  · intro k
    constructor
    · rintro ⟨s, h1, h2⟩
      have hls : Live big s := by unfold Live; rw [hR.keyId _ _ h1]; exact h1
      by_cases hr : Reach big s sb
      · exact Or.inr ⟨s, (hD s).mpr ⟨hls, hr, h2⟩, hR.keyId _ _ h1⟩
      · left
        refine (hS k).mpr ⟨s, h1, ?_, h2, hr⟩
        intro e
        rw [e, F.f2] at h1; cases h1
        exact hr Reach.refl
    · rintro (h | ⟨x, hx, e⟩)
      · obtain ⟨s, h1, _, h2, _⟩ := (hS k).mp h
        exact ⟨s, h1, h2⟩
      · obtain ⟨h1, _, h3⟩ := (hD x).mp hx
        exact ⟨x, by rw [← e]; exact h1, h3⟩
  · rintro k h ⟨x, hx, e⟩
    obtain ⟨s, h1, _, _, h4⟩ := (hS k).mp h
    obtain ⟨g1, g2, _⟩ := (hD x).mp hx
    have : aget k big.symbols = some x := by rw [← e]; exact g1
    rw [h1] at this; cases this
    exact h4 g2

theorem cl_congr {st st' : State} (hs : st'.symbols = st.symbols) (hn : st'.namespaces = st.namespaces)
    (k : Nat) : Cl st' k ↔ Cl st k := by
  unfold Cl; rw [hs]
  constructor
  · rintro ⟨s, h1, h2⟩; exact ⟨s, h1, (closure_congr hs hn s).mp h2⟩
  · rintro ⟨s, h1, h2⟩; exact ⟨s, h1, (closure_congr hs hn s).mpr h2⟩

theorem cl_log (st : State) (lg : List Event) (k : Nat) : Cl { st with log := lg } k ↔ Cl st k :=
  cl_congr (st := st) (st' := { st with log := lg }) rfl rfl k

theorem ainv_insert (o : Ord) (ho : o.Valid) (st : State) (sb : Sym) (h : RInv st) (ha : AInv st)
    (hfresh : aget sb.id st.symbols = none) (hwf : sb.wf) (hnf : NameFree st sb)
    (hok : (insert o st sb).2 = .ok) : AInv (insert o st sb).1 := by
  have hRf := rinv_insert o ho st sb h hfresh hwf hnf
  rw [insert_eq] at hRf hok ⊢
  have hlt := load_table o (links o (stored st sb) sb) sb
  have hRb : RInv (links o (stored st sb) sb) := by
    rw [hlt] at hRf
    exact rinv_congr hRf rfl rfl rfl rfl
  obtain ⟨hsym, _, _⟩ := stored_fields st sb
  have hbsym : (links o (stored st sb) sb).symbols = aset sb.id sb st.symbols := by
    rw [(links_symbols _ _ _).1, hsym]
  have hblog : (links o (stored st sb) sb).log = st.log := by
    rw [(links_symbols _ _ _).2.2]; unfold stored; simp only; split <;> rfl
  have F : Frame st (links o (stored st sb) sb) sb := by
    refine ⟨h.toTBase, hRb.toTBase, ?_, by rw [hbsym]; simp [aget_aset]⟩
    intro k
    rw [hbsym, aget_aset]
    by_cases hk : k = sb.id
    · simp [hk, hfresh]
    · simp [hk]
  have hln := linked_ne_none o ho (links o (stored st sb) sb) sb
  cases hl : linked o (links o (stored st sb) sb) sb with
  | none => exact absurd hl hln
  | some l =>
    obtain ⟨s⟩ := Pass08.lifecycle_order_load o _ sb l hl
    obtain ⟨ht, hdone⟩ := s.ok hok
    obtain ⟨p1, p2, p3⟩ := pass_split o ho st _ sb hRb F l l s.done hl (fun _ => Iff.rfl)
      (Or.inl (List.Sublist.refl _)) hdone
    have hstate := s.state
    rw [ht, List.append_nil, hblog] at hstate
    rw [hstate]
    have hbal : ∀ k, balance k (st.log ++ s.done.flatMap (fun x =>
        [flowEv (links o (stored st sb) sb) x .init, Event.load x.id,
          flowEv (links o (stored st sb) sb) x .begin])) =
        balance k st.log + if k ∈ s.done.map (·.id) then 1 else 0 := by
      intro k; rw [balance_append, balance_loadBlocks _ k _ p1]
    have hmem : ∀ k, k ∈ s.done.map (·.id) ↔ ∃ x ∈ s.done, x.id = k := by
      intro k; simp [List.mem_map]
    refine ⟨?_, ?_⟩
    · intro k
      simp only
      rw [hbal k, cl_log, p2 k]
      rcases ha.act k with ⟨b, c⟩ | ⟨b, c⟩
      · left
        have : k ∉ s.done.map (·.id) := fun hm => p3 k c ((hmem k).mp hm)
        simp [this, b, c]
      · by_cases hm : k ∈ s.done.map (·.id)
        · left; simp [hm, b, (hmem k).mp hm]
        · right
          simp only [hm, if_false, b, Int.add_zero, true_and]
          rintro (h' | h')
          · exact c h'
          · exact hm ((hmem k).mpr h')
    · simp only
      apply logOK_loadBlocks _ ha.log _ p1
      intro x hx
      rcases ha.act x.id with ⟨_, c⟩ | ⟨b, _⟩
      · exact absurd ⟨x, hx, rfl⟩ (p3 x.id c)
      · exact b

theorem freeRest_log (o : Ord) (st1 : State) (sb : Sym) (id : Nat) :
    (freeRest o st1 sb id).log = st1.log ++ (if sb.hasNode then [Event.close sb.id] else []) := by
  unfold freeRest closeSym
  simp only
  cases sb.hasNode <;> simp <;> split <;> rfl

theorem ainv_free (o : Ord) (ho : o.Valid) (st : State) (id : Nat) (h : RInv st) (ha : AInv st)
    (hok : (free o st id).2.1 = .ok) : AInv (free o st id).1 := by
  have hRf := rinv_free o ho st id h
  rw [free_eq] at hRf hok ⊢
  cases hs : aget id st.symbols with
  | none => exact ha
  | some sb =>
    rw [hs] at hRf hok
    simp only at hRf hok ⊢
    have hid : sb.id = id := h.keyId _ _ hs
    by_cases hu : (unload o st sb).2 = .ok
    · rw [if_pos hu] at hRf ⊢
      simp only at hRf ⊢
      have hln := linked_ne_none o ho st sb
      cases hl : linked o st sb with
      | none => exact absurd hl hln
      | some l =>
        obtain ⟨s⟩ := Pass08.lifecycle_order_unload o st sb l hl
        obtain ⟨ht, hdone⟩ := s.ok hu
        have hstate := s.state
        rw [ht, List.append_nil] at hstate
        have hfsym : (freeRest o (unload o st sb).1 sb id).symbols = adel id st.symbols := by
          rw [freeRest_symbols, hstate]
        have F : Frame (freeRest o (unload o st sb).1 sb id) st sb := by
          refine ⟨hRf.toTBase, h.toTBase, ?_, by rw [hid]; exact hs⟩
          intro k; rw [hfsym, aget_adel, hid]
        obtain ⟨p1, p2, p3⟩ := pass_split o ho _ st sb h F l l.reverse s.done hl
          (fun x => List.mem_reverse) (Or.inr (List.Sublist.refl _)) hdone
        have hmem : ∀ k, k ∈ s.done.map (·.id) ↔ ∃ x ∈ s.done, x.id = k := by
          intro k; simp [List.mem_map]
        have hbal : ∀ k, balance k (unload o st sb).1.log =
            balance k st.log + if k ∈ s.done.map (·.id) then -1 else 0 := by
          intro k; rw [hstate]; simp only; rw [balance_append, balance_unloadBlocks _ k _ p1]
        have hact : ∀ k, (balance k (unload o st sb).1.log = 1 ∧ Cl (freeRest o (unload o st sb).1 sb id) k) ∨
            (balance k (unload o st sb).1.log = 0 ∧ ¬ Cl (freeRest o (unload o st sb).1 sb id) k) := by
          intro k
          rw [hbal k]
          rcases ha.act k with ⟨b, c⟩ | ⟨b, c⟩
          · by_cases hm : k ∈ s.done.map (·.id)
            · right
              simp only [hm, if_true, b]
              exact ⟨by omega, fun hc => p3 k hc ((hmem k).mp hm)⟩
            · left
              simp only [hm, if_false, b, Int.add_zero, true_and]
              rcases (p2 k).mp c with h' | h'
              · exact h'
              · exact absurd ((hmem k).mpr h') hm
          · right
            have hm : k ∉ s.done.map (·.id) := by
              intro hm; exact c ((p2 k).mpr (Or.inr ((hmem k).mp hm)))
            simp only [hm, if_false, b, Int.add_zero, true_and]
            intro hc; exact c ((p2 k).mpr (Or.inl hc))
        have hlogU : LogOK (unload o st sb).1.log := by
          rw [hstate]; simp only
          apply logOK_unloadBlocks _ ha.log _ p1
          intro x hx
          rcases ha.act x.id with ⟨b, _⟩ | ⟨_, c⟩
          · exact b
          · exact absurd ((p2 x.id).mpr (Or.inr ⟨x, hx, rfl⟩)) c
        have hsb0 : balance sb.id (unload o st sb).1.log = 0 := by
          rcases hact sb.id with ⟨_, c⟩ | ⟨b, _⟩
          · obtain ⟨t, ht', _⟩ := c
            rw [hfsym, aget_adel, hid] at ht'; simp at ht'
          · exact b
        refine ⟨?_, ?_⟩
        · intro k
          rw [freeRest_log]
          cases sb.hasNode with
          | false => simpa using hact k
          | true =>
            simp only [if_true, balance_append, balance, Int.add_zero]
            exact hact k
        · rw [freeRest_log]
          cases sb.hasNode with
          | false => simpa using hlogU
          | true =>
            simp only [if_true]
            exact logOK_snoc hlogU _ hsb0
    · rw [if_neg hu] at hok
      exact absurd hok hu

end Uniflow.Table

namespace Uniflow.Table

theorem ainv_init : AInv {} := by
  refine ⟨?_, ?_, ?_⟩
  · intro k; right
    refine ⟨rfl, ?_⟩
    rintro ⟨s, h, _⟩; cases h
  · intro k pre hp
    have : pre = [] := List.prefix_nil.mp hp
    subst this; exact Or.inl rfl
  · intro k pre hp
    have := List.prefix_nil.mp hp
    simp at this

theorem ainv_freeAll (o : Ord) (ho : o.Valid) (st : State) (l : List Sym) (h : RInv st) (ha : AInv st)
    (hok : (freeAll o st l).2 = .ok) : AInv (freeAll o st l).1 := by
  induction l generalizing st with
  | nil => exact ha
  | cons x xs ih =>
    unfold freeAll at hok ⊢
    have h1 := rinv_free o ho st x.id h
    have h2 := ainv_free o ho st x.id h ha
    cases hf : free o st x.id with
    | mk st1 rb =>
      obtain ⟨r, b⟩ := rb
      rw [hf] at h1 h2 hok
      cases r with
      | ok => exact ih st1 h1 (h2 rfl) hok
      | err es => simp at hok
      | panic => simp at hok

theorem ainv_step (o : Ord) (ho : o.Valid) (st : State) (op : Op) (h : RInv st) (ha : AInv st)
    (hw : WfOp st op) (hok : (step o st op).2.1 = .ok) : AInv (step o st op).1 := by
  cases op with
  | insert sb =>
    rw [step_insert_eq] at hok ⊢
    have h1 := rinv_free o ho st sb.id h
    split
    · rename_i hfo
      rw [if_pos hfo] at hok
      have hfs := fun k => free_symbols o st sb.id k
      simp only [hfo, true_and] at hfs
      refine ainv_insert o ho _ sb h1 (ainv_free o ho st sb.id h ha hfo) (by rw [hfs]; simp) hw.1 ?_ hok
      intro hn k t hk h2 h3
      rw [hfs] at hk
      split at hk
      · cases hk
      · exact hw.2 hn k t hk h2 h3
    · rename_i hfo
      rw [if_neg hfo] at hok
      exact absurd hok hfo
  | free id => exact ainv_free o ho st id h ha hok
  | close =>
    rw [step_close_eq] at hok ⊢
    cases hc : closeOrder o st with
    | none => rw [hc] at hok; simp at hok
    | some l =>
      rw [hc] at hok
      exact ainv_freeAll o ho st l h ha hok

theorem ainv_run (o : Ord) (ho : o.Valid) (h : List Op) (st : State) (hr : RInv st) (ha : AInv st)
    (hw : WfRun o st h) (hok : OkRun o st h) : AInv (run o st h) := by
  induction h generalizing st with
  | nil => exact ha
  | cons op ops ih =>
    exact ih _ (rinv_step o ho st op hr hw.1) (ainv_step o ho st op hr ha hw.1 hok.1) hw.2 hok.2

theorem specRun_append_close (m : Nat → Option Sym) (h : List Op) (k : Nat) :
    specRun m (h ++ [.close]) k = none := by
  induction h generalizing m with
  | nil => rfl
  | cons op ops ih => exact ih _

end Uniflow.Table

/-- **`references_exact`.** After every well-formed history the reverse index `references[t][i]`
contains the entry `{ID: s, Name: n, Port: o}` exactly when `s` and `t` are present symbols of the
same namespace and the spec of `s` lists under out-port `o` a reference with in-port `i` and
name field `n` that names `t` (by id, or by name among the present symbols) – through the fixed
`unlinks` filter, whatever the operations returned. -/
theorem C07.references_exact (o : Ord) (ho : o.Valid) (h : List Op) (hw : WfRun o {} h) (t i : Nat) (e : Ref) :
    e ∈ refsAt (run o {} h).references t i ↔ RefSpec (run o {} h) t i e :=
  (rinv_run o ho h {} rinv_init hw).refs t i e

/-- **Fuel sufficiency.** After every history (well-formed or not) no operation returns `panic`:
the four queue / stack loops never run out of the fuel the model gives them. -/
theorem C07.no_fuel_exhaustion (o : Ord) (ho : o.Valid) (h : List Op) (op : Op) :
    (step o (run o {} h) op).2.1 ≠ .panic :=
  step_ne_panic o ho _ (C07.reachable_keyId o h) op

/-- **`linked(sb)` is exactly the set of present symbols that reach `sb`** (in every state
reached by a well-formed history). -/
theorem C07.linked_exact (o : Ord) (ho : o.Valid) (h : List Op) (hw : WfRun o {} h) (sb : Sym)
    (hsb : Live (run o {} h) sb) (l : List Sym) (hl : linked o (run o {} h) sb = some l) (x : Sym) :
    x ∈ l ↔ (Live (run o {} h) x ∧ Reach (run o {} h) x sb) :=
  linked_spec o ho _ (rinv_run o ho h {} rinv_init hw) sb hsb l hl x

theorem C07.active_iff_closure : C07.active_iff_closure_full := by
  intro o ho h hw hok k
  have ha := ainv_run o ho h {} rinv_init ainv_init hw hok
  unfold activeIn
  rcases ha.act k with ⟨b, c⟩ | ⟨b, c⟩
  · rw [b]; exact ⟨fun _ => c, fun _ => by decide⟩
  · rw [b]; exact ⟨fun h' => absurd h' (by decide), fun h' => absurd h' c⟩

theorem C07.alternation : C07.alternation_full := by
  intro o ho h hw hok k pre hp
  exact (ainv_run o ho h {} rinv_init ainv_init hw hok).log.alt k pre hp

theorem C07.unload_before_close : C07.unload_before_close_full := by
  intro o ho h hw hok k pre hp
  exact (ainv_run o ho h {} rinv_init ainv_init hw hok).log.cls k pre hp

theorem C07.close_unloads_all : C07.close_unloads_all_full := by
  intro o ho h hw hok k hact
  obtain ⟨s, hs, _⟩ := (C07.active_iff_closure o ho (h ++ [.close]) hw hok k).mp hact
  have := C06.lookup_latest o ho (h ++ [Op.close]) hok k
  rw [specRun_append_close, hs] at this
  cases this

/-! ### the same without "the result is not a fuel exhaustion" hypotheses -/

/-- `isActivated` always answers, and its answer is the closure predicate
(`C07.isActivated_iff_closure` with its hypothesis `isActivated … = some b` discharged). -/
theorem C07.isActivated_total (o : Ord) (ho : o.Valid) (h : List Op) (sb : Sym)
    (hsb : Live (run o {} h) sb) :
    ∃ b, isActivated o (run o {} h) sb = some b ∧ (b = true ↔ ClosureOK (run o {} h) sb) := by
  have hk := C07.reachable_keyId o h
  cases hb : isActivated o (run o {} h) sb with
  | none => exact absurd hb (isActivated_ne_none o ho _ hk sb)
  | some b => exact ⟨b, rfl, C07.isActivated_iff_closure o ho _ hk sb hsb b hb⟩

/-- `linked` always answers; its answer is duplicate-free and is exactly the set of present symbols
that reach `sb` (`C07.linked_nodup`, `C07.linked_exact` with `linked … = some l` discharged). -/
theorem C07.linked_total (o : Ord) (ho : o.Valid) (h : List Op) (hw : WfRun o {} h) (sb : Sym)
    (hsb : Live (run o {} h) sb) :
    ∃ l, linked o (run o {} h) sb = some l ∧ (l.map (·.id)).Nodup ∧
      ∀ x, x ∈ l ↔ (Live (run o {} h) x ∧ Reach (run o {} h) x sb) := by
  cases hl : linked o (run o {} h) sb with
  | none => exact absurd hl (linked_ne_none o ho _ sb)
  | some l =>
    exact ⟨l, rfl, C07.linked_nodup o ho _ sb l hl, fun x => C07.linked_exact o ho h hw sb hsb l hl x⟩
