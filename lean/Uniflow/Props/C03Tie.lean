/-
C03Tie – re-statement, under this property's name, of regenerated-source tie theorems proved in
C01Tie (the property's model rests on the same source facts; `bin/check` builds and audits only
Props/<this property>*.lean, so without this file a source change that breaks these ties would be
reported for the other property only). Each theorem below has the SAME statement (type_of%) as the
theorem it cites and is proved by it.
-/
import Uniflow.Props.C01Tie

theorem C03.close_facts : type_of% C01.close_facts := C01.close_facts
theorem C03.close_loops_as_modelled : type_of% C01.close_loops_as_modelled := C01.close_loops_as_modelled
theorem C03.write_facts : type_of% C01.write_facts := C01.write_facts
theorem C03.write_row_as_modelled : type_of% C01.write_row_as_modelled := C01.write_row_as_modelled
theorem C03.reader_queue_facts : type_of% C01.reader_queue_facts := C01.reader_queue_facts
theorem C03.reader_queue_as_modelled : type_of% C01.reader_queue_as_modelled := C01.reader_queue_as_modelled
theorem C03.reader_queue_writers : type_of% C01.reader_queue_writers := C01.reader_queue_writers
theorem C03.receive_flush_as_modelled : type_of% C01.receive_flush_as_modelled := C01.receive_flush_as_modelled
theorem C03.join_as_modelled : type_of% C01.join_as_modelled := C01.join_as_modelled
