/-
C19 – re-statements of the function-outline ties of the files this property is anchored in and that are filed under another
property (bin/freeze_all.py): a source change there is reported for C19 as well.
-/
import Uniflow.Props.C01TieFn1
import Uniflow.Props.C01TieFn2
import Uniflow.Props.C05TieFn1
import Uniflow.Props.C05TieFn2

theorem C19.src_packet_reader_as_modelled : type_of% C01.src_packet_reader_as_modelled := C01.src_packet_reader_as_modelled
theorem C19.src_packet_writer_as_modelled_1 : type_of% C01.src_packet_writer_as_modelled_1 := C01.src_packet_writer_as_modelled_1
theorem C19.src_packet_writer_as_modelled_2 : type_of% C01.src_packet_writer_as_modelled_2 := C01.src_packet_writer_as_modelled_2
theorem C19.src_port_inport_as_modelled_1 : type_of% C05.src_port_inport_as_modelled_1 := C05.src_port_inport_as_modelled_1
theorem C19.src_port_inport_as_modelled_2 : type_of% C05.src_port_inport_as_modelled_2 := C05.src_port_inport_as_modelled_2
theorem C19.src_port_outport_as_modelled_1 : type_of% C05.src_port_outport_as_modelled_1 := C05.src_port_outport_as_modelled_1
theorem C19.src_port_outport_as_modelled_2 : type_of% C05.src_port_outport_as_modelled_2 := C05.src_port_outport_as_modelled_2
