/-
C04 — process exit hooks run exactly once; exit cascades to children; Join waits.

Property theorems about the small-step machine `Uniflow.Process` (model of
`pkg/process/process.go`, `exithook.go`). A schedule is a list of (thread, choice) pairs;
every theorem is about `run (init nt) sched` for ALL `nt` and ALL `sched`, i.e. every
reachable state of every process forest under every interleaving of atomic steps.
Helper lemmas and the inductive invariants are in `Uniflow/Proofs/Process.lean`.

Reading of the statement that the theorems formalise
  * a *registration* is an `AddExitHook` call that is not refused as a duplicate (it returns
    true, or the process is already terminated and the hook runs at once); each gets a fresh
    ghost token `k < nextTok` with `owner k` the process; `runCount s k` = occurrences in the log;
  * "the exiting thread has finished" for `p` = no thread has an activation of `p`'s hook list
    with hooks still to run (`¬ pending s p`).
-/
import Uniflow.Proofs.ProcessJoin
import Uniflow.Proofs.ProcessLog

namespace Uniflow.Process

/-- how often registration `k` has been run so far -/
def runCount (s : State) (k : Nat) : Nat := cntL k s.log

/-- some thread still has hooks of `p` to run (inside `Exit(p)` or a late `AddExitHook(p, …)`) -/
def pending (s : State) (p : Nat) : Prop :=
  ∃ t, t < s.nt ∧ ∃ f, f ∈ (s.threads t).stack ∧ f.proc = p ∧ f.rem ≠ []

theorem exactly_once_of_good {s : State} (g : Good s) (k : Nat) (hk : k < s.nextTok) :
    runCount s k ≤ 1 ∧
      ((s.procs (s.owner k)).terminated = true → ¬ pending s (s.owner k) → runCount s k = 1) := by
  have hc := (g.cons k).1 hk
  refine ⟨by simp only [total, runCount] at *; omega, ?_⟩
  intro hterm hnp
  have h1 : hooksCount k s = 0 := by
    apply sumTo_eq_zero
    intro q hq
    apply cntH_zero
    intro x hx hxk
    have := (g.hooksOK q x hq hx).1
    rw [hxk] at this
    have h2 := g.hooksRun q hq (by rw [← this]; exact hterm)
    rw [h2] at hx; simp at hx
  have h2 : framesCount k s = 0 := by
    apply sumTo_eq_zero
    intro t ht
    by_cases h0 : 0 < cntS k (s.threads t).stack
    · obtain ⟨f, hf, x, hx, hxk⟩ := cntS_pos h0
      have := ((g.frameOK t f ht hf).2 x hx).2.2.1
      rw [hxk] at this
      exact absurd ⟨t, ht, f, hf, this.symm, by intro e; rw [e] at hx; simp at hx⟩ hnp
    · omega
  simp only [total, runCount] at *; omega

/-- `d` is a proper descendant of `p` in the fork forest of `s` -/
inductive Desc (s : State) : Nat → Nat → Prop where
  | child {c p : Nat} : c < s.np → (s.procs c).parent = some p → Desc s c p
  | step {c q p : Nat} : c < s.np → (s.procs c).parent = some q → Desc s q p → Desc s c p

theorem cascade_child_of {s : State} (g : Good s) (h : Casc s none) {c p : Nat} (hc : c < s.np)
    (hp : (s.procs c).parent = some p) (ht : (s.procs p).terminated = true) (hnp : ¬ pending s p) :
    (s.procs c).terminated = true := by
  have h1 := h c p hc hp
  cases hrun : (s.procs c).terminated with
  | true => rfl
  | false =>
    rcases h1.2 hrun with ⟨x, hl, _⟩ | hx
    · rcases hl with hl | ⟨t, f, ht', hf, hfp, hx⟩
      · rw [g.hooksRun p h1.1 ht] at hl; simp at hl
      · exact absurd ⟨t, ht', f, hf, hfp, by intro e; rw [e] at hx; simp at hx⟩ hnp
    · cases hx

/-- the concrete schedule used by the non-vacuity theorems: one root with a user hook and a
forked child; `Exit(root, e3)` run to completion by thread 0. -/
def demoSched : List (Nat × Action) :=
  [(0, .start .new), (0, .start (.add 0 1)), (0, .start (.fork 0)), (0, .cont),
   (0, .start (.exit 0 3)), (0, .cont), (0, .cont), (0, .cont), (0, .cont), (0, .cont), (0, .cont)]

end Uniflow.Process

open Uniflow.Process

/-- **Exactly once.** In every reachable state every registration has run at most once, and
exactly once as soon as its process is terminated and no thread still has hooks of that process
to run – whether it was registered before, during or after termination. -/
theorem C04.hook_exactly_once (nt : Nat) (sched : List (Nat × Action)) (k : Nat) :
    let s := run (init nt) sched
    k < s.nextTok →
      runCount s k ≤ 1 ∧
      ((s.procs (s.owner k)).terminated = true → ¬ pending s (s.owner k) → runCount s k = 1) :=
  fun hk => exactly_once_of_good (good_run (good_init nt) sched) k hk

/-- **Hooks receive the exit error.** Every hook run recorded in the log happened on a
terminated process and received exactly that process's stored exit error. -/
theorem C04.hook_gets_first_error (nt : Nat) (sched : List (Nat × Action)) (e : LogE) :
    let s := run (init nt) sched
    e ∈ s.log → (s.procs e.proc).terminated = true ∧ e.err = (s.procs e.proc).err ∧ s.owner e.tok = e.proc :=
  fun he => ((good_run (good_init nt) sched).logOK e he).2

/-- **Status and Done agree.** `Done` is closed iff the status is terminated, and `Err()` is
non-nil iff terminated or an error is stored. -/
theorem C04.status_done_err_agree (nt : Nat) (sched : List (Nat × Action)) (p : Nat) :
    let s := run (init nt) sched
    p < s.np → (s.procs p).done = (s.procs p).terminated ∧
      ((s.procs p).terminated = true → errObs (s.procs p) ≠ .nil) := by
  intro s hp
  refine ⟨(good_run (good_init nt) sched).doneOK p hp, ?_⟩
  intro ht
  simp only [errObs]
  split
  · simp
  · simp

/-- **First error kept.** No step of any thread changes the status or the stored error of a
terminated process (a second `Exit` with another error, a cascade from the parent, late hooks). -/
theorem C04.first_error_kept (s : State) (t : Nat) (a : Action) (p : Nat) :
    p < s.np → (s.procs p).terminated = true →
      ((step s t a).procs p).terminated = true ∧ ((step s t a).procs p).err = (s.procs p).err :=
  fun hp ht => (flip_step s t a p hp).1 ht

/-- **Values cleared at exit.** Whatever step terminates a process (its own `Exit` or the cascade
from an ancestor) leaves it with no values of its own. (`SetValue` on a terminated process can
add values again – the Go code does not refuse it – so this is a statement about the exit step.) -/
theorem C04.values_cleared_at_exit (s : State) (t : Nat) (a : Action) (p : Nat) :
    p < s.np → (s.procs p).terminated = false → ((step s t a).procs p).terminated = true →
      ((step s t a).procs p).data = [] :=
  fun hp hr ht => (flip_step s t a p hp).2 hr ht

/-- **Cascade, one level.** In every reachable state: if `p` is terminated and no thread still
has hooks of `p` to run, every process forked from `p` is terminated. -/
theorem C04.cascade_child (nt : Nat) (sched : List (Nat × Action)) (c p : Nat) :
    let s := run (init nt) sched
    c < s.np → (s.procs c).parent = some p → (s.procs p).terminated = true → ¬ pending s p →
      (s.procs c).terminated = true :=
  fun hc hp ht hnp =>
    cascade_child_of (good_run (good_init nt) sched) (casc_run (casc_init nt) (good_init nt) sched) hc hp ht hnp

/-- **Cascade.** In every reachable state in which no thread has hooks left to run, every
descendant of a terminated process is terminated. -/
theorem C04.cascade (nt : Nat) (sched : List (Nat × Action)) (d p : Nat) :
    let s := run (init nt) sched
    (∀ q, ¬ pending s q) → (s.procs p).terminated = true → Desc s d p → (s.procs d).terminated = true := by
  intro s hq ht hd
  have g : Good s := good_run (good_init nt) sched
  have h : Casc s none := casc_run (casc_init nt) (good_init nt) sched
  induction hd with
  | child hc hp => exact cascade_child_of g h hc hp ht (hq _)
  | step hc hp _ ih => exact cascade_child_of g h hc hp (ih ht) (hq _)

/-- Non-vacuity: after `demoSched` the root and its child are terminated, nothing is pending,
three registrations exist (user hook, the child's wait-done hook, the child in the root) and each
has run exactly once with error 3. -/
theorem C04.hook_exactly_once_nonvacuous :
    let s := run (init 1) demoSched
    s.np = 2 ∧ s.nextTok = 3 ∧ (s.procs 0).terminated = true ∧ (s.procs 1).terminated = true ∧
    (s.procs 1).parent = some 0 ∧ (s.threads 0).stack = [] ∧
    runCount s 0 = 1 ∧ runCount s 1 = 1 ∧ runCount s 2 = 1 ∧ s.log.map (·.err) = [3, 3, 3] ∧
    (s.procs 0).err = 3 ∧ (s.procs 1).err = 3 := by
  decide

/-- Non-vacuity of `first_error_kept` / `values_cleared_at_exit`: a second `Exit` with another
error changes nothing; the first `Exit` cleared a value. -/
theorem C04.first_error_kept_nonvacuous :
    let s := run (init 1) [(0, .start .new), (0, .start (.setv 0 1 7)), (0, .start (.exit 0 3)), (0, .cont)]
    (s.procs 0).terminated = true ∧ (s.procs 0).err = 3 ∧ (s.procs 0).data = [] ∧
    ((step s 0 (.start (.exit 0 4))).procs 0).err = 3 := by
  decide

/-- **Reverse order (partial).** The activation created by the flip holds exactly the hooks
registered before termination, in reverse registration order, and `contStep` always runs the
head of that list – so the thread that performed the flip runs them in reverse order.
The full statement – the order in the log across all threads – is `C04.reverse_order` /
`C04.reverse_order_log` below (with `C04.early_frame_unique`). -/
theorem C04.reverse_order_partial (s : State) (t p e : Nat) :
    (s.procs p).terminated = false →
    ((exitFlip s t p e).threads t).stack.head? =
      some { proc := p, rem := (s.procs p).hooks.reverse, err := e } := by
  intro h
  simp [exitFlip, h, pushFrame]

/-- Full statement (proved below as `C04.reverse_order`): in every reachable state, for two registrations `k₁ < k₂` made
on the same process before its termination, `k₁` logged implies `k₂` logged (one log entry per
step, so `k₂` ran strictly earlier). -/
def C04.reverse_order_full : Prop :=
  ∀ (nt : Nat) (sched : List (Nat × Action)) (k₁ k₂ : Nat),
    let s := run (init nt) sched
    k₁ < k₂ → k₂ < s.nextTok → s.owner k₁ = s.owner k₂ → s.late k₁ = false → s.late k₂ = false →
      0 < runCount s k₁ → 0 < runCount s k₂

/-- Full statement (proved below as `C04.join_after_children`), for the code after fix 37f33b8
(`children` counter + `sync.Cond`): the counter of `p` is never negative, and whenever it is 0 –
the only situation in which a check of `Join`'s loop condition lets `Join` return – every child of
`p` is terminated and all its hooks registered before its termination have run exactly once. -/
def C04.join_after_children_full : Prop :=
  ∀ (nt : Nat) (sched : List (Nat × Action)) (p c : Nat),
    let s := run (init nt) sched
    (p < s.np → 0 ≤ (s.procs p).children) ∧
    (p < s.np → (s.procs p).children = 0 → c < s.np → (s.procs c).parent = some p →
      (s.procs c).terminated = true ∧
      ∀ k, k < s.nextTok → s.owner k = c → s.late k = false → runCount s k = 1)

/-- **Join (partial).** A thread inside `Join(p)` that finds the counter positive does not return:
it parks in `p.join.Wait()`; and a parked thread does not move by itself (only a Broadcast – see
`Uniflow.Process.broadcast` – puts it back in front of the loop condition). -/
theorem C04.join_after_children_partial (s : State) (t p : Nat) :
    ((s.threads t).pc = .joining p → t < s.nt → 0 < (s.procs p).children →
      ((step s t .cont).threads t).pc = .waiting p) ∧
    ((s.threads t).pc = .waiting p → step s t .cont = s) := by
  refine ⟨?_, ?_⟩
  · intro hpc ht hw
    simp [step, ht, contStep, hpc, hw]
  · intro hpc
    unfold step
    split
    · simp [contStep, hpc]
    · rfl

/-! ### full statements (follow-up): order across threads, wait counter, Join -/

/-- all invariants hold in every reachable state -/
theorem reach_inv (nt : Nat) (sched : List (Nat × Action)) :
    let s := run (init nt) sched
    Good s ∧ Ord s ∧ JC s ∧ JW s ∧ JP s := by
  have g := good_run (good_init nt) sched
  have o := ord_run (good_init nt) (ord_init nt) sched
  have j := j_run (good_init nt) (ord_init nt) (jc_init nt) (jw_init nt) sched
  exact ⟨g, o, j.1, j.2, jp_run (good_init nt) (ord_init nt) (jc_init nt) (jw_init nt) (jp_init nt) sched⟩

/-- **Reverse order, across all threads.** In every reachable state, for two registrations
`k₁ < k₂` (registration order = token order) made on the same process before its termination:
if `k₁` has run then `k₂` has run. A step logs at most one hook, so `k₂` ran strictly before `k₁`:
hooks registered before the flip run in reverse registration order in the log, whichever threads
execute `Exit` concurrently. -/
theorem C04.reverse_order : C04.reverse_order_full := by
  intro nt sched k₁ k₂ s h12 h2 hown hl1 hl2 hc
  exact (reach_inv nt sched).2.1.logOrd k₁ k₂ h12 h2 hown hl1 hl2 hc

/-- **Only one activation holds the early hooks of a process.** In every reachable state, two
frames (on any threads) that each still hold a hook registered on the same process before its
termination are the same frame of the same thread – only the `Exit` whose locked section
performed the flip received the hook list. -/
theorem C04.early_frame_unique (nt : Nat) (sched : List (Nat × Action)) (t t' : Nat) (f f' : Frame) (x x' : Hook) :
    let s := run (init nt) sched
    t < s.nt → t' < s.nt → f ∈ (s.threads t).stack → f' ∈ (s.threads t').stack →
    x ∈ f.rem → x' ∈ f'.rem → s.late x.tok = false → s.late x'.tok = false → f.proc = f'.proc →
      t = t' ∧ f = f' := by
  intro s ht ht' hf hf' hx hx' hl hl' hp
  obtain ⟨g, o, _, _⟩ := reach_inv nt sched
  have ho := ((g.frameOK t f ht hf).2 x hx).2.2.1
  have ho' := ((g.frameOK t' f' ht' hf').2 x' hx').2.2.1
  rcases Nat.lt_trichotomy x.tok x'.tok with h | h | h
  · obtain ⟨y, hy, hyk⟩ := o.remClosed t' f' x' x.tok ht' hf' hx' hl' h hl (by rw [ho, hp])
    exact g.frame_tok_unique ht ht' hf hf' hx hy hyk
  · exact g.frame_tok_unique ht ht' hf hf' hx hx' h.symm
  · obtain ⟨y, hy, hyk⟩ := o.remClosed t f x x'.tok ht hf hx hl h hl' (by rw [ho', hp])
    have := g.frame_tok_unique ht' ht hf' hf hx' hy hyk
    exact ⟨this.1.symm, this.2.symm⟩

/-- **A second (concurrent or later) `Exit` gets the empty list.** In every reachable state,
`Exit` on an already terminated process pushes an activation with no hooks at all. -/
theorem C04.second_exit_gets_empty (nt : Nat) (sched : List (Nat × Action)) (t p e : Nat) :
    let s := run (init nt) sched
    p < s.np → (s.procs p).terminated = true →
      ((exitFlip s t p e).threads t).stack.head? = some { proc := p, rem := [], err := e } ∧
      (exitFlip s t p e).procs = s.procs := by
  intro s hp ht
  have g := (reach_inv nt sched).1
  have hh : (s.procs p).hooks = [] := g.hooksRun p hp ht
  simp [exitFlip, ht, hh, pushFrame]

/-- **Children-counter accounting.** In every reachable state the counter of `p` equals the
number of threads between `p.children++` and the registration of the new child, plus the number of
children of `p` whose wait-done hook has not run. (Name kept from the `WaitGroup` version.) -/
theorem C04.wait_counter_accounting (nt : Nat) (sched : List (Nat × Action)) (p : Nat) :
    let s := run (init nt) sched
    p < s.np → (s.procs p).children = (pendForks s p : Int) + (unrunKids s p : Int) :=
  fun hp => (reach_inv nt sched).2.2.1.acc p hp

/-- **The counter is never negative.** `children` is a plain Go `int`; a decrement below zero
would not panic – it never happens, under any schedule: every wait-done hook runs once, after
the increment that counted its child. -/
theorem C04.children_never_negative (nt : Nat) (sched : List (Nat × Action)) (p : Nat) :
    let s := run (init nt) sched
    p < s.np → 0 ≤ (s.procs p).children := by
  intro s hp
  have j : JC s := (reach_inv nt sched).2.2.1
  have := j.acc p hp
  omega

/-- The former `wait.Done never panics` (negative `WaitGroup` counter), restated for the code after
fix 37f33b8 – there is no panic any more, the statement is `children_never_negative`. -/
theorem C04.wait_done_never_panics (nt : Nat) (sched : List (Nat × Action)) (p : Nat) :
    let s := run (init nt) sched
    p < s.np → 0 ≤ (s.procs p).children :=
  C04.children_never_negative nt sched p

theorem join_of_inv {s : State} (g : Good s) (o : Ord s) (j : JC s) {p c : Nat} (hp : p < s.np)
    (hw : (s.procs p).children = 0) (hc : c < s.np) (hpar : (s.procs c).parent = some p) :
    (s.procs c).terminated = true ∧
      ∀ k, k < s.nextTok → s.owner k = c → s.late k = false → runCount s k = 1 := by
  have hacc := j.acc p hp
  have hge := sumTo_ge (f := fun c => unrun s p c) hc
  have hun : unrun s p c = 0 := by simp only [unrunKids] at hacc; omega
  have hsome : (s.procs c).parent.isSome = true := by rw [hpar]; rfl
  have hlogged : 0 < cntL (s.procs c).wtok s.log := by
    simp only [unrun, hpar, true_and] at hun
    by_cases e : cntL (s.procs c).wtok s.log = 0
    · simp [e] at hun
    · omega
  have hwt := j.wtokOK c hc hsome
  refine ⟨?_, ?_⟩
  · obtain ⟨e, he, hek⟩ := cntL_pos hlogged
    have := g.logOK e he
    rw [hek, hwt.2.1] at this
    rw [this.2.2.2]; exact this.2.1
  · intro k hk ho hl
    have hmin := j.wmin c k hc hsome hk ho
    have hle := (exactly_once_of_good g k hk).1
    have hpos : 0 < cntL k s.log := by
      by_cases e : (s.procs c).wtok = k
      · rw [← e]; exact hlogged
      · exact o.logOrd (s.procs c).wtok k (by omega) hk (by rw [hwt.2.1, ho]) hwt.2.2 hl hlogged
    simp only [runCount] at *; omega

/-- **Join waits; the counter is never negative.** In every reachable state: the counter of `p`
is ≥ 0, and whenever it is 0 – the only situation in which a check of `Join`'s loop condition
lets it return – every child of `p` is terminated and every hook registered on it before its
termination has run exactly once. (Children whose `Fork` is between its two halves keep the
counter positive, see `wait_counter_accounting`.) -/
theorem C04.join_after_children : C04.join_after_children_full := by
  intro nt sched p c s
  have g : Good s := (reach_inv nt sched).1
  have o : Ord s := (reach_inv nt sched).2.1
  have j : JC s := (reach_inv nt sched).2.2.1
  exact ⟨fun hp => (by have := j.acc p hp; omega), fun hp hw hc hpar => join_of_inv g o j hp hw hc hpar⟩

/-- **Join returns exactly when the counter is 0.** A thread in front of `Join`'s loop condition
returns by its next step iff the counter is 0, and parks in `Wait` iff it is positive. -/
theorem C04.join_returns_iff_zero (nt : Nat) (sched : List (Nat × Action)) (t p : Nat) :
    let s := run (init nt) sched
    t < s.nt → p < s.np → (s.threads t).pc = .joining p →
      (((step s t .cont).threads t).pc = .idle ↔ (s.procs p).children = 0) ∧
      (((step s t .cont).threads t).pc = .waiting p ↔ 0 < (s.procs p).children) := by
  intro s ht hp hpc
  have j : JC s := (reach_inv nt sched).2.2.1
  have hnn : 0 ≤ (s.procs p).children := by have := j.acc p hp; omega
  by_cases hw : 0 < (s.procs p).children
  · have h1 : ((step s t .cont).threads t).pc = .waiting p := by simp [step, ht, contStep, hpc, hw]
    rw [h1]
    exact ⟨⟨fun x => (by cases x), fun x => (by omega)⟩, ⟨fun _ => hw, fun _ => rfl⟩⟩
  · have h1 : ((step s t .cont).threads t).pc = .idle := by simp [step, ht, contStep, hpc, hw]
    rw [h1]
    exact ⟨⟨fun _ => (by omega), fun _ => rfl⟩, ⟨fun x => (by cases x), fun x => absurd x hw⟩⟩

/-- **No lost wake-up.** A thread parked in `p.join.Wait()` always sees a positive counter: the
decrement that makes the counter 0 wakes every parked thread in the same critical section. -/
theorem C04.join_no_lost_wakeup (nt : Nat) (sched : List (Nat × Action)) (t p : Nat) :
    let s := run (init nt) sched
    (s.threads t).pc = .waiting p → p < s.np ∧ 0 < (s.procs p).children := by
  intro s h
  have j := (reach_inv nt sched).2.2.2.2
  exact ⟨j.pcLt t p (Or.inr h), j.pos t p h⟩

/-- **Join concurrent with Fork** (what fix 37f33b8 is about; NO hypothesis on how `Join` is
used). If the check performed by thread `t` lets `Join(p)` return (its last check), then in the
state of that check
  * the counter of `p` is 0,
  * no `Fork` of `p` is between its `children++` and the registration of its child – so every
    `Fork` whose increment happened before this check has created and registered its child, and
  * every such child – every process forked from `p` so far – is terminated and all its hooks
    registered before its termination have run exactly once.
Forks of `p` whose increment comes after this check are not waited for (see the non-vacuity
theorem: a child forked after the return is running). -/
theorem C04.join_concurrent_fork (nt : Nat) (sched : List (Nat × Action)) (t p : Nat) :
    let s := run (init nt) sched
    t < s.nt → p < s.np → (s.threads t).pc = .joining p → ((step s t .cont).threads t).pc = .idle →
      (s.procs p).children = 0 ∧
      (∀ t', t' < s.nt → (s.threads t').pc ≠ .forkReg p) ∧
      ∀ c, c < s.np → (s.procs c).parent = some p →
        (s.procs c).terminated = true ∧
        ∀ k, k < s.nextTok → s.owner k = c → s.late k = false → runCount s k = 1 := by
  intro s ht hp hpc hret
  have g : Good s := (reach_inv nt sched).1
  have o : Ord s := (reach_inv nt sched).2.1
  have j : JC s := (reach_inv nt sched).2.2.1
  have hw : (s.procs p).children = 0 := ((C04.join_returns_iff_zero nt sched t p ht hp hpc).1).mp hret
  refine ⟨hw, ?_, fun c hc hpar => join_of_inv g o j hp hw hc hpar⟩
  intro t' ht' hfork
  have hacc := j.acc p hp
  have hge := sumTo_ge (f := fun t => if (s.threads t).pc = Pc.forkReg p then 1 else 0) ht'
  simp only [hfork, if_true] at hge
  simp only [pendForks] at hacc
  omega

/-- The same for one child (kept from the previous version): if a thread inside `Join(p)` returns
by its next step, every process forked from `p` so far – in particular every child forked before
the `Join` began – is terminated and all its hooks registered before termination have run. -/
theorem C04.join_return_after_children (nt : Nat) (sched : List (Nat × Action)) (t p c : Nat) :
    let s := run (init nt) sched
    t < s.nt → p < s.np → (s.threads t).pc = .joining p → ((step s t .cont).threads t).pc = .idle →
    c < s.np → (s.procs c).parent = some p →
      (s.procs c).terminated = true ∧
        ∀ k, k < s.nextTok → s.owner k = c → s.late k = false → runCount s k = 1 :=
  fun ht hp hpc hret hc hpar => (C04.join_concurrent_fork nt sched t p ht hp hpc hret).2.2 c hc hpar

/-- Non-vacuity of the Join theorems: after `demoSched` the root's counter is 0 with one child. -/
theorem C04.join_after_children_nonvacuous :
    let s := run (init 1) demoSched
    (s.procs 0).children = 0 ∧ (s.procs 1).parent = some 0 ∧ s.owner 1 = 1 ∧ s.late 1 = false ∧
    unrunKids s 0 = 0 ∧ pendForks s 0 = 0 := by
  decide

/-- Non-vacuity of `join_concurrent_fork`: thread 1 calls `Join(p0)` while thread 0 is between the
two halves of `p0.Fork()` – the child does not exist yet, but the counter is already 1, so the
Join parks; the Fork completes (child p1), p1 exits, its wait-done hook takes the counter to 0 and
wakes thread 1, whose next check returns with p1 terminated. A child forked afterwards (p2) is
running: the Join did not wait for it. -/
theorem C04.join_concurrent_fork_nonvacuous :
    let pre : List (Nat × Action) := [(0, .start .new), (0, .start (.fork 0)), (1, .start (.join 0)), (1, .cont)]
    let mid : List (Nat × Action) := pre ++ [(0, .cont), (2, .start (.exit 1 5)), (2, .cont), (2, .cont)]
    let s₁ := run (init 3) pre
    let s₂ := run (init 3) mid
    let s₃ := run (init 3) (mid ++ [(1, .cont), (0, .start (.fork 0)), (0, .cont)])
    (s₁.np = 1 ∧ (s₁.procs 0).children = 1 ∧ (s₁.threads 0).pc = .forkReg 0 ∧ (s₁.threads 1).pc = .waiting 0) ∧
    ((s₂.procs 0).children = 0 ∧ (s₂.threads 1).pc = .joining 0 ∧ (s₂.procs 1).terminated = true ∧
      ((step s₂ 1 .cont).threads 1).pc = .idle) ∧
    ((s₃.threads 1).pc = .idle ∧ (s₃.procs 2).parent = some 0 ∧ (s₃.procs 2).terminated = false ∧
      (s₃.procs 0).children = 1) := by
  decide

/-- Non-vacuity of `reverse_order`: two user hooks registered in the order 0 then 1 on one
process; after `Exit` has run one hook, it is hook 1 (token 1) that has run, not hook 0. -/
theorem C04.reverse_order_nonvacuous :
    let s := run (init 1) [(0, .start .new), (0, .start (.add 0 5)), (0, .start (.add 0 6)),
      (0, .start (.exit 0 2)), (0, .cont)]
    s.owner 0 = s.owner 1 ∧ s.late 0 = false ∧ s.late 1 = false ∧ s.nextTok = 2 ∧
    runCount s 1 = 1 ∧ runCount s 0 = 0 := by
  decide

/-- **Reverse order, read off the log.** In every reachable state the run log (newest entry
first) is sorted: of two entries for hooks registered on the same process before its termination,
the newer entry has the smaller token, i.e. the hook registered EARLIER ran LATER – on whatever
threads the two hooks ran. -/
theorem C04.reverse_order_log (nt : Nat) (sched : List (Nat × Action)) :
    let s := run (init nt) sched
    s.log.Pairwise (fun newer older =>
      s.owner newer.tok = s.owner older.tok → s.late newer.tok = false → s.late older.tok = false →
        newer.tok < older.tok) :=
  ls_run (good_init nt) (ord_init nt) (ls_init nt) sched

/-- Non-vacuity of `reverse_order_log`: both hooks of the two-hook process have run; the log,
newest first, lists token 0 (registered first) before token 1. -/
theorem C04.reverse_order_log_nonvacuous :
    let s := run (init 1) [(0, .start .new), (0, .start (.add 0 5)), (0, .start (.add 0 6)),
      (0, .start (.exit 0 2)), (0, .cont), (0, .cont)]
    s.log.map (·.tok) = [0, 1] ∧ s.log.map (·.kind) = [.user 5, .user 6] ∧ s.owner 0 = s.owner 1 ∧
    s.late 0 = false ∧ s.late 1 = false := by
  decide

/-! ### registrations are (process, hook) pairs -/

/-- **A registration is a (process, hook) pair.** `AddExitHook(p, user hook h)` by a free thread:
it is refused only when `p` is running and `h` is already in `p`'s OWN hook list – in that case
nothing changes; in every other case, whatever other processes the same hook `h` is registered
on, a fresh registration token owned by `p` is allocated and the hook is now registered on `p`
(in `p.exitHooks`, or – `p` terminated – in an activation that runs it with `p`'s error).
`C04.hook_exactly_once` is a statement about these tokens, i.e. per registration. -/
theorem C04.registration_per_process (s : State) (t p h : Nat) :
    t < s.nt → free s t = true → p < s.np →
    let s' := step s t (.start (.add p h))
    (((s.procs p).terminated = false ∧ (s.procs p).hooks.any (fun x => x.kind == HookKind.user h) = true) → s' = s) ∧
    (¬ ((s.procs p).terminated = false ∧ (s.procs p).hooks.any (fun x => x.kind == HookKind.user h) = true) →
      s'.nextTok = s.nextTok + 1 ∧ s'.owner s.nextTok = p ∧
      located s' p { kind := .user h, tok := s.nextTok }) := by
  intro ht hfree hp
  simp only [step, ht, if_true, hfree, startOp, hp]
  unfold addHook
  dsimp only
  by_cases hterm : (s.procs p).terminated = true
  · simp only [hterm, if_true]
    refine ⟨fun h1 => by simp at h1, fun _ => ⟨rfl, by simp, ?_⟩⟩
    exact Or.inr ⟨t, _, ht, (mem_stack_pushFrame _ t t _ _).mpr (Or.inl ⟨rfl, rfl⟩), rfl, by simp⟩
  · have hrun : (s.procs p).terminated = false := by simpa using hterm
    rw [if_neg hterm]
    by_cases hdup : (s.procs p).hooks.any (fun x => x.kind == HookKind.user h) = true
    · rw [if_pos hdup]
      exact ⟨fun _ => rfl, fun h1 => absurd ⟨hrun, hdup⟩ h1⟩
    · rw [if_neg hdup]
      refine ⟨fun h1 => absurd h1.2 hdup, fun _ => ⟨rfl, by simp, ?_⟩⟩
      exact Or.inl (by simp)

/-- Non-vacuity / sharing: the same hook id 7 registered on two roots and on a forked child gets
three registrations (tokens 0, 1, 4 owned by p0, p1, p2), the duplicate on p1 none; after the
processes have exited (p1 with error 2, p0 – and by cascade p2 – with error 4) each of the three
has run exactly once and received ITS process's error. -/
theorem C04.registration_per_process_nonvacuous :
    let s := run (init 1) [(0, .start .new), (0, .start .new), (0, .start (.add 0 7)), (0, .start (.add 1 7)),
      (0, .start (.add 1 7)), (0, .start (.fork 0)), (0, .cont), (0, .start (.add 2 7)),
      (0, .start (.exit 1 2)), (0, .cont), (0, .cont),
      (0, .start (.exit 0 4)), (0, .cont), (0, .cont), (0, .cont), (0, .cont), (0, .cont), (0, .cont), (0, .cont)]
    s.nextTok = 5 ∧ s.owner 0 = 0 ∧ s.owner 1 = 1 ∧ s.owner 4 = 2 ∧
    runCount s 0 = 1 ∧ runCount s 1 = 1 ∧ runCount s 4 = 1 ∧
    (s.log.filter (fun e => e.kind == HookKind.user 7)).map (fun e => (e.proc, e.err)) = [(0, 4), (2, 4), (1, 2)] ∧
    (s.threads 0).stack = [] := by
  decide
