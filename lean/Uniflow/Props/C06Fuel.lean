/-
C06 / C07 / C08 – fuel sufficiency of the symbol-table model.

`Model/Table.lean` runs its four non-structural loops (`linked`'s two queue loops, `Close`'s queue
loop, `isActivated`'s stack loop) on fuel computed from the state (`bfsFuel`, `kahnFuel`,
`actFuel`) and answers `none` / `Ret.panic` when the fuel runs out.  The theorems below show that
this branch is unreachable in every state any history can reach, so no theorem about the table is
true "because the model panicked".  (Proofs: `Proofs/TableFuel.lean`.)
-/
import Uniflow.Proofs.TableFuel

open Uniflow.Table

/-- A run in which no operation answered `panic`. -/
def Uniflow.Table.NoPanicRun (o : Ord) (st : State) : List Op → Prop
  | [] => True
  | op :: ops => (step o st op).2.1 ≠ .panic ∧ NoPanicRun o (step o st op).1 ops

/-- Every state a history reaches stores each symbol under its own id (the only invariant the fuel
bounds need). -/
theorem C06.reachable_keyId (o : Ord) (h : List Op) : KeyId (run o {} h) := by
  have gen : ∀ (h : List Op) (st : State), KeyId st → KeyId (run o st h) := by
    intro h
    induction h with
    | nil => intro st hk; exact hk
    | cons op ops ih => intro st hk; exact ih _ (keyId_step o st op hk)
  exact gen h {} (by intro k s h; cases h)

/-- **Fuel suffices, per function.** In every state reached by any history (well-formed or not),
for every symbol `sb` (present or not) and every iteration order: `linked`, `isActivated` and
`Close`'s ordering never run out of fuel, `load` / `unload` never answer `panic`, and neither does
any table operation. -/
theorem C06.fuel_suffices (o : Ord) (ho : o.Valid) (h : List Op) :
    (∀ sb, linked o (run o {} h) sb ≠ none) ∧
    (∀ sb, isActivated o (run o {} h) sb ≠ none) ∧
    closeOrder o (run o {} h) ≠ none ∧
    (∀ sb, (load o (run o {} h) sb).2 ≠ .panic) ∧
    (∀ sb, (unload o (run o {} h) sb).2 ≠ .panic) ∧
    (∀ op, (step o (run o {} h) op).2.1 ≠ .panic) := by
  have hk := C06.reachable_keyId o h
  exact ⟨fun sb => linked_ne_none o ho _ sb, fun sb => isActivated_ne_none o ho _ hk sb,
    closeOrder_ne_none o _, fun sb => load_ne_panic o ho _ hk sb, fun sb => unload_ne_panic o ho _ hk sb,
    fun op => step_ne_panic o ho _ hk op⟩

/-- **Fuel suffices, per history.** No operation of any history answers `panic`. -/
theorem C06.fuel_suffices_run (o : Ord) (ho : o.Valid) (h : List Op) : NoPanicRun o {} h := by
  have gen : ∀ (h : List Op) (st : State), KeyId st → NoPanicRun o st h := by
    intro h
    induction h with
    | nil => intro st _; trivial
    | cons op ops ih =>
      intro st hk
      exact ⟨step_ne_panic o ho st hk op, ih _ (keyId_step o st op hk)⟩
  exact gen h {} (by intro k s h; cases h)

/-- The same for an arbitrary state that stores its symbols under their ids – the fuel bounds do
not depend on how the state was reached. -/
theorem C06.fuel_suffices_state (o : Ord) (ho : o.Valid) (st : State) (hk : KeyId st) (sb : Sym) :
    linked o st sb ≠ none ∧ isActivated o st sb ≠ none ∧ closeOrder o st ≠ none := 
  ⟨linked_ne_none o ho st sb, isActivated_ne_none o ho st hk sb, closeOrder_ne_none o st⟩
