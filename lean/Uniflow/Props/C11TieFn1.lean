/-
C11 – regenerated tie over Generated/StoreFuncs.lean (extract/funcs.go): the outline of EVERY function of the source
files named below – regenerated from /repo on every run – equals the transcript frozen here (bin/freeze_all.py, repo 7f54b88,
2026-10-01). A theorem that stops checking names the file whose code is no longer the code that was modelled; bin/check then
searches for a failing input.
-/
import Uniflow.Generated.StoreFuncs

set_option maxRecDepth 16384 in
/-- pkg/store/executionplan.go as modelled: its declarations (in source order) and the outline of each -/
theorem C11.src_store_executionplan_as_modelled :
    Uniflow.Generated.StoreFuncs.o_store_executionplan_fn_newExecutionPlan = [
      "f, ok := filter.(types.Map)",
      "if !ok || len(keys) == 0",
      "  return nil",
      "key := keys[0]",
      "value := f.Get(key)",
      "plan := &executionPlan{key: key}",
      "if val, ok := value.(types.Map); ok",
      "  if v := val.Get(types.NewString(\"$eq\")); v != nil",
      "    plan.min, plan.max = v, v",
      "  var lowers []types.Value",
      "  if v := val.Get(types.NewString(\"$gt\")); v != nil",
      "    lowers = append(lowers, v)",
      "  if v := val.Get(types.NewString(\"$gte\")); v != nil",
      "    lowers = append(lowers, v)",
      "  for _, l := range lowers",
      "    if plan.min == nil || types.Compare(l, plan.min) > 0",
      "      plan.min = l",
      "  var uppers []types.Value",
      "  if v := val.Get(types.NewString(\"$lt\")); v != nil",
      "    uppers = append(uppers, v)",
      "  if v := val.Get(types.NewString(\"$lte\")); v != nil",
      "    uppers = append(uppers, v)",
      "  for _, u := range uppers",
      "    if plan.max == nil || types.Compare(u, plan.max) < 0",
      "      plan.max = u",
      "else",
      "  plan.min, plan.max = value, value",
      "if v, ok := f.Get(types.NewString(\"$and\")).(types.Slice); ok",
      "  for _, child := range v.Range()",
      "    plan.intersect(newExecutionPlan(keys, child))",
      "if v, ok := f.Get(types.NewString(\"$or\")).(types.Slice); ok && v.Len() > 0",
      "  var or *executionPlan",
      "  for i, child := range v.Range()",
      "    p := newExecutionPlan(keys, child)",
      "    if p == nil",
      "      or = nil",
      "      break",
      "    if i == 0",
      "      or = p",
      "    else",
      "      or.union(p)",
      "  plan.intersect(or)",
      "if plan.min == nil && plan.max == nil",
      "  return nil",
      "plan.next = newExecutionPlan(keys[1:], filter)",
      "return plan"
    ] ∧
    Uniflow.Generated.StoreFuncs.o_store_executionplan_executionPlan_intersect = [
      "if other == nil",
      "  return",
      "if e.key != other.key",
      "  e.min, e.max = nil, nil",
      "  return",
      "if e.min == nil || types.Compare(other.min, e.min) > 0",
      "  e.min = other.min",
      "if e.max == nil || types.Compare(other.max, e.max) < 0",
      "  e.max = other.max"
    ] ∧
    Uniflow.Generated.StoreFuncs.o_store_executionplan_executionPlan_union = [
      "if other == nil || e.key != other.key",
      "  e.min, e.max = nil, nil",
      "  return",
      "if e.min != nil && (other.min == nil || types.Compare(other.min, e.min) < 0)",
      "  e.min = other.min",
      "if e.max != nil && (other.max == nil || types.Compare(other.max, e.max) > 0)",
      "  e.max = other.max"
    ] ∧
    Uniflow.Generated.StoreFuncs.o_store_executionplan_executionPlan_lenght = [
      "if e.next != nil",
      "  return 1 + e.next.lenght()",
      "return 1"
    ] ∧
    Uniflow.Generated.StoreFuncs.names_store_executionplan = ["fn.newExecutionPlan", "executionPlan.intersect", "executionPlan.union", "executionPlan.lenght"] := by
  decide

