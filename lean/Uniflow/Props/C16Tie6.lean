/-
C16 – regenerated tie over Generated/CodecFuncs.lean (extract/funcs.go): for every source file the models of this
property were transcribed from, the outline of EVERY function of that file – regenerated from /repo on every run –
equals the transcript frozen here (bin/freeze_outlines.py, repo 7f54b88, 2026-10-01). A theorem that stops checking
names the file whose code is no longer the code that was modelled; bin/check then searches for a failing input.
-/
import Uniflow.Generated.CodecFuncs

set_option maxRecDepth 16384 in
/-- pkg/types/encoding.go as modelled (part 1 of 2): its declarations (in source order) and the outline of each -/
theorem C16.src_types_encoding_as_modelled_1 :
    Uniflow.Generated.CodecFuncs.o_types_encoding_fn_init = [
      "Encoder.Add(newPointerEncoder(Encoder))",
      "Encoder.Add(newMapEncoder(Encoder))",
      "Encoder.Add(newSliceEncoder(Encoder))",
      "Encoder.Add(newJSONEncoder(Encoder))",
      "Encoder.Add(newUintegerEncoder())",
      "Encoder.Add(newIntegerEncoder())",
      "Encoder.Add(newFloatEncoder())",
      "Encoder.Add(newBooleanEncoder())",
      "Encoder.Add(newBufferEncoder())",
      "Encoder.Add(newBinaryEncoder())",
      "Encoder.Add(newStringEncoder())",
      "Encoder.Add(newErrorEncoder())",
      "Encoder.Add(newTimeEncoder())",
      "Encoder.Add(newDurationEncoder())",
      "Encoder.Add(newShortcutEncoder())",
      "Decoder.Add(newPointerDecoder(Decoder))",
      "Decoder.Add(newMapDecoder(Decoder))",
      "Decoder.Add(newSliceDecoder(Decoder))",
      "Decoder.Add(newJSONDecoder(Decoder))",
      "Decoder.Add(newUintegerDecoder())",
      "Decoder.Add(newIntegerDecoder())",
      "Decoder.Add(newFloatDecoder())",
      "Decoder.Add(newBooleanDecoder())",
      "Decoder.Add(newBufferDecoder())",
      "Decoder.Add(newBinaryDecoder())",
      "Decoder.Add(newStringDecoder())",
      "Decoder.Add(newErrorDecoder())",
      "Decoder.Add(newTimeDecoder())",
      "Decoder.Add(newDurationDecoder())",
      "Decoder.Add(newShortcutDecoder())"
    ] ∧
    Uniflow.Generated.CodecFuncs.o_types_encoding_fn_Marshal = [
      "return Encoder.Encode(val)"
    ] ∧
    Uniflow.Generated.CodecFuncs.o_types_encoding_fn_Unmarshal = [
      "return Decoder.Decode(data, v)"
    ] ∧
    Uniflow.Generated.CodecFuncs.o_types_encoding_fn_newShortcutEncoder = [
      "typeValue := reflect.TypeOf((*Value)(nil)).Elem()",
      "return encoding.EncodeCompilerFunc[any, Value](func#1)",
      "func#1(typ reflect.Type) (encoding.Encoder[any, Value], error)",
      "  if typ != nil && typ.ConvertibleTo(typeValue)",
      "    return encoding.EncodeFunc(func#2), nil",
      "    func#2(source any) (Value, error)",
      "      s := source.(Value)",
      "      return s, nil",
      "  return nil, errors.WithStack(encoding.ErrUnsupportedType)"
    ] ∧
    Uniflow.Generated.CodecFuncs.o_types_encoding_fn_newShortcutDecoder = [
      "typeValue := reflect.TypeOf((*Value)(nil)).Elem()",
      "return encoding.DecodeCompilerFunc[Value](func#1)",
      "func#1(typ reflect.Type) (encoding.Decoder[Value, unsafe.Pointer], error)",
      "  if typ != nil && typ.Kind() == reflect.Pointer && typ.Elem().ConvertibleTo(typeValue)",
      "    return encoding.DecodeFunc(func#2), nil",
      "    func#2(source Value, target unsafe.Pointer) error",
      "      s := reflect.ValueOf(source)",
      "      t := reflect.NewAt(typ.Elem(), target).Elem()",
      "      if s.Type().ConvertibleTo(typ.Elem())",
      "        t.Set(s)",
      "        return nil",
      "      return errors.WithStack(encoding.ErrUnsupportedType)",
      "  return nil, errors.WithStack(encoding.ErrUnsupportedType)"
    ] ∧
    Uniflow.Generated.CodecFuncs.o_types_encoding_fn_newPointerEncoder = [
      "return encoding.EncodeCompilerFunc[any, Value](func#1)",
      "func#1(typ reflect.Type) (encoding.Encoder[any, Value], error)",
      "  if typ == nil",
      "    return encoding.EncodeFunc(func#2), nil",
      "    func#2(source any) (Value, error)",
      "      return nil, nil",
      "  else",
      "    if typ.Kind() == reflect.Pointer",
      "      var enc encoding.Encoder[any, Value]",
      "      enc, err := encoder.Compile(typ.Elem())",
      "      if err != nil",
      "        enc = encoder",
      "      return encoding.EncodeFunc(func#3), nil",
      "      func#3(source any) (Value, error)",
      "        if source == nil",
      "          return nil, nil",
      "        s := reflect.ValueOf(source)",
      "        if s.IsNil()",
      "          return nil, nil",
      "        return enc.Encode(s.Elem().Interface())",
      "  return nil, errors.WithStack(encoding.ErrUnsupportedType)"
    ] := by
  decide

set_option maxRecDepth 16384 in
/-- pkg/types/map.go as modelled (part 2 of 4): its declarations (in source order) and the outline of each -/
theorem C16.src_types_map_as_modelled_2 :
    Uniflow.Generated.CodecFuncs.o_types_map_fn_newMapEncoder = [
      "return encoding.EncodeCompilerFunc[any, Value](func#1)",
      "func#1(typ reflect.Type) (encoding.Encoder[any, Value], error)",
      "  if typ != nil && typ.Kind() == reflect.Map",
      "    keyType := typ.Key()",
      "    valueType := typ.Elem()",
      "    keyEncoder, _ := encoder.Compile(keyType)",
      "    if keyEncoder == nil",
      "      keyEncoder = encoder",
      "    valueEncoder, _ := encoder.Compile(valueType)",
      "    if valueEncoder == nil",
      "      valueEncoder = encoder",
      "    return encoding.EncodeFunc(func#2), nil",
      "    func#2(source any) (Value, error)",
      "      s := reflect.ValueOf(source)",
      "      m := NewMapWithSize(s.Len())",
      "      for _, k := range s.MapKeys()",
      "        v := s.MapIndex(k)",
      "        if key, err := keyEncoder.Encode(k.Interface()); err != nil",
      "          return nil, err",
      "        else",
      "          if val, err := valueEncoder.Encode(v.Interface()); err != nil",
      "            return nil, err",
      "          else",
      "            m.Set(key, val)",
      "      return m.Immutable(), nil",
      "  else",
      "    if typ != nil && typ.Kind() == reflect.Struct",
      "      decoders := make([]encoding.Decoder[reflect.Value, Map], 0, typ.NumField())",
      "      for i := 0; i < typ.NumField(); i++",
      "        field := typ.Field(i)",
      "        meta := getMapMeta(field)",
      "        if !field.IsExported() || meta.ignore",
      "          continue",
      "        child, err := encoder.Compile(field.Type)",
      "        if err != nil",
      "          child = encoder",
      "        alias := NewString(meta.alias)",
      "        var dec encoding.Decoder[reflect.Value, Map]",
      "        if meta.inline",
      "          dec = encoding.DecodeFunc(func#3)",
      "          func#3(source reflect.Value, m Map) error",
      "            elem := source.FieldByIndex(field.Index)",
      "            if meta.omitempty && elem.IsZero()",
      "              return nil",
      "            if target, err := child.Encode(elem.Interface()); err != nil",
      "              return err",
      "            else",
      "              if t, ok := target.(Map); !ok",
      "                return errors.WithStack(encoding.ErrUnsupportedValue)",
      "              else",
      "                for k, v := range t.Range()",
      "                  m.Set(k, v)",
      "                return nil",
      "        else",
      "          var zeroOnce sync.Once",
      "          var zero Value",
      "          dec = encoding.DecodeFunc(func#4)",
      "          func#4(source reflect.Value, m Map) error",
      "            elem := source.FieldByIndex(field.Index)",
      "            if meta.omitempty && elem.IsZero()",
      "              return nil",
      "            if target, err := child.Encode(elem.Interface()); err != nil",
      "              return err",
      "            else",
      "              if meta.omitempty",
      "                zeroOnce.Do(func#5)",
      "                func#5()",
      "                  zero, _ = child.Encode(reflect.Zero(field.Type).Interface())",
      "                if Equal(target, zero)",
      "                  return nil",
      "              m.Set(alias, target)",
      "              return nil",
      "        decoders = append(decoders, dec)",
      "      return encoding.EncodeFunc(func#6), nil",
      "      func#6(source any) (Value, error)",
      "        s := reflect.ValueOf(source)",
      "        m := NewMapWithSize(len(decoders) * 2)",
      "        for _, dec := range decoders",
      "          if err := dec.Decode(s, m); err != nil",
      "            return nil, err",
      "        return m.Immutable(), nil",
      "  return nil, errors.WithStack(encoding.ErrUnsupportedType)"
    ] := by
  decide

set_option maxRecDepth 16384 in
/-- pkg/types/binary.go as modelled (part 2 of 2): its declarations (in source order) and the outline of each -/
theorem C16.src_types_binary_as_modelled_2 :
    Uniflow.Generated.CodecFuncs.o_types_binary_fn_newBinaryDecoder = [
      "typeBinaryUnmarshaler := reflect.TypeOf((*encoding.BinaryUnmarshaler)(nil)).Elem()",
      "typeTextUnmarshaler := reflect.TypeOf((*encoding.TextUnmarshaler)(nil)).Elem()",
      "return encoding2.DecodeCompilerFunc[Value](func#1)",
      "func#1(typ reflect.Type) (encoding2.Decoder[Value, unsafe.Pointer], error)",
      "  if typ == nil",
      "    return nil, errors.WithStack(encoding2.ErrUnsupportedType)",
      "  else",
      "    if typ.ConvertibleTo(typeBinaryUnmarshaler)",
      "      return encoding2.DecodeFunc(func#2), nil",
      "      func#2(source Value, target unsafe.Pointer) error",
      "        if s, ok := source.(Binary); ok",
      "          t := reflect.NewAt(typ.Elem(), target).Interface().(encoding.BinaryUnmarshaler)",
      "          if err := t.UnmarshalBinary(s.Bytes()); err != nil",
      "            return errors.Wrap(encoding2.ErrUnsupportedValue, err.Error())",
      "          return nil",
      "        return errors.WithStack(encoding2.ErrUnsupportedType)",
      "    else",
      "      if typ.ConvertibleTo(typeTextUnmarshaler)",
      "        return encoding2.DecodeFunc(func#3), nil",
      "        func#3(source Value, target unsafe.Pointer) error",
      "          if s, ok := source.(Binary); ok",
      "            t := reflect.NewAt(typ.Elem(), target).Interface().(encoding.TextUnmarshaler)",
      "            if err := t.UnmarshalText([]byte(s.String())); err != nil",
      "              return errors.Wrap(encoding2.ErrUnsupportedValue, err.Error())",
      "            return nil",
      "          return errors.WithStack(encoding2.ErrUnsupportedType)",
      "      else",
      "        if typ.Kind() == reflect.Pointer",
      "          if typ.Elem().Kind() == reflect.Slice && typ.Elem().Elem().Kind() == reflect.Uint8",
      "            return encoding2.DecodeFunc(func#4), nil",
      "            func#4(source Value, target unsafe.Pointer) error",
      "              if s, ok := source.(Binary); ok",
      "                t := reflect.NewAt(typ.Elem(), target).Elem()",
      "                if t.IsNil()",
      "                  t.Set(reflect.MakeSlice(t.Type(), 0, s.Len()))",
      "                t.Set(reflect.AppendSlice(t, reflect.ValueOf(s.Bytes()).Convert(t.Type())))",
      "                return nil",
      "              return errors.WithStack(encoding2.ErrUnsupportedType)",
      "          else",
      "            if typ.Elem().Kind() == reflect.Array && typ.Elem().Elem().Kind() == reflect.Uint8",
      "              return encoding2.DecodeFunc(func#5), nil",
      "              func#5(source Value, target unsafe.Pointer) error",
      "                if s, ok := source.(Binary); ok",
      "                  t := reflect.NewAt(typ.Elem(), target).Elem()",
      "                  reflect.Copy(t, reflect.ValueOf(s.Bytes()).Convert(t.Type()))",
      "                  return nil",
      "                return errors.WithStack(encoding2.ErrUnsupportedType)",
      "            else",
      "              if typ.Elem().Kind() == reflect.String",
      "                return encoding2.DecodeFunc(func#6), nil",
      "                func#6(source Value, target unsafe.Pointer) error",
      "                  if s, ok := source.(Binary); ok",
      "                    *(*string)(target) = s.String()",
      "                    return nil",
      "                  return errors.WithStack(encoding2.ErrUnsupportedType)",
      "              else",
      "                if typ.Elem() == types[KindUnknown]",
      "                  return encoding2.DecodeFunc(func#7), nil",
      "                  func#7(source Value, target unsafe.Pointer) error",
      "                    if s, ok := source.(Binary); ok",
      "                      *(*any)(target) = s.Interface()",
      "                      return nil",
      "                    return errors.WithStack(encoding2.ErrUnsupportedType)",
      "  return nil, errors.WithStack(encoding2.ErrUnsupportedType)"
    ] ∧
    Uniflow.Generated.CodecFuncs.names_types_binary = ["Binary.MarshalText", "Binary.UnmarshalText", "Binary.MarshalBinary", "Binary.UnmarshalBinary", "fn.newBinaryEncoder", "fn.newBinaryDecoder"] := by
  decide

set_option maxRecDepth 16384 in
/-- pkg/types/boolean.go as modelled: its declarations (in source order) and the outline of each -/
theorem C16.src_types_boolean_as_modelled :
    Uniflow.Generated.CodecFuncs.o_types_boolean_Boolean_MarshalJSON = [
      "return json.Marshal(b.value)"
    ] ∧
    Uniflow.Generated.CodecFuncs.o_types_boolean_Boolean_UnmarshalJSON = [
      "if err := json.Unmarshal(bytes, &b.value); err != nil",
      "  return errors.Wrap(encoding.ErrUnsupportedValue, err.Error())",
      "return nil"
    ] ∧
    Uniflow.Generated.CodecFuncs.o_types_boolean_fn_newBooleanEncoder = [
      "return encoding.EncodeCompilerFunc[any, Value](func#1)",
      "func#1(typ reflect.Type) (encoding.Encoder[any, Value], error)",
      "  if typ != nil && typ.Kind() == reflect.Bool",
      "    return encoding.EncodeFunc(func#2), nil",
      "    func#2(source any) (Value, error)",
      "      if s, ok := source.(bool); ok",
      "        return NewBoolean(s), nil",
      "      else",
      "        return NewBoolean(reflect.ValueOf(source).Bool()), nil",
      "  return nil, errors.WithStack(encoding.ErrUnsupportedType)"
    ] ∧
    Uniflow.Generated.CodecFuncs.o_types_boolean_fn_newBooleanDecoder = [
      "return encoding.DecodeCompilerFunc[Value](func#1)",
      "func#1(typ reflect.Type) (encoding.Decoder[Value, unsafe.Pointer], error)",
      "  if typ != nil && typ.Kind() == reflect.Pointer",
      "    if typ.Elem().Kind() == reflect.Bool",
      "      return encoding.DecodeFunc(func#2), nil",
      "      func#2(source Value, target unsafe.Pointer) error",
      "        if s, ok := source.(Boolean); ok",
      "          *(*bool)(target) = s.Bool()",
      "          return nil",
      "        return errors.WithStack(encoding.ErrUnsupportedType)",
      "    else",
      "      if typ.Elem().Kind() == reflect.String",
      "        return encoding.DecodeFunc(func#3), nil",
      "        func#3(source Value, target unsafe.Pointer) error",
      "          if s, ok := source.(Boolean); ok",
      "            *(*string)(target) = fmt.Sprint(s.Interface())",
      "            return nil",
      "          return errors.WithStack(encoding.ErrUnsupportedType)",
      "      else",
      "        if typ.Elem() == types[KindUnknown]",
      "          return encoding.DecodeFunc(func#4), nil",
      "          func#4(source Value, target unsafe.Pointer) error",
      "            if s, ok := source.(Boolean); ok",
      "              *(*any)(target) = s.Interface()",
      "              return nil",
      "            return errors.WithStack(encoding.ErrUnsupportedType)",
      "  return nil, errors.WithStack(encoding.ErrUnsupportedType)"
    ] ∧
    Uniflow.Generated.CodecFuncs.names_types_boolean = ["Boolean.MarshalJSON", "Boolean.UnmarshalJSON", "fn.newBooleanEncoder", "fn.newBooleanDecoder"] := by
  decide

set_option maxRecDepth 16384 in
/-- pkg/encoding/decoder.go as modelled: its declarations (in source order) and the outline of each -/
theorem C16.src_encoding_decoder_as_modelled :
    Uniflow.Generated.CodecFuncs.o_encoding_decoder_fn_DecodeFunc = [
      "return &decoder[S, T]{decode: decode}"
    ] ∧
    Uniflow.Generated.CodecFuncs.o_encoding_decoder_fn_Decode = [
      "return d.decode(source, target)"
    ] ∧
    Uniflow.Generated.CodecFuncs.names_encoding_decoder = ["fn.DecodeFunc", "fn.Decode"] := by
  decide

