/-
C08 – regenerated tie over Generated/C08LayerFuncs.lean (extract/funcs.go): for every source file the models of this
property were transcribed from, the outline of EVERY function of that file – regenerated from /repo on every run –
equals the transcript frozen here (bin/freeze_outlines.py, repo 68af5b4, 2026-10-01). A theorem that stops checking
names the file whose code is no longer the code that was modelled; bin/check then searches for a failing input.
-/
import Uniflow.Generated.C08LayerFuncs

set_option maxRecDepth 16384 in
/-- pkg/symbol/cluster.go as modelled: its declarations (in source order) and the outline of each -/
theorem C08.src_symbol_cluster_as_modelled :
    Uniflow.Generated.C08LayerFuncs.o_symbol_cluster_fn_NewCluster = [
      "return &Cluster{ symbols: symbols, table: NewTable(), inPorts: make(map[string]*port.InPort), outPorts: make(map[string]*port.OutPort), _inPorts: make(map[string]*port.InPort), _outPorts: make(map[string]*port.OutPort), }"
    ] ∧
    Uniflow.Generated.C08LayerFuncs.o_symbol_cluster_Cluster_Inbound = [
      "n.mu.Lock()",
      "defer n.mu.Unlock()",
      "var sb *Symbol",
      "for _, s := range n.symbols",
      "  if (target.ID == s.ID()) || (target.Name != \"\" && target.Name == s.Name())",
      "    sb = s",
      "    break",
      "if sb == nil",
      "  return false",
      "prt := sb.In(target.Port)",
      "if prt == nil",
      "  return false",
      "outPort, ok := n.outPorts[source]",
      "if !ok",
      "  var inPort *port.InPort",
      "  inPort, outPort = port.Pipe()",
      "  n.inPorts[source] = inPort",
      "  n._outPorts[source] = outPort",
      "outPort.Link(prt)",
      "return true"
    ] ∧
    Uniflow.Generated.C08LayerFuncs.o_symbol_cluster_Cluster_Outbound = [
      "n.mu.Lock()",
      "defer n.mu.Unlock()",
      "var sb *Symbol",
      "for _, s := range n.symbols",
      "  if (target.ID == s.ID()) || (target.Name != \"\" && target.Name == s.Name())",
      "    sb = s",
      "    break",
      "if sb == nil",
      "  return false",
      "prt := sb.Out(target.Port)",
      "if prt == nil",
      "  return false",
      "inPort, ok := n._inPorts[source]",
      "if !ok",
      "  var outPort *port.OutPort",
      "  inPort, outPort = port.Pipe()",
      "  n._inPorts[source] = inPort",
      "  n.outPorts[source] = outPort",
      "prt.Link(inPort)",
      "return true"
    ] ∧
    Uniflow.Generated.C08LayerFuncs.o_symbol_cluster_Cluster_Load = [
      "n.mu.Lock()",
      "defer n.mu.Unlock()",
      "n.table.AddLoadHook(hook)",
      "defer n.table.RemoveLoadHook(hook)",
      "for _, sb := range n.symbols",
      "  if n.table.Lookup(sb.ID()) != nil",
      "    continue",
      "  sb := &Symbol{ Spec: sb.Spec, Node: node.NoCloser(sb.Node), }",
      "  if err := n.table.Insert(sb); err != nil",
      "    return err",
      "return nil"
    ] ∧
    Uniflow.Generated.C08LayerFuncs.o_symbol_cluster_Cluster_Unload = [
      "n.mu.Lock()",
      "defer n.mu.Unlock()",
      "n.table.AddUnloadHook(hook)",
      "defer n.table.RemoveUnloadHook(hook)",
      "return n.table.Close()"
    ] ∧
    Uniflow.Generated.C08LayerFuncs.o_symbol_cluster_Cluster_In = [
      "n.mu.RLock()",
      "defer n.mu.RUnlock()",
      "return n.inPorts[name]"
    ] ∧
    Uniflow.Generated.C08LayerFuncs.o_symbol_cluster_Cluster_Out = [
      "n.mu.RLock()",
      "defer n.mu.RUnlock()",
      "return n.outPorts[name]"
    ] ∧
    Uniflow.Generated.C08LayerFuncs.o_symbol_cluster_Cluster_Close = [
      "n.mu.RLock()",
      "defer n.mu.RUnlock()",
      "if err := n.table.Close(); err != nil",
      "  return err",
      "for _, sb := range n.symbols",
      "  if err := sb.Close(); err != nil",
      "    return err",
      "for _, inPort := range n.inPorts",
      "  inPort.Close()",
      "for _, inPort := range n._inPorts",
      "  inPort.Close()",
      "for _, outPort := range n.outPorts",
      "  outPort.Close()",
      "for _, outPort := range n._outPorts",
      "  outPort.Close()",
      "return nil"
    ] ∧
    Uniflow.Generated.C08LayerFuncs.names_symbol_cluster = ["fn.NewCluster", "Cluster.Inbound", "Cluster.Outbound", "Cluster.Load", "Cluster.Unload", "Cluster.In", "Cluster.Out", "Cluster.Close"] := by
  decide

set_option maxRecDepth 16384 in
/-- pkg/node/proxy.go as modelled: its declarations (in source order) and the outline of each -/
theorem C08.src_node_proxy_as_modelled :
    Uniflow.Generated.C08LayerFuncs.o_node_proxy_fn_Unwrap = [
      "proxy, ok := n.(Proxy)",
      "if !ok",
      "  return nil",
      "return proxy.Unwrap()"
    ] ∧
    Uniflow.Generated.C08LayerFuncs.o_node_proxy_fn_As = [
      "for source != nil",
      "  if s, ok := source.(T); ok",
      "    *target = s",
      "    return true",
      "  source = Unwrap(source)",
      "return false"
    ] ∧
    Uniflow.Generated.C08LayerFuncs.o_node_proxy_fn_NoCloser = [
      "return &noCloseNode{Node: node}"
    ] ∧
    Uniflow.Generated.C08LayerFuncs.o_node_proxy_noCloseNode_Unwrap = [
      "return n.Node"
    ] ∧
    Uniflow.Generated.C08LayerFuncs.o_node_proxy_noCloseNode_Close = [
      "return nil"
    ] ∧
    Uniflow.Generated.C08LayerFuncs.names_node_proxy = ["fn.Unwrap", "fn.As", "fn.NoCloser", "noCloseNode.Unwrap", "noCloseNode.Close"] := by
  decide

