/-
C14 – re-statements of the function-outline ties of the files this property is anchored in and that are filed under another
property (bin/freeze_all.py): a source change there is reported for C14 as well.
-/
import Uniflow.Props.C15TieSrc

theorem C14.src_types_map_as_modelled_1 : type_of% C15.src_types_map_as_modelled_1 := C15.src_types_map_as_modelled_1
theorem C14.src_types_map_as_modelled_2 : type_of% C15.src_types_map_as_modelled_2 := C15.src_types_map_as_modelled_2
theorem C14.src_types_map_as_modelled_3 : type_of% C15.src_types_map_as_modelled_3 := C15.src_types_map_as_modelled_3
theorem C14.src_types_map_as_modelled_4 : type_of% C15.src_types_map_as_modelled_4 := C15.src_types_map_as_modelled_4
