/-
C17 – decoding does not change its source.

"Decoding a given value into a given Go type always produces the same result … regardless of what was decoded
earlier" presupposes that a decode leaves the value it decodes as it was: otherwise the *same* source object
holds another value at the second decode. On the tree before commit "fix: decoding never modifies its source
map" this failed for mutable maps: the struct decoder worked on `s.Mutable()` – for a mutable source the caller's
own object – and deleted every key it consumed; the decoder of a Go-map target ended with `Clear()` on its source.
(Witness: corpus/C17/01-decode-destroys-mutable-source.ops; found by the harness oracle classes
`decode-mutates-source` / `second-decode-differs`, harness/c17/mutsrc.go.)

Two statements, one per model:

* In the codec model (`Uniflow.Codec`, C16) documents are values: `decode : GoType → Val → Res GoVal` is a function
  of the document, the struct decoder's working copy (`phase1` / `phase2` thread a `PList` that shrinks) never
  escapes, so the source is unchanged by construction and a second decode is the first – there is nothing to
  prove. That model describes the repaired code.
* In the heap model of uniflow's maps (`Uniflow.MapHeap`, C15 – Go maps, bucket arrays and mutableMap objects with
  addresses, where aliasing bugs *can* be expressed) the repaired struct decoder takes `source.Immutable().Mutable()`
  as its working copy. `C17.working_copy_leaves_source`: whatever the source is (a mutable or an immutable map), any
  program of Set / Delete / Clear / Mutable / Immutable on the working copy and on everything derived from it – which
  is all the field decoders, inline struct decoders and inline map decoders do – leaves the Go map the source holds
  reading exactly what it read before. `C17.pinned_working_copy_is_source` shows what went wrong before: for a
  mutable source `Mutable()` *is* the source.
-/
import Uniflow.Proofs.MapHeapStore

open Uniflow.MapHeap Uniflow.Value

/-- `source.Immutable()` reads the Go map the source holds, for either kind of map, and allocates nothing. -/
theorem C17.immutable_view (hp : Heap) (h : Handle) (a : Nat) (ha : hp.addrOf h = some a) :
    ∃ same, hp.immutable h = .ok hp (match h with | .imm t => .imm t | .mut _ => .imm a) same := by
  cases h
  · exact ⟨true, by simp [Heap.immutable, ha]⟩
  · exact ⟨false, by simp [Heap.immutable, ha]⟩

/-- **The working copy of the repaired struct decoder never writes the source.** Let `a` be the Go map the
source holds and `T` what it reads. Make the working copy `w := (source.Immutable()).Mutable()` and run any program
on `w` and on every map derived from it: the source's Go map still reads `T`. -/
theorem C17.working_copy_leaves_source (hp : Heap) (a : Nat) (T : Table) (hc : hp.content (.imm a) = some T)
    (hp1 : Heap) (w : Handle) (same : Bool) (hw : hp.mutable (.imm a) = .ok hp1 w same)
    (prog : List (Nat × Op)) :
    (runDerived hp1 [w] prog).1.content (.imm a) = some T := by
  obtain ⟨f, hd⟩ := mutable_frame (Frame.refl hp) (h := .imm a) trivial hw
  exact (runDerived_frame prog hp1 [w] f (by
    intro h hh; simp only [List.mem_singleton] at hh; subst hh; exact hd)).1.content_imm hc

/-- the working copy is a new mutable map object (created after every object of the heap the source lives in): it
is not the source -/
theorem C17.working_copy_is_fresh (hp : Heap) (a : Nat) (hp1 : Heap) (w : Handle) (same : Bool)
    (hw : hp.mutable (.imm a) = .ok hp1 w same) : same = false ∧ ∃ o, w = .mut o ∧ hp.objs.length ≤ o := by
  have hd := (mutable_frame (Frame.refl hp) (h := .imm a) trivial hw).2
  cases ht : hp.tableOf (.imm a) with
  | none => simp [Heap.mutable, ht] at hw
  | some t =>
    simp only [Heap.mutable, ht] at hw
    cases hw
    exact ⟨rfl, _, rfl, hd⟩

/-- what the tree did before the repair: `source.Mutable()` of a mutable source is the source itself, so the
field decoders' `Delete` and the inline map's `Clear` were applied to the caller's map -/
theorem C17.pinned_working_copy_is_source (hp : Heap) (o : Nat) (t : ATable) (ht : hp.tableOf (.mut o) = some t) :
    hp.mutable (.mut o) = .ok hp (.mut o) true := by
  simp [Heap.mutable, ht]
