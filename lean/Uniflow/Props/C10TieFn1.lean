/-
C10 – regenerated tie over Generated/StoreFuncs.lean (extract/funcs.go): the outline of EVERY function of the source
files named below – regenerated from /repo on every run – equals the transcript frozen here (bin/freeze_all.py, repo 7f54b88,
2026-10-01). A theorem that stops checking names the file whose code is no longer the code that was modelled; bin/check then
searches for a failing input.
-/
import Uniflow.Generated.StoreFuncs

set_option maxRecDepth 16384 in
/-- pkg/store/store.go as modelled (part 1 of 3): its declarations (in source order) and the outline of each -/
theorem C10.src_store_store_as_modelled_1 :
    Uniflow.Generated.StoreFuncs.o_store_store_fn_New = [
      "return &store{segment: newSegment()}"
    ] ∧
    Uniflow.Generated.StoreFuncs.o_store_store_store_Watch = [
      "s.mu.Lock()",
      "defer s.mu.Unlock()",
      "var f types.Map",
      "if filter != nil",
      "  var err error",
      "  if f, err = types.Cast[types.Map](types.Marshal(filter)); err != nil",
      "    return nil, err",
      "  if err := validate(f); err != nil",
      "    return nil, err",
      "strm := newStream(f)",
      "s.streams = append(s.streams, strm)",
      "if ctx.Done() != nil",
      "  go func#1()",
      "  func#1()",
      "    select",
      "      case <-ctx.Done()",
      "        _ = strm.Close(ctx)",
      "      case <-strm.Done()",
      "go func#2()",
      "func#2()",
      "  <-strm.Done()",
      "  s.mu.Lock()",
      "  defer s.mu.Unlock()",
      "  for i := 0; i < len(s.streams); i++",
      "    if s.streams[i] == strm",
      "      s.streams = append(s.streams[:i], s.streams[i+1:]...)",
      "      break",
      "return strm, nil"
    ] ∧
    Uniflow.Generated.StoreFuncs.o_store_store_store_Index = [
      "s.mu.Lock()",
      "defer s.mu.Unlock()",
      "var unique bool",
      "var filter func(types.Map) bool",
      "var implied func(types.Map) bool",
      "for _, opt := range opts",
      "  if opt.Unique",
      "    unique = true",
      "  if opt.Filter != nil",
      "    val, err := types.Cast[types.Map](types.Marshal(opt.Filter))",
      "    if err != nil",
      "      return err",
      "    filter = func#1",
      "    func#1(doc types.Map) bool",
      "      ok, err := match(doc, val)",
      "      if err != nil",
      "        return false",
      "      return ok",
      "    names, ok := fields(val)",
      "    implied = func#2",
      "    func#2(doc types.Map) bool",
      "      if !ok",
      "        return false",
      "      for _, key := range names",
      "        if !doc.Has(key)",
      "          return false",
      "      return filter(doc)",
      "idx := &index{Keys: make([]types.String, 0, len(keys)), Unique: unique, Filter: filter, Implied: implied}",
      "for _, k := range keys",
      "  idx.Keys = append(idx.Keys, types.NewString(k))",
      "replaced := s.segment.Indexes()",
      "if err := s.segment.Index(idx); err != nil",
      "  return err",
      "for _, i := range replaced",
      "  if slices.Equal(i.Keys, idx.Keys)",
      "    if err := s.segment.Unindex(i); err != nil",
      "      return err",
      "return nil"
    ] ∧
    Uniflow.Generated.StoreFuncs.o_store_store_store_Unindex = [
      "s.mu.Lock()",
      "defer s.mu.Unlock()",
      "idx := &index{Keys: make([]types.String, 0, len(keys))}",
      "for _, k := range keys",
      "  idx.Keys = append(idx.Keys, types.NewString(k))",
      "for _, i := range s.segment.Indexes()",
      "  if slices.Equal(i.Keys, idx.Keys)",
      "    if err := s.segment.Unindex(i); err != nil",
      "      return err",
      "return nil"
    ] ∧
    Uniflow.Generated.StoreFuncs.o_store_store_store_Insert = [
      "s.mu.Lock()",
      "defer s.mu.Unlock()",
      "for _, doc := range docs",
      "  val, err := types.Cast[types.Map](types.Marshal(doc))",
      "  if err != nil",
      "    return err",
      "  if err := s.segment.Store(val); err != nil",
      "    return err",
      "  if err := s.emit(types.NewString(\"insert\"), val); err != nil",
      "    return err",
      "return nil"
    ] := by
  decide

set_option maxRecDepth 16384 in
/-- pkg/store/helper.go as modelled (part 2 of 3): its declarations (in source order) and the outline of each -/
theorem C10.src_store_helper_as_modelled_2 :
    Uniflow.Generated.StoreFuncs.o_store_helper_fn_patch = [
      "doc = doc.Immutable().Mutable()",
      "for k, value := range update.Range()",
      "  key, ok := k.(types.String)",
      "  if !ok",
      "    return nil, errors.WithMessagef(ErrUnsupportedType, \"key: %v\", types.InterfaceOf(k))",
      "  switch key.String()",
      "    case \"$set\"",
      "      val, ok := value.(types.Map)",
      "      if !ok",
      "        return nil, errors.WithMessagef(ErrUnsupportedType, \"value: %v\", types.InterfaceOf(value))",
      "      for k, v := range val.Range()",
      "        doc.Set(k, v)",
      "    case \"$unset\"",
      "      val, ok := value.(types.Map)",
      "      if !ok",
      "        return nil, errors.WithMessagef(ErrUnsupportedType, \"value: %v\", types.InterfaceOf(value))",
      "      for k := range val.Range()",
      "        doc.Delete(k)",
      "    default",
      "      return nil, errors.WithMessagef(ErrUnsupportedOperation, \"operation: %v\", key.String())",
      "return doc.Immutable(), nil"
    ] ∧
    Uniflow.Generated.StoreFuncs.o_store_helper_fn_pinned = [
      "doc := types.NewMap().Mutable()",
      "f, ok := filter.(types.Map)",
      "if !ok",
      "  return doc.Immutable()",
      "for k, value := range f.Range()",
      "  key, ok := k.(types.String)",
      "  if !ok",
      "    continue",
      "  if !strings.HasPrefix(key.String(), \"$\")",
      "    if cond, ok := value.(types.Map); ok",
      "      value = cond.Get(types.NewString(\"$eq\"))",
      "    if value != nil",
      "      doc.Set(key, value)",
      "    continue",
      "  if vals, ok := value.(types.Slice); ok && key.String() == \"$and\"",
      "    for _, sub := range vals.Range()",
      "      for k, v := range pinned(sub).Range()",
      "        doc.Set(k, v)",
      "return doc.Immutable()"
    ] ∧
    Uniflow.Generated.StoreFuncs.o_store_helper_fn_fields = [
      "f, ok := filter.(types.Map)",
      "if !ok",
      "  return nil, false",
      "var keys []types.String",
      "for k, value := range f.Range()",
      "  key, ok := k.(types.String)",
      "  if !ok",
      "    return nil, false",
      "  if !strings.HasPrefix(key.String(), \"$\")",
      "    keys = append(keys, key)",
      "    continue",
      "  vals, ok := value.(types.Slice)",
      "  if !ok || (key.String() != \"$and\" && key.String() != \"$or\")",
      "    return nil, false",
      "  for _, sub := range vals.Range()",
      "    children, ok := fields(sub)",
      "    if !ok",
      "      return nil, false",
      "    keys = append(keys, children...)",
      "return keys, true"
    ] := by
  decide

set_option maxRecDepth 16384 in
/-- pkg/store/store.go as modelled (part 2 of 3): its declarations (in source order) and the outline of each -/
theorem C10.src_store_store_as_modelled_2 :
    Uniflow.Generated.StoreFuncs.o_store_store_store_Update = [
      "s.mu.Lock()",
      "defer s.mu.Unlock()",
      "var upsert bool",
      "for _, opt := range opts",
      "  if opt.Upsert",
      "    upsert = opt.Upsert",
      "var f types.Map",
      "if filter != nil",
      "  var err error",
      "  if f, err = types.Cast[types.Map](types.Marshal(filter)); err != nil",
      "    return 0, err",
      "u, err := types.Cast[types.Map](types.Marshal(update))",
      "if err != nil",
      "  return 0, err",
      "docs, err := s.find(f)",
      "if err != nil",
      "  return 0, err",
      "if _, err := patch(types.NewMap(), u); err != nil",
      "  return 0, err",
      "if upsert && len(docs) == 0",
      "  doc, err := types.Cast[types.Map](extract(f))",
      "  if err != nil",
      "    return 0, err",
      "  doc, err = patch(doc, u)",
      "  if err != nil",
      "    return 0, err",
      "  if err := s.segment.Store(doc); err != nil",
      "    return 0, err",
      "  if err := s.emit(types.NewString(\"insert\"), doc); err != nil",
      "    return 0, err",
      "  return 1, nil",
      "for i := 0; i < len(docs); i++",
      "  doc, err := patch(docs[i], u)",
      "  if err != nil",
      "    return 0, err",
      "  docs[i] = doc",
      "for _, doc := range docs",
      "  if err := s.segment.Swap(doc); err != nil",
      "    return 0, err",
      "  if err := s.emit(types.NewString(\"update\"), doc); err != nil",
      "    return 0, err",
      "return len(docs), nil"
    ] ∧
    Uniflow.Generated.StoreFuncs.o_store_store_store_Delete = [
      "s.mu.Lock()",
      "defer s.mu.Unlock()",
      "var f types.Map",
      "if filter != nil",
      "  var err error",
      "  if f, err = types.Cast[types.Map](types.Marshal(filter)); err != nil",
      "    return 0, err",
      "docs, err := s.find(f)",
      "if err != nil",
      "  return 0, err",
      "for _, doc := range docs",
      "  if err := s.segment.Delete(doc.Get(types.NewString(\"id\"))); err != nil",
      "    return 0, err",
      "  if err := s.emit(types.NewString(\"delete\"), doc); err != nil",
      "    return 0, err",
      "return len(docs), nil"
    ] := by
  decide

